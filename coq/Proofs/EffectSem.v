(* EffectSem.v -- a small interleaving semantics of threads over a shared heap, and the
   schedule-quantified theorem

     "threads whose write footprints are disjoint from the other threads' access footprints
      behave, under EVERY interleaving, exactly as when run alone".

   This file is self-contained (Coq standard library only) and everything in it is computable,
   so small systems can be run with vm_compute.  It is the logic half of the concurrency-safety
   argument for the Go library: the other half (the footprints of the real code are disjoint:
   shared parsers, profiles, tables and base URLs are only read, every call writes only objects
   it allocated itself) is checked elsewhere.

   Heaps are functions loc -> val.  Equality of heaps is never needed: every statement about heaps is
   pointwise.                                                                                   *)

From Coq Require Import List Arith Bool Lia.
Import ListNotations.


(* ------------------------------------------------------------------------------------------ *)
(** * Heaps, instructions, threads                                                             *)
(* ------------------------------------------------------------------------------------------ *)

Definition loc := nat.
Definition val := nat.
Definition heap := loc -> val.

Definition upd (h : heap) (l : loc) (v : val) : heap :=
  fun l' => if Nat.eqb l' l then v else h l'.

(* A thread is a straight-line list of atomic instructions.  Its private state is the list of
   values it has read so far ("locals"); IRead l appends the current heap value of l to the
   locals, IWrite l f stores (f locals) at l.  The RESULT of a thread is its final locals:
   everything it ever observed.                                                               *)
Inductive instr : Type :=
| IRead  (l : loc)
| IWrite (l : loc) (f : list val -> val).

Definition thread := list instr.

Definition exec (ins : instr) (s : list val * heap) : list val * heap :=
  match ins with
  | IRead l    => (fst s ++ [snd s l], snd s)
  | IWrite l f => (fst s, upd (snd s) l (f (fst s)))
  end.

Definition run (t : thread) (s : list val * heap) : list val * heap :=
  fold_left (fun s ins => exec ins s) t s.

(* Thread t run alone from heap h: (final locals, final heap). *)
Definition solo (t : thread) (h : heap) : list val * heap := run t ([], h).

(* Footprints. *)
Definition reads_i (ins : instr) : list loc :=
  match ins with IRead l => [l] | IWrite _ _ => [] end.
Definition writes_i (ins : instr) : list loc :=
  match ins with IRead _ => [] | IWrite l _ => [l] end.

Definition reads    (t : thread) : list loc := flat_map reads_i t.
Definition writes   (t : thread) : list loc := flat_map writes_i t.
Definition accesses (t : thread) : list loc := reads t ++ writes t.

(* ------------------------------------------------------------------------------------------ *)
(** * Configurations, steps, schedules                                                         *)
(* ------------------------------------------------------------------------------------------ *)

(* per-thread state: locals and remaining instructions *)
Definition tstate := (list val * list instr)%type.

Record config : Type := mkcfg { cheap : heap; cthreads : list tstate }.

Fixpoint set_nth {A : Type} (n : nat) (x : A) (l : list A) {struct l} : list A :=
  match l with
  | [] => []
  | y :: r => match n with
              | 0 => x :: r
              | S n' => y :: set_nth n' x r
              end
  end.

(* Thread i executes its next instruction atomically.  If thread i does not exist or has
   finished, the configuration is unchanged (the schedule entry is skipped).                *)
Definition step_thread (i : nat) (c : config) : config :=
  match nth_error (cthreads c) i with
  | Some (ls, ins :: rest) =>
      let s' := exec ins (ls, cheap c) in
      mkcfg (snd s') (set_nth i (fst s', rest) (cthreads c))
  | _ => c
  end.

Definition schedule := list nat.

Definition run_schedule (sigma : schedule) (c : config) : config :=
  fold_left (fun c i => step_thread i c) sigma c.

Definition init (ts : list thread) (h : heap) : config :=
  mkcfg h (map (fun t => ([], t)) ts).

(* Every thread has run to completion. *)
Definition all_done (c : config) : Prop :=
  forall i ls rest, nth_error (cthreads c) i = Some (ls, rest) -> rest = [].

Definition all_doneb (c : config) : bool :=
  forallb (fun s : tstate => match snd s with [] => true | _ :: _ => false end) (cthreads c).

(* The result of thread i in configuration c: its locals. *)
Definition result (c : config) (i : nat) : option (list val) :=
  option_map fst (nth_error (cthreads c) i).

(* A schedule is COMPLETE for ts from h when running it finishes every thread.  Lemma
   [complete_iff_covers] below characterises this syntactically: sigma mentions every thread
   index at least as often as the thread has instructions.  The complete schedules are thus
   exactly the interleavings of the threads' instruction sequences, possibly padded with
   skipped entries.                                                                         *)
Definition complete (ts : list thread) (h : heap) (sigma : schedule) : Prop :=
  all_done (run_schedule sigma (init ts h)).

Definition covers (ts : list thread) (sigma : schedule) : Prop :=
  forall i t, nth_error ts i = Some t -> length t <= count_occ Nat.eq_dec sigma i.

(* ------------------------------------------------------------------------------------------ *)
(** * Data-race freedom                                                                        *)
(* ------------------------------------------------------------------------------------------ *)

(* No location written by one thread is read or written by another. *)
Definition drf (ts : list thread) : Prop :=
  forall i j ti tj, i <> j ->
    nth_error ts i = Some ti -> nth_error ts j = Some tj ->
    forall l, In l (writes ti) -> ~ In l (accesses tj).

(* A boolean checker for drf (sound and complete). *)
Definition memb (l : loc) (ls : list loc) : bool := existsb (Nat.eqb l) ls.
Definition disjb (ws acs : list loc) : bool := forallb (fun l => negb (memb l acs)) ws.
Definition drfb (ts : list thread) : bool :=
  let idx := seq 0 (length ts) in
  forallb (fun i =>
    forallb (fun j => Nat.eqb i j || disjb (writes (nth i ts [])) (accesses (nth j ts [])))
            idx) idx.

(* The heap the theorem predicts: at a location written by some thread, what that thread's
   solo run leaves there; elsewhere the initial value.  (Under drf the writer is unique.)   *)
Fixpoint expected_from (h : heap) (ts : list thread) (l : loc) : val :=
  match ts with
  | [] => h l
  | t :: r => if memb l (writes t) then snd (solo t h) l else expected_from h r l
  end.
Definition expected_heap (ts : list thread) (h : heap) : heap := expected_from h ts.

(* ------------------------------------------------------------------------------------------ *)
(** * Basic lemmas                                                                             *)
(* ------------------------------------------------------------------------------------------ *)

Lemma upd_same : forall h l v, upd h l v l = v.
Proof. intros. unfold upd. rewrite Nat.eqb_refl. reflexivity. Qed.

Lemma upd_other : forall h l v l', l' <> l -> upd h l v l' = h l'.
Proof.
  intros h l v l' Hne. unfold upd.
  destruct (Nat.eqb l' l) eqn:E; [apply Nat.eqb_eq in E; contradiction | reflexivity].
Qed.

Lemma run_app : forall t1 t2 s, run (t1 ++ t2) s = run t2 (run t1 s).
Proof. intros. unfold run. apply fold_left_app. Qed.

Lemma run_snoc : forall t ins s, run (t ++ [ins]) s = exec ins (run t s).
Proof. intros. rewrite run_app. reflexivity. Qed.

Lemma set_nth_length : forall (A : Type) (l : list A) n x, length (set_nth n x l) = length l.
Proof.
  induction l as [|y r IH]; intros n x; simpl; [reflexivity|].
  destruct n; simpl; [reflexivity | rewrite IH; reflexivity].
Qed.

Lemma nth_error_set_nth_eq : forall (A : Type) (l : list A) n x,
  n < length l -> nth_error (set_nth n x l) n = Some x.
Proof.
  induction l as [|y r IH]; intros n x Hn; simpl in *; [lia|].
  destruct n; simpl; [reflexivity | apply IH; lia].
Qed.

Lemma nth_error_set_nth_neq : forall (A : Type) (l : list A) n m x,
  n <> m -> nth_error (set_nth n x l) m = nth_error l m.
Proof.
  induction l as [|y r IH]; intros n m x Hne; simpl; [reflexivity|].
  destruct n, m; simpl; try reflexivity; [contradiction | apply IH; lia].
Qed.

Lemma memb_In : forall l ls, memb l ls = true <-> In l ls.
Proof.
  intros l ls. unfold memb. rewrite existsb_exists. split.
  - intros (x & Hin & E). apply Nat.eqb_eq in E. subst. assumption.
  - intros Hin. exists l. split; [assumption | apply Nat.eqb_refl].
Qed.

Lemma memb_not_In : forall l ls, memb l ls = false <-> ~ In l ls.
Proof.
  intros l ls. rewrite <- memb_In. destruct (memb l ls); split; intros; congruence.
Qed.

Lemma reads_app : forall t1 t2, reads (t1 ++ t2) = reads t1 ++ reads t2.
Proof. intros. unfold reads. apply flat_map_app. Qed.

Lemma writes_app : forall t1 t2, writes (t1 ++ t2) = writes t1 ++ writes t2.
Proof. intros. unfold writes. apply flat_map_app. Qed.

Lemma In_reads_mid : forall d l r, In l (reads (d ++ IRead l :: r)).
Proof. intros. rewrite reads_app. apply in_or_app. right. simpl. left. reflexivity. Qed.

Lemma In_writes_mid : forall d l f r, In l (writes (d ++ IWrite l f :: r)).
Proof. intros. rewrite writes_app. apply in_or_app. right. simpl. left. reflexivity. Qed.

Lemma In_reads_accesses : forall t l, In l (reads t) -> In l (accesses t).
Proof. intros. unfold accesses. apply in_or_app. left. assumption. Qed.

Lemma In_writes_accesses : forall t l, In l (writes t) -> In l (accesses t).
Proof. intros. unfold accesses. apply in_or_app. right. assumption. Qed.

Lemma all_doneb_spec : forall c, all_doneb c = true <-> all_done c.
Proof.
  intros c. unfold all_doneb, all_done. rewrite forallb_forall. split.
  - intros H i ls rest Hn. apply nth_error_In in Hn. apply H in Hn. simpl in Hn.
    destruct rest; [reflexivity | discriminate].
  - intros H [ls rest] Hin. apply In_nth_error in Hin. destruct Hin as (i & Hi).
    apply H in Hi. subst. reflexivity.
Qed.

Lemma run_schedule_app : forall s1 s2 c,
  run_schedule (s1 ++ s2) c = run_schedule s2 (run_schedule s1 c).
Proof. intros. unfold run_schedule. apply fold_left_app. Qed.

Lemma nth_error_init : forall ts h i,
  nth_error (cthreads (init ts h)) i = option_map (fun t => ([], t)) (nth_error ts i).
Proof. intros. unfold init. simpl. apply nth_error_map. Qed.

(* ------------------------------------------------------------------------------------------ *)
(** * The invariant                                                                            *)
(* ------------------------------------------------------------------------------------------ *)

(* In configuration c reached from (init ts h):
   - every thread i is exactly where its solo run is after the same number of its own steps
     (prefix dn executed, suffix rest remaining, same locals), and the shared heap agrees with
     the heap of that partial solo run on every location thread i accesses;
   - locations that no thread writes still hold their initial value.
   The invariant holds after ANY schedule, complete or not.                                   *)
Definition inv (ts : list thread) (h : heap) (c : config) : Prop :=
  length (cthreads c) = length ts /\
  (forall i t, nth_error ts i = Some t ->
     exists dn rest,
       t = dn ++ rest /\
       nth_error (cthreads c) i = Some (fst (run dn ([], h)), rest) /\
       (forall l, In l (accesses t) -> cheap c l = snd (run dn ([], h)) l)) /\
  (forall l, (forall i t, nth_error ts i = Some t -> ~ In l (writes t)) -> cheap c l = h l).

Lemma inv_init : forall ts h, inv ts h (init ts h).
Proof.
  intros ts h. unfold inv. split; [|split].
  - unfold init. simpl. apply map_length.
  - intros i t Hi. exists [], t. split; [reflexivity|]. split.
    + rewrite nth_error_init, Hi. reflexivity.
    + intros l _. reflexivity.
  - intros l _. reflexivity.
Qed.

Lemma inv_step : forall ts h, drf ts ->
  forall c j, inv ts h c -> inv ts h (step_thread j c).
Proof.
  intros ts h Hdrf c j Hinv.
  pose proof Hinv as (Hlen & Hthr & Hunw).
  unfold step_thread.
  destruct (nth_error (cthreads c) j) as [[ls [|ins rest]]|] eqn:Ej; try exact Hinv.
  assert (Hjc : j < length (cthreads c)) by (apply nth_error_Some; congruence).
  assert (Hj : j < length ts) by lia.
  destruct (nth_error ts j) as [tj|] eqn:Etj; [| apply nth_error_None in Etj; lia].
  destruct (Hthr j tj Etj) as (dn & rs & Hsplit & Hst & Hheap).
  rewrite Ej in Hst. injection Hst as Hls Hrs. subst ls rs.
  set (s0 := run dn ([], h)) in *.
  assert (Hsplit' : tj = (dn ++ [ins]) ++ rest)
    by (rewrite <- app_assoc; exact Hsplit).
  destruct ins as [l | l f]; unfold inv; cbn [cthreads cheap exec fst snd].
  - (* IRead l : the heap is unchanged; the value read is the solo value *)
    assert (Hl : In l (accesses tj))
      by (rewrite Hsplit; apply In_reads_accesses, In_reads_mid).
    split; [|split].
    + rewrite set_nth_length. exact Hlen.
    + intros i t Hi. destruct (Nat.eq_dec i j) as [->|Hne].
      * rewrite Etj in Hi. injection Hi as <-.
        exists (dn ++ [IRead l]), rest. split; [exact Hsplit'|].
        rewrite run_snoc. fold s0. simpl. split.
        -- rewrite nth_error_set_nth_eq by exact Hjc. rewrite (Hheap l Hl). reflexivity.
        -- exact Hheap.
      * destruct (Hthr i t Hi) as (dn' & rs' & Hs' & Hst' & Hh').
        exists dn', rs'. split; [exact Hs'|]. split; [|exact Hh'].
        rewrite nth_error_set_nth_neq by auto. exact Hst'.
    + exact Hunw.
  - (* IWrite l f : only l changes, and l is accessed by no other thread *)
    assert (Hl : In l (writes tj)) by (rewrite Hsplit; apply In_writes_mid).
    split; [|split].
    + rewrite set_nth_length. exact Hlen.
    + intros i t Hi. destruct (Nat.eq_dec i j) as [->|Hne].
      * rewrite Etj in Hi. injection Hi as <-.
        exists (dn ++ [IWrite l f]), rest. split; [exact Hsplit'|].
        rewrite run_snoc. fold s0. simpl. split.
        -- rewrite nth_error_set_nth_eq by exact Hjc. reflexivity.
        -- intros l' Hl'. unfold upd. destruct (Nat.eqb l' l); [reflexivity|].
           apply Hheap. exact Hl'.
      * destruct (Hthr i t Hi) as (dn' & rs' & Hs' & Hst' & Hh').
        exists dn', rs'. split; [exact Hs'|]. split.
        -- rewrite nth_error_set_nth_neq by auto. exact Hst'.
        -- intros l' Hl'. rewrite upd_other; [apply Hh'; exact Hl'|].
           intros ->. exact (Hdrf j i tj t (not_eq_sym Hne) Etj Hi l Hl Hl').
    + intros l' Hnw. rewrite upd_other; [apply Hunw; exact Hnw|].
      intros ->. exact (Hnw j tj Etj Hl).
Qed.

(* The invariant holds after every schedule (complete or not). *)
Lemma inv_run_schedule : forall ts h, drf ts ->
  forall sigma c, inv ts h c -> inv ts h (run_schedule sigma c).
Proof.
  intros ts h Hdrf sigma. induction sigma as [|j sigma IH]; intros c Hinv; simpl.
  - exact Hinv.
  - apply IH. apply inv_step; assumption.
Qed.

Theorem drf_prefix_invariant : forall ts h, drf ts ->
  forall sigma, inv ts h (run_schedule sigma (init ts h)).
Proof. intros. apply inv_run_schedule; [assumption | apply inv_init]. Qed.

(* ------------------------------------------------------------------------------------------ *)
(** * Theorem 1                                                                                *)
(* ------------------------------------------------------------------------------------------ *)

Theorem drf_deterministic :
  forall (ts : list thread) (h : heap),
    drf ts ->
    forall sigma : schedule,
      complete ts h sigma ->
      let c := run_schedule sigma (init ts h) in
      (* every thread ends with exactly the locals of its solo run, and has finished *)
      (forall i t, nth_error ts i = Some t ->
                   nth_error (cthreads c) i = Some (fst (solo t h), [])) /\
      (* a location written by thread i holds what the solo run of thread i leaves there *)
      (forall l i t, nth_error ts i = Some t -> In l (writes t) ->
                     cheap c l = snd (solo t h) l) /\
      (* a location written by nobody is unchanged *)
      (forall l, (forall i t, nth_error ts i = Some t -> ~ In l (writes t)) ->
                 cheap c l = h l).
Proof.
  intros ts h Hdrf sigma Hdone c.
  pose proof (drf_prefix_invariant ts h Hdrf sigma) as (Hlen & Hthr & Hunw).
  fold c in Hlen, Hthr, Hunw.
  assert (Hfin : forall i t, nth_error ts i = Some t ->
            nth_error (cthreads c) i = Some (fst (solo t h), []) /\
            (forall l, In l (accesses t) -> cheap c l = snd (solo t h) l)).
  { intros i t Hi. destruct (Hthr i t Hi) as (dn & rs & Hs & Hst & Hh).
    assert (rs = []) by (eapply Hdone; exact Hst). subst rs.
    rewrite app_nil_r in Hs. subst dn. split; [exact Hst | exact Hh]. }
  split; [|split].
  - intros i t Hi. apply (Hfin i t Hi).
  - intros l i t Hi Hl. apply (Hfin i t Hi). apply In_writes_accesses. exact Hl.
  - exact Hunw.
Qed.

Print Assumptions drf_deterministic.

(* The same with the result projection and the computable predicted heap. *)
Lemma expected_from_spec : forall h ts l,
  (exists i t, nth_error ts i = Some t /\ In l (writes t) /\
               expected_from h ts l = snd (solo t h) l) \/
  ((forall i t, nth_error ts i = Some t -> ~ In l (writes t)) /\
   expected_from h ts l = h l).
Proof.
  intros h ts l. induction ts as [|t r IH]; simpl.
  - right. split; [|reflexivity]. intros [|i] t Hi; discriminate.
  - destruct (memb l (writes t)) eqn:E.
    + left. exists 0, t. split; [reflexivity|]. split; [apply memb_In; exact E | reflexivity].
    + destruct IH as [(i & t' & Hi & Hl & He) | (Hno & He)].
      * left. exists (S i), t'. auto.
      * right. split; [|exact He]. intros [|i] t' Hi; simpl in Hi.
        -- injection Hi as <-. apply memb_not_In. exact E.
        -- eapply Hno; exact Hi.
Qed.

Corollary drf_deterministic_results :
  forall ts h, drf ts ->
  forall sigma, complete ts h sigma ->
    (forall i t, nth_error ts i = Some t ->
       result (run_schedule sigma (init ts h)) i = Some (fst (solo t h))) /\
    (forall l, cheap (run_schedule sigma (init ts h)) l = expected_heap ts h l).
Proof.
  intros ts h Hdrf sigma Hc.
  destruct (drf_deterministic ts h Hdrf sigma Hc) as (Hres & Hw & Hu). split.
  - intros i t Hi. unfold result. rewrite (Hres i t Hi). reflexivity.
  - intros l. unfold expected_heap.
    destruct (expected_from_spec h ts l) as [(i & t & Hi & Hl & He) | (Hno & He)]; rewrite He.
    + eapply Hw; eassumption.
    + apply Hu. exact Hno.
Qed.

Print Assumptions drf_deterministic_results.

(* Consequently any two complete schedules are indistinguishable. *)
Corollary drf_schedule_independent :
  forall ts h, drf ts ->
  forall s1 s2, complete ts h s1 -> complete ts h s2 ->
    (forall i, i < length ts ->
       result (run_schedule s1 (init ts h)) i = result (run_schedule s2 (init ts h)) i) /\
    (forall l, cheap (run_schedule s1 (init ts h)) l = cheap (run_schedule s2 (init ts h)) l).
Proof.
  intros ts h Hdrf s1 s2 H1 H2.
  destruct (drf_deterministic_results ts h Hdrf s1 H1) as (R1 & C1).
  destruct (drf_deterministic_results ts h Hdrf s2 H2) as (R2 & C2).
  split.
  - intros i Hi. destruct (nth_error ts i) as [t|] eqn:E; [| apply nth_error_None in E; lia].
    rewrite (R1 i t E), (R2 i t E). reflexivity.
  - intros l. rewrite C1, C2. reflexivity.
Qed.

(* ------------------------------------------------------------------------------------------ *)
(** * Theorem 2: read-only sharing                                                             *)
(* ------------------------------------------------------------------------------------------ *)

Theorem readonly_threads_deterministic :
  forall (shared : loc -> Prop) (ts : list thread) (h : heap),
    (* nobody writes a shared location *)
    (forall i t, nth_error ts i = Some t -> forall l, In l (writes t) -> ~ shared l) ->
    (* whatever two different threads both access is shared *)
    (forall i j ti tj, i <> j -> nth_error ts i = Some ti -> nth_error ts j = Some tj ->
       forall l, In l (accesses ti) -> In l (accesses tj) -> shared l) ->
    forall sigma : schedule,
      complete ts h sigma ->
      (forall i t, nth_error ts i = Some t ->
         result (run_schedule sigma (init ts h)) i = Some (fst (solo t h))) /\
      (forall l, shared l -> cheap (run_schedule sigma (init ts h)) l = h l).
Proof.
  intros shared ts h Hro Hsh sigma Hc.
  assert (Hdrf : drf ts).
  { intros i j ti tj Hne Hi Hj l Hw Ha.
    apply (Hro i ti Hi l Hw).
    apply (Hsh i j ti tj Hne Hi Hj l); [apply In_writes_accesses; exact Hw | exact Ha]. }
  destruct (drf_deterministic ts h Hdrf sigma Hc) as (Hres & _ & Hu). split.
  - intros i t Hi. unfold result. rewrite (Hres i t Hi). reflexivity.
  - intros l Hs. apply Hu. intros i t Hi Hw. exact (Hro i t Hi l Hw Hs).
Qed.

Print Assumptions readonly_threads_deterministic.

(* ------------------------------------------------------------------------------------------ *)
(** * Complete schedules, syntactically                                                        *)
(* ------------------------------------------------------------------------------------------ *)

Definition remaining (c : config) (i : nat) : nat :=
  match nth_error (cthreads c) i with
  | Some (_, r) => length r
  | None => 0
  end.

Lemma remaining_step : forall c j i,
  remaining (step_thread j c) i =
  if Nat.eqb i j then pred (remaining c i) else remaining c i.
Proof.
  intros c j i. unfold step_thread.
  destruct (nth_error (cthreads c) j) as [[ls [|ins rest]]|] eqn:Ej.
  - destruct (Nat.eqb i j) eqn:E; [|reflexivity].
    apply Nat.eqb_eq in E. subst i. unfold remaining. rewrite Ej. reflexivity.
  - assert (Hj : j < length (cthreads c)) by (apply nth_error_Some; congruence).
    unfold remaining at 1. cbn [cthreads].
    destruct (Nat.eqb i j) eqn:E.
    + apply Nat.eqb_eq in E. subst i.
      rewrite nth_error_set_nth_eq by exact Hj.
      unfold remaining. rewrite Ej. reflexivity.
    + apply Nat.eqb_neq in E. rewrite nth_error_set_nth_neq by auto. reflexivity.
  - destruct (Nat.eqb i j) eqn:E; [|reflexivity].
    apply Nat.eqb_eq in E. subst i. unfold remaining. rewrite Ej. reflexivity.
Qed.

Lemma remaining_run : forall sigma c i,
  remaining (run_schedule sigma c) i = remaining c i - count_occ Nat.eq_dec sigma i.
Proof.
  induction sigma as [|j sigma IH]; intros c i; simpl.
  - lia.
  - rewrite IH, remaining_step.
    destruct (Nat.eq_dec j i) as [->|Hne].
    + rewrite Nat.eqb_refl. lia.
    + destruct (Nat.eqb i j) eqn:E; [apply Nat.eqb_eq in E; congruence | reflexivity].
Qed.

Lemma all_done_remaining : forall c, all_done c <-> forall i, remaining c i = 0.
Proof.
  intros c. unfold all_done, remaining. split.
  - intros H i. destruct (nth_error (cthreads c) i) as [[ls r]|] eqn:E; [|reflexivity].
    rewrite (H i ls r E). reflexivity.
  - intros H i ls r E. specialize (H i). rewrite E in H. apply length_zero_iff_nil. exact H.
Qed.

Lemma remaining_init : forall ts h i,
  remaining (init ts h) i = match nth_error ts i with Some t => length t | None => 0 end.
Proof.
  intros. unfold remaining. rewrite nth_error_init.
  destruct (nth_error ts i); reflexivity.
Qed.

(* A schedule is complete iff it mentions each thread at least as often as the thread has
   instructions; in particular completeness does not depend on the heap.                    *)
Theorem complete_iff_covers : forall ts h sigma, complete ts h sigma <-> covers ts sigma.
Proof.
  intros ts h sigma. unfold complete, covers. rewrite all_done_remaining. split.
  - intros H i t Hi. specialize (H i). rewrite remaining_run, remaining_init, Hi in H. lia.
  - intros H i. rewrite remaining_run, remaining_init.
    destruct (nth_error ts i) as [t|] eqn:Hi; [|reflexivity].
    specialize (H i t Hi). lia.
Qed.

(* Complete schedules exist for every system: e.g. the sequential one. *)
Fixpoint sequential_from (k : nat) (ts : list thread) : schedule :=
  match ts with
  | [] => []
  | t :: r => repeat k (length t) ++ sequential_from (S k) r
  end.
Definition sequential (ts : list thread) : schedule := sequential_from 0 ts.

Lemma count_occ_repeat_same : forall k n, count_occ Nat.eq_dec (repeat k n) k = n.
Proof.
  intros k n. induction n as [|n IH]; simpl; [reflexivity|].
  destruct (Nat.eq_dec k k); [rewrite IH; reflexivity | contradiction].
Qed.

Lemma sequential_from_covers : forall ts k i t,
  nth_error ts i = Some t -> length t <= count_occ Nat.eq_dec (sequential_from k ts) (k + i).
Proof.
  induction ts as [|t0 r IH]; intros k i t Hi.
  - destruct i; discriminate.
  - simpl. rewrite count_occ_app. destruct i as [|i]; simpl in Hi.
    + injection Hi as <-. rewrite Nat.add_0_r, count_occ_repeat_same. lia.
    + replace (k + S i) with (S k + i) by lia.
      specialize (IH (S k) i t Hi). lia.
Qed.

Theorem sequential_complete : forall ts h, complete ts h (sequential ts).
Proof.
  intros ts h. apply complete_iff_covers. intros i t Hi.
  apply (sequential_from_covers ts 0 i t Hi).
Qed.

(* ------------------------------------------------------------------------------------------ *)
(** * Soundness of the boolean drf checker                                                     *)
(* ------------------------------------------------------------------------------------------ *)

Lemma disjb_spec : forall ws acs,
  disjb ws acs = true <-> (forall l, In l ws -> ~ In l acs).
Proof.
  intros ws acs. unfold disjb. rewrite forallb_forall. split.
  - intros H l Hl. apply memb_not_In. apply negb_true_iff. apply H. exact Hl.
  - intros H l Hl. apply negb_true_iff. apply memb_not_In. apply H. exact Hl.
Qed.

Lemma drfb_sound : forall ts, drfb ts = true -> drf ts.
Proof.
  intros ts H i j ti tj Hne Hi Hj.
  unfold drfb in H. rewrite forallb_forall in H.
  assert (Hil : i < length ts) by (apply nth_error_Some; congruence).
  assert (Hjl : j < length ts) by (apply nth_error_Some; congruence).
  specialize (H i). rewrite forallb_forall in H.
  assert (Hi' : In i (seq 0 (length ts))) by (apply in_seq; lia).
  assert (Hj' : In j (seq 0 (length ts))) by (apply in_seq; lia).
  specialize (H Hi' j Hj'). apply orb_true_iff in H. destruct H as [H|H].
  - apply Nat.eqb_eq in H. contradiction.
  - rewrite (nth_error_nth ts i [] Hi), (nth_error_nth ts j [] Hj) in H.
    apply disjb_spec. exact H.
Qed.

Lemma drfb_complete : forall ts, drf ts -> drfb ts = true.
Proof.
  intros ts H. unfold drfb. apply forallb_forall. intros i Hi.
  apply forallb_forall. intros j Hj. apply in_seq in Hi. apply in_seq in Hj.
  destruct (Nat.eqb i j) eqn:E; [reflexivity|]. simpl. apply Nat.eqb_neq in E.
  apply disjb_spec.
  apply (H i j _ _ E); apply nth_error_nth'; lia.
Qed.

(* ------------------------------------------------------------------------------------------ *)
(** * Theorem 3: the disjointness premise is needed                                            *)
(* ------------------------------------------------------------------------------------------ *)

(* thread 0 writes location 0, thread 1 reads it *)
Definition race_ts : list thread := [ [IWrite 0 (fun _ => 1)] ; [IRead 0] ].
Definition zero_heap : heap := fun _ => 0.

Eval vm_compute in result (run_schedule [0;1] (init race_ts zero_heap)) 1.
Eval vm_compute in result (run_schedule [1;0] (init race_ts zero_heap)) 1.

Theorem race_can_change_results :
  exists (ts : list thread) (h : heap) (s1 s2 : schedule),
    complete ts h s1 /\ complete ts h s2 /\
    result (run_schedule s1 (init ts h)) 1 = Some [1] /\
    result (run_schedule s2 (init ts h)) 1 = Some [0] /\
    result (run_schedule s1 (init ts h)) 1 <> result (run_schedule s2 (init ts h)) 1 /\
    (* the second schedule does not give thread 1 its solo result either way round:
       solo gives [0], the first schedule gives [1] *)
    option_map (fun t => fst (solo t h)) (nth_error ts 1) = Some [0] /\
    drfb ts = false.
Proof.
  exists race_ts, zero_heap, [0;1], [1;0].
  split; [apply all_doneb_spec; vm_compute; reflexivity|].
  split; [apply all_doneb_spec; vm_compute; reflexivity|].
  split; [vm_compute; reflexivity|].
  split; [vm_compute; reflexivity|].
  split; [vm_compute; discriminate|].
  split; vm_compute; reflexivity.
Qed.

Print Assumptions race_can_change_results.

(* Hence the conclusion of Theorem 1 fails for race_ts: the premise drf cannot be dropped. *)
Corollary drf_premise_needed :
  ~ (forall ts h s1 s2, complete ts h s1 -> complete ts h s2 ->
       forall i, result (run_schedule s1 (init ts h)) i = result (run_schedule s2 (init ts h)) i).
Proof.
  intros H.
  destruct race_can_change_results as (ts & h & s1 & s2 & C1 & C2 & _ & _ & Hne & _).
  apply Hne. apply H; assumption.
Qed.

(* ------------------------------------------------------------------------------------------ *)
(** * Theorem 4: a concrete three-thread system                                                *)
(* ------------------------------------------------------------------------------------------ *)

(* Locations 0 and 1 are shared and only read (think: parser options, a table).  Locations
   10, 20, 30/31 are private to threads 0, 1, 2 respectively (think: objects each call
   allocated for itself).  Written values depend on everything read so far.                 *)
Definition sum (ls : list val) : val := fold_right Nat.add 0 ls.

Definition ex_t0 : thread :=
  [ IRead 0; IWrite 10 sum; IRead 1; IRead 10; IWrite 10 (fun ls => 2 * sum ls); IRead 10 ].
Definition ex_t1 : thread :=
  [ IRead 1; IRead 0; IWrite 20 (fun ls => fold_right Nat.mul 1 ls); IRead 20; IRead 0 ].
Definition ex_t2 : thread :=
  [ IWrite 30 (fun _ => 7); IRead 30; IRead 0; IWrite 31 sum; IRead 31;
    IWrite 30 (fun ls => length ls); IRead 30 ].
Definition ex_ts : list thread := [ex_t0; ex_t1; ex_t2].
Definition ex_heap : heap := fun l => l + 3.

Definition ex_sigma : schedule := [2;0;1;1;0;2;2;0;1;0;2;1;0;2;1;2;0;2].
Definition ex_shared (l : loc) : Prop := l = 0 \/ l = 1.

Eval vm_compute in map (result (run_schedule ex_sigma (init ex_ts ex_heap))) [0;1;2].
Eval vm_compute in map (fun t => fst (solo t ex_heap)) ex_ts.
Eval vm_compute in map (cheap (run_schedule ex_sigma (init ex_ts ex_heap))) [0;1;10;20;30;31;40].

Example ex_drf : drf ex_ts.
Proof. apply drfb_sound. vm_compute. reflexivity. Qed.

Example ex_complete : complete ex_ts ex_heap ex_sigma.
Proof. apply all_doneb_spec. vm_compute. reflexivity. Qed.

(* The premises of Theorem 2 hold for the example. *)
Example ex_readonly_premises :
  (forall i t, nth_error ex_ts i = Some t -> forall l, In l (writes t) -> ~ ex_shared l) /\
  (forall i j ti tj, i <> j -> nth_error ex_ts i = Some ti -> nth_error ex_ts j = Some tj ->
     forall l, In l (accesses ti) -> In l (accesses tj) -> ex_shared l).
Proof.
  split.
  - intros i t Hi l Hl [Hs|Hs]; subst l;
      destruct i as [|[|[|i]]]; simpl in Hi;
      try (destruct i; discriminate);
      injection Hi as <-; vm_compute in Hl; intuition discriminate.
  - intros i j ti tj Hne Hi Hj l Hli Hlj.
    destruct i as [|[|[|i]]]; simpl in Hi; try (destruct i; discriminate);
    destruct j as [|[|[|j]]]; simpl in Hj; try (destruct j; discriminate);
    try (exfalso; apply Hne; reflexivity);
    injection Hi as <-; injection Hj as <-;
    vm_compute in Hli; vm_compute in Hlj; unfold ex_shared;
    intuition (subst; try discriminate; auto).
Qed.

(* Theorem 1 instantiated: this interleaving gives every thread its solo result. *)
Example ex_by_theorem :
  (forall i t, nth_error ex_ts i = Some t ->
     result (run_schedule ex_sigma (init ex_ts ex_heap)) i = Some (fst (solo t ex_heap))) /\
  (forall l, cheap (run_schedule ex_sigma (init ex_ts ex_heap)) l = expected_heap ex_ts ex_heap l).
Proof. exact (drf_deterministic_results ex_ts ex_heap ex_drf ex_sigma ex_complete). Qed.

(* ... and the same checked directly by computation (results and heap on the footprint). *)
Example ex_by_computation :
  map (result (run_schedule ex_sigma (init ex_ts ex_heap))) [0;1;2]
    = map (fun t => Some (fst (solo t ex_heap))) ex_ts
  /\ map (result (run_schedule ex_sigma (init ex_ts ex_heap))) [0;1;2]
    = [ Some [3; 4; 3; 20]; Some [4; 3; 12; 3]; Some [7; 3; 10; 3] ]
  /\ map (cheap (run_schedule ex_sigma (init ex_ts ex_heap))) [0;1;10;20;30;31;40]
    = map (expected_heap ex_ts ex_heap) [0;1;10;20;30;31;40]
  /\ map (cheap (run_schedule ex_sigma (init ex_ts ex_heap))) [0;1;40]
    = map ex_heap [0;1;40].
Proof. repeat split; vm_compute; reflexivity. Qed.

(* The sequential schedule and a differently interleaved one agree, too. *)
Example ex_two_schedules :
  map (result (run_schedule (sequential ex_ts) (init ex_ts ex_heap))) [0;1;2]
  = map (result (run_schedule ex_sigma (init ex_ts ex_heap))) [0;1;2].
Proof. vm_compute. reflexivity. Qed.

Print Assumptions ex_by_theorem.
Print Assumptions complete_iff_covers.
Print Assumptions sequential_complete.
Print Assumptions drfb_sound.

(* ========================================================================================== *)
(** * Part II: data-dependent control flow, dynamic footprints                                 *)
(* ========================================================================================== *)

(* The straight-line threads above have static footprints.  Real calls branch on what they
   read.  Here a thread is a (finite, well-founded) decision tree: after a read, the rest of
   the program is an arbitrary function of the value read, so both the values written and the
   LOCATIONS accessed later may depend on everything read so far.  The footprint is therefore
   dynamic; we define it semantically as the list of locations accessed in the thread's SOLO
   run from the initial heap, and prove the same theorem for this (weaker, heap-dependent)
   disjointness premise.  Everything stays computable.                                       *)

Inductive prog : Type :=
| Done
| Read  (l : loc) (k : val -> prog)
| Write (l : loc) (v : val) (k : prog).

Fixpoint drun (p : prog) (ls : list val) (h : heap) : list val * heap :=
  match p with
  | Done        => (ls, h)
  | Read l k    => drun (k (h l)) (ls ++ [h l]) h
  | Write l v k => drun k ls (upd h l v)
  end.

Definition dsolo (p : prog) (h : heap) : list val * heap := drun p [] h.

(* locations read / written by p when run alone from h *)
Fixpoint dreads (p : prog) (h : heap) : list loc :=
  match p with
  | Done        => []
  | Read l k    => l :: dreads (k (h l)) h
  | Write l v k => dreads k (upd h l v)
  end.
Fixpoint dwrites (p : prog) (h : heap) : list loc :=
  match p with
  | Done        => []
  | Read l k    => dwrites (k (h l)) h
  | Write l v k => l :: dwrites k (upd h l v)
  end.
Definition daccesses (p : prog) (h : heap) : list loc := dreads p h ++ dwrites p h.

Definition dtstate := (list val * prog)%type.
Record dconfig : Type := mkdcfg { dheap : heap; dthreads : list dtstate }.

Definition dstep (i : nat) (c : dconfig) : dconfig :=
  match nth_error (dthreads c) i with
  | Some (ls, Read l k) =>
      mkdcfg (dheap c) (set_nth i (ls ++ [dheap c l], k (dheap c l)) (dthreads c))
  | Some (ls, Write l v k) =>
      mkdcfg (upd (dheap c) l v) (set_nth i (ls, k) (dthreads c))
  | _ => c
  end.

Definition drun_schedule (sigma : schedule) (c : dconfig) : dconfig :=
  fold_left (fun c i => dstep i c) sigma c.

Definition dinit (ps : list prog) (h : heap) : dconfig :=
  mkdcfg h (map (fun p => ([], p)) ps).

Definition dall_done (c : dconfig) : Prop :=
  forall i ls p, nth_error (dthreads c) i = Some (ls, p) -> p = Done.

Definition dall_doneb (c : dconfig) : bool :=
  forallb (fun s : dtstate => match snd s with Done => true | _ => false end) (dthreads c).

Definition dresult (c : dconfig) (i : nat) : option (list val) :=
  option_map fst (nth_error (dthreads c) i).

Definition dcomplete (ps : list prog) (h : heap) (sigma : schedule) : Prop :=
  dall_done (drun_schedule sigma (dinit ps h)).

(* Disjointness of the SOLO footprints from h. *)
Definition ddrf (ps : list prog) (h : heap) : Prop :=
  forall i j pi pj, i <> j ->
    nth_error ps i = Some pi -> nth_error ps j = Some pj ->
    forall l, In l (dwrites pi h) -> ~ In l (daccesses pj h).

Definition ddrfb (ps : list prog) (h : heap) : bool :=
  let idx := seq 0 (length ps) in
  forallb (fun i =>
    forallb (fun j => Nat.eqb i j ||
                      disjb (dwrites (nth i ps Done) h) (daccesses (nth j ps Done) h))
            idx) idx.

Lemma dall_doneb_spec : forall c, dall_doneb c = true <-> dall_done c.
Proof.
  intros c. unfold dall_doneb, dall_done. rewrite forallb_forall. split.
  - intros H i ls p Hn. apply nth_error_In in Hn. apply H in Hn. simpl in Hn.
    destruct p; [reflexivity | discriminate | discriminate].
  - intros H [ls p] Hin. apply In_nth_error in Hin. destruct Hin as (i & Hi).
    apply H in Hi. subst. reflexivity.
Qed.

Lemma ddrfb_sound : forall ps h, ddrfb ps h = true -> ddrf ps h.
Proof.
  intros ps h H i j pi pj Hne Hi Hj.
  unfold ddrfb in H. rewrite forallb_forall in H.
  assert (Hil : i < length ps) by (apply nth_error_Some; congruence).
  assert (Hjl : j < length ps) by (apply nth_error_Some; congruence).
  specialize (H i). rewrite forallb_forall in H.
  assert (Hi' : In i (seq 0 (length ps))) by (apply in_seq; lia).
  assert (Hj' : In j (seq 0 (length ps))) by (apply in_seq; lia).
  specialize (H Hi' j Hj'). apply orb_true_iff in H. destruct H as [H|H].
  - apply Nat.eqb_eq in H. contradiction.
  - rewrite (nth_error_nth ps i Done Hi), (nth_error_nth ps j Done Hj) in H.
    apply disjb_spec. exact H.
Qed.

(* Invariant: thread i, currently at (ls, p), is at a point of its solo run: there is a heap
   hi (its solo view) from which the rest of the solo run is exactly "drun p ls hi"; the
   locations the rest of that run accesses are within the solo footprint; and the shared heap
   agrees with hi on the solo footprint.                                                     *)
Definition dinv (ps : list prog) (h : heap) (c : dconfig) : Prop :=
  length (dthreads c) = length ps /\
  (forall i t, nth_error ps i = Some t ->
     exists ls p hi,
       nth_error (dthreads c) i = Some (ls, p) /\
       drun p ls hi = dsolo t h /\
       (forall l, In l (dreads p hi) -> In l (dreads t h)) /\
       (forall l, In l (dwrites p hi) -> In l (dwrites t h)) /\
       (forall l, In l (daccesses t h) -> dheap c l = hi l)) /\
  (forall l, (forall i t, nth_error ps i = Some t -> ~ In l (dwrites t h)) -> dheap c l = h l).

Lemma dinv_init : forall ps h, dinv ps h (dinit ps h).
Proof.
  intros ps h. unfold dinv. split; [|split].
  - unfold dinit. simpl. apply map_length.
  - intros i t Hi. exists [], t, h. split.
    + unfold dinit. simpl. rewrite nth_error_map, Hi. reflexivity.
    + repeat split; auto.
  - intros l _. reflexivity.
Qed.

Lemma dinv_step : forall ps h, ddrf ps h ->
  forall c j, dinv ps h c -> dinv ps h (dstep j c).
Proof.
  intros ps h Hdrf c j Hinv.
  pose proof Hinv as (Hlen & Hthr & Hunw).
  unfold dstep.
  destruct (nth_error (dthreads c) j) as [[ls [|l k|l v k]]|] eqn:Ej; try exact Hinv.
  - (* Read l k *)
    assert (Hjc : j < length (dthreads c)) by (apply nth_error_Some; congruence).
    assert (Hj : j < length ps) by lia.
    destruct (nth_error ps j) as [tj|] eqn:Etj; [| apply nth_error_None in Etj; lia].
    destruct (Hthr j tj Etj) as (ls0 & p0 & hj & Hst & Hrun & Hrd & Hwr & Hheap).
    rewrite Ej in Hst. injection Hst as <- <-.
    assert (Hl : dheap c l = hj l).
    { apply Hheap. unfold daccesses. apply in_or_app. left. apply Hrd. simpl. left. reflexivity. }
    unfold dinv; cbn [dthreads dheap]. split; [|split].
    + rewrite set_nth_length. exact Hlen.
    + intros i t Hi. destruct (Nat.eq_dec i j) as [->|Hne].
      * rewrite Etj in Hi. injection Hi as <-.
        exists (ls ++ [hj l]), (k (hj l)), hj. rewrite Hl. split; [|split; [|split; [|split]]].
        -- apply nth_error_set_nth_eq. exact Hjc.
        -- exact Hrun.
        -- intros l' Hl'. apply Hrd. simpl. right. exact Hl'.
        -- intros l' Hl'. apply Hwr. simpl. exact Hl'.
        -- exact Hheap.
      * destruct (Hthr i t Hi) as (ls' & p' & hi & Hst' & Hrest).
        exists ls', p', hi. split; [|exact Hrest].
        rewrite nth_error_set_nth_neq by auto. exact Hst'.
    + exact Hunw.
  - (* Write l v k *)
    assert (Hjc : j < length (dthreads c)) by (apply nth_error_Some; congruence).
    assert (Hj : j < length ps) by lia.
    destruct (nth_error ps j) as [tj|] eqn:Etj; [| apply nth_error_None in Etj; lia].
    destruct (Hthr j tj Etj) as (ls0 & p0 & hj & Hst & Hrun & Hrd & Hwr & Hheap).
    rewrite Ej in Hst. injection Hst as <- <-.
    assert (Hl : In l (dwrites tj h)) by (apply Hwr; simpl; left; reflexivity).
    unfold dinv; cbn [dthreads dheap]. split; [|split].
    + rewrite set_nth_length. exact Hlen.
    + intros i t Hi. destruct (Nat.eq_dec i j) as [->|Hne].
      * rewrite Etj in Hi. injection Hi as <-.
        exists ls, k, (upd hj l v). split; [|split; [|split; [|split]]].
        -- apply nth_error_set_nth_eq. exact Hjc.
        -- exact Hrun.
        -- intros l' Hl'. apply Hrd. simpl. exact Hl'.
        -- intros l' Hl'. apply Hwr. simpl. right. exact Hl'.
        -- intros l' Hl'. unfold upd. destruct (Nat.eqb l' l); [reflexivity|].
           apply Hheap. exact Hl'.
      * destruct (Hthr i t Hi) as (ls' & p' & hi & Hst' & Hrun' & Hrd' & Hwr' & Hh').
        exists ls', p', hi. split; [|split; [|split; [|split]]]; try assumption.
        -- rewrite nth_error_set_nth_neq by auto. exact Hst'.
        -- intros l' Hl'. rewrite upd_other; [apply Hh'; exact Hl'|].
           intros ->. exact (Hdrf j i tj t (not_eq_sym Hne) Etj Hi l Hl Hl').
    + intros l' Hnw. rewrite upd_other; [apply Hunw; exact Hnw|].
      intros ->. exact (Hnw j tj Etj Hl).
Qed.

Theorem dyn_prefix_invariant : forall ps h, ddrf ps h ->
  forall sigma, dinv ps h (drun_schedule sigma (dinit ps h)).
Proof.
  intros ps h Hdrf sigma.
  assert (G : forall c, dinv ps h c -> dinv ps h (drun_schedule sigma c)).
  { induction sigma as [|j sigma IH]; intros c Hc; simpl; [exact Hc|].
    apply IH. apply dinv_step; assumption. }
  apply G. apply dinv_init.
Qed.

Theorem dyn_drf_deterministic :
  forall (ps : list prog) (h : heap),
    ddrf ps h ->
    forall sigma : schedule,
      dcomplete ps h sigma ->
      let c := drun_schedule sigma (dinit ps h) in
      (forall i t, nth_error ps i = Some t ->
                   nth_error (dthreads c) i = Some (fst (dsolo t h), Done)) /\
      (forall l i t, nth_error ps i = Some t -> In l (dwrites t h) ->
                     dheap c l = snd (dsolo t h) l) /\
      (forall l, (forall i t, nth_error ps i = Some t -> ~ In l (dwrites t h)) ->
                 dheap c l = h l).
Proof.
  intros ps h Hdrf sigma Hdone c.
  pose proof (dyn_prefix_invariant ps h Hdrf sigma) as (Hlen & Hthr & Hunw).
  fold c in Hlen, Hthr, Hunw.
  assert (Hfin : forall i t, nth_error ps i = Some t ->
            nth_error (dthreads c) i = Some (fst (dsolo t h), Done) /\
            (forall l, In l (daccesses t h) -> dheap c l = snd (dsolo t h) l)).
  { intros i t Hi. destruct (Hthr i t Hi) as (ls & p & hi & Hst & Hrun & _ & _ & Hh).
    assert (p = Done) by (eapply Hdone; exact Hst). subst p.
    simpl in Hrun. rewrite <- Hrun. simpl. split; [exact Hst | exact Hh]. }
  split; [|split].
  - intros i t Hi. apply (Hfin i t Hi).
  - intros l i t Hi Hl. apply (Hfin i t Hi). unfold daccesses. apply in_or_app. right. exact Hl.
  - exact Hunw.
Qed.

Print Assumptions dyn_drf_deterministic.

Theorem dyn_readonly_threads_deterministic :
  forall (shared : loc -> Prop) (ps : list prog) (h : heap),
    (forall i t, nth_error ps i = Some t -> forall l, In l (dwrites t h) -> ~ shared l) ->
    (forall i j pi pj, i <> j -> nth_error ps i = Some pi -> nth_error ps j = Some pj ->
       forall l, In l (daccesses pi h) -> In l (daccesses pj h) -> shared l) ->
    forall sigma : schedule,
      dcomplete ps h sigma ->
      (forall i t, nth_error ps i = Some t ->
         dresult (drun_schedule sigma (dinit ps h)) i = Some (fst (dsolo t h))) /\
      (forall l, shared l -> dheap (drun_schedule sigma (dinit ps h)) l = h l).
Proof.
  intros shared ps h Hro Hsh sigma Hc.
  assert (Hdrf : ddrf ps h).
  { intros i j pi pj Hne Hi Hj l Hw Ha.
    apply (Hro i pi Hi l Hw).
    apply (Hsh i j pi pj Hne Hi Hj l); [|exact Ha].
    unfold daccesses. apply in_or_app. right. exact Hw. }
  destruct (dyn_drf_deterministic ps h Hdrf sigma Hc) as (Hres & _ & Hu). split.
  - intros i t Hi. unfold dresult. rewrite (Hres i t Hi). reflexivity.
  - intros l Hs. apply Hu. intros i t Hi Hw. exact (Hro i t Hi l Hw Hs).
Qed.

Print Assumptions dyn_readonly_threads_deterministic.

(* The straight-line threads of Part I are a special case. *)
Fixpoint compile (t : thread) (ls : list val) : prog :=
  match t with
  | [] => Done
  | IRead l :: r    => Read l (fun v => compile r (ls ++ [v]))
  | IWrite l f :: r => Write l (f ls) (compile r ls)
  end.

Lemma compile_run : forall t ls h, drun (compile t ls) ls h = run t (ls, h).
Proof.
  induction t as [|[l|l f] r IH]; intros ls h; simpl; [reflexivity | |]; apply IH.
Qed.

Lemma compile_reads : forall t ls h, dreads (compile t ls) h = reads t.
Proof.
  induction t as [|[l|l f] r IH]; intros ls h; simpl; [reflexivity | |];
    unfold reads in *; simpl; rewrite IH; reflexivity.
Qed.

Lemma compile_writes : forall t ls h, dwrites (compile t ls) h = writes t.
Proof.
  induction t as [|[l|l f] r IH]; intros ls h; simpl; [reflexivity | |];
    unfold writes in *; simpl; rewrite IH; reflexivity.
Qed.

(* A concrete system with data-dependent footprints.  Location 0 is a shared read-only mode
   flag, location 1 a shared read-only table entry.  Thread 0 writes its private cell 10 or 11
   depending on the flag; thread 1 copies the table entry to 20 and, only if the flag is
   non-zero, would ALSO write the shared location 1 (a race in other heaps, none in this one);
   thread 2 reads the flag twice and records into 30.                                        *)
Definition dex_p0 : prog :=
  Read 0 (fun m => if Nat.eqb m 0
                   then Read 1 (fun v => Write 10 (v + 1) (Read 10 (fun _ => Done)))
                   else Write 11 m Done).
Definition dex_p1 : prog :=
  Read 1 (fun v => Write 20 (2 * v)
    (Read 0 (fun m => if Nat.eqb m 0 then Read 20 (fun _ => Done) else Write 1 0 Done))).
Definition dex_p2 : prog :=
  Read 0 (fun m => Read 0 (fun m' => Write 30 (m + m' + 5) (Read 30 (fun _ => Done)))).
Definition dex_ps : list prog := [dex_p0; dex_p1; dex_p2].
Definition dex_heap : heap := fun l => match l with 0 => 0 | 1 => 42 | _ => 9 end.
Definition dex_sigma : schedule := [1;0;2;2;1;0;0;1;2;0;1;2;0].

Eval vm_compute in map (dresult (drun_schedule dex_sigma (dinit dex_ps dex_heap))) [0;1;2].
Eval vm_compute in map (fun p => fst (dsolo p dex_heap)) dex_ps.

Example dex_drf : ddrf dex_ps dex_heap.
Proof. apply ddrfb_sound. vm_compute. reflexivity. Qed.

Example dex_complete : dcomplete dex_ps dex_heap dex_sigma.
Proof. apply dall_doneb_spec. vm_compute. reflexivity. Qed.

Example dex_by_theorem :
  forall i t, nth_error dex_ps i = Some t ->
    nth_error (dthreads (drun_schedule dex_sigma (dinit dex_ps dex_heap))) i
    = Some (fst (dsolo t dex_heap), Done).
Proof. exact (proj1 (dyn_drf_deterministic dex_ps dex_heap dex_drf dex_sigma dex_complete)). Qed.

Example dex_by_computation :
  map (dresult (drun_schedule dex_sigma (dinit dex_ps dex_heap))) [0;1;2]
  = map (fun p => Some (fst (dsolo p dex_heap))) dex_ps
  /\ map (dresult (drun_schedule dex_sigma (dinit dex_ps dex_heap))) [0;1;2]
  = [ Some [0; 42; 43]; Some [42; 0; 84]; Some [0; 0; 5] ].
Proof. split; vm_compute; reflexivity. Qed.

(* The footprint really is dynamic: with the flag set, thread 1 also writes location 1. *)
Example dex_footprints_depend_on_heap :
  dwrites dex_p1 dex_heap = [20] /\ dwrites dex_p1 (upd dex_heap 0 1) = [20; 1] /\
  dwrites dex_p0 dex_heap = [10] /\ dwrites dex_p0 (upd dex_heap 0 1) = [11].
Proof. repeat split; vm_compute; reflexivity. Qed.
