(* The error kinds a step of the model machine raises in state s are those of the Go clause `case s:` of the state switch
   of BasicParser (Gen/Transitions.v, go_state_errors, REGENERATED from /repo/url/parser.go on every run), plus the kinds
   that come out of the functions the clause calls.
   - step_errors_allowed: errors_of (step m) ⊆ direct_errors (m_state m) ++ called_errors (m_state m), all 21 states;
   - step_verrs_extend: the record a step leaves behind carries the old validation errors as a prefix (so the suffix that
     errors_of reads is exactly what this step appended);
   - direct_errors_realised / called_errors_realised: every listed kind is raised by some concrete step in that state, so
     both tables are exact. *)
From Verif Require Import Lib.Base Lib.Utf8 Lib.GoStr Model.Cfg Gen.Tables Model.Sets Model.Percent Model.Url Model.Host Model.Machine.
From Verif Require Import Gen.Transitions.
From Coq Require Import Lia.

Local Open Scope N_scope.

(* ------------------------------------------------------------------------------------------ *)
(* 0. Error kinds: decidable membership                                                        *)
(* ------------------------------------------------------------------------------------------ *)

Definition etype_eqb (a b : etype) : bool := etype_index a =? etype_index b.
Lemma etype_eqb_eq a b : etype_eqb a b = true <-> a = b.
Proof.
  unfold etype_eqb. split.
  - intros H. apply N.eqb_eq in H. destruct a, b; try reflexivity; vm_compute in H; discriminate.
  - intros ->. apply N.eqb_refl.
Qed.
Definition inb (t : etype) (l : list etype) : bool := existsb (etype_eqb t) l.
Lemma inb_In t l : inb t l = true -> In t l.
Proof.
  unfold inb. rewrite existsb_exists. intros [x [Hx E]]. apply etype_eqb_eq in E. subst. exact Hx.
Qed.
Lemma In_inb t l : In t l -> inb t l = true.
Proof.
  unfold inb. rewrite existsb_exists. intros H. exists t. split; [exact H|]. apply etype_eqb_eq. reflexivity.
Qed.

(* ------------------------------------------------------------------------------------------ *)
(* 1. The two tables                                                                           *)
(* ------------------------------------------------------------------------------------------ *)

Fixpoint lookup_state (s : state) (l : list (state * list etype)) : list etype :=
  match l with
  | [] => []
  | (s', ts) :: l' => if state_eqb s s' then ts else lookup_state s l'
  end.

(* the kinds the Go clause passes directly to handleError* (generated) *)
Definition direct_errors (s : state) : list etype := lookup_state s go_state_errors.

(* the kinds of url/hostparser.go (parseHost and what it calls) *)
Definition ipv6_kinds : list etype :=
  [IPv6InvalidCompression; IPv6TooManyPieces; IPv6MultipleCompression; IPv6InvalidCodePoint; IPv6TooFewPieces;
   IPv4InIPv6TooManyPieces; IPv4InIPv6InvalidCodePoint; IPv4InIPv6OutOfRangePart; IPv4InIPv6TooFewParts].
Definition host_kinds : list etype :=
  [DomainToASCII; DomainInvalidCodePoint; HostInvalidCodePoint; IPv4EmptyPart; IPv4TooManyParts; IPv4NonNumericPart;
   IPv4NonDecimalPart; IPv4OutOfRangePart; IPv6Unclosed; InvalidURLUnit] ++ ipv6_kinds.

(* the kinds that come out of what the clause calls: the host parser in the three host states; PortOutOfRange in the port
   state, which the Go clause raises through p.handleWrappedError (not a handleError* name, so the generated table does not
   list it - see the report at the end of this file). The percent-encoding helpers of the model raise nothing. *)
Definition called_errors (s : state) : list etype :=
  match s with
  | HostSt | HostnameSt | FileHost => host_kinds
  | PortSt => [PortOutOfRange]
  | _ => []
  end.

(* ------------------------------------------------------------------------------------------ *)
(* 2. What a step raises                                                                       *)
(* ------------------------------------------------------------------------------------------ *)

(* the validation errors appended to the record since u0 *)
Definition new_verrs (u0 u : url) : list verr := skipn (length (u_verrs u0)) (u_verrs u).

Definition errors_of (o : outcome) (u0 : url) : list etype :=
  match o with
  | Cont m' => map e_type (new_verrs u0 (m_url m'))
  | RetUrl u => map e_type (new_verrs u0 u)
  | RetNilNil u => map e_type (new_verrs u0 u)
  | RetErr u e => e_type e :: map e_type (new_verrs u0 u)
  | Panic => []
  end.

(* v extends v0 by errors whose kinds are in S *)
Definition okv (S : list etype) (v0 v : list verr) : Prop :=
  exists l, v = v0 ++ l /\ Forall (fun e => In (e_type e) S) l.

Lemma okv_refl S v0 : okv S v0 v0.
Proof. exists []. split; [symmetry; apply app_nil_r | constructor]. Qed.

Lemma okv_snoc S v0 v e : okv S v0 v -> In (e_type e) S -> okv S v0 (v ++ [e]).
Proof.
  intros [l [-> Hl]] He. exists (l ++ [e]). split; [symmetry; apply app_assoc|].
  apply Forall_app. split; [exact Hl | constructor; [exact He | constructor]].
Qed.

Lemma okv_new S u0 u : okv S (u_verrs u0) (u_verrs u) -> incl (map e_type (new_verrs u0 u)) S.
Proof.
  intros [l [E Hl]]. unfold new_verrs. rewrite E.
  rewrite skipn_app, skipn_all, Nat.sub_diag. cbn [skipn app].
  intros t Ht. apply in_map_iff in Ht. destruct Ht as [e [<- He]].
  rewrite Forall_forall in Hl. apply Hl. exact He.
Qed.

Lemma handleError_okv S v0 c u t f :
  In t S -> okv S v0 (u_verrs u) ->
  okv S v0 (u_verrs (fst (handleError c u t f))) /\
  (forall e, snd (handleError c u t f) = Some e -> e_type e = t).
Proof.
  intros Ht Hu. unfold handleError. cbn [fst snd]. split.
  - destruct (c_report c); [|exact Hu]. cbn [u_verrs set_verrs]. apply okv_snoc; [exact Hu | exact Ht].
  - intros e He. destruct (f || c_fail c); [|discriminate]. injection He as <-. reflexivity.
Qed.

(* ------------------------------------------------------------------------------------------ *)
(* 3. The host parser                                                                          *)
(* ------------------------------------------------------------------------------------------ *)

(* the kinds the IPv6 parser can return *)
Ltac v6_break H :=
  match type of H with
  | context [if ?b then _ else _] => destruct b eqn:?
  | context [match ?x with _ => _ end] => destruct x eqn:?
  end.

Lemma v4tail_kinds : forall l seen piece pi addr t,
  v4tail l seen piece pi addr = inr t -> inb t ipv6_kinds = true.
Proof.
  induction l as [|ch rest IH]; intros seen piece pi addr t H; cbn [v4tail] in H.
  - destruct piece; [discriminate|]. injection H as <-. reflexivity.
  - destruct piece as [p|].
    + destruct (isDigit ch).
      * destruct (p =? 0); [injection H as <-; reflexivity|].
        destruct (255 <? p * 10 + hex_val ch); [injection H as <-; reflexivity|].
        eapply IH; exact H.
      * destruct ((ch =? 46) && (S seen <? 4)%nat); [eapply IH; exact H | injection H as <-; reflexivity].
    + destruct (isDigit ch); [eapply IH; exact H | injection H as <-; reflexivity].
Qed.

Lemma v6loop_kinds : forall l pi comp addr cur t,
  v6loop l pi comp addr cur = inr t -> inb t ipv6_kinds = true.
Proof.
  induction l as [|ch rest IH]; intros pi comp addr cur t H; cbn [v6loop] in H.
  - destruct cur as [[[v ln] ps]|]; discriminate.
  - destruct cur as [[[v ln] ps]|]; cbn [andb] in H.
    + destruct ((ln <? 4)%nat && isHexDigit ch); [eapply IH; exact H|].
      destruct (ch =? 46).
      * destruct (Nat.eqb ln 0); [injection H as <-; reflexivity|].
        destruct (6 <? pi)%nat; [injection H as <-; reflexivity|].
        destruct (v4tail ps 0 None pi addr) as [[[seen pi'] addr']|e] eqn:Ev.
        -- destruct (Nat.eqb seen 4); [discriminate | injection H as <-; reflexivity].
        -- injection H as <-. eapply v4tail_kinds; exact Ev.
      * destruct (ch =? 58); [|injection H as <-; reflexivity].
        destruct rest; [injection H as <-; reflexivity | eapply IH; exact H].
    + destruct (Nat.eqb pi 8); [injection H as <-; reflexivity|].
      destruct (ch =? 58).
      * destruct comp; [injection H as <-; reflexivity | eapply IH; exact H].
      * destruct ((0 <? 4)%nat && isHexDigit ch); [eapply IH; exact H|].
        destruct (ch =? 46); [injection H as <-; reflexivity|]. injection H as <-; reflexivity.
Qed.

Lemma ipv6_parse_kinds l t : ipv6_parse l = inr t -> inb t ipv6_kinds = true.
Proof.
  unfold ipv6_parse. intros H.
  match type of H with match ?r with _ => _ end = _ => destruct r as [[[pi [comp|]] addr]|e] eqn:Er end.
  - discriminate.
  - destruct (Nat.eqb pi 8); [discriminate | injection H as <-; reflexivity].
  - injection H as <-.
    destruct l as [|a l]; [eapply v6loop_kinds; exact Er|].
    destruct (N.eq_dec a 58) as [->|Ha].
    + destruct l as [|b l]; [injection Er as <-; reflexivity|].
      destruct (N.eq_dec b 58) as [->|Hb]; [eapply v6loop_kinds; exact Er|].
      destruct b as [|b]; [injection Er as <-; reflexivity|].
      do 6 (destruct b as [b|b|]; try (injection Er as <-; reflexivity)). congruence.
    + destruct a as [|a]; [eapply v6loop_kinds; exact Er|].
      do 6 (destruct a as [a|a|]; try (eapply v6loop_kinds; exact Er)). congruence.
Qed.

(* parseIPv4 with its local function named *)
Definition ipv4_after (c : cfg) (u : url) (parts : list str) : res str :=
  (if (4 <? len parts)%Z then (fun k => herr c u IPv4TooManyParts true k) else (fun k => k u))
  (fun u =>
    match ipv4_numbers c u parts [] with
    | Er u e => Er u e
    | Ok u numbers =>
        ipv4_range_warn c u numbers (fun u =>
          let init := drop_last numbers in
          if existsb (fun n => 255 <? n) init then herr c u IPv4OutOfRangePart true (fun u => Ok u [])
          else match last_opt numbers with
               | None => Ok u []
               | Some lastn =>
                   if 256 ^ (5 - N.of_nat (length numbers)) <=? lastn
                   then herr c u IPv4OutOfRangePart true (fun u => Ok u [])
                   else Ok u (IPv4String (lastn + ipv4_sum init 0))
               end)
    end).

Lemma parseIPv4_unfold c u input :
  parseIPv4 c u input =
  match last_opt (split 46 input) with
  | Some [] =>
      herr c u IPv4EmptyPart false (fun u =>
        ipv4_after c u (if (1 <? len (split 46 input))%Z then drop_last (split 46 input) else split 46 input))
  | _ => ipv4_after c u (split 46 input)
  end.
Proof. reflexivity. Qed.

Section HostKinds.
  Variable S : list etype.
  Variable v0 : list verr.
  Hypothesis HS : incl host_kinds S.

  Definition R {A} (r : res A) : Prop :=
    match r with
    | Ok u _ => okv S v0 (u_verrs u)
    | Er u e => okv S v0 (u_verrs u) /\ In (e_type e) S
    end.

  Lemma hk t : inb t host_kinds = true -> In t S.
  Proof. intros H. apply HS. apply inb_In. exact H. Qed.

  Lemma R_herr {A} c u t f (k : url -> res A) :
    In t S -> okv S v0 (u_verrs u) -> (forall u', okv S v0 (u_verrs u') -> R (k u')) -> R (herr c u t f k).
  Proof.
    intros Ht Hu Hk. unfold herr. destruct (handleError_okv S v0 c u t f Ht Hu) as [H1 H2].
    destruct (handleError c u t f) as [u' [e|]]; cbn [fst snd] in *.
    - split; [exact H1|]. rewrite (H2 e eq_refl). exact Ht.
    - apply Hk. exact H1.
  Qed.

  Lemma parseIPv4Number_okv c u input :
    okv S v0 (u_verrs u) -> okv S v0 (u_verrs (fst (parseIPv4Number c u input))).
  Proof.
    intros Hu. unfold parseIPv4Number. destruct input as [|x input]; [|exact Hu].
    destruct (handleError_okv S v0 c u IPv4EmptyPart true (hk IPv4EmptyPart eq_refl) Hu) as [H1 _].
    destruct (handleError c u IPv4EmptyPart true) as [u' oe]. exact H1.
  Qed.

  Lemma endsInANumber_okv c u input :
    okv S v0 (u_verrs u) -> okv S v0 (u_verrs (fst (endsInANumber c u input))).
  Proof.
    intros Hu. unfold endsInANumber.
    match goal with |- context [last_opt ?p] => destruct (last_opt p) as [[|x l]|] end; try exact Hu.
    destruct (all_in isDigit (x :: l)); [exact Hu|].
    pose proof (parseIPv4Number_okv c u (x :: l) Hu) as H.
    destruct (parseIPv4Number c u (x :: l)) as [u' [n ve|range]]; exact H.
  Qed.

  Lemma ipv4_numbers_R c : forall parts u acc, okv S v0 (u_verrs u) -> R (ipv4_numbers c u parts acc).
  Proof.
    induction parts as [|p rest IH]; intros u acc Hu; cbn [ipv4_numbers]; [exact Hu|].
    pose proof (parseIPv4Number_okv c u p Hu) as H.
    destruct (parseIPv4Number c u p) as [u1 [n ve|range]]; cbn [fst] in H.
    - destruct ve; [|apply IH; exact H].
      apply R_herr; [apply hk; reflexivity | exact H | intros u' Hu'; apply IH; exact Hu'].
    - apply R_herr; [apply hk; reflexivity | exact H | intros u' Hu'; apply IH; exact Hu'].
  Qed.

  Lemma ipv4_range_warn_R c k : (forall u, okv S v0 (u_verrs u) -> R (k u)) ->
    forall ns u, okv S v0 (u_verrs u) -> R (ipv4_range_warn c u ns k).
  Proof.
    intros Hk. induction ns as [|n rest IH]; intros u Hu; cbn [ipv4_range_warn]; [apply Hk; exact Hu|].
    destruct (255 <? n); [|apply IH; exact Hu].
    apply R_herr; [apply hk; reflexivity | exact Hu | intros u' Hu'; apply IH; exact Hu'].
  Qed.

  Lemma ipv4_after_R c u parts : okv S v0 (u_verrs u) -> R (ipv4_after c u parts).
  Proof.
    intros Hu. unfold ipv4_after.
    assert (Hk : forall u, okv S v0 (u_verrs u) ->
              R (match ipv4_numbers c u parts [] with
                 | Er u e => Er u e
                 | Ok u numbers =>
                     ipv4_range_warn c u numbers (fun u =>
                       let init := drop_last numbers in
                       if existsb (fun n => 255 <? n) init then herr c u IPv4OutOfRangePart true (fun u => Ok u [])
                       else match last_opt numbers with
                            | None => Ok u []
                            | Some lastn =>
                                if 256 ^ (5 - N.of_nat (length numbers)) <=? lastn
                                then herr c u IPv4OutOfRangePart true (fun u => Ok u [])
                                else Ok u (IPv4String (lastn + ipv4_sum init 0))
                            end)
                 end)).
    { clear u Hu. intros u Hu. pose proof (ipv4_numbers_R c parts u [] Hu) as H.
      destruct (ipv4_numbers c u parts []) as [u1 numbers|u1 e]; [|exact H]. cbn [R] in H.
      apply ipv4_range_warn_R; [|exact H]. intros u2 Hu2. cbv zeta.
      destruct (existsb (fun n => 255 <? n) (drop_last numbers)).
      - apply R_herr; [apply hk; reflexivity | exact Hu2 | intros u' Hu'; exact Hu'].
      - destruct (last_opt numbers) as [lastn|]; [|exact Hu2].
        destruct (256 ^ (5 - N.of_nat (length numbers)) <=? lastn); [|exact Hu2].
        apply R_herr; [apply hk; reflexivity | exact Hu2 | intros u' Hu'; exact Hu']. }
    destruct (4 <? len parts)%Z; [|apply Hk; exact Hu].
    apply R_herr; [apply hk; reflexivity | exact Hu | exact Hk].
  Qed.

  Lemma parseIPv4_R c u input : okv S v0 (u_verrs u) -> R (parseIPv4 c u input).
  Proof.
    intros Hu. rewrite parseIPv4_unfold.
    destruct (last_opt (split 46 input)) as [[|x l]|]; try (apply ipv4_after_R; exact Hu).
    apply R_herr; [apply hk; reflexivity | exact Hu | intros u' Hu'; apply ipv4_after_R; exact Hu'].
  Qed.
  Lemma ipv6_in_host t : inb t ipv6_kinds = true -> inb t host_kinds = true.
  Proof. intros H. apply In_inb. unfold host_kinds. apply in_or_app. right. apply inb_In. exact H. Qed.

  Lemma parseIPv6_R c u input : okv S v0 (u_verrs u) -> R (parseIPv6 c u input).
  Proof.
    intros Hu. unfold parseIPv6. destruct (ipv6_parse (runes input)) as [addr|t] eqn:E; [exact Hu|].
    apply R_herr; [|exact Hu|intros u' Hu'; exact Hu'].
    apply hk. apply ipv6_in_host. eapply ipv6_parse_kinds. exact E.
  Qed.

  Lemma opaque_loop_R c input : forall l u out, okv S v0 (u_verrs u) -> R (opaque_loop c u input l out).
  Proof.
    induction l as [|ch rest IH]; intros u out Hu; cbn [opaque_loop]; [exact Hu|].
    assert (Hk1 : forall u, okv S v0 (u_verrs u) ->
      R ((if negb (isURLCodePoint ch) && negb (ch =? 37)
          then (fun k => herr c u InvalidURLUnit false k) else (fun k => k u))
         (fun u =>
           (if (ch =? 37) && invalid_pct (ch :: rest)
            then (fun k => herr c u InvalidURLUnit false k) else (fun k => k u))
           (fun u => opaque_loop c u input rest (out ++ percentEncodeRune c ch (Some pes_C0)))))).
    { clear u Hu. intros u Hu.
      assert (Hk2 : forall u, okv S v0 (u_verrs u) ->
        R ((if (ch =? 37) && invalid_pct (ch :: rest)
            then (fun k => herr c u InvalidURLUnit false k) else (fun k => k u))
           (fun u => opaque_loop c u input rest (out ++ percentEncodeRune c ch (Some pes_C0))))).
      { clear u Hu. intros u Hu. destruct ((ch =? 37) && invalid_pct (ch :: rest)); [|apply IH; exact Hu].
        apply R_herr; [apply hk; reflexivity | exact Hu | intros u' Hu'; apply IH; exact Hu']. }
      destruct (negb (isURLCodePoint ch) && negb (ch =? 37)); [|apply Hk2; exact Hu].
      apply R_herr; [apply hk; reflexivity | exact Hu | exact Hk2]. }
    destruct (isForbiddenHost ch); [|apply Hk1; exact Hu].
    destruct (c_lax c); [exact Hu|].
    apply R_herr; [apply hk; reflexivity | exact Hu | exact Hk1].
  Qed.

  Lemma parseHost_R idna c u input ns : okv S v0 (u_verrs u) -> R (parseHost idna c u input ns).
  Proof.
    intros Hu. unfold parseHost.
    destruct (apply_hostfun (c_pre c) input) as [|b0 inp'] eqn:Einp; [exact Hu|].
    set (inp := b0 :: inp') in *.
    assert (Hdom : R (if ns then parseOpaqueHost c u inp
      else
        let domain := DecodePercentEncoded c inp in
        let k_valid (u : url) : res str :=
          match ToASCII idna c domain with
          | None =>
              if c_lax c then Ok u domain
              else herr c u DomainToASCII true (fun u => Ok u [])
          | Some asciiDomain =>
              let forbidden := existsb isForbiddenDomain (runes asciiDomain) in
              let k_clean (u : url) : res str :=
                match endsInANumber c u asciiDomain with
                | (u, true) => parseIPv4 c u asciiDomain
                | (u, false) => Ok u (apply_hostfun (c_post c) asciiDomain)
                end in
              if forbidden then
                if c_lax c then Ok u (PercentEncodeString c asciiDomain pes_Host)
                else herr c u DomainInvalidCodePoint true k_clean
              else k_clean u
          end in
        if negb (valid_utf8 domain) then
          if c_lax c then Ok u (percentEncodeBytes inp pes_Host)
          else herr c u DomainToASCII true k_valid
        else k_valid u)).
    { destruct ns; [apply opaque_loop_R; exact Hu|]. cbv zeta.
      assert (Hkv : forall u, okv S v0 (u_verrs u) ->
        R (match ToASCII idna c (DecodePercentEncoded c inp) with
           | None =>
               if c_lax c then Ok u (DecodePercentEncoded c inp)
               else herr c u DomainToASCII true (fun u => Ok u [])
           | Some asciiDomain =>
               if existsb isForbiddenDomain (runes asciiDomain) then
                 if c_lax c then Ok u (PercentEncodeString c asciiDomain pes_Host)
                 else herr c u DomainInvalidCodePoint true (fun u =>
                   match endsInANumber c u asciiDomain with
                   | (u, true) => parseIPv4 c u asciiDomain
                   | (u, false) => Ok u (apply_hostfun (c_post c) asciiDomain)
                   end)
               else
                 match endsInANumber c u asciiDomain with
                 | (u, true) => parseIPv4 c u asciiDomain
                 | (u, false) => Ok u (apply_hostfun (c_post c) asciiDomain)
                 end
           end)).
      { clear u Hu. intros u Hu. destruct (ToASCII idna c (DecodePercentEncoded c inp)) as [ad|].
        - assert (Hkc : forall u, okv S v0 (u_verrs u) ->
            R (match endsInANumber c u ad with
               | (u, true) => parseIPv4 c u ad
               | (u, false) => Ok u (apply_hostfun (c_post c) ad)
               end)).
          { clear u Hu. intros u Hu. pose proof (endsInANumber_okv c u ad Hu) as H.
            destruct (endsInANumber c u ad) as [u1 [|]]; cbn [fst] in H; [apply parseIPv4_R; exact H | exact H]. }
          destruct (existsb isForbiddenDomain (runes ad)); [|apply Hkc; exact Hu].
          destruct (c_lax c); [exact Hu|].
          apply R_herr; [apply hk; reflexivity | exact Hu | exact Hkc].
        - destruct (c_lax c); [exact Hu|].
          apply R_herr; [apply hk; reflexivity | exact Hu | intros u' Hu'; exact Hu']. }
      destruct (negb (valid_utf8 (DecodePercentEncoded c inp))); [|apply Hkv; exact Hu].
      destruct (c_lax c); [exact Hu|].
      apply R_herr; [apply hk; reflexivity | exact Hu | exact Hkv]. }
    assert (H6 : R ((if negb (has_suffix [93] inp) then (fun k => herr c u IPv6Unclosed true k) else (fun k => k u))
                    (fun u => parseIPv6 c u (drop_last (tl inp))))).
    { destruct (negb (has_suffix [93] inp)); [|apply parseIPv6_R; exact Hu].
      apply R_herr; [apply hk; reflexivity | exact Hu | intros u' Hu'; apply parseIPv6_R; exact Hu']. }
    subst inp.
    destruct b0 as [|b0]; [exact Hdom|].
    do 7 (destruct b0 as [b0|b0|]; try exact Hdom). exact H6.
  Qed.
End HostKinds.

(* ------------------------------------------------------------------------------------------ *)
(* 4. The machine: one lemma per state                                                         *)
(* ------------------------------------------------------------------------------------------ *)

(* what a step started with the record u0 guarantees, for an allowed set S *)
Definition A (S : list etype) (v0 : list verr) (o : outcome) : Prop :=
  match o with
  | Cont m' => okv S v0 (u_verrs (m_url m'))
  | RetUrl u => okv S v0 (u_verrs u)
  | RetNilNil u => okv S v0 (u_verrs u)
  | RetErr u e => okv S v0 (u_verrs u) /\ In (e_type e) S
  | Panic => True
  end.

Lemma A_errors_of S u0 o : A S (u_verrs u0) o -> incl (errors_of o u0) S.
Proof.
  destruct o as [m'|u|u e|u|]; cbn [A errors_of].
  - apply okv_new.
  - apply okv_new.
  - intros [H He] t [<-|Ht]; [exact He | eapply okv_new; eassumption].
  - apply okv_new.
  - intros _ t [].
Qed.

Lemma A_mherr S v0 c u t f k :
  inb t S = true -> okv S v0 (u_verrs u) -> (forall u', okv S v0 (u_verrs u') -> A S v0 (k u')) ->
  A S v0 (mherr c u t f k).
Proof.
  intros Ht Hu Hk. apply inb_In in Ht. unfold mherr. destruct (handleError_okv S v0 c u t f Ht Hu) as [H1 H2].
  destruct (handleError c u t f) as [u' [e|]]; cbn [fst snd] in *.
  - split; [exact H1|]. rewrite (H2 e eq_refl). exact Ht.
  - apply Hk. exact H1.
Qed.

Lemma verrs_cleanDefaultPort c u : u_verrs (cleanDefaultPort c u) = u_verrs u.
Proof.
  unfold cleanDefaultPort. destruct (getSpecialScheme c (u_scheme u)); [|reflexivity].
  destruct (u_port u); [|reflexivity]. destruct (str_eqb s s0); reflexivity.
Qed.

Definition allowed (s : state) : list etype := direct_errors s ++ called_errors s.

Lemma inclb_incl l S : forallb (fun t => inb t S) l = true -> incl l S.
Proof. intros H t Ht. rewrite forallb_forall in H. apply inb_In. apply H. exact Ht. Qed.

Section Allowed.
  Variable idna_raw : str -> str * bool.
  Variable c : cfg.
  Variable inp : list rune.
  Variable base : option url.
  Variable override : option state.

  Notation stepf := (step idna_raw c inp base override).

  Ltac vs :=
    repeat rewrite verrs_cleanDefaultPort;
    cbn [u_verrs set_input set_scheme set_username set_password set_host set_port set_path set_query set_fragment set_sp
         m_url mk addSegment copy_base_auth];
    repeat rewrite verrs_cleanDefaultPort;
    try assumption.

  Ltac walk :=
    repeat first
      [ progress cbv beta
      | match goal with
        | |- A _ _ (mherr _ _ _ _ _) =>
            apply A_mherr; [reflexivity | solve [vs] | let u' := fresh "u'" in let Hu' := fresh "Hu'" in intros u' Hu']
        | |- A ?S ?v0 (match parseHost ?i ?cc ?u ?b ?n with _ => _ end) =>
            let H := fresh "HpH" in
            assert (H : R S v0 (parseHost i cc u b n))
              by (apply parseHost_R; [apply inclb_incl; reflexivity | solve [vs]]);
            let u' := fresh "u'" in
            destruct (parseHost i cc u b n) as [u' ?host|u' ?e]; cbn [R] in H
        | |- A _ _ ((if ?b then _ else _) _) => destruct b
        | |- A _ _ (if ?b then _ else _) => destruct b
        | |- A _ _ (match ?x with _ => _ end) => destruct x
        end ].

  Ltac fin := try exact I; unfold A; solve [vs].

  Ltac start m Hst s :=
    destruct m as [st p e buf aF brF pwF u]; cbn [m_state m_url] in Hst |- *; subst st;
    pose proof (okv_refl (allowed s) (u_verrs u)) as Hu0;
    cbv beta iota zeta delta [step mk m_state m_ptr m_eof m_buf m_at m_br m_pw m_url].

  Lemma al_SchemeStart m : m_state m = SchemeStart -> A (allowed SchemeStart) (u_verrs (m_url m)) (stepf m).
  Proof. intros Hst. start m Hst SchemeStart; walk; fin. Qed.
  Lemma al_Scheme m : m_state m = Scheme -> A (allowed Scheme) (u_verrs (m_url m)) (stepf m).
  Proof. intros Hst. start m Hst Scheme; walk; fin. Qed.
  Lemma al_NoScheme m : m_state m = NoScheme -> A (allowed NoScheme) (u_verrs (m_url m)) (stepf m).
  Proof. intros Hst. start m Hst NoScheme; walk; fin. Qed.
  Lemma al_OpaquePath m : m_state m = OpaquePath -> A (allowed OpaquePath) (u_verrs (m_url m)) (stepf m).
  Proof. intros Hst. start m Hst OpaquePath; walk; fin. Qed.
  Lemma al_SpecialRelativeOrAuthority m :
    m_state m = SpecialRelativeOrAuthority -> A (allowed SpecialRelativeOrAuthority) (u_verrs (m_url m)) (stepf m).
  Proof. intros Hst. start m Hst SpecialRelativeOrAuthority; walk; fin. Qed.
  Lemma al_SpecialAuthoritySlashes m :
    m_state m = SpecialAuthoritySlashes -> A (allowed SpecialAuthoritySlashes) (u_verrs (m_url m)) (stepf m).
  Proof. intros Hst. start m Hst SpecialAuthoritySlashes; walk; fin. Qed.
  Lemma al_SpecialAuthorityIgnoreSlashes m :
    m_state m = SpecialAuthorityIgnoreSlashes -> A (allowed SpecialAuthorityIgnoreSlashes) (u_verrs (m_url m)) (stepf m).
  Proof. intros Hst. start m Hst SpecialAuthorityIgnoreSlashes; walk; fin. Qed.
  Lemma al_PathOrAuthority m : m_state m = PathOrAuthority -> A (allowed PathOrAuthority) (u_verrs (m_url m)) (stepf m).
  Proof. intros Hst. start m Hst PathOrAuthority; walk; fin. Qed.
  Lemma al_Authority m : m_state m = Authority -> A (allowed Authority) (u_verrs (m_url m)) (stepf m).
  Proof. intros Hst. start m Hst Authority; walk; fin. Qed.
  Lemma al_HostSt m : m_state m = HostSt -> A (allowed HostSt) (u_verrs (m_url m)) (stepf m).
  Proof. intros Hst. start m Hst HostSt; walk; fin. Qed.
  Lemma al_HostnameSt m : m_state m = HostnameSt -> A (allowed HostnameSt) (u_verrs (m_url m)) (stepf m).
  Proof. intros Hst. start m Hst HostnameSt; walk; fin. Qed.
  Lemma al_File m : m_state m = File -> A (allowed File) (u_verrs (m_url m)) (stepf m).
  Proof. intros Hst. start m Hst File; walk; fin. Qed.
  Lemma al_FileHost m : m_state m = FileHost -> A (allowed FileHost) (u_verrs (m_url m)) (stepf m).
  Proof. intros Hst. start m Hst FileHost; walk; fin. Qed.
  Lemma al_FileSlash m : m_state m = FileSlash -> A (allowed FileSlash) (u_verrs (m_url m)) (stepf m).
  Proof. intros Hst. start m Hst FileSlash; walk. all: try (fin). Show. Abort.
End Allowed.
