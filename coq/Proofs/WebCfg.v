(* Ordinary web URLs under configurations outside CfgRT (task G1).
   The normal-form theorem of NormalForm.v uses the configuration only through: quiet error handling
   (c_report = c_fail = false), c_skipTrailSlash = false, the blanks in the path set, and - in the path state only -
   c_singlePct = false and c_collapse = false.  The last two are inert on texts whose '%' are all followed by two
   hex digits and whose path has no empty segment but the last one.  [normal_form_web] is the normal-form theorem
   with these two clauses as alternatives; everything else (lax host parsing, host functions, invalid code points,
   the Latin-1 override, the encode sets) is left to the host parser, which stays abstract in the statement. *)
From Verif Require Import Lib.Base Lib.Utf8 Lib.GoStr Model.Cfg Gen.Tables Gen.Options Model.Sets Model.Percent
  Model.Url Model.Host Model.Machine Model.Api Model.Preds.
From Verif Require Import Proofs.SetsProofs Proofs.Cleaning Proofs.PhaseLemmas Proofs.RecordInv Proofs.SchemeKept
  Proofs.Termination Proofs.RoundTripBase Proofs.RoundTripPhases Proofs.RoundTripOpaque Proofs.RoundTripHostless
  Proofs.RoundTripSpecial Proofs.NormalFormPhases Proofs.NormalForm Proofs.SpellingDecode Proofs.RepeatedSteps.
From Verif Require Proofs.Utf8Proofs.
From Coq Require Import Lia ZifyBool ZifyN ZifyNat.

Local Arguments N.mul : simpl never.
Local Arguments N.add : simpl never.
Local Arguments N.sub : simpl never.
Local Arguments N.eqb : simpl never.
Local Arguments N.ltb : simpl never.
Local Arguments N.leb : simpl never.

(* ------------------------------------------------------------------------------------------ *)
(* the configurations                                                                           *)
(* ------------------------------------------------------------------------------------------ *)
Record CfgWeb (c : cfg) : Prop := {
  W_rep : c_report c = false;
  W_fail : c_fail c = false;
  W_skip : c_skipTrailSlash c = false;
  W_path : (33 <=? ab (c_pathSet c)) = true;
  W_squery : (33 <=? ab (c_squerySet c)) = true;
  W_sfrag : (33 <=? ab (c_sfragSet c)) = true
}.

Definition cfg_web (c : cfg) : bool :=
  negb (c_report c) && negb (c_fail c) && negb (c_skipTrailSlash c)
  && (33 <=? ab (c_pathSet c)) && (33 <=? ab (c_squerySet c)) && (33 <=? ab (c_sfragSet c)).

Lemma cfg_web_sound c : cfg_web c = true -> CfgWeb c.
Proof.
  unfold cfg_web. intros H. repeat (apply andb_true_iff in H; let H' := fresh "H" in destruct H as [H H']).
  apply negb_true_iff in H, H4, H3. constructor; assumption.
Qed.

Lemma CfgRT_web c : CfgRT c -> c_skipTrailSlash c = false -> CfgWeb c.
Proof. intros R Hs. constructor; try exact Hs; apply R. Qed.

Example CfgWeb_default : CfgWeb default_cfg.
Proof. apply cfg_web_sound. vm_compute. reflexivity. Qed.
Example CfgWeb_gsb : CfgWeb (p_cfg prof_GoogleSafeBrowsing).
Proof. apply cfg_web_sound. vm_compute. reflexivity. Qed.
Example CfgWeb_sem : CfgWeb (p_cfg prof_Semantic).
Proof. apply cfg_web_sound. vm_compute. reflexivity. Qed.

(* ------------------------------------------------------------------------------------------ *)
(* well-formed escapes, non-empty segments                                                      *)
(* ------------------------------------------------------------------------------------------ *)
(* every '%' is followed by two hex digits *)
Fixpoint pct_wf (l : list N) : bool :=
  match l with [] => true | _ :: t => negb (invalid_pct l) && pct_wf t end.

Lemma pct_wf_app_r a : forall b, pct_wf (a ++ b) = true -> pct_wf b = true.
Proof.
  induction a as [|x a IH]; intros b H; [exact H|]. cbn [app pct_wf] in H. apply andb_true_iff in H. apply IH. apply H.
Qed.

Lemma invalid_pct_other x l : (x =? 37) = false -> invalid_pct (x :: l) = false.
Proof.
  intros H. destruct x as [|q]; [reflexivity|]. unfold invalid_pct.
  do 6 (destruct q as [q|q|]; try reflexivity). discriminate H.
Qed.

Lemma no37_pct_wf l : ~ In 37 l -> pct_wf l = true.
Proof.
  induction l as [|x l IH]; intros H; [reflexivity|]. cbn [pct_wf]. rewrite IH by (intros Hi; apply H; right; exact Hi).
  rewrite invalid_pct_other; [reflexivity|]. destruct (x =? 37) eqn:E; [exfalso; apply H; left; lia|reflexivity].
Qed.

(* the alternative: the option is off, or the text does not trigger it *)
Definition pq (c : cfg) (l : list N) : Prop := c_singlePct c = false \/ pct_wf l = true.

Lemma pq_app_r c a b : pq c (a ++ b) -> pq c b.
Proof. intros [H|H]; [left; exact H|right; apply (pct_wf_app_r a b H)]. Qed.

Lemma pq_tl c x l : pq c (x :: l) -> pq c l.
Proof. apply (pq_app_r c [x] l). Qed.

Definition nonempty (s : str) : bool := negb (is_nil s).

Lemma forallb_removelast {A} (f : A -> bool) l : forallb f l = true -> forallb f (removelast l) = true.
Proof.
  induction l as [|x l IH]; intros H; [reflexivity|]. cbn [forallb] in H. apply andb_true_iff in H. destruct H as [Hx Hl].
  cbn [removelast]. destruct l; [reflexivity|]. cbn [forallb]. rewrite Hx. apply IH. exact Hl.
Qed.

Lemma last_opt_nonempty l : forallb nonempty l = true ->
  match last_opt l with Some s => is_nil s | None => false end = false.
Proof.
  induction l as [|x l IH]; intros H; [reflexivity|]. cbn [forallb] in H. apply andb_true_iff in H. destruct H as [Hx Hl].
  cbn [last_opt]. destruct l as [|y l]; [unfold nonempty in Hx; apply negb_true_iff in Hx; exact Hx|]. apply IH. exact Hl.
Qed.

(* the alternative for the collapse option, on the path built so far *)
Definition cq (c : cfg) (path : list str) : Prop := c_collapse c = false \/ forallb nonempty path = true.

Lemma path_commit_pstep_w c u buf sl :
  cq c (u_path u) -> str_eqb (u_scheme u) s_file = false -> u_opaque u = false ->
  path_commit c u buf sl = set_path u (pstep sl (u_path u) buf) false.
Proof.
  intros Hc Hnf Ho. unfold path_commit, pstep. cbv zeta. rewrite Hnf, Ho, (shortenPath_nonfile _ _ Hnf).
  assert (E : c_collapse c && IsSpecialScheme c u && negb (is_nil (u_path u))
              && match last_opt (u_path u) with Some s => is_nil s | None => false end = false).
  { destruct Hc as [Hc|Hc]; [rewrite Hc; reflexivity|]. rewrite (last_opt_nonempty _ Hc). apply andb_false_r. }
  rewrite E. cbn [andb negb]. destruct (isDoubleDotPathSegment buf).
  - destruct sl; reflexivity.
  - destruct (isSingleDotPathSegment buf); cbn [andb negb].
    + destruct sl; cbn [negb]; [symmetry; apply set_path_eta; [reflexivity|exact Ho]|reflexivity].
    + reflexivity.
Qed.

Lemma pstep_nonempty acc s : forallb nonempty acc = true -> nonempty s = true -> forallb nonempty (pstep true acc s) = true.
Proof.
  intros Ha Hs. unfold pstep. destruct (isDoubleDotPathSegment s); [apply forallb_removelast; exact Ha|].
  destruct (isSingleDotPathSegment s); [exact Ha|]. rewrite forallb_app, Ha. cbn [forallb]. rewrite Hs. reflexivity.
Qed.

(* all segments of the text but the last are non-empty *)
Definition mids_nonempty (seg : str) (segs : list str) : bool := forallb nonempty (removelast (seg :: segs)).

Lemma commits_norm_w c : forall segs seg u,
  (c_collapse c = false \/ (forallb nonempty (u_path u) = true /\ mids_nonempty seg segs = true)) ->
  str_eqb (u_scheme u) s_file = false -> u_opaque u = false ->
  commits c u seg segs = set_path u (norm_from (u_path u) seg segs) false.
Proof.
  induction segs as [|s' r IH]; intros seg u Hc Hnf Ho; cbn [commits norm_from].
  - apply path_commit_pstep_w; try assumption. destruct Hc as [Hc|[Hc _]]; [left|right]; exact Hc.
  - assert (Hc1 : cq c (u_path u)) by (destruct Hc as [Hc|[Hc _]]; [left|right]; exact Hc).
    rewrite (path_commit_pstep_w c u seg true Hc1 Hnf Ho). rewrite IH; [reflexivity| |exact Hnf|reflexivity].
    destruct Hc as [Hc|[Hc Hm]]; [left; exact Hc|right]. cbn [u_path set_path].
    unfold mids_nonempty in Hm. change (removelast (seg :: s' :: r)) with (seg :: removelast (s' :: r)) in Hm.
    cbn [forallb] in Hm. apply andb_true_iff in Hm. destruct Hm as [Hs Hm]. split; [apply pstep_nonempty; assumption|exact Hm].
Qed.

(* ------------------------------------------------------------------------------------------ *)
(* the path state, whatever c_singlePct says                                                    *)
(* ------------------------------------------------------------------------------------------ *)
Section WebPath.
  Variable idna_raw : str -> str * bool.
  Variable c : cfg.
  Hypothesis Hrep : c_report c = false.
  Hypothesis Hfail : c_fail c = false.
  Variable inp : list rune.
  Variable ov : option state.

  Notation n := (n_inp inp).
  Notation stepo := (step idna_raw c inp None ov).
  Notation rest := (rest_from inp).

  Ltac unfold_step :=
    cbv beta iota zeta delta [step mk m_state m_ptr m_eof m_buf m_at m_br m_pw m_url overridden is_some].

  Lemma step_path_char_w p buf a br pw u x l :
    (c_singlePct c = false \/ invalid_pct (x :: l) = false) ->
    (-1 <= p)%Z -> rest (p + 1) = x :: l -> path_char c (IsSpecialScheme c u) x = true ->
    stepo (mk PathSt p false buf a br pw u) = Cont (mk PathSt (p + 1) false (buf ++ [x]) a br pw u).
  Proof using Hrep Hfail.
    intros Hq Hp Hr Hx. destruct (rest_uncons inp (p + 1)%Z _ _ ltac:(lia) Hr) as [Hc [Hr' Hn]].
    unfold path_char in Hx.
    apply andb_true_iff in Hx. destruct Hx as [Hx H5]. apply andb_true_iff in Hx. destruct Hx as [Hx H4].
    apply andb_true_iff in Hx. destruct Hx as [Hx H3]. apply andb_true_iff in Hx. destruct Hx as [H1 H2].
    apply negb_true_iff in H1, H2, H3, H4, H5.
    unfold_step. replace (n <=? p + 1)%Z with false by lia. cbv beta iota. rewrite Hc, Hr.
    unfold isSpecialSchemeAndBackslash. rewrite H1, H2, H3, H4. cbn [negb orb andb]. rewrite ?andb_false_r.
    match goal with |- (if ?b1 then _ else _) _ = _ => destruct b1 end; cbv beta;
      repeat (rewrite (PhaseLemmas.mherr_quiet c Hrep Hfail); cbv beta);
      (destruct Hq as [Hq|Hq];
       [destruct (invalid_pct (x :: l)); cbv beta; repeat (rewrite (PhaseLemmas.mherr_quiet c Hrep Hfail); cbv beta);
        rewrite ?(pei_id c _ x Hq H5), ?(pe_id c _ x H5); reflexivity
       |rewrite Hq; rewrite (pe_id c _ x H5); reflexivity]).
  Qed.

  Lemma seg_loop_w : forall seg p buf a br pw u tl,
    pq c (seg ++ tl) ->
    (-1 <= p)%Z -> rest (p + 1) = seg ++ tl -> forallb (path_char c (IsSpecialScheme c u)) seg = true ->
    reacheso idna_raw c inp ov (mk PathSt p false buf a br pw u) (mk PathSt (p + len seg) false (buf ++ seg) a br pw u).
  Proof using Hrep Hfail.
    induction seg as [|x l IH]; intros p buf a br pw u tl Hq Hp Hr Hl.
    - rewrite len_nil, Z.add_0_r, app_nil_r. apply reacheso_refl.
    - cbn [forallb] in Hl. apply andb_true_iff in Hl. destruct Hl as [Hx Hl].
      cbn [app] in Hr, Hq. destruct (rest_uncons inp (p + 1)%Z x _ ltac:(lia) Hr) as [Hc [Hr' Hn]].
      assert (Hq1 : c_singlePct c = false \/ invalid_pct (x :: l ++ tl) = false).
      { destruct Hq as [Hq|Hq]; [left; exact Hq|right]. cbn [pct_wf] in Hq. apply andb_true_iff in Hq. destruct Hq as [Hq _].
        apply negb_true_iff in Hq. exact Hq. }
      eapply reacheso_trans.
      + eapply reacheso_step; [apply (step_path_char_w p buf a br pw u x _ Hq1 Hp Hr Hx)|reflexivity].
      + eapply reacheso_eq; [apply (IH (p + 1)%Z _ a br pw _ tl (pq_tl c x _ Hq) ltac:(lia) Hr' Hl)|].
        rewrite len_cons, <- app_assoc. cbn [app]. f_equal. lia.
  Qed.

  (* under an override: the whole path text, up to the end of the input *)
  Theorem path_phase_ow : forall segs seg p a br pw u,
    pq c (seg ++ flat_map (fun s => 47 :: s) segs) ->
    (-1 <= p)%Z -> rest (p + 1) = seg ++ flat_map (fun s => 47 :: s) segs ->
    segs_text_ok c (IsSpecialScheme c u) (seg :: segs) = true ->
    finisheso idna_raw c inp ov (mk PathSt p false [] a br pw u) (commits c u seg segs).
  Proof using Hrep Hfail.
    induction segs as [|s1 segs IH]; intros seg p a br pw u Hq Hp Hr Hg.
    - cbn [flat_map] in Hr, Hq. unfold segs_text_ok in Hg. cbn [forallb] in Hg. rewrite andb_true_r in Hg.
      eapply reacheso_finisheso; [apply (seg_loop_w seg p [] a br pw u _ Hq Hp Hr Hg)|].
      cbn [app commits]. pose proof (rest_app inp (p + 1)%Z _ _ ltac:(blia) Hr) as Hr'.
      replace (p + 1 + len seg)%Z with (p + len seg + 1)%Z in Hr' by ring.
      pose proof (len_nonneg seg) as Hl.
      eapply finisheso_eq.
      + eapply finisheso_step; [apply (step_path_eof_o idna_raw c Hrep Hfail inp ov (p + len seg)%Z _ a br pw _ ltac:(blia) Hr')|reflexivity].
      + reflexivity.
    - cbn [flat_map] in Hr, Hq. cbn [app] in Hr, Hq.
      unfold segs_text_ok in Hg. cbn [forallb] in Hg. apply andb_true_iff in Hg. destruct Hg as [Hch Hgs].
      eapply reacheso_finisheso; [apply (seg_loop_w seg p [] a br pw u _ Hq Hp Hr Hch)|].
      cbn [app]. pose proof (rest_app inp (p + 1)%Z _ _ ltac:(blia) Hr) as Hr'.
      replace (p + 1 + len seg)%Z with (p + len seg + 1)%Z in Hr' by ring.
      pose proof (len_nonneg seg) as Hl.
      eapply reacheso_finisheso.
      + eapply reacheso_step; [apply (step_path_slash_o idna_raw c Hrep Hfail inp ov (p + len seg)%Z _ a br pw _ _ ltac:(blia) Hr')|reflexivity].
      + destruct (rest_uncons inp (p + len seg + 1)%Z _ _ ltac:(blia) Hr') as [_ [Hr2 _]].
        cbn [commits].
        apply (IH s1 (p + len seg + 1)%Z a br pw (path_commit c u seg true)).
        * apply (pq_tl c 47). apply (pq_app_r c seg). exact Hq.
        * blia.
        * rewrite Hr2. reflexivity.
        * rewrite path_commit_special. exact Hgs.
  Qed.
End WebPath.

(* the same without an override: the path is followed by the query and the fragment *)
Section WebPathParse.
  Variable idna_raw : str -> str * bool.
  Variable c : cfg.
  Hypothesis Hrep : c_report c = false.
  Hypothesis Hfail : c_fail c = false.
  Variable inp : list rune.
  Notation rest := (rest_from inp).

  Lemma reacheso_None m m' : reacheso idna_raw c inp None m m' -> reaches idna_raw c inp m m'.
  Proof using. intros H. exact H. Qed.

  Theorem path_phase_gen_w : forall segs seg p a br pw u oq of,
    pq c (seg ++ flat_map (fun s => 47 :: s) segs ++ q_tail oq ++ f_tail of) ->
    (-1 <= p)%Z -> rest (p + 1) = seg ++ flat_map (fun s => 47 :: s) segs ++ q_tail oq ++ f_tail of ->
    segs_text_ok c (IsSpecialScheme c u) (seg :: segs) = true ->
    (forall q, oq = Some q -> ~ In 35 q) ->
    finishes idna_raw c inp (mk PathSt p false [] a br pw u) (tail_res c (commits c u seg segs) oq of).
  Proof using Hrep Hfail.
    induction segs as [|s1 segs IH]; intros seg p a br pw u oq of Hpq Hp Hr Hg Hq.
    - cbn [flat_map app] in Hr, Hpq. unfold segs_text_ok in Hg. cbn [forallb] in Hg. rewrite andb_true_r in Hg.
      eapply (reaches_finishes idna_raw c Hrep Hfail);
        [apply reacheso_None; apply (seg_loop_w idna_raw c Hrep Hfail inp None seg p [] a br pw u _ Hpq Hp Hr Hg)|].
      cbn [app commits]. pose proof (rest_app inp (p + 1)%Z _ _ ltac:(blia) Hr) as Hr'.
      replace (p + 1 + len seg)%Z with (p + len seg + 1)%Z in Hr' by ring.
      pose proof (len_nonneg seg) as Hl.
      set (u' := path_commit c u seg false).
      destruct oq as [q|]; cbn [q_tail app] in Hr'.
      + eapply (reaches_finishes idna_raw c Hrep Hfail).
        * eapply (reaches_step idna_raw c Hrep Hfail); [apply (step_path_q idna_raw c Hrep Hfail inp (p + len seg)%Z _ a br pw _ _ ltac:(blia) Hr')|reflexivity].
        * destruct (rest_uncons inp (p + len seg + 1)%Z _ _ ltac:(blia) Hr') as [_ [Hr2 _]]. fold u'.
          eapply (finishes_eq idna_raw c Hrep Hfail);
            [apply (query_tail_gen idna_raw c Hrep Hfail inp (p + len seg + 1)%Z a br pw (set_query u' (Some [])) q of ltac:(blia) Hr2 eq_refl (Hq q eq_refl))|].
          unfold tail_res. destruct of; reflexivity.
      + destruct of as [f|]; cbn [f_tail] in Hr'.
        * eapply (reaches_finishes idna_raw c Hrep Hfail).
          -- eapply (reaches_step idna_raw c Hrep Hfail); [apply (step_path_h idna_raw c Hrep Hfail inp (p + len seg)%Z _ a br pw _ _ ltac:(blia) Hr')|reflexivity].
          -- destruct (rest_uncons inp (p + len seg + 1)%Z _ _ ltac:(blia) Hr') as [_ [Hr2 _]]. fold u'.
             eapply (finishes_eq idna_raw c Hrep Hfail); [apply (frag_tail_gen idna_raw c Hrep Hfail inp (p + len seg + 1)%Z a br pw (set_fragment u' (Some [])) f ltac:(blia) Hr2)|]. reflexivity.
        * eapply (finishes_eq idna_raw c Hrep Hfail).
          -- eapply (finishes_step idna_raw c Hrep Hfail); [apply (step_path_eof idna_raw c Hrep Hfail inp (p + len seg)%Z _ a br pw _ ltac:(blia) Hr')|reflexivity].
          -- reflexivity.
    - cbn [flat_map] in Hr, Hpq. rewrite <- !app_assoc in Hr, Hpq. cbn [app] in Hr, Hpq.
      unfold segs_text_ok in Hg. cbn [forallb] in Hg. apply andb_true_iff in Hg. destruct Hg as [Hch Hgs].
      eapply (reaches_finishes idna_raw c Hrep Hfail);
        [apply reacheso_None; apply (seg_loop_w idna_raw c Hrep Hfail inp None seg p [] a br pw u _ Hpq Hp Hr Hch)|].
      cbn [app]. pose proof (rest_app inp (p + 1)%Z _ _ ltac:(blia) Hr) as Hr'.
      replace (p + 1 + len seg)%Z with (p + len seg + 1)%Z in Hr' by ring.
      pose proof (len_nonneg seg) as Hl.
      eapply (reaches_finishes idna_raw c Hrep Hfail).
      + eapply (reaches_step idna_raw c Hrep Hfail); [apply (step_path_slash idna_raw c Hrep Hfail inp (p + len seg)%Z _ a br pw _ _ ltac:(blia) Hr')|reflexivity].
      + destruct (rest_uncons inp (p + len seg + 1)%Z _ _ ltac:(blia) Hr') as [_ [Hr2 _]].
        cbn [commits].
        apply (IH s1 (p + len seg + 1)%Z a br pw (path_commit c u seg true) oq of).
        * apply (pq_tl c 47). apply (pq_app_r c seg). exact Hpq.
        * blia.
        * rewrite Hr2, <- ?app_assoc. reflexivity.
        * rewrite path_commit_special. exact Hgs.
        * exact Hq.
  Qed.
End WebPathParse.

(* ------------------------------------------------------------------------------------------ *)
(* G1: the normal form of a web URL text                                                        *)
(* ------------------------------------------------------------------------------------------ *)
Lemma segs_vis_w c sp segs : (33 <=? ab (c_pathSet c)) = true -> segs_text_ok c sp segs = true ->
  forallb vis (flat_map (fun s => 47 :: s) segs) = true.
Proof.
  intros Hab H. induction segs as [|s segs IH]; [reflexivity|].
  unfold segs_text_ok in H. cbn [forallb] in H. apply andb_true_iff in H. destruct H as [Hs Hr].
  cbn [flat_map]. cbn [app forallb]. rewrite forallb_app, (IH Hr), andb_true_r.
  replace (vis 47) with true by reflexivity. cbn [andb]. rewrite forallb_forall in *. intros x Hx. specialize (Hs x Hx).
  unfold path_char in Hs. apply andb_true_iff in Hs. destruct Hs as [_ Hs]. apply negb_true_iff in Hs.
  apply (not_encoded_vis _ _ Hab Hs).
Qed.

Section NormalFormWeb.
  Variable idna_raw : str -> str * bool.
  Variable c : cfg.
  Hypothesis W : CfgWeb c.

  Let Hrep := W_rep c W.
  Let Hfail := W_fail c W.

  Lemma Parse_of_ends_w s r :
    s <> [] -> forallb printable s = true -> vis (hd 0 s) = true -> vis (last s 0) = true ->
    ends idna_raw c (map Good s) (mk SchemeStart (-1) false [] false false false (empty_url s)) r ->
    Parse idna_raw c s = to_pres r.
  Proof using W.
    intros Hne Hp Hh Hl He. unfold Parse.
    rewrite (BasicParser_factors idna_raw c Hrep Hfail). unfold parse_clean.
    rewrite (clean_sv_id _ s Hne Hp Hh Hl), (decode_printable s Hp). cbn [option_map].
    rewrite (ends_fuel idna_raw c Hrep Hfail _ _ _ _ He). reflexivity.
  Qed.

  Theorem normal_form_web k :
    comps_ok c k = true -> pq c (text_of k) ->
    (c_collapse c = false \/ forallb nonempty (removelast (k_segs k)) = true) ->
    Parse idna_raw c (text_of k) =
    match parseHost idna_raw c (pre_host c k) (k_host k) false with
    | Ok _ h => PUrl (nf c k h)
    | Er _ e => PErr e
    end.
  Proof using All.
    intros Hok Hpq Hcq. unfold comps_ok in Hok.
    repeat (apply andb_true_iff in Hok; let H := fresh "K" in destruct Hok as [Hok H]).
    rename Hok into Ksch.
    (* names: K = frag, K0 = query, K1 = segs, K2 = port, K3 = no '@', K4 = brackets, K5 = hscan, K6 = host vis,
       K7 = host non-empty, K8 = password, K9 = user, K10 = not file, K11 = special *)
    apply negb_true_iff in K3, K4, K10. apply negb_true_iff in K7. apply is_nil_false in K7.
    destruct k as [sch user pass host op segs oq of]. cbn [k_sch k_user k_pass k_host k_port k_segs k_query k_frag] in *.
    set (k := {| k_sch := sch; k_user := user; k_pass := pass; k_host := host; k_port := op; k_segs := segs;
                 k_query := oq; k_frag := of |}).
    set (s := text_of k). set (lsch := str_lower sch) in *.
    set (pn := flat_map (fun s => 47 :: s) segs).
    set (A := cred_part user pass ++ host ++ port_part op).
    assert (Hs : s = sch ++ 58 :: 47 :: 47 :: A ++ pn ++ q_tail oq ++ f_tail of).
    { unfold s, text_of, A, k. cbn [k_sch k_user k_pass k_host k_port k_segs k_query k_frag app]. rewrite <- !app_assoc. reflexivity. }
    assert (Hpqt : pq c (pn ++ q_tail oq ++ f_tail of)).
    { change (pq c s) in Hpq. rewrite Hs in Hpq. apply (pq_app_r c (sch ++ 58 :: 47 :: 47 :: A)). rewrite <- app_assoc. exact Hpq. }
    assert (Hport : port_text_ok op).
    { intros d E. subst op. cbn [port_text_okb] in K2. apply andb_true_iff in K2. exact K2. }
    assert (Hq35 : forall q, oq = Some q -> ~ In 35 q).
    { intros q E. subst oq. apply andb_true_iff in K0. destruct K0 as [_ K0]. apply negb_true_iff in K0.
      intros Hin. unfold mem in K0. assert (existsb (N.eqb 35) q = true) by (apply existsb_exists; exists 35; split; [exact Hin|reflexivity]).
      congruence. }
    destruct (scheme_text_vis sch Ksch) as [Sne Svis].
    (* the text is clean *)
    assert (Hvis : forallb vis s = true).
    { rewrite Hs, forallb_app, Svis. cbn [forallb]. rewrite !forallb_app. unfold A. rewrite !forallb_app.
      rewrite (cred_part_printable _ _ K9 K8), K6. unfold pn. rewrite (segs_vis_w c true segs (W_path c W) K1).
      replace (forallb vis (port_part op)) with true.
      2:{ destruct op as [d|]; [|reflexivity]. destruct (Hport d eq_refl) as [Hd _]. cbn [port_part forallb].
          rewrite (digits_vis d Hd). reflexivity. }
      replace (forallb vis (q_tail oq)) with true.
      2:{ destruct oq as [q|]; [|reflexivity]. apply andb_true_iff in K0. destruct K0 as [K0 _]. cbn [q_tail forallb]. rewrite K0. reflexivity. }
      replace (forallb vis (f_tail of)) with true; [reflexivity|].
      destruct of as [f|]; [|reflexivity]. cbn [f_tail forallb]. rewrite K. reflexivity. }
    assert (Hne : s <> []). { rewrite Hs. destruct sch; [congruence|discriminate]. }
    destruct (vis_all_clean s Hne Hvis) as [Hprint [Hhd Hlast]].
    (* it is enough to exhibit the run *)
    set (u1 := pre_host c k).
    assert (Hgoal : ends idna_raw c (map Good s) (mk SchemeStart (-1) false [] false false false (empty_url s))
                      match parseHost idna_raw c u1 host false with
                      | Ok _ h => RUrl (nf c k h) | Er u' e => RErr u' e end).
    2:{ rewrite (Parse_of_ends_w s _ Hne Hprint Hhd Hlast Hgoal). destruct (parseHost idna_raw c u1 host false); reflexivity. }
    (* scheme, colon, slashes *)
    assert (Hr0 : rest_from (map Good s) 0 = sch ++ 58 :: 47 :: 47 :: A ++ pn ++ q_tail oq ++ f_tail of).
    { rewrite rest_map_good. exact Hs. }
    pose proof (len_pos sch Sne) as Hls.
    eapply (reaches_ends idna_raw c Hrep Hfail (map Good s)).
    { apply (scheme_phase_mixed idna_raw c Hrep Hfail (map Good s) sch _ false false false (empty_url s) Hr0 Ksch). }
    fold lsch.
    pose proof (rest_app (map Good s) 0%Z _ _ ltac:(blia) Hr0) as Hr1.
    set (p := (len sch - 1)%Z) in *. replace (0 + len sch)%Z with (p + 1)%Z in Hr1 by (unfold p; ring).
    assert (Hp : (0 <= p)%Z) by (unfold p; blia).
    destruct (rest_uncons (map Good s) (p + 1)%Z _ _ ltac:(blia) Hr1) as [_ [Hr2 _]].
    destruct (rest_uncons (map Good s) (p + 1 + 1)%Z _ _ ltac:(blia) Hr2) as [_ [Hr3 _]].
    destruct (rest_uncons (map Good s) (p + 1 + 1 + 1)%Z _ _ ltac:(blia) Hr3) as [_ [Hr4 _]].
    set (u0 := set_scheme (empty_url s) lsch).
    eapply (reaches_ends idna_raw c Hrep Hfail (map Good s)).
    { eapply (reaches_step idna_raw c Hrep Hfail).
      - rewrite (step_scheme_colon idna_raw c Hrep Hfail _ p _ _ _ _ _ _ ltac:(blia) Hr1). rewrite K10, K11. reflexivity.
      - reflexivity. }
    eapply (reaches_ends idna_raw c Hrep Hfail (map Good s)).
    { eapply (reaches_step idna_raw c Hrep Hfail);
        [apply (step_sas idna_raw c Hrep Hfail _ (p + 1)%Z _ _ _ _ _ _ ltac:(blia) Hr2)|reflexivity]. }
    destruct (auth_first user pass host (port_part op ++ pn ++ q_tail oq ++ f_tail of) K9 K8 K5 K7) as [x [l [E1 [E2 E3]]]].
    assert (Hr4' : rest_from (map Good s) (p + 1 + 1 + 1 + 1) = x :: l).
    { rewrite Hr4. unfold A. rewrite <- !app_assoc. exact E1. }
    eapply (reaches_ends idna_raw c Hrep Hfail (map Good s)).
    { eapply (reaches_step idna_raw c Hrep Hfail);
        [apply (step_sais idna_raw c Hrep Hfail _ (p + 1 + 1 + 1)%Z _ _ _ _ _ _ _ ltac:(blia) Hr4' E2 E3)|reflexivity]. }
    replace (p + 1 + 1 + 1 + 1 - 1)%Z with (p + 1 + 1 + 1)%Z by ring. clear x l E1 E2 E3 Hr4'.
    (* the credentials *)
    assert (Hr4c : rest_from (map Good s) (p + 1 + 1 + 1 + 1) = cred_part user pass ++ (host ++ port_part op ++ pn ++ q_tail oq ++ f_tail of)).
    { rewrite Hr4. unfold A. rewrite <- !app_assoc. reflexivity. }
    destruct (cred_phase idna_raw c Hrep Hfail _ (p + 1 + 1 + 1)%Z u0 user pass _ ltac:(blia) Hr4c eq_refl eq_refl K9 K8) as [pw Hcred].
    eapply (reaches_ends idna_raw c Hrep Hfail (map Good s)); [exact Hcred|]. clear Hcred.
    change (set_password (set_username u0 user) pass) with u1.
    set (P := (p + 1 + 1 + 1 + len (cred_part user pass))%Z).
    pose proof (len_nonneg (cred_part user pass)) as Hlc.
    pose proof (rest_app (map Good s) (p + 1 + 1 + 1 + 1)%Z _ _ ltac:(blia) Hr4c) as Hr5.
    replace (p + 1 + 1 + 1 + 1 + len (cred_part user pass))%Z with (P + 1)%Z in Hr5 by (unfold P; ring).
    assert (Hsp1 : IsSpecialScheme c u1 = true) by exact K11.
    assert (Hsm : forallb (fun x => x <? 128) host = true).
    { apply vis_lt128. exact K6. }
    assert (Hend : at_end (pn ++ q_tail oq ++ f_tail of) = true) by apply at_end_tail.
    set (a := negb (is_nil user) || negb (is_nil pass)).
    (* the host *)
    pose proof (parseHost_keeps idna_raw c Hrep u1 host false) as Hkeep.
    destruct (parseHost idna_raw c u1 host false) as [u1' h'|u1' e] eqn:Eph.
    2:{ apply (host_port_fail idna_raw c Hrep Hfail _ P a pw u1 host op _ u1' e (all_good_map s) ltac:(unfold P; blia) Hr5 Hend);
          try assumption; rewrite Hsp1; assumption. }
    cbn [keeps] in Hkeep. subst u1'.
    eapply (reaches_ends idna_raw c Hrep Hfail (map Good s)).
    { apply (host_port_reach idna_raw c Hrep Hfail _ P a pw u1 host h' op _ (all_good_map s) ltac:(unfold P; blia) Hr5 Hend);
        try assumption; rewrite Hsp1; assumption. }
    apply (finishes_ends idna_raw c Hrep Hfail).
    (* the path, the query, the fragment *)
    set (u2 := port_upd c (set_host u1 (Some h')) op).
    set (X := host ++ port_part op). pose proof (len_nonneg X) as HlX.
    assert (Hr6 : rest_from (map Good s) (P + len X + 1) = pn ++ q_tail oq ++ f_tail of).
    { pose proof (rest_app (map Good s) (P + 1)%Z X (pn ++ q_tail oq ++ f_tail of) ltac:(unfold P; blia)) as G.
      replace (P + 1 + len X)%Z with (P + len X + 1)%Z in G by ring. apply G. rewrite Hr5. unfold X. rewrite <- app_assoc. reflexivity. }
    assert (Hu2 : u_scheme u2 = lsch /\ u_opaque u2 = false /\ u_path u2 = [] /\ IsSpecialScheme c u2 = true).
    { unfold u2, port_upd. destruct op as [[|y d]|]; try (repeat split; try reflexivity; exact K11).
      unfold cleanDefaultPort. cbn [u_scheme set_port set_host u_port].
      destruct (getSpecialScheme c (u_scheme u1)); repeat match goal with |- context [if ?b then _ else _] => destruct b end;
        repeat split; try reflexivity; exact K11. }
    destruct Hu2 as [U1 [U2 [U3 U4]]].
    assert (Hfin : forall seg rsegs P',
              (-1 <= P')%Z -> rest_from (map Good s) (P' + 1) = seg ++ flat_map (fun s => 47 :: s) rsegs ++ q_tail oq ++ f_tail of ->
              segs_text_ok c true (seg :: rsegs) = true -> norm_from [] seg rsegs = norm_segs segs ->
              pq c (seg ++ flat_map (fun s => 47 :: s) rsegs ++ q_tail oq ++ f_tail of) ->
              (c_collapse c = false \/ mids_nonempty seg rsegs = true) ->
              finishes idna_raw c (map Good s) (mk PathSt P' false [] a false pw u2) (nf c k h')).
    { intros seg rsegs P' HP' Hrr Hgs Hnorm Hpq' Hcq'.
      eapply (finishes_eq idna_raw c Hrep Hfail).
      - apply (path_phase_gen_w idna_raw c Hrep Hfail _ rsegs seg P' a false pw u2 oq of Hpq' HP' Hrr); [rewrite U4; exact Hgs|exact Hq35].
      - assert (Hcn : commits c u2 seg rsegs = set_path u2 (norm_from (u_path u2) seg rsegs) false).
        { apply commits_norm_w; [destruct Hcq' as [Hc'|Hc']; [left; exact Hc'|right; rewrite U3; split; [reflexivity|exact Hc']]
                                |rewrite U1; exact K10|exact U2]. }
        rewrite Hcn.
        rewrite U3, Hnorm. unfold tail_res, queryset, fragset. cbn [u_scheme set_path]. rewrite U1, K11.
        unfold nf, u2, port_upd, nf_port. cbn [k_sch k_user k_pass k_host k_port k_segs k_query k_frag k]. fold lsch s.
        destruct op as [[|y d]|]; cbn [fst snd].
        + destruct oq, of; reflexivity.
        + unfold cleanDefaultPort. cbn [u_scheme set_port set_host u_port u1 pre_host set_password set_username set_scheme k_sch k].
          fold lsch. destruct (getSpecialScheme c lsch) as [dp|]; cbn [opt_eqb].
          * destruct (str_eqb dp (itoa (digits_val 10 (y :: d)))); cbn [fst snd]; destruct oq, of; reflexivity.
          * destruct oq, of; reflexivity.
        + destruct oq, of; reflexivity. }
    destruct segs as [|seg1 rsegs] eqn:Esegs.
    - (* no path: the path state sees the empty buffer *)
      unfold pn in Hr6, Hend. cbn [flat_map app] in Hr6, Hend.
      eapply (reaches_finishes idna_raw c Hrep Hfail).
      { eapply (reaches_step idna_raw c Hrep Hfail);
          [apply (step_pathstart_special idna_raw c Hrep Hfail _ (P + len X)%Z [] a false pw u2 _ U4 (W_skip c W) ltac:(unfold P; blia) Hr6 Hend)|reflexivity].
        destruct oq; [reflexivity|]. destruct of; reflexivity. }
      apply (Hfin [] [] (P + len X + 1 - 1)%Z ltac:(unfold P; blia)); [|reflexivity|reflexivity|exact Hpqt|right; reflexivity].
      replace (P + len X + 1 - 1 + 1)%Z with (P + len X + 1)%Z by ring. exact Hr6.
    - unfold pn in Hr6. cbn [flat_map] in Hr6. rewrite <- app_assoc in Hr6. cbn [app] in Hr6.
      eapply (reaches_finishes idna_raw c Hrep Hfail).
      { eapply (reaches_step idna_raw c Hrep Hfail);
          [apply (step_pathstart_slash idna_raw c Hrep Hfail _ (P + len X)%Z [] a false pw u2 _ ltac:(unfold P; blia) Hr6)|reflexivity]. }
      destruct (rest_uncons (map Good s) (P + len X + 1)%Z _ _ ltac:(unfold P; blia) Hr6) as [_ [Hr7 _]].
      apply (Hfin seg1 rsegs (P + len X + 1)%Z ltac:(unfold P; blia)); [|exact K1|reflexivity| |exact Hcq].
      + rewrite Hr7, <- ?app_assoc. reflexivity.
      + revert Hpqt. unfold pn. cbn [flat_map]. rewrite <- app_assoc. cbn [app]. intros Hpqt. apply (pq_tl c 47). exact Hpqt.
  Qed.
End NormalFormWeb.

Print Assumptions normal_form_web.
