(* IPv6 serializer: the model's IPv6Addr.String agrees with the spec's IPv6 serializer. *)
From Verif Require Import Lib.Base Lib.Utf8 Lib.GoStr Model.Cfg Gen.Tables Model.Sets Model.Percent Model.Url Model.Host.
From Verif Require Spec.IPv6.
From Coq Require Import Lia ZifyBool ZifyN ZifyNat.

Lemma fmt_fuel_hex : forall f n, fmt_fuel 16 hex_lower f n = IPv6.hex_fuel f n.
Proof.
  induction f as [|f IH]; intros n; [reflexivity|].
  cbn [fmt_fuel IPv6.hex_fuel]. cbv zeta. unfold hex_lower.
  destruct (n <? 16) eqn:E.
  - apply N.ltb_lt in E. rewrite (N.mod_small n 16 E). reflexivity.
  - rewrite IH. reflexivity.
Qed.

Lemma fmt_hex_lower_hex n : fmt_hex n = IPv6.lower_hex n.
Proof. apply fmt_fuel_hex. Qed.

Lemma v6_print_ser_loop : forall l idx compress ignore0,
  v6_print l idx compress ignore0 = IPv6.ser_loop l idx compress ignore0.
Proof.
  induction l as [|x l IH]; intros idx compress ignore0; [reflexivity|].
  cbn [v6_print IPv6.ser_loop]. rewrite !IH, fmt_hex_lower_hex. reflexivity.
Qed.

Lemma v6_find_find_compress8 : forall a, length a = 8%nat ->
  v6_find a 0 None 0 None 0 = IPv6.find_compress a 0 None 0.
Proof.
  intros a H.
  destruct a as [|x0 a]; [discriminate H|]. destruct a as [|x1 a]; [discriminate H|].
  destruct a as [|x2 a]; [discriminate H|]. destruct a as [|x3 a]; [discriminate H|].
  destruct a as [|x4 a]; [discriminate H|]. destruct a as [|x5 a]; [discriminate H|].
  destruct a as [|x6 a]; [discriminate H|]. destruct a as [|x7 a]; [discriminate H|].
  destruct a as [|x8 a]; [|discriminate H]. clear H.
  (destruct x0 as [|p0], x1 as [|p1], x2 as [|p2], x3 as [|p3], x4 as [|p4], x5 as [|p5], x6 as [|p6], x7 as [|p7];
  reflexivity).
Qed.

Theorem IPv6String_agree : forall a, length a = 8%nat ->
  IPv6String a = Verif.Spec.IPv6.ipv6_serialize a.
Proof.
  intros a H. unfold IPv6String, IPv6.ipv6_serialize.
  rewrite v6_print_ser_loop, (v6_find_find_compress8 a H). reflexivity.
Qed.
Print Assumptions IPv6String_agree.

Example IPv6String_agree_ex :
  length [1;0;0;2;0;0;0;3] = 8%nat /\
  IPv6String [1;0;0;2;0;0;0;3] = [49; 58; 48; 58; 48; 58; 50; 58; 58; 51].
Proof. split; vm_compute; reflexivity. Qed.

(* ---------- which run is compressed ---------- *)
(* length of the run of zero pieces starting at position j *)
Definition run_at (a : list N) (j : nat) : nat := IPv6.zero_run (skipn j a).

(* position i starts the FIRST of the LONGEST runs of zero pieces, and that run has length >= 2:
   no position starts a longer run, and every position before i starts a strictly shorter one *)
Definition first_longest (a : list N) (i : nat) : Prop :=
  (2 <= run_at a i)%nat /\
  (forall j, (run_at a j <= run_at a i)%nat) /\
  (forall j, (j < i)%nat -> (run_at a j < run_at a i)%nat).

Definition fc_inv (a : list N) (idx : nat) (best : option nat) (bestLen : nat) : Prop :=
  match best with
  | None => bestLen = 0%nat /\ forall j, (j < idx)%nat -> (run_at a j < 2)%nat
  | Some i => (i < idx)%nat /\ run_at a i = bestLen /\ (2 <= bestLen)%nat /\
              (forall j, (j < idx)%nat -> (run_at a j <= bestLen)%nat) /\
              (forall j, (j < i)%nat -> (run_at a j < bestLen)%nat)
  end.

Lemma run_at_app pre l : run_at (pre ++ l) (length pre) = IPv6.zero_run l.
Proof.
  unfold run_at. rewrite skipn_app, Nat.sub_diag, skipn_all. reflexivity.
Qed.

Lemma run_at_beyond a j : (length a <= j)%nat -> run_at a j = 0%nat.
Proof. intros H. unfold run_at. rewrite skipn_all2 by exact H. reflexivity. Qed.

Lemma find_compress_inv : forall l pre best bestLen,
  fc_inv (pre ++ l) (length pre) best bestLen ->
  exists bestLen', fc_inv (pre ++ l) (length (pre ++ l)) (IPv6.find_compress l (length pre) best bestLen) bestLen'.
Proof.
  induction l as [|x l IH]; intros pre best bestLen Hinv.
  - exists bestLen. rewrite app_nil_r in *. exact Hinv.
  - cbn [IPv6.find_compress]. cbv zeta.
    pose proof (run_at_app pre (x :: l)) as Hr.
    set (r := IPv6.zero_run (x :: l)) in *.
    assert (Hstep : pre ++ x :: l = (pre ++ [x]) ++ l) by now rewrite <- app_assoc.
    assert (Hlen : S (length pre) = length (pre ++ [x])) by (rewrite app_length; cbn; lia).
    destruct ((1 <? r)%nat && (bestLen <? r)%nat) eqn:E.
    + rewrite Hstep in *. rewrite Hlen. apply IH. rewrite <- Hlen.
      apply andb_prop in E. destruct E as [E1 E2].
      apply Nat.ltb_lt in E1. apply Nat.ltb_lt in E2.
      cbn [fc_inv]. repeat split; try lia.
      * intros j Hj. destruct (Nat.eq_dec j (length pre)) as [->|Hne]; [lia|].
        destruct best as [i|]; cbn [fc_inv] in Hinv.
        -- destruct Hinv as (_ & _ & _ & H4 & _). specialize (H4 j ltac:(lia)). lia.
        -- destruct Hinv as (_ & H2). specialize (H2 j ltac:(lia)). lia.
      * intros j Hj.
        destruct best as [i|]; cbn [fc_inv] in Hinv.
        -- destruct Hinv as (_ & _ & _ & H4 & _). specialize (H4 j ltac:(lia)). lia.
        -- destruct Hinv as (_ & H2). specialize (H2 j ltac:(lia)). lia.
    + rewrite Hstep in *. rewrite Hlen. apply IH. rewrite <- Hlen.
      apply andb_false_iff in E.
      destruct best as [i|]; cbn [fc_inv] in Hinv |- *.
      * destruct Hinv as (H1 & H2 & H3 & H4 & H5). repeat split; try lia; try assumption.
        intros j Hj. destruct (Nat.eq_dec j (length pre)) as [->|Hne].
        -- destruct E as [E|E]; apply Nat.ltb_ge in E; lia.
        -- apply H4. lia.
      * destruct Hinv as (H1 & H2). split; [exact H1|].
        intros j Hj. destruct (Nat.eq_dec j (length pre)) as [->|Hne].
        -- destruct E as [E|E]; apply Nat.ltb_ge in E; lia.
        -- apply H2. lia.
Qed.

Theorem find_compress_first_longest : forall a,
  match IPv6.find_compress a 0 None 0 with
  | Some i => first_longest a i
  | None => forall j, (run_at a j < 2)%nat
  end.
Proof.
  intros a.
  destruct (find_compress_inv a [] None 0) as [bl H].
  { cbn. split; [reflexivity|]. intros j Hj. lia. }
  cbn [app length] in H.
  destruct (IPv6.find_compress a 0 None 0) as [i|]; cbn [fc_inv] in H.
  - destruct H as (H1 & H2 & H3 & H4 & H5). unfold first_longest. rewrite H2. repeat split.
    + exact H3.
    + intros j. destruct (Nat.lt_ge_cases j (length a)) as [Hj|Hj]; [apply H4; exact Hj|].
      rewrite run_at_beyond by exact Hj. lia.
    + exact H5.
  - destruct H as (_ & H2). intros j.
    destruct (Nat.lt_ge_cases j (length a)) as [Hj|Hj]; [apply H2; exact Hj|].
    rewrite run_at_beyond by exact Hj. lia.
Qed.

(* the converse: the characterisation determines the result *)
Lemma first_longest_unique a i i' : first_longest a i -> first_longest a i' -> i = i'.
Proof.
  intros (A1 & A2 & A3) (B1 & B2 & B3).
  destruct (Nat.lt_trichotomy i i') as [H|[H|H]]; [|exact H|].
  - specialize (B3 i H). specialize (A2 i'). lia.
  - specialize (A3 i' H). specialize (B2 i). lia.
Qed.

Corollary find_compress_iff a i :
  IPv6.find_compress a 0 None 0 = Some i <-> first_longest a i.
Proof.
  pose proof (find_compress_first_longest a) as H. split.
  - intros E. rewrite E in H. exact H.
  - intros F. destruct (IPv6.find_compress a 0 None 0) as [i'|].
    + f_equal. apply (first_longest_unique a); assumption.
    + destruct F as (F1 & _). specialize (H i). lia.
Qed.

Corollary find_compress_none_iff a :
  IPv6.find_compress a 0 None 0 = None <-> forall j, (run_at a j < 2)%nat.
Proof.
  pose proof (find_compress_first_longest a) as H. split.
  - intros E. rewrite E in H. exact H.
  - intros F. destruct (IPv6.find_compress a 0 None 0) as [i|]; [|reflexivity].
    destruct H as (H1 & _). specialize (F i). lia.
Qed.

Lemma run_at_pos a i : (1 <= run_at a i)%nat -> (i < length a)%nat /\ nth i a 1 = 0.
Proof.
  unfold run_at. revert i. induction a as [|x a IH]; intros i H.
  - destruct i; cbn in H; lia.
  - destruct i as [|i].
    + cbn [skipn] in H. destruct x; [|cbn in H; lia]. split; [cbn; lia|reflexivity].
    + cbn [skipn] in H. destruct (IH i H) as [H1 H2]. split; [cbn; lia|exact H2].
Qed.

(* ---------- the shape of the serialization ---------- *)
(* the text contains "::" *)
Fixpoint has_cc (s : list N) : bool :=
  match s with
  | a :: s' => ((a =? 58) && match s' with b :: _ => b =? 58 | [] => false end) || has_cc s'
  | [] => false
  end.

Lemma has_cc_iff s : has_cc s = true <-> exists pre post, s = pre ++ 58 :: 58 :: post.
Proof.
  split.
  - induction s as [|a s IH]; [discriminate|]. cbn [has_cc]. intros H.
    apply orb_prop in H. destruct H as [H|H].
    + apply andb_prop in H. destruct H as [Ha Hb]. apply N.eqb_eq in Ha. subst a.
      destruct s as [|b s]; [discriminate|]. apply N.eqb_eq in Hb. subst b.
      exists [], s. reflexivity.
    + destruct (IH H) as (pre & post & ->). exists (a :: pre), post. reflexivity.
  - intros (pre & post & ->). induction pre as [|a pre IH]; [reflexivity|].
    cbn [app has_cc]. rewrite IH. apply orb_true_r.
Qed.

(* pieces each followed by ':' ; pieces separated by ':' *)
Fixpoint ser_head (l : list N) (rest : list N) : list N :=
  match l with
  | [] => rest
  | x :: l' => IPv6.lower_hex x ++ 58 :: ser_head l' rest
  end.
Fixpoint ser_tail (l : list N) : list N :=
  match l with
  | [] => []
  | x :: l' => IPv6.lower_hex x ++ match l' with [] => [] | _ => 58 :: ser_tail l' end
  end.

Definition ser_shape (a : list N) (c : option nat) : list N :=
  match c with
  | None => ser_tail a
  | Some i => ser_head (firstn i a)
                ((if Nat.eqb i 0 then [58; 58] else [58]) ++ ser_tail (skipn (i + run_at a i) a))
  end.

Lemma ser_shape8 : forall a, length a = 8%nat ->
  IPv6.ipv6_serialize a = ser_shape a (IPv6.find_compress a 0 None 0).
Proof.
  intros a H.
  destruct a as [|x0 a]; [discriminate H|]. destruct a as [|x1 a]; [discriminate H|].
  destruct a as [|x2 a]; [discriminate H|]. destruct a as [|x3 a]; [discriminate H|].
  destruct a as [|x4 a]; [discriminate H|]. destruct a as [|x5 a]; [discriminate H|].
  destruct a as [|x6 a]; [discriminate H|]. destruct a as [|x7 a]; [discriminate H|].
  destruct a as [|x8 a]; [|discriminate H]. clear H.
  (destruct x0 as [|p0], x1 as [|p1], x2 as [|p2], x3 as [|p3], x4 as [|p4], x5 as [|p5], x6 as [|p6], x7 as [|p7];
  reflexivity).
Qed.

Lemma hex_fuel_no58 : forall f n, Forall (fun c => (c =? 58) = false) (IPv6.hex_fuel f n).
Proof.
  induction f as [|f IH]; intros n; [constructor|].
  cbn [IPv6.hex_fuel]. cbv zeta.
  assert (Hd : n mod 16 < 16) by (apply N.mod_lt; lia).
  assert (Hch : ((if n mod 16 <? 10 then 48 + n mod 16 else 87 + n mod 16) =? 58) = false).
  { destruct (n mod 16 <? 10) eqn:E; lia. }
  destruct (n <? 16).
  - constructor; [exact Hch|constructor].
  - apply Forall_app. split; [apply IH|]. constructor; [exact Hch|constructor].
Qed.

Lemma lower_hex_cons p : exists d ds, IPv6.lower_hex p = d :: ds /\ (d =? 58) = false.
Proof.
  pose proof (hex_fuel_no58 (S (N.size_nat p)) p) as F. fold (IPv6.lower_hex p) in F.
  assert (Hn : IPv6.lower_hex p <> []).
  { unfold IPv6.lower_hex. cbn [IPv6.hex_fuel]. cbv zeta.
    destruct (p <? 16); [discriminate|].
    destruct (IPv6.hex_fuel (N.size_nat p) (p / 16)); discriminate. }
  destruct (IPv6.lower_hex p) as [|d ds]; [congruence|].
  exists d, ds. split; [reflexivity|]. inversion F; assumption.
Qed.

Lemma has_cc_skip : forall h s, Forall (fun c => (c =? 58) = false) h -> has_cc (h ++ s) = has_cc s.
Proof.
  induction h as [|a h IH]; intros s F; [reflexivity|].
  inversion F as [|? ? Ha Fh]; subst. cbn [app has_cc]. rewrite Ha. cbn [andb orb]. apply IH. exact Fh.
Qed.

Lemma has_cc_lower_hex p s : has_cc (IPv6.lower_hex p ++ s) = has_cc s.
Proof. apply has_cc_skip. apply hex_fuel_no58. Qed.

Lemma has_cc_colon s : has_cc (58 :: s) = (hd 0 s =? 58) || has_cc s.
Proof. destruct s; reflexivity. Qed.

Lemma ser_tail_no_cc : forall l, has_cc (ser_tail l) = false /\ (hd 0 (ser_tail l) =? 58) = false.
Proof.
  induction l as [|x l [IH1 IH2]]; [split; reflexivity|].
  cbn [ser_tail]. split.
  - rewrite has_cc_lower_hex. destruct l as [|y l]; [reflexivity|].
    rewrite has_cc_colon, IH1, IH2. reflexivity.
  - destruct (lower_hex_cons x) as (d & ds & -> & Hd). exact Hd.
Qed.

Lemma ser_head_cc : forall l t, l <> [] -> has_cc (ser_head l (58 :: t)) = true.
Proof.
  induction l as [|x l IH]; intros t Hl; [congruence|].
  cbn [ser_head]. rewrite has_cc_lower_hex, has_cc_colon.
  destruct l as [|y l]; [reflexivity|].
  rewrite IH by discriminate. apply orb_true_r.
Qed.

Lemma nth_skipn_0 : forall (a : list N) j k, nth k (skipn j a) 1 = nth (j + k) a 1.
Proof.
  induction a as [|x a IH]; intros j k.
  - rewrite skipn_nil. destruct k, j; reflexivity.
  - destruct j; [reflexivity|]. cbn [skipn Nat.add nth]. apply IH.
Qed.

Lemma zero_run_2 l : (2 <= IPv6.zero_run l)%nat <-> nth 0 l 1 = 0 /\ nth 1 l 1 = 0.
Proof.
  destruct l as [|x l]; [cbn; split; [lia|intros [H _]; discriminate H]|].
  destruct x as [|p]; [|cbn; split; [lia|intros [H _]; discriminate H]].
  destruct l as [|y l]; [cbn; split; [lia|intros [_ H]; discriminate H]|].
  destruct y as [|q]; [|cbn; split; [lia|intros [_ H]; discriminate H]].
  cbn. split; [auto|lia].
Qed.

(* two adjacent zero pieces at j, j+1 *)
Lemma run_at_2 a j : (2 <= run_at a j)%nat <-> nth j a 1 = 0 /\ nth (S j) a 1 = 0.
Proof.
  unfold run_at. rewrite zero_run_2, !nth_skipn_0, Nat.add_0_r, Nat.add_1_r. reflexivity.
Qed.

Theorem ipv6_serialize_canonical_shape : forall a, length a = 8%nat ->
  (* "::" occurs iff there are two adjacent zero pieces *)
  (has_cc (Verif.Spec.IPv6.ipv6_serialize a) = true <-> exists j, nth j a 1 = 0 /\ nth (S j) a 1 = 0)
  /\
  (* the run replaced is the first of the longest runs, and this is the text *)
  match IPv6.find_compress a 0 None 0 with
  | None => (forall j, (run_at a j < 2)%nat) /\ Verif.Spec.IPv6.ipv6_serialize a = ser_tail a
  | Some i =>
      first_longest a i /\
      Verif.Spec.IPv6.ipv6_serialize a =
        ser_head (firstn i a)
          ((if Nat.eqb i 0 then [58; 58] else [58]) ++ ser_tail (skipn (i + run_at a i) a))
  end.
Proof.
  intros a H. pose proof (ser_shape8 a H) as Hs.
  pose proof (find_compress_first_longest a) as Hc.
  destruct (IPv6.find_compress a 0 None 0) as [i|] eqn:E; cbn [ser_shape] in Hs.
  - split; [|split; assumption].
    split.
    + intros _. exists i. apply run_at_2. destruct Hc as (Hc & _). exact Hc.
    + intros _. rewrite Hs.
      destruct Hc as (Hc & _). destruct (run_at_pos a i ltac:(lia)) as [Hi _].
      destruct i as [|i]; [reflexivity|].
      cbn [Nat.eqb app]. apply ser_head_cc.
      destruct a; [cbn in H; lia|]. cbn [firstn]. discriminate.
  - split; [|split; assumption].
    rewrite Hs. rewrite (proj1 (ser_tail_no_cc a)). split; [discriminate|].
    intros (j & Hj). apply run_at_2 in Hj. specialize (Hc j). lia.
Qed.
Print Assumptions ipv6_serialize_canonical_shape.

Example ipv6_serialize_canonical_shape_ex :
  IPv6.find_compress [1;0;0;2;0;0;0;3] 0 None 0 = Some 4%nat
  /\ IPv6.find_compress [1;0;0;2;3;0;0;4] 0 None 0 = Some 1%nat
  /\ IPv6.find_compress [1;0;2;0;3;0;4;0] 0 None 0 = None
  /\ IPv6.ipv6_serialize [1;0;0;2;3;0;0;4] = [49;58;58;50;58;51;58;48;58;48;58;52].
Proof. vm_compute. repeat split. Qed.
