(* The tie between the model's state machine and the state switch of the Go source, re-checked on every run:
   Gen/Transitions.v is REGENERATED from /repo/url/parser.go by harness/cmd/gentrans (the `switch state` of BasicParser:
   per `case StateX:` clause the `state = StateY` assignments, whether the clause mentions `base`, whether it mentions the
   state override). Proofs/TransitionGraph.v proves of the MODEL: [step_succ] (every step stays in its state or follows an
   edge of [model_edges]), [model_edges_exact] (every listed edge is taken by some concrete step), [step_base_insensitive]
   (outside [model_base_states] a step never looks at the base) and [model_base_states_needed] (inside, some step does).
   Here: the two descriptions coincide as sets. A change of the Go switch that adds, removes or redirects a transition,
   or makes another state consult the base, breaks one of these obligations even when no generated input exhibits it. *)
From Verif Require Import Lib.Base Model.Url Model.Machine Gen.Transitions Proofs.TransitionGraph.

Definition subset_edges (a b : list (state * state)) : bool :=
  forallb (fun e => existsb (edge_eqb e) b) a.
Definition subset_states (a b : list state) : bool :=
  forallb (fun s => existsb (state_eqb s) b) a.

(* every edge of the Go switch is an edge of the model, and conversely *)
Theorem go_edges_are_model_edges : subset_edges go_edges model_edges = true.
Proof. vm_compute. reflexivity. Qed.
Theorem model_edges_are_go_edges : subset_edges model_edges go_edges = true.
Proof. vm_compute. reflexivity. Qed.

(* the states whose Go clause mentions the base are exactly the states whose model step consults it *)
Theorem go_base_states_are_model_base_states :
  subset_states go_base_states model_base_states = true /\ subset_states model_base_states go_base_states = true.
Proof. split; vm_compute; reflexivity. Qed.

(* all 21 states have a clause, and the loop starts in SchemeStart unless overridden *)
Theorem go_states_complete : forall s : state, In s go_states.
Proof. intros s. destruct s; vm_compute; tauto. Qed.
Theorem go_start_is_SchemeStart : go_start_states = [SchemeStart].
Proof. reflexivity. Qed.

Lemma edge_eqb_eq e f : edge_eqb e f = true <-> e = f.
Proof.
  destruct e as [a b], f as [a' b']. unfold edge_eqb. cbn [fst snd]. rewrite Bool.andb_true_iff, !state_eqb_eq.
  split; [intros [-> ->]; reflexivity|intros E; injection E; auto].
Qed.

Lemma subset_edges_In a b : subset_edges a b = true -> forall e, In e a -> In e b.
Proof.
  unfold subset_edges. rewrite forallb_forall. intros H e He. specialize (H e He).
  apply existsb_exists in H. destruct H as [f [Hf E]]. apply edge_eqb_eq in E. subst. exact Hf.
Qed.

(* consequences stated against the GENERATED tables: what the Go switch says is what the model does *)
Theorem step_follows_go_switch : forall idna_raw c inp base ov m m',
  step idna_raw c inp base ov m = Cont m' ->
  m_state m' = m_state m \/ In (m_state m, m_state m') go_edges.
Proof.
  intros idna_raw c inp base ov m m' H. destruct (step_succ idna_raw c inp base ov m m' H) as [E|E]; [left; exact E|right].
  apply (subset_edges_In _ _ model_edges_are_go_edges). exact E.
Qed.

Theorem every_go_edge_is_taken : forall s s', In (s, s') go_edges -> realised s s'.
Proof.
  intros s s' H. apply model_edges_realised. apply (subset_edges_In _ _ go_edges_are_model_edges). exact H.
Qed.

Theorem base_read_only_where_go_reads_it : forall idna_raw c inp b1 b2 ov m,
  ~ In (m_state m) go_base_states -> step idna_raw c inp b1 ov m = step idna_raw c inp b2 ov m.
Proof.
  intros idna_raw c inp b1 b2 ov m H. apply step_base_insensitive. intros Hin. apply H.
  destruct go_base_states_are_model_base_states as [_ Hs]. unfold subset_states in Hs. rewrite forallb_forall in Hs.
  specialize (Hs _ Hin). apply existsb_exists in Hs. destruct Hs as [t [Ht E]]. apply state_eqb_eq in E. subst. exact Ht.
Qed.
