(* Dot-segment and drive-letter recognition on two encodings of the same code points.
   The path state recognises ".", "..", "%2e" ... and drive letters on the ENCODED buffer.  For two path sets
   that leave  % 2 E e  literal (dot_safe) the two encodings of one code point list are both dot segments of the
   same kind or both not; for two sets that leave letters, ':' and '|' literal (drive_safe) they are both drive
   letters - and then equal - or both not.  Used by Proofs/OptionSetsPath.v. *)
From Verif Require Import Lib.Base Lib.Utf8 Lib.GoStr Model.Cfg Gen.Tables Model.Sets Model.Percent Model.Url Model.Host Model.Machine.
From Verif Require Import Proofs.PhaseLemmas Proofs.OptionSetsBase.
From Verif Require Proofs.Utf8Proofs.
From Coq Require Import Lia ZifyBool ZifyN ZifyNat.
Ltac Zify.zify_post_hook ::= Z.div_mod_to_equations.

Local Arguments N.mul : simpl never.
Local Arguments N.add : simpl never.
Local Arguments N.sub : simpl never.
Local Arguments N.div : simpl never.
Local Arguments N.modulo : simpl never.
Local Arguments N.eqb : simpl never.
Local Arguments N.ltb : simpl never.
Local Arguments N.leb : simpl never.

(* ---------------------------------------------------------------------------------- *)
(* 1. a finite automaton for dot segments                                               *)
(* ---------------------------------------------------------------------------------- *)
(* byte classes: 0 '.', 1 '%', 2 '2', 3 'e' or 'E', 4 anything else *)
Definition cls (b : N) : N :=
  if b =? 46 then 0 else if b =? 37 then 1 else if b =? 50 then 2 else if (b =? 101) || (b =? 69) then 3 else 4.

(* state 3 * (tokens read) + (0 at a token boundary, 1 after '%', 2 after "%2"); at most two tokens *)
Definition dstepA (q k : N) : option N :=
  if 9 <=? q then None
  else if q mod 3 =? 0 then
         (if k =? 0 then (if q / 3 <? 2 then Some (3 * (q / 3 + 1)) else None)
          else if k =? 1 then Some (q + 1) else None)
  else if q mod 3 =? 1 then (if k =? 2 then Some (q + 1) else None)
  else (if k =? 3 then (if q / 3 <? 2 then Some (3 * (q / 3 + 1)) else None) else None).

Fixpoint drunA (q : N) (l : list N) : option N :=
  match l with
  | [] => Some q
  | k :: l' => match dstepA q k with Some q' => drunA q' l' | None => None end
  end.

Definition drun (q : N) (s : str) : option N := drunA q (map cls s).

Definition opt_is (o : option N) (v : N) : bool := match o with Some x => x =? v | None => false end.

Lemma drunA_app q a : forall b, drunA q (a ++ b) = match drunA q a with Some q' => drunA q' b | None => None end.
Proof.
  revert q. induction a as [|k a IH]; intros q b; [reflexivity|].
  cbn [app drunA]. destruct (dstepA q k); [apply IH|reflexivity].
Qed.

Lemma drun_app q a b : drun q (a ++ b) = match drun q a with Some q' => drun q' b | None => None end.
Proof. unfold drun. rewrite map_app. apply drunA_app. Qed.

Lemma dstepA_mono q k q' : dstepA q k = Some q' -> q + 1 <= q'.
Proof.
  unfold dstepA. destruct (9 <=? q) eqn:E9; [discriminate|].
  destruct (q mod 3 =? 0) eqn:E0.
  - destruct (k =? 0); [destruct (q / 3 <? 2); [|discriminate]|destruct (k =? 1); [|discriminate]];
      intros H; injection H as <-; lia.
  - destruct (q mod 3 =? 1) eqn:E1.
    + destruct (k =? 2); [|discriminate]. intros H; injection H as <-; lia.
    + destruct (k =? 3); [|discriminate]. destruct (q / 3 <? 2); [|discriminate]. intros H; injection H as <-; lia.
Qed.

Lemma drunA_mono l : forall q q', drunA q l = Some q' -> q + N.of_nat (length l) <= q'.
Proof.
  induction l as [|k l IH]; intros q q' H; cbn [drunA length] in *.
  - injection H as <-. lia.
  - destruct (dstepA q k) as [q1|] eqn:E; [|discriminate]. apply dstepA_mono in E. apply IH in H. lia.
Qed.

Lemma drunA_dead q k l : 9 <= q -> drunA q (k :: l) = None.
Proof. intros H. cbn [drunA]. unfold dstepA. replace (9 <=? q) with true by lia. reflexivity. Qed.

(* the two predicates of the model on class lists *)
Definition singleA (l : list N) : bool := list_eqb N.eqb l [0] || list_eqb N.eqb l [1;2;3].
Definition doubleA (l : list N) : bool :=
  list_eqb N.eqb l [0;0] || (list_eqb N.eqb l [0;1;2;3] || list_eqb N.eqb l [1;2;3;0] || list_eqb N.eqb l [1;2;3;1;2;3]).

Definition unc (k : N) : N := if k =? 0 then 46 else if k =? 1 then 37 else if k =? 2 then 50 else 101.

Lemma lower_cls b k : k < 4 -> (ascii_lower b =? unc k) = (cls b =? k).
Proof.
  intros Hk. unfold ascii_lower, is_upper, unc, cls.
  destruct (k =? 0) eqn:K0; [|destruct (k =? 1) eqn:K1; [|destruct (k =? 2) eqn:K2]];
  destruct ((65 <=? b) && (b <=? 90)) eqn:U;
  destruct (b =? 46) eqn:B1; try lia;
  destruct (b =? 37) eqn:B2; try lia;
  destruct (b =? 50) eqn:B3; try lia;
  destruct ((b =? 101) || (b =? 69)) eqn:B4; try lia.
Qed.

Lemma raw_cls b : (b =? 46) = (cls b =? 0).
Proof.
  unfold cls. destruct (b =? 46) eqn:B1; [reflexivity|].
  destruct (b =? 37); [reflexivity|]. destruct (b =? 50); [reflexivity|].
  destruct ((b =? 101) || (b =? 69)); reflexivity.
Qed.

Lemma eqb_lower_cls s : forall l, Forall (fun k => k < 4) l ->
  list_eqb N.eqb (map ascii_lower s) (map unc l) = list_eqb N.eqb (map cls s) l.
Proof.
  induction s as [|b s IH]; intros [|k l] H; try reflexivity.
  cbn [map list_eqb]. inversion H as [|? ? Hk Hl]; subst. rewrite (lower_cls b k Hk), (IH l Hl). reflexivity.
Qed.

Lemma eqb_raw_cls s : forall n, list_eqb N.eqb s (repeat 46 n) = list_eqb N.eqb (map cls s) (repeat 0 n).
Proof.
  induction s as [|b s IH]; intros [|n]; try reflexivity.
  cbn [map list_eqb repeat]. rewrite (raw_cls b), (IH n). reflexivity.
Qed.

Lemma lt4 (l : list N) : forallb (fun k => k <? 4) l = true -> Forall (fun k => k < 4) l.
Proof. intros H. apply Forall_forall. intros k Hk. rewrite forallb_forall in H. specialize (H k Hk). lia. Qed.

Lemma single_cls s : isSingleDotPathSegment s = singleA (map cls s).
Proof.
  unfold isSingleDotPathSegment, singleA, str_eqb, str_lower.
  change (list_eqb N.eqb s [46]) with (list_eqb N.eqb s (repeat 46 1)). rewrite (eqb_raw_cls s 1). cbn [repeat].
  change [37;50;101] with (map unc [1;2;3]).
  rewrite (eqb_lower_cls s [1;2;3]) by (apply lt4; reflexivity). reflexivity.
Qed.

Lemma double_cls s : isDoubleDotPathSegment s = doubleA (map cls s).
Proof.
  unfold isDoubleDotPathSegment, doubleA, str_eqb, str_lower. cbv zeta.
  change (list_eqb N.eqb s [46;46]) with (list_eqb N.eqb s (repeat 46 2)). rewrite (eqb_raw_cls s 2). cbn [repeat].
  change [46;37;50;101] with (map unc [0;1;2;3]). change [37;50;101;46] with (map unc [1;2;3;0]).
  change [37;50;101;37;50;101] with (map unc [1;2;3;1;2;3]).
  rewrite !eqb_lower_cls by (apply lt4; reflexivity). reflexivity.
Qed.

(* all class lists of a given length *)
Fixpoint lists_len (n : nat) : list (list N) :=
  match n with
  | O => [[]]
  | Datatypes.S n' => flat_map (fun l => map (fun k => k :: l) [0;1;2;3;4]) (lists_len n')
  end.

Lemma in_lists_len l : Forall (fun k => k < 5) l -> In l (lists_len (length l)).
Proof.
  induction l as [|k l IH]; intros H; [left; reflexivity|].
  inversion H as [|? ? Hk Hl]; subst. cbn [length lists_len]. apply in_flat_map. exists l. split; [apply IH, Hl|].
  assert (K : k = 0 \/ k = 1 \/ k = 2 \/ k = 3 \/ k = 4) by lia.
  cbn [map In]. destruct K as [->|[->|[->|[->| ->]]]]; auto 6.
Qed.

Lemma sweep_lists :
  forallb (fun n => forallb (fun l => Bool.eqb (singleA l) (opt_is (drunA 0 l) 3) && Bool.eqb (doubleA l) (opt_is (drunA 0 l) 6))
                            (lists_len n)) (seq 0 7) = true.
Proof. vm_compute. reflexivity. Qed.

Lemma cls_lt5 s : Forall (fun k => k < 5) (map cls s).
Proof.
  apply Forall_forall. intros k Hk. apply in_map_iff in Hk. destruct Hk as (b & <- & _). unfold cls.
  destruct (b =? 46); [lia|]. destruct (b =? 37); [lia|]. destruct (b =? 50); [lia|].
  destruct ((b =? 101) || (b =? 69)); lia.
Qed.

Lemma long_false (l : list N) : (7 <= length l)%nat -> singleA l = false /\ doubleA l = false.
Proof.
  intros H. do 7 (destruct l as [|? l]; [cbn [length] in H; lia|]).
  unfold singleA, doubleA. cbn [list_eqb]. rewrite !andb_false_r. split; reflexivity.
Qed.

Lemma dfa_lists l : Forall (fun k => k < 5) l ->
  singleA l = opt_is (drunA 0 l) 3 /\ doubleA l = opt_is (drunA 0 l) 6.
Proof.
  intros H. destruct (Nat.le_gt_cases 7 (length l)) as [L|L].
  - destruct (long_false l L) as [-> ->].
    destruct (drunA 0 l) as [q'|] eqn:E; cbn [opt_is]; [|split; reflexivity].
    apply drunA_mono in E. split; lia.
  - pose proof sweep_lists as S. rewrite forallb_forall in S.
    specialize (S (length l) ltac:(apply in_seq; lia)). rewrite forallb_forall in S.
    specialize (S l (in_lists_len l H)). apply andb_true_iff in S. destruct S as [S1 S2].
    apply Bool.eqb_prop in S1, S2. split; assumption.
Qed.

Theorem single_dfa s : isSingleDotPathSegment s = opt_is (drun 0 s) 3.
Proof. rewrite single_cls. apply (dfa_lists _ (cls_lt5 s)). Qed.
Theorem double_dfa s : isDoubleDotPathSegment s = opt_is (drun 0 s) 6.
Proof. rewrite double_cls. apply (dfa_lists _ (cls_lt5 s)). Qed.

(* ---------------------------------------------------------------------------------- *)
(* 2. one code point under two dot-safe sets                                            *)
(* ---------------------------------------------------------------------------------- *)
Definition dot_safe (t : peset) : bool :=
  negb (RuneShouldBeEncoded t 37) && negb (RuneShouldBeEncoded t 50) &&
  negb (RuneShouldBeEncoded t 69) && negb (RuneShouldBeEncoded t 101).

Lemma per_low c r t : r < 128 ->
  percentEncodeRune c r (Some t) = if RuneShouldBeEncoded t r then pct_byte r else [r].
Proof.
  intros H. unfold percentEncodeRune, latin1_enc, utf8_enc.
  replace (r <? 128) with true by lia. replace (r <? 256) with true by lia. cbn [fst flat_map]. rewrite app_nil_r.
  destruct (c_latin1 c); reflexivity.
Qed.

Lemma sweep_rune :
  forallb (fun r => mem r [37;50;69;101] ||
                    forallb (fun q => opt_eqb N.eqb (drun q [r]) (drun q (pct_byte r))) (map N.of_nat (seq 0 9)))
          (map N.of_nat (seq 0 128)) = true.
Proof. vm_compute. reflexivity. Qed.

Lemma opt_eqb_N_eq (a b : option N) : opt_eqb N.eqb a b = true -> a = b.
Proof. destruct a, b; cbn [opt_eqb]; try discriminate; try reflexivity. intros H. apply N.eqb_eq in H. congruence. Qed.

Lemma rune_pct_dfa r q : r < 128 -> r <> 37 -> r <> 50 -> r <> 69 -> r <> 101 -> drun q [r] = drun q (pct_byte r).
Proof.
  intros Hr N1 N2 N3 N4. destruct (9 <=? q) eqn:Eq.
  - unfold drun, pct_byte. cbn [map]. rewrite !drunA_dead by lia. reflexivity.
  - pose proof sweep_rune as S. rewrite forallb_forall in S.
    specialize (S r). rewrite in_map_iff in S.
    specialize (S ltac:(exists (N.to_nat r); split; [lia|apply in_seq; lia])).
    apply orb_true_iff in S. destruct S as [S|S].
    + unfold mem in S. cbn [existsb] in S. lia.
    + rewrite forallb_forall in S. apply opt_eqb_N_eq. apply S. apply in_map_iff.
      exists (N.to_nat q). split; [lia|apply in_seq; lia].
Qed.

(* the single-percent-sign variant: the set with '%' added *)
Lemma RSE_set37 t r : r <> 37 -> RuneShouldBeEncoded (pes_set t [37]) r = RuneShouldBeEncoded t r.
Proof.
  intros H. unfold RuneShouldBeEncoded, pes_set, bs_test, mem. cbn [ab bits app existsb].
  replace (r =? 37) with false by lia. reflexivity.
Qed.
Lemma RSE_set37_37 t : RuneShouldBeEncoded (pes_set t [37]) 37 = true.
Proof.
  unfold RuneShouldBeEncoded, pes_set, bs_test, mem. cbn [ab bits app existsb].
  replace (37 =? 37) with true by reflexivity. rewrite orb_true_r. reflexivity.
Qed.
Lemma per_set37 c t r : r <> 37 -> percentEncodeRune c r (Some (pes_set t [37])) = percentEncodeRune c r (Some t).
Proof. intros H. unfold percentEncodeRune. rewrite (RSE_set37 t r H). reflexivity. Qed.


Section TwoSets.
  Variables c1 c2 : cfg.
  Hypothesis Hlatin : c_latin1 c1 = c_latin1 c2.
  Hypothesis Hsp : c_singlePct c1 = c_singlePct c2.
  Variables t1 t2 : peset.

  Lemma enc_same r : percentEncodeRune c1 r None = percentEncodeRune c2 r None.
  Proof. unfold percentEncodeRune. rewrite Hlatin. reflexivity. Qed.

  Lemma per_true c r t : RuneShouldBeEncoded t r = true -> percentEncodeRune c r (Some t) = percentEncodeRune c r None.
  Proof. intros H. unfold percentEncodeRune. rewrite H. reflexivity. Qed.
  Lemma per_false c r t : RuneShouldBeEncoded t r = false -> percentEncodeRune c r (Some t) = utf8_enc r.
  Proof. intros H. unfold percentEncodeRune. rewrite H. reflexivity. Qed.

  Lemma safe_not t r : dot_safe t = true -> RuneShouldBeEncoded t r = true -> r <> 37 /\ r <> 50 /\ r <> 69 /\ r <> 101.
  Proof.
    unfold dot_safe. intros H E. repeat (apply andb_true_iff in H; let K := fresh "K" in destruct H as [H K]).
    apply negb_true_iff in H, K, K0, K1. repeat split; intros ->; congruence.
  Qed.

  Lemma mixed_dfa ca cb ta tb r q : c_latin1 ca = c_latin1 cb -> dot_safe ta = true ->
    RuneShouldBeEncoded ta r = true -> RuneShouldBeEncoded tb r = false ->
    drun q (percentEncodeRune ca r (Some ta)) = drun q (percentEncodeRune cb r (Some tb)).
  Proof.
    intros HL Hs Ea Eb.
    assert (Hr : r < 128).
    { unfold RuneShouldBeEncoded in Eb. apply orb_false_iff in Eb. destruct Eb as [Eb _].
      apply orb_false_iff in Eb. destruct Eb as [_ Eb]. lia. }
    destruct (safe_not ta r Hs Ea) as (N1 & N2 & N3 & N4).
    rewrite !per_low by exact Hr. rewrite Ea, Eb. symmetry. apply rune_pct_dfa; assumption.
  Qed.

  Lemma per_dfa r q : dot_safe t1 = true -> dot_safe t2 = true ->
    drun q (percentEncodeRune c1 r (Some t1)) = drun q (percentEncodeRune c2 r (Some t2)).
  Proof.
    intros S1 S2.
    destruct (RuneShouldBeEncoded t1 r) eqn:E1; destruct (RuneShouldBeEncoded t2 r) eqn:E2.
    - rewrite !per_true by assumption. rewrite enc_same. reflexivity.
    - apply mixed_dfa; assumption.
    - symmetry. apply mixed_dfa; [symmetry; exact Hlatin|assumption..].
    - rewrite !per_false by assumption. reflexivity.
  Qed.

  Lemma peir_dfa r q : dot_safe t1 = true -> dot_safe t2 = true ->
    drun q (percentEncodeInvalidRune c1 r t1) = drun q (percentEncodeInvalidRune c2 r t2).
  Proof.
    intros S1 S2. unfold percentEncodeInvalidRune. rewrite Hsp. destruct (c_singlePct c2); [|apply per_dfa; assumption].
    destruct (N.eq_dec r 37) as [->|N].
    - rewrite !per_true by apply RSE_set37_37. rewrite enc_same. reflexivity.
    - rewrite !per_set37 by exact N. apply per_dfa; assumption.
  Qed.
End TwoSets.

Section TwoCfgs.
  Variables c1 c2 : cfg.
  Hypothesis Hlatin : c_latin1 c1 = c_latin1 c2.
  Hypothesis Hsp : c_singlePct c1 = c_singlePct c2.
  Hypothesis S1 : dot_safe (c_pathSet c1) = true.
  Hypothesis S2 : dot_safe (c_pathSet c2) = true.

  Lemma encp_dfa w : forall q, drun q (encp c1 w) = drun q (encp c2 w).
  Proof.
    induction w as [|[r b] w IH]; intros q; [reflexivity|].
    change ((r, b) :: w) with ([(r, b)] ++ w). rewrite !encp_app, !drun_app, !encp_one.
    assert (E : drun q (if b then percentEncodeInvalidRune c1 r (c_pathSet c1) else percentEncodeRune c1 r (Some (c_pathSet c1))) =
                drun q (if b then percentEncodeInvalidRune c2 r (c_pathSet c2) else percentEncodeRune c2 r (Some (c_pathSet c2)))).
    { destruct b; [apply peir_dfa|apply per_dfa]; assumption. }
    rewrite E.
    match goal with |- match ?X with _ => _ end = _ => destruct X as [q'|] end; [apply IH|reflexivity].
  Qed.

  (* the two buffers are dot segments of the same kind *)
  Theorem dots_same b0 w :
    isSingleDotPathSegment (b0 ++ encp c1 w) = isSingleDotPathSegment (b0 ++ encp c2 w) /\
    isDoubleDotPathSegment (b0 ++ encp c1 w) = isDoubleDotPathSegment (b0 ++ encp c2 w).
  Proof.
    rewrite !single_dfa, !double_dfa, !drun_app.
    destruct (drun 0 b0) as [q|]; [|split; reflexivity]. rewrite (encp_dfa w q). split; reflexivity.
  Qed.
End TwoCfgs.

(* ---------------------------------------------------------------------------------- *)
(* 3. drive letters                                                                      *)
(* ---------------------------------------------------------------------------------- *)
Definition DC (b : N) : bool := isAlpha b || (b =? 58) || (b =? 124).

Definition drive_safe (t : peset) : bool :=
  forallb (fun r => negb (RuneShouldBeEncoded t r)) (58 :: 124 :: bs_ASCIIAlpha).

Lemma DC_in b : DC b = true -> In b (58 :: 124 :: bs_ASCIIAlpha).
Proof.
  unfold DC, isAlpha, bs_test, mem. intros H. apply orb_true_iff in H. destruct H as [H|H].
  - apply orb_true_iff in H. destruct H as [H|H].
    + right; right. apply existsb_exists in H. destruct H as (y & Hy & E). apply N.eqb_eq in E. subst y. exact Hy.
    + left. lia.
  - right; left. lia.
Qed.

Lemma DC_safe t b : drive_safe t = true -> DC b = true -> RuneShouldBeEncoded t b = false.
Proof.
  intros H Hb. unfold drive_safe in H. rewrite forallb_forall in H. specialize (H b (DC_in b Hb)).
  apply negb_true_iff in H. exact H.
Qed.

Lemma DC_small b : DC b = true -> b < 128 /\ b <> 37.
Proof.
  intros H. apply DC_in in H.
  assert (S : forallb (fun x => (x <? 128) && negb (x =? 37)) (58 :: 124 :: bs_ASCIIAlpha) = true) by (vm_compute; reflexivity).
  rewrite forallb_forall in S. specialize (S b H). lia.
Qed.

Lemma DC_forall_hd x l : Forall (fun b => DC b = true) (x :: l) -> x < 128 /\ x <> 37.
Proof. intros H. inversion H; subst. apply DC_small. assumption. Qed.

(* a code point whose encoding consists of drive-letter bytes only is such a byte, left literal *)
Lemma per_DC c t r : Forall (fun b => DC b = true) (percentEncodeRune c r (Some t)) ->
  RuneShouldBeEncoded t r = false /\ DC r = true /\ percentEncodeRune c r (Some t) = [r].
Proof.
  intros H. unfold percentEncodeRune in *. destruct (RuneShouldBeEncoded t r) eqn:E.
  - exfalso. destruct (c_latin1 c).
    + unfold pct_byte in H. apply DC_forall_hd in H. lia.
    + pose proof (Utf8Proofs.utf8_enc_nonempty r) as Ne. destruct (utf8_enc r) as [|b bs]; [congruence|].
      cbn [flat_map pct_byte app] in H. apply DC_forall_hd in H. lia.
  - split; [reflexivity|]. unfold utf8_enc in *. destruct (r <? 128) eqn:E1.
    + inversion H; subst. split; [assumption|reflexivity].
    + exfalso. destruct (r <? 2048); [apply DC_forall_hd in H; lia|].
      destruct (is_surrogate r || (1114111 <? r)); [apply DC_forall_hd in H; lia|].
      destruct (r <? 65536); apply DC_forall_hd in H; lia.
Qed.

Lemma lit_DC c t r : drive_safe t = true -> DC r = true ->
  percentEncodeRune c r (Some t) = [r] /\ percentEncodeInvalidRune c r t = [r].
Proof.
  intros Hs Hr. destruct (DC_small r Hr) as [H1 H2].
  assert (E : percentEncodeRune c r (Some t) = [r]).
  { rewrite per_low by exact H1. rewrite (DC_safe t r Hs Hr). reflexivity. }
  split; [exact E|]. unfold percentEncodeInvalidRune. destruct (c_singlePct c); [|exact E].
  unfold percentEncodeRune. rewrite (RSE_set37 t r H2), (DC_safe t r Hs Hr).
  unfold utf8_enc. replace (r <? 128) with true by lia. reflexivity.
Qed.

Lemma peir_DC c t r : Forall (fun b => DC b = true) (percentEncodeInvalidRune c r t) ->
  DC r = true /\ percentEncodeInvalidRune c r t = [r].
Proof.
  unfold percentEncodeInvalidRune. destruct (c_singlePct c); intros H; apply per_DC in H; destruct H as (_ & H1 & H2);
    split; assumption.
Qed.

Section DriveEq.
  Variables ca cb : cfg.
  Hypothesis Hsafe : drive_safe (c_pathSet cb) = true.

  Lemma encp_DC_eq w : Forall (fun b => DC b = true) (encp ca w) -> encp ca w = encp cb w.
  Proof.
    induction w as [|[r b] w IH]; intros H; [reflexivity|].
    change ((r, b) :: w) with ([(r, b)] ++ w) in *. rewrite !encp_app in *. apply Forall_app in H. destruct H as [H1 H2].
    rewrite (IH H2). f_equal. rewrite !encp_one in *. destruct b.
    - apply peir_DC in H1. destruct H1 as [Hr E]. rewrite E. symmetry. apply (lit_DC cb _ r Hsafe Hr).
    - apply per_DC in H1. destruct H1 as (_ & Hr & E). rewrite E. symmetry. apply (lit_DC cb _ r Hsafe Hr).
  Qed.
End DriveEq.

(* a predicate that only accepts strings of drive-letter bytes cannot tell the two encodings apart,
   and where it accepts them they are equal *)
Theorem DC_pred_same (P : str -> bool) c1 c2 b0 w :
  (forall s, P s = true -> Forall (fun b => DC b = true) s) ->
  drive_safe (c_pathSet c1) = true -> drive_safe (c_pathSet c2) = true ->
  P (b0 ++ encp c1 w) = P (b0 ++ encp c2 w) /\ (P (b0 ++ encp c1 w) = true -> encp c1 w = encp c2 w).
Proof.
  intros HP S1 S2. destruct (P (b0 ++ encp c1 w)) eqn:E1.
  - pose proof (HP _ E1) as F. apply Forall_app in F. destruct F as [_ F].
    pose proof (encp_DC_eq c1 c2 S2 w F) as E. rewrite <- E, E1. split; [reflexivity|intros _; reflexivity].
  - split; [|discriminate]. destruct (P (b0 ++ encp c2 w)) eqn:E2; [|reflexivity].
    pose proof (HP _ E2) as F. apply Forall_app in F. destruct F as [_ F].
    pose proof (encp_DC_eq c2 c1 S1 w F) as E. rewrite E, E1 in E2. discriminate E2.
Qed.

Lemma isWDL_DC s : isWindowsDriveLetter s = true -> Forall (fun b => DC b = true) s.
Proof.
  destruct s as [|a [|b [|x s]]]; cbn [isWindowsDriveLetter]; try discriminate.
  intros H. apply andb_true_iff in H. destruct H as [H1 H2]. unfold DC.
  repeat constructor; [rewrite H1; reflexivity|].
  apply orb_true_iff in H2. destruct H2 as [H2|H2]; rewrite H2, ?orb_true_r; reflexivity.
Qed.

Lemma isNWDL_DC s : isNormalizedWindowsDriveLetter s = true -> Forall (fun b => DC b = true) s.
Proof.
  destruct s as [|a [|b [|x s]]]; cbn [isNormalizedWindowsDriveLetter]; try discriminate.
  intros H. apply andb_true_iff in H. destruct H as [H1 H2]. unfold DC.
  repeat constructor; [rewrite H1; reflexivity|rewrite H2, orb_true_r; reflexivity].
Qed.

Print Assumptions single_dfa.
Print Assumptions double_dfa.
Print Assumptions dots_same.
Print Assumptions DC_pred_same.
