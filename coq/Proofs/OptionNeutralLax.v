(* N8: lax host parsing is a conservative extension of strict host parsing at the level of the whole parser:
   it changes the result only for inputs the strict parser rejects. *)
From Coq Require Import String.
From Verif Require Import Lib.Base Lib.Utf8 Lib.GoStr Model.Cfg Gen.Tables Gen.Options Model.Sets Model.Percent Model.Url Model.Host Model.Machine Model.Api.
From Verif Require Import Proofs.OptionTable Proofs.Cleaning Proofs.OptionNeutralBase Proofs.OptionNeutral.

(* r1 <= r2 : equal, or the first (strict) host parser failed *)
Definition hres_le {A} (r1 r2 : res A) : Prop := r1 = r2 \/ exists u e, r1 = Er u e.

Section Lax.
  Variable idna_raw : str -> str * bool.
  Variable c : cfg.
  Notation c1 := (with_lax c false).
  Notation c2 := (with_lax c true).

  Lemma he_lax u t f : handleError c1 u t f = handleError c2 u t f.
  Proof. reflexivity. Qed.

  Lemma herr_le {A} u t f (k1 k2 : url -> res A) :
    (forall u', hres_le (k1 u') (k2 u')) -> hres_le (herr c1 u t f k1) (herr c2 u t f k2).
  Proof.
    intros H. unfold herr. rewrite he_lax. destruct (handleError c2 u t f) as [u' [e|]]; [left; reflexivity|apply H].
  Qed.

  Lemma herr_fail {A} u t (k : url -> res A) : exists u' e, herr c1 u t true k = Er u' e.
  Proof. unfold herr, handleError. cbn [orb]. eauto. Qed.

  Lemma opaque_loop_le input l : forall u out,
    hres_le (opaque_loop c1 u input l out) (opaque_loop c2 u input l out).
  Proof.
    induction l as [|ch rest IH]; intros u out; [left; reflexivity|].
    cbn [opaque_loop]. cbn [c_lax with_lax].
    assert (K : forall u, hres_le
        ((if negb (isURLCodePoint ch) && negb (ch =? 37)
          then (fun k => herr c1 u InvalidURLUnit false k) else (fun k => k u))
         (fun u =>
           (if (ch =? 37) && invalid_pct (ch :: rest)
            then (fun k => herr c1 u InvalidURLUnit false k) else (fun k => k u))
           (fun u => opaque_loop c1 u input rest (out ++ percentEncodeRune c1 ch (Some pes_C0)))))
        ((if negb (isURLCodePoint ch) && negb (ch =? 37)
          then (fun k => herr c2 u InvalidURLUnit false k) else (fun k => k u))
         (fun u =>
           (if (ch =? 37) && invalid_pct (ch :: rest)
            then (fun k => herr c2 u InvalidURLUnit false k) else (fun k => k u))
           (fun u => opaque_loop c2 u input rest (out ++ percentEncodeRune c2 ch (Some pes_C0)))))).
    { intros v.
      assert (K2 : forall v, hres_le
          ((if (ch =? 37) && invalid_pct (ch :: rest)
            then (fun k => herr c1 v InvalidURLUnit false k) else (fun k => k v))
           (fun u => opaque_loop c1 u input rest (out ++ percentEncodeRune c1 ch (Some pes_C0))))
          ((if (ch =? 37) && invalid_pct (ch :: rest)
            then (fun k => herr c2 v InvalidURLUnit false k) else (fun k => k v))
           (fun u => opaque_loop c2 u input rest (out ++ percentEncodeRune c2 ch (Some pes_C0))))).
      { intros w. change (percentEncodeRune c1 ch (Some pes_C0)) with (percentEncodeRune c2 ch (Some pes_C0)).
        destruct ((ch =? 37) && invalid_pct (ch :: rest)); [apply herr_le; intros|]; apply IH. }
      destruct (negb (isURLCodePoint ch) && negb (ch =? 37)); [apply herr_le; intros|]; apply K2. }
    destruct (isForbiddenHost ch); [|apply K].
    right. apply herr_fail.
  Qed.

  Lemma ToASCII_le d :
    ToASCII idna_raw c1 d = ToASCII idna_raw c2 d \/ ToASCII idna_raw c1 d = None.
  Proof.
    unfold ToASCII. destruct d as [|d0 d']; [left; reflexivity|].
    cbn [c_latin1 c_lax with_lax negb].
    match goal with |- context [idna_raw ?s] => destruct (idna_raw s) as [a err] end.
    destruct err; cbn [andb].
    - match goal with |- context [containsOnlyASCIIOrMiscAndNoPunycode ?s] =>
        destruct (containsOnlyASCIIOrMiscAndNoPunycode s) end; [left; reflexivity|right; reflexivity].
    - left; reflexivity.
  Qed.

  Lemma host_clean_lax u a : host_clean c1 u a = host_clean c2 u a.
  Proof. apply host_clean_congr; reflexivity. Qed.

  Lemma host_valid_le d u : hres_le (host_valid idna_raw c1 d u) (host_valid idna_raw c2 d u).
  Proof.
    unfold host_valid. destruct (ToASCII_le d) as [E|E]; rewrite E.
    - destruct (ToASCII idna_raw c2 d) as [a|]; cbn [c_lax with_lax].
      + destruct (existsb isForbiddenDomain (runes a)); [right; apply herr_fail|].
        left. apply host_clean_lax.
      + right. apply herr_fail.
    - cbn [c_lax with_lax]. right. apply herr_fail.
  Qed.

  Lemma host_domain_le u s : hres_le (host_domain idna_raw c1 u s) (host_domain idna_raw c2 u s).
  Proof.
    unfold host_domain. cbv zeta. rewrite (dpe_congr c1 c2 eq_refl). cbn [c_lax with_lax].
    destruct (negb (valid_utf8 (DecodePercentEncoded c2 s))); [right; apply herr_fail|apply host_valid_le].
  Qed.

  (* the host-level statement *)
  Theorem parseHost_le u s ns : hres_le (parseHost idna_raw c1 u s ns) (parseHost idna_raw c2 u s ns).
  Proof.
    rewrite !parseHost_unfold. cbv zeta. cbn [c_pre with_lax].
    destruct (apply_hostfun (c_pre c) s) as [|x r]; [left; reflexivity|].
    destruct (x =? 91); [left; apply host_v6_congr; reflexivity|].
    destruct ns; [apply opaque_loop_le|apply host_domain_le].
  Qed.

  Corollary parseHost_lax_conservative u s ns u' h :
    parseHost idna_raw c1 u s ns = Ok u' h -> parseHost idna_raw c2 u s ns = Ok u' h.
  Proof.
    intros H. destruct (parseHost_le u s ns) as [E|[v [e E]]]; [rewrite <- E; exact H|congruence].
  Qed.

  (* one step *)
  Lemma lax_step inp base ov m :
    step idna_raw c1 inp base ov m = step idna_raw c2 inp base ov m
    \/ exists u e, step idna_raw c1 inp base ov m = RetErr u e.
  Proof.
    destruct (step_congr idna_raw c1 c2 inp base ov eq_refl eq_refl eq_refl eq_refl eq_refl eq_refl eq_refl eq_refl eq_refl
                (fun _ _ => eq_refl) True m) as [E|[_ E]]; auto.
    intros _ ns. destruct (parseHost_le (m_url m) (m_buf m) ns) as [E|E]; auto.
  Qed.

  Theorem lax_conservative_run inp base ov fuel m :
    res_le (run idna_raw c1 inp base ov fuel m) (run idna_raw c2 inp base ov fuel m).
  Proof.
    apply (run_sim idna_raw _ _ inp base ov (fun _ => True)); auto.
    intros; apply lax_step.
  Qed.

  Theorem lax_conservative_BasicParser x base u0 ov :
    res_le (BasicParser idna_raw c1 x base u0 ov) (BasicParser idna_raw c2 x base u0 ov).
  Proof. apply BasicParser_lift; try reflexivity. intros v i. apply lax_conservative_run. Qed.

  Lemma to_pres_le r1 r2 : res_le r1 r2 -> to_pres r1 = to_pres r2 \/ exists e, to_pres r1 = PErr e.
  Proof. intros [->|[u [e ->]]]; [left; reflexivity|right; eexists; reflexivity]. Qed.

  (* whatever the strict parser accepts, the lax parser maps to the same record (every field, recorded errors included) *)
  Theorem lax_conservative x u : Parse idna_raw c1 x = PUrl u -> Parse idna_raw c2 x = PUrl u.
  Proof.
    unfold Parse. intros H. destruct (to_pres_le _ _ (lax_conservative_BasicParser x None None None)) as [E|[e E]].
    - rewrite <- E. exact H.
    - rewrite E in H. discriminate.
  Qed.

  Theorem lax_conservative_UrlParse b x u : UrlParse idna_raw c1 b x = PUrl u -> UrlParse idna_raw c2 b x = PUrl u.
  Proof.
    unfold UrlParse. intros H. destruct (to_pres_le _ _ (lax_conservative_BasicParser x (Some b) None None)) as [E|[e E]].
    - rewrite <- E. exact H.
    - rewrite E in H. discriminate.
  Qed.

  (* the same, said the other way round: the two parsers differ only where the strict one returns an error *)
  Theorem lax_differs_only_on_errors x :
    Parse idna_raw c2 x = Parse idna_raw c1 x \/ exists e, Parse idna_raw c1 x = PErr e.
  Proof.
    unfold Parse. destruct (to_pres_le _ _ (lax_conservative_BasicParser x None None None)) as [E|E]; auto.
  Qed.

  Theorem lax_conservative_ParseRef x r u : ParseRef idna_raw c1 x r = PUrl u -> ParseRef idna_raw c2 x r = PUrl u.
  Proof.
    unfold ParseRef. destruct x as [|x0 x']; [apply lax_conservative|].
    destruct (Parse idna_raw c1 (x0 :: x')) as [b| | | |] eqn:P; try discriminate.
    rewrite (lax_conservative _ _ P). apply lax_conservative_UrlParse.
  Qed.
End Lax.
Print Assumptions parseHost_le.
Print Assumptions lax_conservative_run.
Print Assumptions lax_conservative.
Print Assumptions lax_conservative_UrlParse.
Print Assumptions lax_conservative_ParseRef.

(* the premise holds for a non-trivial value *)
Example lax_conservative_ex : exists u,
  Parse id_idna (with_lax default_cfg false) (bs "http://user@ExAmple.org:8080/a?b#c"%string) = PUrl u.
Proof. eexists. vm_compute. reflexivity. Qed.

(* the converse fails: the lax parser accepts inputs the strict one rejects (that is its purpose) *)
Lemma lax_converse_refuted : exists x u,
  Parse id_idna (with_lax default_cfg true) x = PUrl u /\
  exists e, Parse id_idna (with_lax default_cfg false) x = PErr e.
Proof. exists (bs "http://a b/"%string). eexists. split; [vm_compute; reflexivity|eexists; vm_compute; reflexivity]. Qed.
