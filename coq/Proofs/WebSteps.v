(* Ordinary web URLs under configurations outside CfgRT: the two places where the evaluation of the repeated block
   (RepeatedIdem.v) reads the options that CfgRT fixes.
   - SetPathname on a literal pathname, whatever c_singlePct and c_collapse say (no '%' in the text; no empty
     segment but the last);
   - the round trip of the query codec on lists of literal names and values, whatever c_latin1, c_acceptInvalid
     and c_skipEq say (with the skip option no pair may be ("", "")). *)
From Verif Require Import Lib.Base Lib.Utf8 Lib.GoStr Model.Cfg Gen.Tables Gen.Options Model.Sets Model.Percent
  Model.Url Model.Host Model.Machine Model.Api Model.Canon Model.Preds.
From Verif Require Import Proofs.SetsProofs Proofs.Cleaning Proofs.PhaseLemmas Proofs.RecordInv
  Proofs.SearchParamsProofs Proofs.HostProofs Proofs.CanonTotal
  Proofs.RoundTripBase Proofs.RoundTripPhases Proofs.RoundTripSpecial Proofs.NormalFormPhases Proofs.NormalForm
  Proofs.SpellingDecode Proofs.RepeatedSteps Proofs.WebCfg.
From Verif Require Proofs.Utf8Proofs.
From Coq Require Import Lia ZifyBool ZifyN ZifyNat.

Local Arguments N.mul : simpl never.
Local Arguments N.add : simpl never.
Local Arguments N.sub : simpl never.
Local Arguments N.eqb : simpl never.
Local Arguments N.ltb : simpl never.
Local Arguments N.leb : simpl never.

(* ------------------------------------------------------------------------------------------ *)
(* SetPathname                                                                                  *)
(* ------------------------------------------------------------------------------------------ *)
Section EvalW.
  Variable idna_raw : str -> str * bool.
  Variable c : cfg.
  Hypothesis Hrep : c_report c = false.
  Hypothesis Hfail : c_fail c = false.

  Theorem SetPathname_eval_w u seg segs :
    pq c (pathname_of (seg :: segs)) -> (c_collapse c = false \/ mids_nonempty seg segs = true) ->
    (33 <=? ab (c_pathSet c)) = true ->
    u_opaque u = false -> str_eqb (u_scheme u) s_file = false ->
    segs_text_ok c (IsSpecialScheme c u) (seg :: segs) = true ->
    SetPathname idna_raw c u (pathname_of (seg :: segs)) =
    Some (set_path (set_input u (pathname_of (seg :: segs))) (norm_segs (seg :: segs)) false).
  Proof using All.
    intros Hpq Hcq Hab Ho Hnf Hg. unfold SetPathname. rewrite Ho.
    pose proof (pathname_printable idna_raw c Hrep Hfail _ _ Hab Hg) as Hp. rewrite (BP_ov_printable idna_raw c Hrep Hfail _ _ _ Hp).
    set (s := pathname_of (seg :: segs)) in *. set (u' := set_input (set_path u [] false) s).
    assert (F : finisheso idna_raw c (map Good s) (Some PathStart) (mk PathStart (-1) false [] false false false u')
                  (commits c u' seg segs)).
    { assert (R0 : rest_from (map Good s) (-1 + 1) = 47 :: seg ++ pathname_of segs) by (change (-1 + 1)%Z with 0%Z; rewrite rest_map_good; reflexivity).
      eapply reacheso_finisheso.
      - eapply reacheso_step; [apply (step_pathstart_slash_o idna_raw c Hrep Hfail _ _ (-1)%Z [] false false false u' _ ltac:(lia) R0)|reflexivity].
      - destruct (rest_uncons _ (-1 + 1)%Z _ _ ltac:(lia) R0) as [_ [R1 _]].
        apply (path_phase_ow idna_raw c Hrep Hfail _ _ segs seg (-1 + 1)%Z false false false u'); [|lia|exact R1|exact Hg].
        apply (pq_tl c 47). exact Hpq. }
    rewrite (finisheso_fuel idna_raw c _ _ _ _ _ F). cbn [after].
    rewrite (commits_norm_w c segs seg u'); [reflexivity| |exact Hnf|reflexivity].
    destruct Hcq as [Hc|Hc]; [left; exact Hc|right; split; [reflexivity|exact Hc]].
  Qed.
End EvalW.

(* ------------------------------------------------------------------------------------------ *)
(* the query codec on literal names and values                                                  *)
(* ------------------------------------------------------------------------------------------ *)
(* ASCII, no '%' '&' '+' '=' *)
Definition litq (x : N) : bool := (x <? 128) && negb (x =? 37) && negb (x =? 38) && negb (x =? 43) && negb (x =? 61).

Lemma litq_notin s y : forallb litq s = true -> (y = 37 \/ y = 38 \/ y = 43 \/ y = 61) -> ~ In y s.
Proof.
  intros H Hy Hi. rewrite forallb_forall in H. specialize (H y Hi). unfold litq in H.
  destruct Hy as [-> | [-> | [-> | ->]]]; vm_compute in H; discriminate H.
Qed.

Lemma litq_ascii s : forallb litq s = true -> Forall (fun b => b < 128) s.
Proof. intros H. rewrite Forall_forall. rewrite forallb_forall in H. intros x Hx. specialize (H x Hx). unfold litq in H. lia. Qed.

Lemma D_no37 c s : ~ In 37 s -> DecodePercentEncoded c s = s.
Proof.
  induction s as [|b s IH]; intros H; [reflexivity|]. cbn [DecodePercentEncoded].
  assert (Hb : (b =? 37) = false) by (destruct (b =? 37) eqn:E; [exfalso; apply H; left; lia|reflexivity]).
  rewrite Hb, IH; [reflexivity|]. intros Hi. apply H. right. exact Hi.
Qed.

Lemma sp_scalar_ascii c s : Forall (fun b => b < 128) s -> sp_scalar c s = s.
Proof. intros H. unfold sp_scalar. rewrite (valid_utf8_ascii s H), orb_true_r. reflexivity. Qed.

(* what sp_init makes of a literal string *)
Lemma init_lit c s : forallb litq s = true -> sp_scalar c (DecodePercentEncoded c (plus_to_space s)) = s.
Proof.
  intros H. rewrite (plus_to_space_id s (litq_notin s 43 H ltac:(auto))), (D_no37 c s (litq_notin s 37 H ltac:(auto))).
  apply sp_scalar_ascii. apply litq_ascii. exact H.
Qed.

(* a pair of literal strings that the serializer writes as they are *)
Definition lpair (c : cfg) (nv : str * str) : Prop :=
  forallb litq (fst nv) = true /\ forallb litq (snd nv) = true /\
  QueryEscape c (fst nv) = fst nv /\ QueryEscape c (snd nv) = snd nv /\
  (c_skipEq c = false \/ (fst nv = [] -> snd nv <> [])).

Lemma ser_pair_lpair c nv : lpair c nv ->
  ser_pair c nv = fst nv ++ (if negb (c_skipEq c) || negb (is_nil (snd nv)) then [61] else []) ++ snd nv.
Proof.
  destruct nv as [n v]. intros [_ [_ [En [Ev _]]]]. cbn [fst snd] in *. unfold ser_pair. rewrite En.
  destruct v as [|y v]; cbn [is_nil negb]; [reflexivity|]. rewrite Ev. reflexivity.
Qed.

Lemma ser_pair_lpair_no_amp c nv : lpair c nv -> ~ In 38 (ser_pair c nv).
Proof.
  intros H. rewrite (ser_pair_lpair c nv H). destruct H as [Hn [Hv _]]. intros Hi.
  apply in_app_or in Hi. destruct Hi as [Hi|Hi]; [exact (litq_notin _ 38 Hn ltac:(auto) Hi)|].
  apply in_app_or in Hi. destruct Hi as [Hi|Hi]; [|exact (litq_notin _ 38 Hv ltac:(auto) Hi)].
  destruct (negb (c_skipEq c) || negb (is_nil (snd nv))); [destruct Hi as [Hi|[]]; discriminate Hi|destruct Hi].
Qed.

Lemma init_ser_lpair c nv : lpair c nv -> init_elem c (ser_pair c nv) = [nv].
Proof.
  intros H. rewrite (ser_pair_lpair c nv H). destruct nv as [n v]. destruct H as [Hn [Hv [_ [_ Hs]]]]. cbn [fst snd] in *.
  pose proof (litq_notin n 61 Hn ltac:(auto)) as N61.
  destruct (negb (c_skipEq c) || negb (is_nil v)) eqn:E.
  - destruct (n ++ [61] ++ v) as [|qb qn] eqn:EQ; [apply app_eq_nil in EQ; destruct EQ as [_ EQ]; discriminate EQ|].
    rewrite init_elem_cons, <- EQ. cbn [app]. rewrite (SearchParamsProofs.cut_found 61 n v N61).
    rewrite (init_lit c n Hn), (init_lit c v Hv). reflexivity.
  - apply orb_false_iff in E. destruct E as [E1 E2]. apply negb_false_iff in E1, E2.
    destruct v as [|y v]; [|discriminate E2]. cbn [app]. rewrite app_nil_r.
    destruct Hs as [Hs|Hs]; [congruence|].
    destruct n as [|x n]; [exfalso; apply (Hs eq_refl eq_refl)|].
    rewrite init_elem_cons, (SearchParamsProofs.cut_none 61 (x :: n) N61), (init_lit c _ Hn). reflexivity.
Qed.

Theorem sp_roundtrip_lit c L : Forall (lpair c) L -> sp_init c (sp_string c L) = L.
Proof.
  rewrite sp_string_is. induction L as [|nv L IH]; intros H; [reflexivity|].
  inversion H as [|? ? Hp HL]; subst. specialize (IH HL).
  destruct L as [|nv' L].
  - cbn [map join]. rewrite sp_init_is, SearchParamsProofs.split_single by (apply ser_pair_lpair_no_amp; exact Hp).
    cbn [flat_map]. rewrite (init_ser_lpair c nv Hp). reflexivity.
  - change (join [38] (map (ser_pair c) (nv :: nv' :: L)))
      with (ser_pair c nv ++ 38 :: join [38] (map (ser_pair c) (nv' :: L))).
    rewrite sp_init_is, SearchParamsProofs.split_cons by (apply ser_pair_lpair_no_amp; exact Hp).
    cbn [flat_map]. rewrite <- sp_init_is, IH, (init_ser_lpair c nv Hp). reflexivity.
Qed.

Print Assumptions SetPathname_eval_w.
Print Assumptions sp_roundtrip_lit.
