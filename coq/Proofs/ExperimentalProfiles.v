(* The two predefined profiles with repeated percent-decoding, GoogleSafeBrowsing and Semantic, on the grammar of
   ordinary web URLs (task G2): spellings (C18) and the fixed point (C17).
   Their parser configurations are outside CfgRT (laxHostParsing, collapseConsecutiveSlashes,
   acceptInvalidCodepoints, percentEncodeSinglePercentSign, a pre-parse host function, skipEquals... for GSB,
   the Latin-1 override for Semantic); on the grammar every one of these options is inert, or (skipEquals) acts the
   same way on both sides of the statements. *)
From Verif Require Import Lib.Base Lib.Utf8 Lib.GoStr Model.Cfg Gen.Tables Gen.Options Model.Sets Model.Percent
  Model.Url Model.Host Model.Machine Model.Api Model.Canon Model.Preds.
From Verif Require Spec.PercentSets Spec.IPv4.
From Verif Require Import Proofs.SetsProofs Proofs.PhaseLemmas Proofs.RecordInv Proofs.MachineInv Proofs.HostProofs
  Proofs.CanonTotal Proofs.RoundTripBase Proofs.RoundTripPhases Proofs.NormalFormPhases Proofs.NormalForm
  Proofs.SpellingProofs Proofs.SpellingDecode Proofs.RepeatedSteps Proofs.RepeatedIdem Proofs.RepeatedFixed
  Proofs.RepeatedExamples Proofs.WebCfg Proofs.WebSteps Proofs.RepeatedWeb Proofs.RepeatedWebFixed Proofs.WebHost.
From Coq Require Import Lia ZifyBool ZifyN ZifyNat.

Local Arguments N.eqb : simpl never.
Local Arguments N.ltb : simpl never.
Local Arguments N.leb : simpl never.

(* ------------------------------------------------------------------------------------------ *)
(* the profiles and the grammar                                                                 *)
(* ------------------------------------------------------------------------------------------ *)
Definition pre_ok (f : hostfun) : bool := match f with HF_none | HF_gsb | HF_sem => true | HF_fun _ => false end.
Definition post_none (f : hostfun) : bool := match f with HF_none => true | _ => false end.

(* what is asked of the profile: quiet errors, trailing-slash normalisation, the blanks in the encode sets, '#' in
   the special-query set and '=' '&' not in it, no unreserved character in a set, repeated decoding, a host function
   among the predefined ones before the host parser and none after it *)
Definition prof_web (p : profile) : bool :=
  cfg_web (p_cfg p) && RuneShouldBeEncoded (c_squerySet (p_cfg p)) 35
  && negb (RuneShouldBeEncoded (c_squerySet (p_cfg p)) 61) && negb (RuneShouldBeEncoded (c_squerySet (p_cfg p)) 38)
  && p_repeated p && cfg_unres p && pre_ok (c_pre (p_cfg p)) && post_none (c_post (p_cfg p)).

Example prof_web_predefined :
  prof_web prof_GoogleSafeBrowsing = true /\ prof_web prof_Semantic = true /\ prof_web copt_WithRepeatedPercentDecoding = true.
Proof. repeat split; vm_compute; reflexivity. Qed.

(* the options that CfgRT excludes and that the two profiles switch on *)
Example experimental_options :
  (let c := p_cfg prof_GoogleSafeBrowsing in
   c_lax c && c_collapse c && c_acceptInvalid c && c_singlePct c && c_skipEq c && negb (cfg_rt c)) = true /\
  (let c := p_cfg prof_Semantic in
   c_lax c && c_collapse c && c_acceptInvalid c && c_singlePct c && c_latin1 c && negb (cfg_rt c)) = true /\
  c_pre (p_cfg prof_GoogleSafeBrowsing) = HF_gsb /\ c_pre (p_cfg prof_Semantic) = HF_sem.
Proof. repeat split; vm_compute; reflexivity. Qed.

(* the grammar of ordinary web URLs:
   - the grammar of the normal-form theorem (special scheme other than file in any case, credentials without a
     character of the userinfo set, port digits, path / query / fragment of visible ASCII with the delimiters
     excluded), with a host text as in WebHost.v (ASCII, no forbidden domain code point, no ACE label, dots only
     between labels, not ending in a number);
   - every '%' is followed by two hex digits; no empty path segment but the last;
   - unreserved characters in the credentials; the fully decoded path segments, query names / values and fragment
     consist of unreserved characters and no decoded segment is a dot segment (D24);
   - with skipEquals... no decoded pair is ("", "") *)
Definition web_ok (p : profile) (k : comps) : bool :=
  comps_ok (p_cfg p) k && pct_wf (text_of k) && forallb nonempty (removelast (k_segs k))
  && web_host (k_host k) && forallb unres (k_user k) && forallb unres (k_pass k)
  && unres_comps p k
  && (negb (c_skipEq (p_cfg p)) || match nfq p k with Some (x :: q) => forallb pair_ne (dec_pairs p (x :: q)) | _ => true end).

(* ------------------------------------------------------------------------------------------ *)
(* non-empty segments survive the dot-segment removal and the decoding                          *)
(* ------------------------------------------------------------------------------------------ *)
Lemma removelast_map {A B} (f : A -> B) l : removelast (map f l) = map f (removelast l).
Proof. induction l as [|x l IH]; [reflexivity|]. cbn [map removelast]. destruct l; [reflexivity|]. cbn [map] in *. rewrite IH. reflexivity. Qed.

Lemma forallb_map' {A B} (f : A -> B) (g : B -> bool) l : forallb g (map f l) = forallb (fun x => g (f x)) l.
Proof. induction l as [|x l IH]; [reflexivity|]. cbn [map forallb]. rewrite IH. reflexivity. Qed.

Lemma nonempty_rd s : nonempty (rd s) = nonempty s.
Proof.
  unfold nonempty. destruct s as [|x s]; [rewrite rd_nil; reflexivity|]. destruct (rd (x :: s)) eqn:E; [|reflexivity].
  apply rd_nil_inv in E. discriminate E.
Qed.

Lemma norm_from_mids : forall segs seg acc,
  forallb nonempty acc = true -> mids_nonempty seg segs = true ->
  forallb nonempty (removelast (norm_from acc seg segs)) = true.
Proof.
  induction segs as [|s' r IH]; intros seg acc Ha Hm; cbn [norm_from].
  - unfold pstep. destruct (isDoubleDotPathSegment seg); [rewrite removelast_last; apply forallb_removelast; exact Ha|].
    destruct (isSingleDotPathSegment seg); rewrite removelast_last; exact Ha.
  - unfold mids_nonempty in Hm. change (removelast (seg :: s' :: r)) with (seg :: removelast (s' :: r)) in Hm.
    cbn [forallb] in Hm. apply andb_true_iff in Hm. destruct Hm as [Hs Hm]. apply IH; [apply pstep_nonempty; assumption|exact Hm].
Qed.

Lemma norm_segs_mids segs : forallb nonempty (removelast segs) = true ->
  forallb nonempty (removelast (map rd (norm_segs segs))) = true.
Proof.
  intros H. rewrite removelast_map, forallb_map'.
  assert (G : forallb nonempty (removelast (norm_segs segs)) = true).
  { destruct segs as [|s r]; [reflexivity|]. apply norm_from_mids; [reflexivity|exact H]. }
  revert G. apply forallb_imp. intros s Hs. rewrite nonempty_rd. exact Hs.
Qed.

Lemma unres_no37 s : forallb unres s = true -> ~ In 37 s.
Proof. intros H Hi. rewrite forallb_forall in H. specialize (H 37 Hi). vm_compute in H. discriminate H. Qed.

(* ------------------------------------------------------------------------------------------ *)
(* the theorems                                                                                 *)
(* ------------------------------------------------------------------------------------------ *)
Section Experimental.
  Variable idna_raw : str -> str * bool.
  Hypothesis H1 : oracle_ascii_transparent idna_raw.
  Variable p : profile.
  Notation c := (p_cfg p).
  Hypothesis Hp : prof_web p = true.

  Lemma prof_web_parts :
    CfgWeb c /\ RuneShouldBeEncoded (c_squerySet c) 35 = true /\ RuneShouldBeEncoded (c_squerySet c) 61 = false /\
    RuneShouldBeEncoded (c_squerySet c) 38 = false /\ p_repeated p = true /\ cfg_unres p = true /\
    (c_pre c = HF_none \/ c_pre c = HF_gsb \/ c_pre c = HF_sem) /\ c_post c = HF_none.
  Proof using Hp.
    pose proof Hp as Hq. unfold prof_web in Hq.
    apply andb_true_iff in Hq. destruct Hq as [Hq Q8]. apply andb_true_iff in Hq. destruct Hq as [Hq Q7].
    apply andb_true_iff in Hq. destruct Hq as [Hq Q6]. apply andb_true_iff in Hq. destruct Hq as [Hq Q5].
    apply andb_true_iff in Hq. destruct Hq as [Hq Q4]. apply andb_true_iff in Hq. destruct Hq as [Hq Q3].
    apply andb_true_iff in Hq. destruct Hq as [Q1 Q2].
    apply negb_true_iff in Q3, Q4. split; [apply cfg_web_sound; exact Q1|]. repeat split; try assumption.
    - destruct (c_pre c); [left|right; left|right; right|discriminate Q7]; reflexivity.
    - destruct (c_post c); [reflexivity|discriminate Q8|discriminate Q8|discriminate Q8].
  Qed.

  (* everything the theorems of RepeatedWebFixed.v ask for *)
  Lemma web_ok_premises k : web_ok p k = true ->
    let h := str_lower (k_host k) in
    web_text_ok p k /\ host_val idna_raw c (k_host k) = Some h /\ rep_ok_w idna_raw p (nf c k h) /\
    host_text_ok h = true /\ nopct c h /\ nopct c (k_user k) /\ nopct c (k_pass k) /\
    (forall u0, parseHost idna_raw c u0 h false = Ok u0 h).
  Proof using All.
    intros Hk h. destruct prof_web_parts as [W [W35 [W61 [W38 [Hr [Hu [Hpre Hpost]]]]]]].
    unfold web_ok in Hk. do 7 (apply andb_true_iff in Hk; let H := fresh "G" in destruct Hk as [Hk H]).
    (* Hk comps_ok, G5 pct_wf, G4 mids, G3 web_host, G2 user, G1 pass, G0 unres_comps, G skipEq *)
    destruct (web_host_val idna_raw H1 c (W_rep c W) Hpost Hpre (k_host k) G3) as [Hv Hfix].
    destruct (web_host_shape idna_raw H1 c (W_rep c W) Hpost Hpre (k_host k) G3) as [S1 [S2 [S3 S4]]]. fold h in Hv, Hfix, S1, S2, S3, S4.
    split; [split; [exact Hk|split; [right; exact G5|right; exact G4]]|].
    split; [exact Hv|]. split.
    - apply (rep_ok_nf_w idna_raw p k h Hk); [|intros _; exact Hfix]. unfold rcomps_ok_w.
      rewrite (rcomps_ok_unres p k h Hu W61 W38 ltac:(rewrite S2; apply orb_true_r) G0), G. cbn [andb].
      rewrite (norm_segs_mids _ G4), orb_true_r. reflexivity.
    - split; [exact S1|]. split; [right; exact S3|]. split; [right; apply unres_no37; exact G2|].
      split; [right; apply unres_no37; exact G1|exact Hfix].
  Qed.

  (* C18 on the grammar *)
  Theorem experimental_spelling k1 k2 :
    web_ok p k1 = true -> web_ok p k2 = true -> requiv idna_raw p k1 k2 ->
    same_cres (ProfileParse idna_raw p (text_of k1)) (ProfileParse idna_raw p (text_of k2)).
  Proof using All.
    intros K1 K2 He. destruct prof_web_parts as [W [_ [_ [_ [Hr _]]]]].
    destruct (web_ok_premises k1 K1) as [T1 [V1 [R1 _]]]. destruct (web_ok_premises k2 K2) as [T2 [V2 [R2 _]]].
    pose proof He as [_ [_ [_ [E4 _]]]]. rewrite V1, V2 in E4. injection E4 as E4. rewrite <- E4 in R2.
    apply (repeated_spelling_w idna_raw p W Hr k1 k2 _ T1 T2 He V1 R1 R2).
  Qed.

  Corollary experimental_spelling_href k1 k2 a b :
    web_ok p k1 = true -> web_ok p k2 = true -> requiv idna_raw p k1 k2 ->
    ProfileParse idna_raw p (text_of k1) = CUrl a -> ProfileParse idna_raw p (text_of k2) = CUrl b ->
    same_components a b /\ Href a false = Href b false.
  Proof using All.
    intros K1 K2 He Pa Pb. pose proof (experimental_spelling k1 k2 K1 K2 He) as Hs. rewrite Pa, Pb in Hs.
    cbn [same_cres] in Hs. pose proof (eqi_same a b Hs) as Hsc. split; [exact Hsc|]. apply CanonIdem.Href_same. exact Hsc.
  Qed.

  (* C17 on the grammar *)
  Theorem experimental_fixed_point k u s :
    web_ok p k = true -> ProfileParse idna_raw p (text_of k) = CUrl u -> Href u false = Some s ->
    exists u', ProfileParse idna_raw p s = CUrl u' /\ same_components u' u /\ Href u' false = Some s.
  Proof using All.
    intros K HP Hs. destruct prof_web_parts as [W [W35 [_ [_ [Hr _]]]]].
    destruct (web_ok_premises k K) as [T [V [R [A1 [A2 [A3 [A4 A5]]]]]]].
    apply (repeated_fixed_point_w idna_raw p W W35 Hr k _ u s T V R A1 A2 A3 A4 A5 HP Hs).
  Qed.

  (* the texts of the grammar are never rejected *)
  Theorem experimental_total k : web_ok p k = true -> exists u, ProfileParse idna_raw p (text_of k) = CUrl u.
  Proof using All.
    intros K. destruct prof_web_parts as [W [W35 [_ [_ [Hr _]]]]].
    destruct (web_ok_premises k K) as [T [V [R _]]].
    destruct (ProfileParse_CF_w idna_raw p W Hr k _ T V R) as [r [Er [Hq HP]]].
    pose proof (eqi_same _ _ Hq) as Sq. destruct Sq as [S1 [_ [_ [S4 [_ [_ [_ [S8 _]]]]]]]].
    destruct (CF_proj p (nf c k (str_lower (k_host k)))) as [F1 [_ [_ [F4 [_ [_ [_ [F8 _]]]]]]]].
    destruct T as [Hk _]. destruct (comps_special p k Hk) as [_ Hnf].
    destruct (web_host_parts idna_raw H1 c (W_rep c W) ltac:(destruct prof_web_parts as [_ [_ [_ [_ [_ [_ [_ X]]]]]]]; exact X)
                ltac:(destruct prof_web_parts as [_ [_ [_ [_ [_ [_ [X _]]]]]]]; exact X) (k_host k)) as [_ [_ [_ [_ [_ [Hne _]]]]]].
    { unfold web_ok in K. do 7 (apply andb_true_iff in K; let H := fresh "G" in destruct K as [K H]). exact G3. }
    destruct (str_lower (k_host k)) as [|x t] eqn:El; [apply str_lower_nil in El; congruence|].
    rewrite (tail_explicit_w idna_raw p W W35 Hr r x t) in HP.
    - eexists. exact HP.
    - rewrite S4, F4. reflexivity.
    - rewrite S1, F1. exact Hnf.
    - rewrite S8, F8. reflexivity.
  Qed.
End Experimental.

Print Assumptions experimental_spelling.
Print Assumptions experimental_fixed_point.
Print Assumptions experimental_total.

(* ------------------------------------------------------------------------------------------ *)
(* the two predefined profiles                                                                  *)
(* ------------------------------------------------------------------------------------------ *)
Theorem gsb_spelling idna_raw k1 k2 :
  oracle_ascii_transparent idna_raw ->
  web_ok prof_GoogleSafeBrowsing k1 = true -> web_ok prof_GoogleSafeBrowsing k2 = true ->
  requiv idna_raw prof_GoogleSafeBrowsing k1 k2 ->
  same_cres (ProfileParse idna_raw prof_GoogleSafeBrowsing (text_of k1)) (ProfileParse idna_raw prof_GoogleSafeBrowsing (text_of k2)).
Proof. intros H1. apply (experimental_spelling idna_raw H1 prof_GoogleSafeBrowsing). vm_compute. reflexivity. Qed.

Theorem gsb_fixed_point idna_raw k u s :
  oracle_ascii_transparent idna_raw ->
  web_ok prof_GoogleSafeBrowsing k = true ->
  ProfileParse idna_raw prof_GoogleSafeBrowsing (text_of k) = CUrl u -> Href u false = Some s ->
  exists u', ProfileParse idna_raw prof_GoogleSafeBrowsing s = CUrl u' /\ same_components u' u /\ Href u' false = Some s.
Proof. intros H1. apply (experimental_fixed_point idna_raw H1 prof_GoogleSafeBrowsing). vm_compute. reflexivity. Qed.

Theorem semantic_spelling idna_raw k1 k2 :
  oracle_ascii_transparent idna_raw ->
  web_ok prof_Semantic k1 = true -> web_ok prof_Semantic k2 = true ->
  requiv idna_raw prof_Semantic k1 k2 ->
  same_cres (ProfileParse idna_raw prof_Semantic (text_of k1)) (ProfileParse idna_raw prof_Semantic (text_of k2)).
Proof. intros H1. apply (experimental_spelling idna_raw H1 prof_Semantic). vm_compute. reflexivity. Qed.

Theorem semantic_fixed_point idna_raw k u s :
  oracle_ascii_transparent idna_raw ->
  web_ok prof_Semantic k = true ->
  ProfileParse idna_raw prof_Semantic (text_of k) = CUrl u -> Href u false = Some s ->
  exists u', ProfileParse idna_raw prof_Semantic s = CUrl u' /\ same_components u' u /\ Href u' false = Some s.
Proof. intros H1. apply (experimental_fixed_point idna_raw H1 prof_Semantic). vm_compute. reflexivity. Qed.

Print Assumptions gsb_spelling.
Print Assumptions gsb_fixed_point.
Print Assumptions semantic_spelling.
Print Assumptions semantic_fixed_point.

(* ------------------------------------------------------------------------------------------ *)
(* the premises are met                                                                         *)
(* ------------------------------------------------------------------------------------------ *)
Lemma idna_toy_H1 : oracle_ascii_transparent idna_toy.
Proof.
  intros d _ Ha _. unfold idna_toy. cbn [fst]. unfold str_lower. f_equal.
  unfold ascii in Ha. induction Ha as [|x l Hx Hl IH]; [reflexivity|]. cbn [filter].
  replace (x <? 128) with true by lia. rewrite IH. reflexivity.
Qed.

(* HTTP://U:p@Ex-1.Example.COM:81/%2561/./b%2Dc/x/../d?%257a=%2562&c=%64&e=#%2566
   and   http://U:p@ex-1.example.com:81/a/b%252dc/d?z=b&c=d&e#f *)
Definition wk1 : comps :=
  {| k_sch := [72;84;84;80]; k_user := [85]; k_pass := [112];
     k_host := [69;120;45;49;46;69;120;97;109;112;108;101;46;67;79;77]; k_port := Some [56;49];
     k_segs := [[37;50;53;54;49]; [46]; [98;37;50;68;99]; [120]; [46;46]; [100]];
     k_query := Some [37;50;53;55;97;61;37;50;53;54;50;38;99;61;37;54;52;38;101;61]; k_frag := Some [37;50;53;54;54] |}.
Definition wk2 : comps :=
  {| k_sch := [104;116;116;112]; k_user := [85]; k_pass := [112];
     k_host := [101;120;45;49;46;101;120;97;109;112;108;101;46;99;111;109]; k_port := Some [56;49];
     k_segs := [[97]; [98;37;50;53;50;100;99]; [100]];
     k_query := Some [122;61;98;38;99;61;100;38;101]; k_frag := Some [102] |}.

Example experimental_premises :
  forallb (fun p => web_ok p wk1 && web_ok p wk2) [prof_GoogleSafeBrowsing; prof_Semantic] = true /\
  requiv idna_toy prof_GoogleSafeBrowsing wk1 wk2 /\ requiv idna_toy prof_Semantic wk1 wk2.
Proof.
  split; [vm_compute; reflexivity|]. split; unfold requiv; repeat split; vm_compute; reflexivity.
Qed.

Example experimental_ex :
  same_cres (ProfileParse idna_toy prof_GoogleSafeBrowsing (text_of wk1)) (ProfileParse idna_toy prof_GoogleSafeBrowsing (text_of wk2)) /\
  same_cres (ProfileParse idna_toy prof_Semantic (text_of wk1)) (ProfileParse idna_toy prof_Semantic (text_of wk2)) /\
  (forall p, p = prof_GoogleSafeBrowsing \/ p = prof_Semantic ->
     exists u s u', ProfileParse idna_toy p (text_of wk1) = CUrl u /\ Href u false = Some s /\
                    ProfileParse idna_toy p s = CUrl u' /\ same_components u' u /\ Href u' false = Some s).
Proof.
  destruct experimental_premises as [_ [E1 E2]].
  split; [apply (gsb_spelling idna_toy wk1 wk2 idna_toy_H1); try (vm_compute; reflexivity); exact E1|].
  split; [apply (semantic_spelling idna_toy wk1 wk2 idna_toy_H1); try (vm_compute; reflexivity); exact E2|].
  intros p [-> | ->].
  - destruct (experimental_total idna_toy idna_toy_H1 prof_GoogleSafeBrowsing ltac:(vm_compute; reflexivity) wk1 ltac:(vm_compute; reflexivity)) as [u Hu].
    assert (Hs : exists s, Href u false = Some s).
    { destruct (Href u false) eqn:E; [eexists; reflexivity|]. exfalso. revert E. generalize Hu. vm_compute. intros G. injection G as <-. discriminate. }
    destruct Hs as [s Hs]. exists u, s.
    destruct (gsb_fixed_point idna_toy wk1 u s idna_toy_H1 ltac:(vm_compute; reflexivity) Hu Hs) as [u' [A [B C]]]. exists u'. auto.
  - destruct (experimental_total idna_toy idna_toy_H1 prof_Semantic ltac:(vm_compute; reflexivity) wk1 ltac:(vm_compute; reflexivity)) as [u Hu].
    assert (Hs : exists s, Href u false = Some s).
    { destruct (Href u false) eqn:E; [eexists; reflexivity|]. exfalso. revert E. generalize Hu. vm_compute. intros G. injection G as <-. discriminate. }
    destruct Hs as [s Hs]. exists u, s.
    destruct (semantic_fixed_point idna_toy wk1 u s idna_toy_H1 ltac:(vm_compute; reflexivity) Hu Hs) as [u' [A [B C]]]. exists u'. auto.
Qed.

(* the canonical strings of the example:
   GoogleSafeBrowsing (no port, no fragment, skipEquals):  http://U:p@ex-1.example.com/a/b-c/d?z=b&c=d&e
   Semantic (no credentials, no fragment, sorted):         http://ex-1.example.com:81/a/b-c/d?c=d&e=&z=b *)
Example experimental_ex_strings :
  (exists u, ProfileParse idna_toy prof_GoogleSafeBrowsing (text_of wk1) = CUrl u /\
     Href u false = Some [104;116;116;112;58;47;47;85;58;112;64;101;120;45;49;46;101;120;97;109;112;108;101;46;99;111;109;47;97;47;98;45;99;47;100;63;122;61;98;38;99;61;100;38;101]) /\
  (exists u, ProfileParse idna_toy prof_Semantic (text_of wk1) = CUrl u /\
     Href u false = Some [104;116;116;112;58;47;47;101;120;45;49;46;101;120;97;109;112;108;101;46;99;111;109;58;56;49;47;97;47;98;45;99;47;100;63;99;61;100;38;101;61;38;122;61;98]).
Proof. split; eexists; split; vm_compute; reflexivity. Qed.

Print Assumptions experimental_ex.

(* ------------------------------------------------------------------------------------------ *)
(* the two extra clauses of normal_form_web are needed (configuration of GoogleSafeBrowsing)     *)
(* ------------------------------------------------------------------------------------------ *)
(* http://h/a//b : an empty segment in the middle; the collapse option drops it *)
Definition wk_collapse : comps :=
  {| k_sch := [104;116;116;112]; k_user := []; k_pass := []; k_host := [104]; k_port := None;
     k_segs := [[97]; []; [98]]; k_query := None; k_frag := None |}.
(* http://h/a%zz : a '%' that is not followed by two hex digits; the single-percent option encodes it *)
Definition wk_pct : comps :=
  {| k_sch := [104;116;116;112]; k_user := []; k_pass := []; k_host := [104]; k_port := None;
     k_segs := [[97;37;122;122]]; k_query := None; k_frag := None |}.

Example normal_form_web_needed :
  let c := p_cfg prof_GoogleSafeBrowsing in
  comps_ok c wk_collapse = true /\ pct_wf (text_of wk_collapse) = true /\
  (exists u, Parse idna_toy c (text_of wk_collapse) = PUrl u /\ u_path u = [[97]; [98]] /\
             u_path (nf c wk_collapse [104]) = [[97]; []; [98]]) /\
  comps_ok c wk_pct = true /\ forallb nonempty (removelast (k_segs wk_pct)) = true /\
  (exists u, Parse idna_toy c (text_of wk_pct) = PUrl u /\ u_path u = [[97;37;50;53;122;122]] /\
             u_path (nf c wk_pct [104]) = [[97;37;122;122]]).
Proof.
  cbv zeta. split; [vm_compute; reflexivity|]. split; [vm_compute; reflexivity|].
  split; [eexists; split; [vm_compute; reflexivity|split; reflexivity]|].
  split; [vm_compute; reflexivity|]. split; [reflexivity|].
  eexists. split; [vm_compute; reflexivity|split; reflexivity].
Qed.
Print Assumptions normal_form_web_needed.
