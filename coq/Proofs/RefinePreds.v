(* R4 of the refinement "model = spec": the model's predicates on BYTE strings (Model/Machine.v,
   Model/Url.v) agree with the standard's predicates on CODE-POINT strings (Spec/BasicParser.v),
   in both directions of the correspondence  bytes = encode_runes code-points  /  code-points = runes bytes,
   for ALL inputs (non-ASCII and invalid UTF-8 included). *)
From Verif Require Import Lib.Base Lib.Utf8 Gen.Tables Model.Sets Spec.PercentSets.
From Verif Require Model.Url Model.Machine Spec.Url Spec.BasicParser.
From Verif Require Import Proofs.Utf8Proofs Proofs.SetsProofs.
From Coq Require Import Lia ZifyBool ZifyN ZifyNat.

Module MU := Verif.Model.Url.
Module MM := Verif.Model.Machine.
Module SU := Verif.Spec.Url.
Module SB := Verif.Spec.BasicParser.

(* close a goal [Forall (fun c => c < 128) [literal; ...]] *)
Ltac ascii_lit := repeat (apply Forall_cons; [lia|]); apply Forall_nil.

(* ================================================================== *)
(* (e) general helper lemmas                                           *)
(* ================================================================== *)

Lemma list_eqb_N_true (a b : list N) : list_eqb N.eqb a b = true <-> a = b.
Proof.
  revert b. induction a as [|x a IH]; intros [|y b]; cbn [list_eqb].
  - split; reflexivity.
  - split; discriminate.
  - split; discriminate.
  - rewrite andb_true_iff, N.eqb_eq, IH. split.
    + intros [Hx Ha]. subst. reflexivity.
    + intros H. injection H as Hx Ha. split; assumption.
Qed.

Lemma ascii_forallb (l : list N) :
  forallb (fun c => c <? 128) l = true <-> Forall (fun c => c < 128) l.
Proof.
  rewrite forallb_forall, Forall_forall.
  split; intros H x Hx; specialize (H x Hx); lia.
Qed.

Lemma encode_runes_cons c l : encode_runes (c :: l) = utf8_enc c ++ encode_runes l.
Proof. reflexivity. Qed.

Lemma encode_runes_nil : encode_runes [] = [].
Proof. reflexivity. Qed.

Lemma encode_runes_ascii t : Forall (fun c => c < 128) t -> encode_runes t = t.
Proof.
  induction 1 as [|x t Hx Ht IH]; [reflexivity|].
  rewrite encode_runes_cons, utf8_enc_ascii by exact Hx. cbn [app]. now rewrite IH.
Qed.

(* the encoding of a non-ASCII code point starts with a byte >= 128 *)
Lemma utf8_enc_high_head c : 128 <= c -> exists x s, utf8_enc c = x :: s /\ 128 <= x.
Proof.
  intros Hc. pose proof (utf8_enc_high c Hc) as F. pose proof (utf8_enc_nonempty c) as NE.
  destruct (utf8_enc c) as [|x s]; [congruence|].
  inversion F as [|? ? Hx Hs]; subst. exists x, s. split; [reflexivity|exact Hx].
Qed.

(* the two shapes of [encode_runes (c :: l)] *)
Lemma encode_runes_cons_cases c l :
  (c < 128 /\ encode_runes (c :: l) = c :: encode_runes l) \/
  (128 <= c /\ exists x s, encode_runes (c :: l) = x :: s /\ 128 <= x).
Proof.
  destruct (N.lt_ge_cases c 128) as [Hc|Hc].
  - left. split; [exact Hc|]. rewrite encode_runes_cons, utf8_enc_ascii by exact Hc. reflexivity.
  - right. split; [exact Hc|]. destruct (utf8_enc_high_head c Hc) as (x & s & E & Hx).
    exists x, (s ++ encode_runes l). rewrite encode_runes_cons, E. split; [reflexivity|exact Hx].
Qed.

Lemma encode_runes_ascii_inv l :
  Forall (fun c => c < 128) (encode_runes l) -> Forall (fun c => c < 128) l.
Proof.
  induction l as [|c l IH]; intros H; [constructor|].
  destruct (encode_runes_cons_cases c l) as [[Hc E]|[Hc (x & s & E & Hx)]]; rewrite E in H.
  - inversion H as [|? ? _ Hl]; subst. constructor; [exact Hc|]. apply IH. exact Hl.
  - inversion H as [|? ? Hx' _]; subst. lia.
Qed.

Theorem encode_runes_eq_ascii l t :
  Forall (fun c => c < 128) t -> (encode_runes l = t <-> l = t).
Proof.
  intros Ht. split.
  - revert l. induction Ht as [|x t Hx Ht IH]; intros l H.
    + destruct l as [|c l]; [reflexivity|]. exfalso.
      rewrite encode_runes_cons in H. apply app_eq_nil in H. destruct H as [H _].
      exact (utf8_enc_nonempty c H).
    + destruct l as [|c l]; [rewrite encode_runes_nil in H; discriminate H|].
      destruct (encode_runes_cons_cases c l) as [[Hc E]|[Hc (y & s & E & Hy)]]; rewrite E in H.
      * injection H as Hcx Hl. subst c. f_equal. apply IH. exact Hl.
      * injection H as Hyx _. lia.
  - intros Hl. subst l. apply encode_runes_ascii. exact Ht.
Qed.
Print Assumptions encode_runes_eq_ascii.

Theorem str_eqb_encode_ascii l t :
  Forall (fun c => c < 128) t -> str_eqb (encode_runes l) t = list_eqb N.eqb l t.
Proof.
  intros Ht. apply Bool.eq_true_iff_eq. unfold str_eqb.
  rewrite !list_eqb_N_true. apply encode_runes_eq_ascii. exact Ht.
Qed.
Print Assumptions str_eqb_encode_ascii.

Corollary str_eqb_encode_cps l t :
  Forall (fun c => c < 128) t -> str_eqb (encode_runes l) t = SU.cps_eqb l t.
Proof. exact (str_eqb_encode_ascii l t). Qed.

Corollary str_eqb_encode_file l : str_eqb (encode_runes l) s_file = SU.cps_eqb l SU.sc_file.
Proof. apply str_eqb_encode_cps. unfold s_file. ascii_lit. Qed.
Print Assumptions str_eqb_encode_file.

(* Lib.Base.ascii_lower and the Spec's ascii_lowercase are the same function *)
Lemma ascii_lower_same c : ascii_lower c = SB.ascii_lowercase c.
Proof. reflexivity. Qed.

Lemma str_lower_same s : str_lower s = SB.ascii_lowercase_str s.
Proof. reflexivity. Qed.

Lemma map_lower_high s : Forall (fun b => 128 <= b) s -> map ascii_lower s = s.
Proof.
  induction 1 as [|b s Hb Hs IH]; [reflexivity|].
  cbn [map]. rewrite IH. f_equal. unfold ascii_lower, is_upper.
  replace ((65 <=? b) && (b <=? 90)) with false by lia. reflexivity.
Qed.

Lemma lower_utf8_enc c : map ascii_lower (utf8_enc c) = utf8_enc (SB.ascii_lowercase c).
Proof.
  destruct (N.lt_ge_cases c 128) as [Hc|Hc].
  - assert (Hl : SB.ascii_lowercase c < 128).
    { unfold SB.ascii_lowercase. destruct ((65 <=? c) && (c <=? 90)) eqn:E; lia. }
    rewrite (utf8_enc_ascii c Hc), (utf8_enc_ascii _ Hl). reflexivity.
  - assert (Hl : SB.ascii_lowercase c = c).
    { unfold SB.ascii_lowercase. replace ((65 <=? c) && (c <=? 90)) with false by lia. reflexivity. }
    rewrite Hl. apply map_lower_high. apply utf8_enc_high. exact Hc.
Qed.

Theorem str_lower_encode l :
  str_lower (encode_runes l) = encode_runes (SB.ascii_lowercase_str l).
Proof.
  induction l as [|c l IH]; [reflexivity|].
  unfold SB.ascii_lowercase_str in *. cbn [map]. rewrite !encode_runes_cons.
  unfold str_lower in *. rewrite map_app, IH, lower_utf8_enc. reflexivity.
Qed.
Print Assumptions str_lower_encode.

Lemma lower_ascii_inv l :
  Forall (fun c => c < 128) (SB.ascii_lowercase_str l) -> Forall (fun c => c < 128) l.
Proof.
  unfold SB.ascii_lowercase_str.
  induction l as [|c l IH]; intros H; [constructor|].
  cbn [map] in H. inversion H as [|? ? Hc Hl]; subst. constructor; [|apply IH; exact Hl].
  unfold SB.ascii_lowercase in Hc. destruct ((65 <=? c) && (c <=? 90)) eqn:E; lia.
Qed.

(* a byte string whose code points are all ASCII is that list of code points *)
Theorem runes_ascii_inv s : Forall (fun c => c < 128) (runes s) -> runes s = s.
Proof.
  unfold runes.
  apply (decode_ind (fun s d => Forall (fun c => c < 128) (map rv d) -> map rv d = s)).
  - intros _. reflexivity.
  - intros b0 rest r rest' E IH H. cbn [map] in H |- *.
    inversion H as [|? ? Hr Hd]; subst.
    destruct r as [c|b]; cbn [rv] in Hr |- *.
    + apply dec1_good in E. rewrite (utf8_enc_ascii c Hr) in E. cbn [app] in E.
      rewrite E. f_equal. apply IH. exact Hd.
    + unfold rune_error in Hr. lia.
Qed.
Print Assumptions runes_ascii_inv.

Corollary runes_ascii_iff s :
  Forall (fun c => c < 128) (runes s) <-> Forall (fun b => b < 128) s.
Proof.
  split; intros H.
  - rewrite <- (runes_ascii_inv s H). exact H.
  - rewrite (runes_ascii s H). exact H.
Qed.

(* ---------- transfer principle ----------
   A model predicate P and a spec predicate Q that coincide as functions on lists of numbers, and
   that hold only of ASCII strings, correspond along both [encode_runes] and [runes]. *)
Lemma transfer_enc (P Q : list N -> bool) :
  (forall s, P s = Q s) ->
  (forall l, Q l = true -> Forall (fun c => c < 128) l) ->
  forall l, P (encode_runes l) = Q l.
Proof.
  intros PQ QA l.
  destruct (forallb (fun c => c <? 128) l) eqn:E.
  - apply ascii_forallb in E. rewrite (encode_runes_ascii l E). apply PQ.
  - rewrite PQ.
    destruct (Q l) eqn:E1.
    { apply QA, ascii_forallb in E1. congruence. }
    destruct (Q (encode_runes l)) eqn:E2; [|reflexivity].
    apply QA, encode_runes_ascii_inv, ascii_forallb in E2. congruence.
Qed.

Lemma transfer_runes (P Q : list N -> bool) :
  (forall s, P s = Q s) ->
  (forall l, Q l = true -> Forall (fun c => c < 128) l) ->
  forall s, P s = Q (runes s).
Proof.
  intros PQ QA s. rewrite PQ.
  destruct (Q (runes s)) eqn:E1.
  - pose proof (runes_ascii_inv s (QA _ E1)) as R. rewrite R in E1. exact E1.
  - destruct (Q s) eqn:E2; [|reflexivity].
    pose proof (runes_ascii s (QA _ E2)) as R. rewrite R in E1. congruence.
Qed.

(* ================================================================== *)
(* the four predicates: same function, and true only of ASCII strings  *)
(* ================================================================== *)

Lemma lower_eqb_dot1 l :
  list_eqb N.eqb (SB.ascii_lowercase_str l) [46] = list_eqb N.eqb l [46].
Proof.
  destruct l as [|c [|d l]]; [reflexivity| |].
  - unfold SB.ascii_lowercase_str. cbn [map list_eqb]. unfold SB.ascii_lowercase.
    destruct ((65 <=? c) && (c <=? 90)) eqn:E; lia.
  - unfold SB.ascii_lowercase_str. cbn [map list_eqb]. rewrite !andb_false_r. reflexivity.
Qed.

Lemma lower_eqb_dot2 l :
  list_eqb N.eqb (SB.ascii_lowercase_str l) [46; 46] = list_eqb N.eqb l [46; 46].
Proof.
  destruct l as [|c [|d [|e l]]]; [reflexivity| | |].
  - unfold SB.ascii_lowercase_str. cbn [map list_eqb]. rewrite !andb_false_r. reflexivity.
  - unfold SB.ascii_lowercase_str. cbn [map list_eqb]. unfold SB.ascii_lowercase.
    destruct ((65 <=? c) && (c <=? 90)) eqn:E; destruct ((65 <=? d) && (d <=? 90)) eqn:E'; lia.
  - unfold SB.ascii_lowercase_str. cbn [map list_eqb]. rewrite !andb_false_r. reflexivity.
Qed.

Lemma single_same s : MM.isSingleDotPathSegment s = SB.is_single_dot_segment s.
Proof.
  unfold MM.isSingleDotPathSegment, SB.is_single_dot_segment. cbv zeta.
  rewrite str_lower_same. unfold SU.cps_eqb, str_eqb. rewrite lower_eqb_dot1. reflexivity.
Qed.

Lemma double_same s : MM.isDoubleDotPathSegment s = SB.is_double_dot_segment s.
Proof.
  unfold MM.isDoubleDotPathSegment, SB.is_double_dot_segment. cbv zeta.
  rewrite str_lower_same. unfold SU.cps_eqb, str_eqb. rewrite lower_eqb_dot2.
  rewrite !orb_assoc. reflexivity.
Qed.

Lemma wdl_same s : MU.isWindowsDriveLetter s = SB.is_windows_drive_letter s.
Proof.
  unfold MU.isWindowsDriveLetter, SB.is_windows_drive_letter.
  destruct s as [|a [|b [|c s]]]; try reflexivity. rewrite alpha_table. reflexivity.
Qed.

Lemma nwdl_same s : MU.isNormalizedWindowsDriveLetter s = SB.is_normalized_windows_drive_letter s.
Proof.
  unfold MU.isNormalizedWindowsDriveLetter, SB.is_normalized_windows_drive_letter.
  destruct s as [|a [|b [|c s]]]; try reflexivity. rewrite alpha_table. reflexivity.
Qed.

Lemma single_ascii l : SB.is_single_dot_segment l = true -> Forall (fun c => c < 128) l.
Proof.
  unfold SB.is_single_dot_segment, SU.cps_eqb. cbv zeta.
  rewrite orb_true_iff, !list_eqb_N_true.
  intros [H|H]; apply lower_ascii_inv; rewrite H; ascii_lit.
Qed.

Lemma double_ascii l : SB.is_double_dot_segment l = true -> Forall (fun c => c < 128) l.
Proof.
  unfold SB.is_double_dot_segment, SU.cps_eqb. cbv zeta.
  rewrite !orb_true_iff, !list_eqb_N_true.
  intros [[[H|H]|H]|H]; apply lower_ascii_inv; rewrite H; ascii_lit.
Qed.

Lemma wdl_ascii l : SB.is_windows_drive_letter l = true -> Forall (fun c => c < 128) l.
Proof.
  unfold SB.is_windows_drive_letter, ascii_alpha.
  destruct l as [|a [|b [|c l]]]; intros H; try discriminate H. ascii_lit.
Qed.

Lemma nwdl_ascii l : SB.is_normalized_windows_drive_letter l = true -> Forall (fun c => c < 128) l.
Proof.
  unfold SB.is_normalized_windows_drive_letter, ascii_alpha.
  destruct l as [|a [|b [|c l]]]; intros H; try discriminate H. ascii_lit.
Qed.

(* ================================================================== *)
(* (a) code points -> bytes                                            *)
(* ================================================================== *)

Theorem single_dot_enc l :
  MM.isSingleDotPathSegment (encode_runes l) = SB.is_single_dot_segment l.
Proof. exact (transfer_enc _ _ single_same single_ascii l). Qed.
Print Assumptions single_dot_enc.

Theorem double_dot_enc l :
  MM.isDoubleDotPathSegment (encode_runes l) = SB.is_double_dot_segment l.
Proof. exact (transfer_enc _ _ double_same double_ascii l). Qed.
Print Assumptions double_dot_enc.

Theorem windows_drive_letter_enc l :
  MU.isWindowsDriveLetter (encode_runes l) = SB.is_windows_drive_letter l.
Proof. exact (transfer_enc _ _ wdl_same wdl_ascii l). Qed.
Print Assumptions windows_drive_letter_enc.

Theorem normalized_windows_drive_letter_enc l :
  MU.isNormalizedWindowsDriveLetter (encode_runes l) = SB.is_normalized_windows_drive_letter l.
Proof. exact (transfer_enc _ _ nwdl_same nwdl_ascii l). Qed.
Print Assumptions normalized_windows_drive_letter_enc.

Example single_dot_enc_ex :
  MM.isSingleDotPathSegment (encode_runes [37;50;69]) = true /\
  SB.is_single_dot_segment [37;50;69] = true /\
  MM.isSingleDotPathSegment (encode_runes [46;233]) = false /\
  SB.is_single_dot_segment [46;233] = false.
Proof. vm_compute. repeat split; reflexivity. Qed.

Example double_dot_enc_ex :
  MM.isDoubleDotPathSegment (encode_runes [46;37;50;101]) = true /\
  SB.is_double_dot_segment [46;37;50;101] = true /\
  MM.isDoubleDotPathSegment (encode_runes [37;50;69;37;50;101]) = true /\
  SB.is_double_dot_segment [37;50;69;37;50;101] = true /\
  MM.isDoubleDotPathSegment (encode_runes [46;8238]) = false /\
  SB.is_double_dot_segment [46;8238] = false.
Proof. vm_compute. repeat split; reflexivity. Qed.

Example windows_drive_letter_enc_ex :
  MU.isWindowsDriveLetter (encode_runes [67;124]) = true /\
  SB.is_windows_drive_letter [67;124] = true /\
  MU.isWindowsDriveLetter (encode_runes [233]) = false /\
  SB.is_windows_drive_letter [233] = false.
Proof. vm_compute. repeat split; reflexivity. Qed.

Example normalized_windows_drive_letter_enc_ex :
  MU.isNormalizedWindowsDriveLetter (encode_runes [99;58]) = true /\
  SB.is_normalized_windows_drive_letter [99;58] = true /\
  MU.isNormalizedWindowsDriveLetter (encode_runes [67;124]) = false /\
  SB.is_normalized_windows_drive_letter [67;124] = false.
Proof. vm_compute. repeat split; reflexivity. Qed.

(* ================================================================== *)
(* (b) bytes -> code points (any byte string, valid UTF-8 or not)      *)
(* ================================================================== *)

Theorem single_dot_runes s :
  MM.isSingleDotPathSegment s = SB.is_single_dot_segment (runes s).
Proof. exact (transfer_runes _ _ single_same single_ascii s). Qed.
Print Assumptions single_dot_runes.

Theorem double_dot_runes s :
  MM.isDoubleDotPathSegment s = SB.is_double_dot_segment (runes s).
Proof. exact (transfer_runes _ _ double_same double_ascii s). Qed.
Print Assumptions double_dot_runes.

Theorem windows_drive_letter_runes s :
  MU.isWindowsDriveLetter s = SB.is_windows_drive_letter (runes s).
Proof. exact (transfer_runes _ _ wdl_same wdl_ascii s). Qed.
Print Assumptions windows_drive_letter_runes.

Theorem normalized_windows_drive_letter_runes s :
  MU.isNormalizedWindowsDriveLetter s = SB.is_normalized_windows_drive_letter (runes s).
Proof. exact (transfer_runes _ _ nwdl_same nwdl_ascii s). Qed.
Print Assumptions normalized_windows_drive_letter_runes.

Example single_dot_runes_ex :
  MM.isSingleDotPathSegment [37;50;69] = true /\ SB.is_single_dot_segment (runes [37;50;69]) = true /\
  MM.isSingleDotPathSegment [46;255] = false /\ SB.is_single_dot_segment (runes [46;255]) = false /\
  MM.isSingleDotPathSegment [255] = false /\ SB.is_single_dot_segment (runes [255]) = false.
Proof. vm_compute. repeat split; reflexivity. Qed.

Example double_dot_runes_ex :
  MM.isDoubleDotPathSegment [37;50;101;46] = true /\ SB.is_double_dot_segment (runes [37;50;101;46]) = true /\
  MM.isDoubleDotPathSegment [46;255] = false /\ SB.is_double_dot_segment (runes [46;255]) = false.
Proof. vm_compute. repeat split; reflexivity. Qed.

Example windows_drive_letter_runes_ex :
  MU.isWindowsDriveLetter [67;124] = true /\ SB.is_windows_drive_letter (runes [67;124]) = true /\
  runes [195;169] = [233] /\
  MU.isWindowsDriveLetter [195;169] = false /\ SB.is_windows_drive_letter (runes [195;169]) = false /\
  MU.isWindowsDriveLetter [67;255] = false /\ SB.is_windows_drive_letter (runes [67;255]) = false.
Proof. vm_compute. repeat split; reflexivity. Qed.

Example normalized_windows_drive_letter_runes_ex :
  MU.isNormalizedWindowsDriveLetter [99;58] = true /\
  SB.is_normalized_windows_drive_letter (runes [99;58]) = true /\
  MU.isNormalizedWindowsDriveLetter [195;169] = false /\
  SB.is_normalized_windows_drive_letter (runes [195;169]) = false.
Proof. vm_compute. repeat split; reflexivity. Qed.

(* ================================================================== *)
(* (c) "starts with a Windows drive letter" on the remaining input      *)
(* ================================================================== *)

Lemma alpha_high x : 128 <= x -> isAlpha x = false.
Proof. intros H. rewrite alpha_table. unfold ascii_alpha. lia. Qed.

(* a byte string that starts with a byte >= 128 does not start with a drive letter *)
Lemma starts_high_head x s : 128 <= x -> MU.startsWithAWindowsDriveLetter (x :: s) = false.
Proof.
  intros H. unfold MU.startsWithAWindowsDriveLetter, MU.isWindowsDriveLetter.
  destruct s as [|y s]; [reflexivity|]. rewrite (alpha_high x H). reflexivity.
Qed.

Lemma spec_starts_high_head a l : 128 <= a -> SB.starts_with_windows_drive_letter (a :: l) = false.
Proof.
  intros H. unfold SB.starts_with_windows_drive_letter, SB.is_windows_drive_letter.
  destruct l as [|b l]; [reflexivity|].
  replace (ascii_alpha a) with false by (unfold ascii_alpha; lia). reflexivity.
Qed.

Theorem starts_with_windows_drive_letter_enc l :
  MU.startsWithAWindowsDriveLetter (encode_runes l) = SB.starts_with_windows_drive_letter l.
Proof.
  destruct l as [|a l]; [reflexivity|].
  destruct (encode_runes_cons_cases a l) as [[Ha Ea]|[Ha (x & s & Ea & Hx)]]; rewrite Ea.
  2:{ rewrite (starts_high_head x s Hx), (spec_starts_high_head a l Ha). reflexivity. }
  destruct l as [|b l]; [reflexivity|].
  destruct (encode_runes_cons_cases b l) as [[Hb Eb]|[Hb (y & t & Eb & Hy)]]; rewrite Eb.
  2:{ unfold MU.startsWithAWindowsDriveLetter, SB.starts_with_windows_drive_letter,
        MU.isWindowsDriveLetter, SB.is_windows_drive_letter.
      replace ((y =? 58) || (y =? 124)) with false by lia.
      replace ((b =? 58) || (b =? 124)) with false by lia.
      rewrite !andb_false_r. reflexivity. }
  destruct l as [|c l].
  { rewrite encode_runes_nil.
    unfold MU.startsWithAWindowsDriveLetter, SB.starts_with_windows_drive_letter.
    rewrite wdl_same. reflexivity. }
  destruct (encode_runes_cons_cases c l) as [[Hc Ec]|[Hc (z & w & Ec & Hz)]]; rewrite Ec.
  - unfold MU.startsWithAWindowsDriveLetter, SB.starts_with_windows_drive_letter.
    rewrite wdl_same. reflexivity.
  - unfold MU.startsWithAWindowsDriveLetter, SB.starts_with_windows_drive_letter.
    rewrite wdl_same.
    replace ((z =? 47) || (z =? 92) || (z =? 63) || (z =? 35)) with false by lia.
    replace ((c =? 47) || (c =? 92) || (c =? 63) || (c =? 35)) with false by lia.
    reflexivity.
Qed.
Print Assumptions starts_with_windows_drive_letter_enc.

Example starts_with_windows_drive_letter_enc_ex :
  MU.startsWithAWindowsDriveLetter (encode_runes [99;58;47]) = true /\
  SB.starts_with_windows_drive_letter [99;58;47] = true /\
  MU.startsWithAWindowsDriveLetter (encode_runes [99;124;35;233]) = true /\
  SB.starts_with_windows_drive_letter [99;124;35;233] = true /\
  MU.startsWithAWindowsDriveLetter (encode_runes [99;58;233]) = false /\
  SB.starts_with_windows_drive_letter [99;58;233] = false /\
  MU.startsWithAWindowsDriveLetter (encode_runes [233;58]) = false /\
  SB.starts_with_windows_drive_letter [233;58] = false.
Proof. vm_compute. repeat split; reflexivity. Qed.

(* the same along [runes], for every byte string (not needed by the machine, which only applies the
   predicate to [encode_runes] of the remaining code points; kept for completeness) *)
Lemma runes_cons_cases b s :
  (b < 128 /\ runes (b :: s) = b :: runes s) \/
  (128 <= b /\ exists c l, runes (b :: s) = c :: l /\ 128 <= c).
Proof.
  destruct (N.lt_ge_cases b 128) as [Hb|Hb].
  - left. split; [exact Hb|]. unfold runes. rewrite (decode_ascii_cons b s Hb). reflexivity.
  - right. split; [exact Hb|].
    destruct (dec1 b s) as [r s'] eqn:E.
    exists (rv r), (runes s'). unfold runes. rewrite (decode_cons _ _ _ _ E). split; [reflexivity|].
    destruct r as [c|b']; cbn [rv].
    + destruct (N.lt_ge_cases c 128) as [Hc|Hc]; [|exact Hc].
      apply dec1_good in E. rewrite (utf8_enc_ascii c Hc) in E. cbn [app] in E.
      injection E as Hbc _. lia.
    + unfold rune_error. lia.
Qed.

Theorem starts_with_windows_drive_letter_runes s :
  MU.startsWithAWindowsDriveLetter s = SB.starts_with_windows_drive_letter (runes s).
Proof.
  destruct s as [|a s]; [reflexivity|].
  destruct (runes_cons_cases a s) as [[Ha Ea]|[Ha (x & l & Ea & Hx)]]; rewrite Ea.
  2:{ rewrite (starts_high_head a s Ha), (spec_starts_high_head x l Hx). reflexivity. }
  destruct s as [|b s]; [reflexivity|].
  destruct (runes_cons_cases b s) as [[Hb Eb]|[Hb (y & t & Eb & Hy)]]; rewrite Eb.
  2:{ unfold MU.startsWithAWindowsDriveLetter, SB.starts_with_windows_drive_letter,
        MU.isWindowsDriveLetter, SB.is_windows_drive_letter.
      replace ((y =? 58) || (y =? 124)) with false by lia.
      replace ((b =? 58) || (b =? 124)) with false by lia.
      rewrite !andb_false_r. reflexivity. }
  destruct s as [|c s].
  { unfold MU.startsWithAWindowsDriveLetter, SB.starts_with_windows_drive_letter.
    rewrite wdl_same. reflexivity. }
  destruct (runes_cons_cases c s) as [[Hc Ec]|[Hc (z & w & Ec & Hz)]]; rewrite Ec.
  - unfold MU.startsWithAWindowsDriveLetter, SB.starts_with_windows_drive_letter.
    rewrite wdl_same. reflexivity.
  - unfold MU.startsWithAWindowsDriveLetter, SB.starts_with_windows_drive_letter.
    rewrite wdl_same.
    replace ((z =? 47) || (z =? 92) || (z =? 63) || (z =? 35)) with false by lia.
    replace ((c =? 47) || (c =? 92) || (c =? 63) || (c =? 35)) with false by lia.
    reflexivity.
Qed.
Print Assumptions starts_with_windows_drive_letter_runes.

Example starts_with_windows_drive_letter_runes_ex :
  MU.startsWithAWindowsDriveLetter [99;58;47;255] = true /\
  SB.starts_with_windows_drive_letter (runes [99;58;47;255]) = true /\
  MU.startsWithAWindowsDriveLetter [99;58;255] = false /\
  SB.starts_with_windows_drive_letter (runes [99;58;255]) = false /\
  MU.startsWithAWindowsDriveLetter [195;169;58] = false /\
  SB.starts_with_windows_drive_letter (runes [195;169;58]) = false.
Proof. vm_compute. repeat split; reflexivity. Qed.

(* ================================================================== *)
(* (d) shorten a url's path                                            *)
(* ================================================================== *)

Lemma removelast_map {A B} (f : A -> B) (l : list A) : removelast (map f l) = map f (removelast l).
Proof.
  induction l as [|x l IH]; [reflexivity|].
  destruct l as [|y l]; [reflexivity|].
  change (map f (x :: y :: l)) with (f x :: map f (y :: l)).
  change (removelast (x :: y :: l)) with (x :: removelast (y :: l)).
  change (map f (x :: removelast (y :: l))) with (f x :: map f (removelast (y :: l))).
  rewrite <- IH. reflexivity.
Qed.

Lemma with_path_same su segs : SU.u_path su = SU.PList segs -> SU.with_path su (SU.PList segs) = su.
Proof. destruct su. cbn [SU.u_path]. intros H. subst. reflexivity. Qed.

Theorem shorten_path_refines su segs :
  SU.u_path su = SU.PList segs ->
  exists segs',
    SB.shorten_path su = Some (SU.with_path su (SU.PList segs')) /\
    MU.shortenPath (encode_runes (SU.u_scheme su)) (map encode_runes segs) = map encode_runes segs'.
Proof.
  intros Hp. unfold SB.shorten_path. rewrite Hp.
  destruct segs as [|s1 [|s2 segs]].
  - exists []. rewrite andb_false_r. split; reflexivity.
  - cbn [map]. unfold MU.shortenPath.
    rewrite str_eqb_encode_file, normalized_windows_drive_letter_enc.
    destruct (SU.cps_eqb (SU.u_scheme su) SU.sc_file && SB.is_normalized_windows_drive_letter s1) eqn:E.
    + exists [s1]. rewrite (with_path_same su [s1] Hp). split; reflexivity.
    + exists []. split; reflexivity.
  - exists (removelast (s1 :: s2 :: segs)). rewrite andb_false_r. split; [reflexivity|].
    rewrite <- removelast_map. reflexivity.
Qed.
Print Assumptions shorten_path_refines.

Example shorten_path_refines_ex :
  let su := SU.mkSUrl SU.sc_file [] [] None None (SU.PList [[67;58]]) None None in
  let su2 := SU.mkSUrl SU.sc_http [] [] None None (SU.PList [[97];[233];[46]]) None None in
  SB.shorten_path su = Some su /\
  MU.shortenPath (encode_runes (SU.u_scheme su)) (map encode_runes [[67;58]]) = map encode_runes [[67;58]] /\
  SB.shorten_path su2 = Some (SU.with_path su2 (SU.PList [[97];[233]])) /\
  MU.shortenPath (encode_runes (SU.u_scheme su2)) (map encode_runes [[97];[233];[46]])
    = map encode_runes [[97];[233]].
Proof. vm_compute. repeat split; reflexivity. Qed.

(* ================================================================== *)
(* (e) examples for the helper lemmas                                  *)
(* ================================================================== *)

Example str_lower_encode_ex :
  str_lower (encode_runes [37;50;69;201;8490]) = encode_runes (SB.ascii_lowercase_str [37;50;69;201;8490]) /\
  str_lower (encode_runes [37;50;69;201;8490]) = [37;50;101;195;137;226;132;170].
Proof. vm_compute. split; reflexivity. Qed.

Example str_eqb_encode_ascii_ex :
  Forall (fun c => c < 128) s_file /\
  str_eqb (encode_runes [102;105;108;101]) s_file = true /\
  str_eqb (encode_runes [102;105;108;233]) s_file = false /\
  list_eqb N.eqb [102;105;108;233] s_file = false.
Proof. split; [unfold s_file; ascii_lit|]. vm_compute. repeat split; reflexivity. Qed.
