(* Parser options are conservative extensions: each changes the result only for inputs containing its trigger.
   N1 allowSettingPathForNonBaseUrl (read nowhere), N2 skipEqualsForEmptySearchParamsValue,
   N3 acceptInvalidCodepoints, N4 percentEncodeSinglePercentSign.
   (N5 skipWindowsDriveLetterNormalization: OptionNeutralDrive.v; N6: OptionNeutralCollapse.v;
    N7: OptionNeutralSpecial.v; N8: OptionNeutralLax.v.) *)
From Coq Require Import String.
From Verif Require Import Lib.Base Lib.Utf8 Lib.GoStr Model.Cfg Gen.Tables Gen.Options Model.Sets Model.Percent Model.Url Model.Host Model.Machine Model.Api.
From Verif Require Import Proofs.OptionTable Proofs.Utf8Proofs Proofs.Cleaning Proofs.OptionNeutralBase.
From Coq Require Import Lia ZifyBool ZifyN ZifyNat.

(* the oracle used in the concrete witnesses: IDNA processing as the identity *)
Definition id_idna (s : str) : str * bool := (s, false).

Lemma to_pres_congr (r1 r2 : result) : r1 = r2 -> to_pres r1 = to_pres r2.
Proof. intros ->. reflexivity. Qed.

(* ================================================================== *)
(* N1  c_allowPathNonBase is read nowhere                              *)
(* ================================================================== *)
Section N1.
  Variable idna_raw : str -> str * bool.
  Variable c : cfg.
  Variable b : bool.

  Lemma allowPathNonBase_step inp base ov m :
    step idna_raw (with_allowPathNonBase c b) inp base ov m = step idna_raw c inp base ov m.
  Proof.
    apply step_eq_simple; try reflexivity; try (intros; reflexivity).
    repeat split; reflexivity.
  Qed.

  Lemma allowPathNonBase_run inp base ov fuel m :
    run idna_raw (with_allowPathNonBase c b) inp base ov fuel m = run idna_raw c inp base ov fuel m.
  Proof.
    apply (run_sim_eq idna_raw _ _ inp base ov (fun _ => True)); auto.
    intros; apply allowPathNonBase_step.
  Qed.

  Theorem allowPathNonBase_neutral x base u0 ov :
    BasicParser idna_raw (with_allowPathNonBase c b) x base u0 ov = BasicParser idna_raw c x base u0 ov.
  Proof.
    apply BasicParser_lift_eq; try reflexivity. intros v i. apply allowPathNonBase_run.
  Qed.

  Corollary allowPathNonBase_Parse x : Parse idna_raw (with_allowPathNonBase c b) x = Parse idna_raw c x.
  Proof. apply to_pres_congr, allowPathNonBase_neutral. Qed.
  Corollary allowPathNonBase_UrlParse bu x : UrlParse idna_raw (with_allowPathNonBase c b) bu x = UrlParse idna_raw c bu x.
  Proof. apply to_pres_congr, allowPathNonBase_neutral. Qed.
  Corollary allowPathNonBase_ParseRef x r : ParseRef idna_raw (with_allowPathNonBase c b) x r = ParseRef idna_raw c x r.
  Proof.
    unfold ParseRef. destruct x as [|x0 x']; [apply allowPathNonBase_Parse|].
    rewrite allowPathNonBase_Parse. destruct (Parse idna_raw c (x0 :: x')); try reflexivity. apply allowPathNonBase_UrlParse.
  Qed.
  (* in particular SetPathname on a URL with an opaque path is refused whatever the option says *)
  Corollary allowPathNonBase_SetPathname u s :
    SetPathname idna_raw (with_allowPathNonBase c b) u s = SetPathname idna_raw c u s.
  Proof. unfold SetPathname. rewrite allowPathNonBase_neutral. reflexivity. Qed.
End N1.
Print Assumptions allowPathNonBase_neutral.
Print Assumptions allowPathNonBase_SetPathname.

(* the option does not do what its name says: the path of a URL with an opaque path cannot be set *)
Example allowPathNonBase_no_effect :
  let c := with_allowPathNonBase default_cfg true in
  exists u, Parse id_idna c (bs "mailto:a"%string) = PUrl u /\ u_opaque u = true /\
            SetPathname id_idna c u (bs "b"%string) = Some u.
Proof. vm_compute. eexists; repeat split. Qed.

(* ================================================================== *)
(* N2  c_skipEq is read by sp_string only                              *)
(* ================================================================== *)
Section N2.
  Variable idna_raw : str -> str * bool.
  Variable c : cfg.
  Variable b : bool.

  Lemma skipEq_step inp base ov m :
    step idna_raw (with_skipEq c b) inp base ov m = step idna_raw c inp base ov m.
  Proof.
    apply step_eq_simple; try reflexivity; try (intros; reflexivity).
    repeat split; reflexivity.
  Qed.

  Lemma skipEq_run inp base ov fuel m :
    run idna_raw (with_skipEq c b) inp base ov fuel m = run idna_raw c inp base ov fuel m.
  Proof.
    apply (run_sim_eq idna_raw _ _ inp base ov (fun _ => True)); auto.
    intros; apply skipEq_step.
  Qed.

  Theorem skipEq_parser_neutral x base u0 ov :
    BasicParser idna_raw (with_skipEq c b) x base u0 ov = BasicParser idna_raw c x base u0 ov.
  Proof.
    apply BasicParser_lift_eq; try reflexivity. intros v i. apply skipEq_run.
  Qed.

  Corollary skipEq_Parse x : Parse idna_raw (with_skipEq c b) x = Parse idna_raw c x.
  Proof. apply to_pres_congr, skipEq_parser_neutral. Qed.
  Corollary skipEq_UrlParse bu x : UrlParse idna_raw (with_skipEq c b) bu x = UrlParse idna_raw c bu x.
  Proof. apply to_pres_congr, skipEq_parser_neutral. Qed.
  Corollary skipEq_ParseRef x r : ParseRef idna_raw (with_skipEq c b) x r = ParseRef idna_raw c x r.
  Proof.
    unfold ParseRef. destruct x as [|x0 x']; [apply skipEq_Parse|].
    rewrite skipEq_Parse. destruct (Parse idna_raw c (x0 :: x')); try reflexivity. apply skipEq_UrlParse.
  Qed.

  (* the rest of the search-parameter machinery does not read it either *)
  Lemma skipEq_QueryEscape s : QueryEscape (with_skipEq c b) s = QueryEscape c s.
  Proof. reflexivity. Qed.
  Lemma skipEq_sp_init q : sp_init (with_skipEq c b) q = sp_init c q.
  Proof.
    unfold sp_init. f_equal.
  Qed.
End N2.

(* the effect of the option: '=' is omitted exactly for empty values *)
Theorem skipEq_effect c l :
  sp_string (with_skipEq c true) l =
  join [38] (map (fun nv => QueryEscape c (fst nv) ++ (if is_nil (snd nv) then [] else 61 :: QueryEscape c (snd nv))) l).
Proof.
  unfold sp_string. f_equal. apply map_ext. intros [n v]. cbn [fst snd c_skipEq with_skipEq negb orb].
  change (QueryEscape (with_skipEq c true)) with (QueryEscape c).
  destruct v; reflexivity.
Qed.

Theorem skipEq_off c l :
  sp_string (with_skipEq c false) l =
  join [38] (map (fun nv => QueryEscape c (fst nv) ++ 61 :: QueryEscape c (snd nv)) l).
Proof.
  unfold sp_string. f_equal. apply map_ext. intros [n v]. cbn [fst snd c_skipEq with_skipEq negb orb].
  change (QueryEscape (with_skipEq c false)) with (QueryEscape c).
  destruct v; reflexivity.
Qed.
Print Assumptions skipEq_parser_neutral.
Print Assumptions skipEq_effect.
Print Assumptions skipEq_off.

(* the two serializations differ exactly when some value is empty *)
Example skipEq_differs :
  sp_string (with_skipEq default_cfg true) [(bs "a"%string, []); (bs "b"%string, bs "1"%string)] = bs "a&b=1"%string /\
  sp_string (with_skipEq default_cfg false) [(bs "a"%string, []); (bs "b"%string, bs "1"%string)] = bs "a=&b=1"%string.
Proof. split; vm_compute; reflexivity. Qed.

Theorem skipEq_neutral_nonempty c l :
  Forall (fun nv : str * str => snd nv <> []) l ->
  sp_string (with_skipEq c true) l = sp_string (with_skipEq c false) l.
Proof.
  intros H. rewrite skipEq_effect, skipEq_off. f_equal. apply map_ext_in. intros [n v] Hin.
  rewrite Forall_forall in H. specialize (H _ Hin). cbn [fst snd] in *. destruct v; [congruence|reflexivity].
Qed.
Print Assumptions skipEq_neutral_nonempty.
