(* Parser options are conservative extensions: each changes the result only for inputs containing its trigger.
   N1 allowSettingPathForNonBaseUrl (read nowhere), N2 skipEqualsForEmptySearchParamsValue,
   N3 acceptInvalidCodepoints, N4 percentEncodeSinglePercentSign.
   (N5 skipWindowsDriveLetterNormalization: OptionNeutralDrive.v; N6: OptionNeutralCollapse.v;
    N7: OptionNeutralSpecial.v; N8: OptionNeutralLax.v.) *)
From Coq Require Import String.
From Verif Require Import Lib.Base Lib.Utf8 Lib.GoStr Model.Cfg Gen.Tables Gen.Options Model.Sets Model.Percent Model.Url Model.Host Model.Machine Model.Api.
From Verif Require Import Proofs.OptionTable Proofs.Utf8Proofs Proofs.Cleaning Proofs.OptionNeutralBase.
From Coq Require Import Lia ZifyBool ZifyN ZifyNat.

(* the oracle used in the concrete witnesses: IDNA processing as the identity *)
Definition id_idna (s : str) : str * bool := (s, false).

Lemma to_pres_congr (r1 r2 : result) : r1 = r2 -> to_pres r1 = to_pres r2.
Proof. intros ->. reflexivity. Qed.

(* ================================================================== *)
(* N1  c_allowPathNonBase is read nowhere                              *)
(* ================================================================== *)
Section N1.
  Variable idna_raw : str -> str * bool.
  Variable c : cfg.
  Variable b : bool.

  Lemma allowPathNonBase_step inp base ov m :
    step idna_raw (with_allowPathNonBase c b) inp base ov m = step idna_raw c inp base ov m.
  Proof.
    apply step_eq_simple; try reflexivity; try (intros; reflexivity).
    repeat split; reflexivity.
  Qed.

  Lemma allowPathNonBase_run inp base ov fuel m :
    run idna_raw (with_allowPathNonBase c b) inp base ov fuel m = run idna_raw c inp base ov fuel m.
  Proof.
    apply (run_sim_eq idna_raw _ _ inp base ov (fun _ => True)); auto.
    intros; apply allowPathNonBase_step.
  Qed.

  Theorem allowPathNonBase_neutral x base u0 ov :
    BasicParser idna_raw (with_allowPathNonBase c b) x base u0 ov = BasicParser idna_raw c x base u0 ov.
  Proof.
    apply BasicParser_lift_eq; try reflexivity. intros v i. apply allowPathNonBase_run.
  Qed.

  Corollary allowPathNonBase_Parse x : Parse idna_raw (with_allowPathNonBase c b) x = Parse idna_raw c x.
  Proof. apply to_pres_congr, allowPathNonBase_neutral. Qed.
  Corollary allowPathNonBase_UrlParse bu x : UrlParse idna_raw (with_allowPathNonBase c b) bu x = UrlParse idna_raw c bu x.
  Proof. apply to_pres_congr, allowPathNonBase_neutral. Qed.
  Corollary allowPathNonBase_ParseRef x r : ParseRef idna_raw (with_allowPathNonBase c b) x r = ParseRef idna_raw c x r.
  Proof.
    unfold ParseRef. destruct x as [|x0 x']; [apply allowPathNonBase_Parse|].
    rewrite allowPathNonBase_Parse. destruct (Parse idna_raw c (x0 :: x')); try reflexivity. apply allowPathNonBase_UrlParse.
  Qed.
  (* in particular SetPathname on a URL with an opaque path is refused whatever the option says *)
  Corollary allowPathNonBase_SetPathname u s :
    SetPathname idna_raw (with_allowPathNonBase c b) u s = SetPathname idna_raw c u s.
  Proof. unfold SetPathname. rewrite allowPathNonBase_neutral. reflexivity. Qed.
End N1.
Print Assumptions allowPathNonBase_neutral.
Print Assumptions allowPathNonBase_SetPathname.

(* the option does not do what its name says: the path of a URL with an opaque path cannot be set *)
Example allowPathNonBase_no_effect :
  let c := with_allowPathNonBase default_cfg true in
  exists u, Parse id_idna c (bs "mailto:a"%string) = PUrl u /\ u_opaque u = true /\
            SetPathname id_idna c u (bs "b"%string) = Some u.
Proof. cbv zeta. eexists. split; [vm_compute; reflexivity|]. split; vm_compute; reflexivity. Qed.

(* ================================================================== *)
(* N2  c_skipEq is read by sp_string only                              *)
(* ================================================================== *)
Section N2.
  Variable idna_raw : str -> str * bool.
  Variable c : cfg.
  Variable b : bool.

  Lemma skipEq_step inp base ov m :
    step idna_raw (with_skipEq c b) inp base ov m = step idna_raw c inp base ov m.
  Proof.
    apply step_eq_simple; try reflexivity; try (intros; reflexivity).
    repeat split; reflexivity.
  Qed.

  Lemma skipEq_run inp base ov fuel m :
    run idna_raw (with_skipEq c b) inp base ov fuel m = run idna_raw c inp base ov fuel m.
  Proof.
    apply (run_sim_eq idna_raw _ _ inp base ov (fun _ => True)); auto.
    intros; apply skipEq_step.
  Qed.

  Theorem skipEq_parser_neutral x base u0 ov :
    BasicParser idna_raw (with_skipEq c b) x base u0 ov = BasicParser idna_raw c x base u0 ov.
  Proof.
    apply BasicParser_lift_eq; try reflexivity. intros v i. apply skipEq_run.
  Qed.

  Corollary skipEq_Parse x : Parse idna_raw (with_skipEq c b) x = Parse idna_raw c x.
  Proof. apply to_pres_congr, skipEq_parser_neutral. Qed.
  Corollary skipEq_UrlParse bu x : UrlParse idna_raw (with_skipEq c b) bu x = UrlParse idna_raw c bu x.
  Proof. apply to_pres_congr, skipEq_parser_neutral. Qed.
  Corollary skipEq_ParseRef x r : ParseRef idna_raw (with_skipEq c b) x r = ParseRef idna_raw c x r.
  Proof.
    unfold ParseRef. destruct x as [|x0 x']; [apply skipEq_Parse|].
    rewrite skipEq_Parse. destruct (Parse idna_raw c (x0 :: x')); try reflexivity. apply skipEq_UrlParse.
  Qed.

  (* the rest of the SearchParams code does not read it either *)
  Lemma skipEq_QueryEscape s : QueryEscape (with_skipEq c b) s = QueryEscape c s.
  Proof. reflexivity. Qed.
  Lemma skipEq_sp_init q : sp_init (with_skipEq c b) q = sp_init c q.
  Proof.
    unfold sp_init. apply flat_map_ext. intros q0. destruct q0 as [|q0 q1]; [reflexivity|].
    destruct (cut 61 (q0 :: q1)) as [k v]. unfold sp_scalar. cbn [c_acceptInvalid with_skipEq].
    rewrite !(dpe_congr (with_skipEq c b) c eq_refl). destruct v as [v|]; [|reflexivity].
    rewrite !(dpe_congr (with_skipEq c b) c eq_refl). reflexivity.
  Qed.
End N2.

(* the effect of the option: '=' is omitted exactly for empty values *)
Theorem skipEq_effect c l :
  sp_string (with_skipEq c true) l =
  join [38] (map (fun nv => QueryEscape c (fst nv) ++ (if is_nil (snd nv) then [] else 61 :: QueryEscape c (snd nv))) l).
Proof.
  unfold sp_string. f_equal. apply map_ext. intros [n v]. cbn [fst snd c_skipEq with_skipEq negb orb].
  change (QueryEscape (with_skipEq c true)) with (QueryEscape c).
  destruct v; reflexivity.
Qed.

Theorem skipEq_off c l :
  sp_string (with_skipEq c false) l =
  join [38] (map (fun nv => QueryEscape c (fst nv) ++ 61 :: QueryEscape c (snd nv)) l).
Proof.
  unfold sp_string. f_equal. apply map_ext. intros [n v]. cbn [fst snd c_skipEq with_skipEq negb orb].
  change (QueryEscape (with_skipEq c false)) with (QueryEscape c).
  destruct v; reflexivity.
Qed.
Print Assumptions skipEq_parser_neutral.
Print Assumptions skipEq_effect.
Print Assumptions skipEq_off.

(* the two serializations differ exactly when some value is empty *)
Example skipEq_differs :
  sp_string (with_skipEq default_cfg true) [(bs "a"%string, []); (bs "b"%string, bs "1"%string)] = bs "a&b=1"%string /\
  sp_string (with_skipEq default_cfg false) [(bs "a"%string, []); (bs "b"%string, bs "1"%string)] = bs "a=&b=1"%string.
Proof. split; vm_compute; reflexivity. Qed.

Theorem skipEq_neutral_nonempty c l :
  Forall (fun nv : str * str => snd nv <> []) l ->
  sp_string (with_skipEq c true) l = sp_string (with_skipEq c false) l.
Proof.
  intros H. rewrite skipEq_effect, skipEq_off. f_equal. apply map_ext_in. intros [n v] Hin.
  rewrite Forall_forall in H. specialize (H _ Hin). cbn [fst snd] in *. destruct v; [congruence|reflexivity].
Qed.
Print Assumptions skipEq_neutral_nonempty.

(* ================================================================== *)
(* N3  c_acceptInvalid matters only at bytes that are not valid UTF-8  *)
(* ================================================================== *)
Definition no_bad (inp : list rune) : Prop := forall b, ~ In (Bad b) inp.

Lemma nth_opt_In {A} (l : list A) : forall n x, nth_opt l n = Some x -> In x l.
Proof.
  induction l as [|y l IH]; intros n x H; [destruct n; discriminate|].
  destruct n; cbn [nth_opt] in H.
  - injection H as ->. left; reflexivity.
  - right. apply (IH n x H).
Qed.

Lemma valid_no_bad s : valid_utf8 s = true -> no_bad (decode s).
Proof.
  unfold valid_utf8, no_bad. intros H b Hb. rewrite forallb_forall in H. specialize (H _ Hb). discriminate.
Qed.

(* removing tab/newline bytes keeps a valid UTF-8 string valid *)
Lemma filter_flat_map {A B} (f : B -> bool) (h : A -> list B) l :
  filter f (flat_map h l) = flat_map (fun x => filter f (h x)) l.
Proof. induction l as [|x l IH]; [reflexivity|]. cbn [flat_map]. rewrite filter_app, IH. reflexivity. Qed.

Lemma tabnl_small b : isTabOrNewline b = true -> b < 128.
Proof.
  unfold isTabOrNewline, bs_test, mem. intros H. apply existsb_exists in H as [x [Hx E]].
  apply N.eqb_eq in E. subst x. vm_compute in Hx. intuition lia.
Qed.

Lemma filter_utf8_enc c0 :
  filter (fun b => negb (isTabOrNewline b)) (utf8_enc c0) = if negb (isTabOrNewline c0) then utf8_enc c0 else [].
Proof.
  destruct (N.lt_ge_cases c0 128) as [L|G].
  - rewrite (utf8_enc_ascii c0 L). cbn [filter]. destruct (negb (isTabOrNewline c0)); reflexivity.
  - assert (E : isTabOrNewline c0 = false).
    { destruct (isTabOrNewline c0) eqn:E; [|reflexivity]. apply tabnl_small in E. lia. }
    rewrite E. cbn [negb]. pose proof (utf8_enc_high c0 G) as F.
    induction F as [|x l Hx _ IH]; [reflexivity|]. cbn [filter].
    assert (Ex : isTabOrNewline x = false).
    { destruct (isTabOrNewline x) eqn:Ex; [|reflexivity]. apply tabnl_small in Ex. lia. }
    rewrite Ex. cbn [negb]. rewrite IH. reflexivity.
Qed.

Lemma valid_remove_tabnl s : valid_utf8 s = true -> valid_utf8 (fst (remove_tabnl s)) = true.
Proof.
  intros H. unfold remove_tabnl. cbn [fst].
  rewrite <- (to_valid_of_valid s H) at 1. unfold to_valid, encode_runes.
  rewrite filter_flat_map.
  assert (E : flat_map (fun x => filter (fun b => negb (isTabOrNewline b)) (utf8_enc x)) (runes s) =
              encode_runes (filter (fun x => negb (isTabOrNewline x)) (runes s))).
  { unfold encode_runes. induction (runes s) as [|x l IH]; [reflexivity|].
    cbn [flat_map filter]. rewrite filter_utf8_enc, IH.
    destruct (negb (isTabOrNewline x)); reflexivity. }
  rewrite E. apply valid_encode_runes.
  pose proof (runes_scalar s) as F. rewrite Forall_forall in *. intros x Hx. apply F.
  apply filter_In in Hx. apply Hx.
Qed.

Section N3.
  Variable idna_raw : str -> str * bool.
  Variable c : cfg.
  Variables b1 b2 : bool.

  Lemma acceptInvalid_step inp base ov m : no_bad inp ->
    step idna_raw (with_acceptInvalid c b1) inp base ov m = step idna_raw (with_acceptInvalid c b2) inp base ov m.
  Proof.
    intros H. apply step_eq_simple; try reflexivity; try (intros; reflexivity).
    - repeat split; reflexivity.
    - intros b Hb. exfalso. unfold rune_at in Hb. destruct (m_ptr m + 1 <? 0)%Z; [discriminate|].
      apply nth_opt_In in Hb. exact (H b Hb).
  Qed.

  Theorem acceptInvalid_neutral_run inp base ov fuel m : no_bad inp ->
    run idna_raw (with_acceptInvalid c b1) inp base ov fuel m = run idna_raw (with_acceptInvalid c b2) inp base ov fuel m.
  Proof.
    intros H. apply (run_sim_eq idna_raw _ _ inp base ov (fun _ => True)); auto.
    intros; apply acceptInvalid_step, H.
  Qed.

  (* BasicParser reads the option a second time: when tab/newline bytes are removed from an input that is not
     valid UTF-8 (remove_tabnl_sv). pre_input x u0 is the byte string handed to that removal: x itself when a
     url argument is given, the trimmed x otherwise. *)
  Theorem acceptInvalid_neutral x base u0 ov : valid_utf8 (pre_input x u0) = true ->
    BasicParser idna_raw (with_acceptInvalid c b1) x base u0 ov = BasicParser idna_raw (with_acceptInvalid c b2) x base u0 ov.
  Proof.
    intros H. apply BasicParser_lift_eq_gen.
    - repeat split. rewrite !(remove_tabnl_sv_valid _ _ H). reflexivity.
    - intros v i. apply acceptInvalid_neutral_run, valid_no_bad. subst i. unfold cleaned.
      rewrite (remove_tabnl_sv_valid _ _ H). apply valid_remove_tabnl, H.
  Qed.

  Corollary acceptInvalid_Parse x : valid_utf8 (fst (trim_c0space x)) = true ->
    Parse idna_raw (with_acceptInvalid c b1) x = Parse idna_raw (with_acceptInvalid c b2) x.
  Proof. intros H. apply to_pres_congr, acceptInvalid_neutral, H. Qed.
  Corollary acceptInvalid_UrlParse bu x : valid_utf8 (fst (trim_c0space x)) = true ->
    UrlParse idna_raw (with_acceptInvalid c b1) bu x = UrlParse idna_raw (with_acceptInvalid c b2) bu x.
  Proof. intros H. apply to_pres_congr, acceptInvalid_neutral, H. Qed.

  (* the other reader of the field: SearchParams.toScalarValueString *)
  Theorem acceptInvalid_sp_scalar s : valid_utf8 s = true ->
    sp_scalar (with_acceptInvalid c b1) s = s /\ sp_scalar (with_acceptInvalid c b2) s = s.
  Proof. intros H. unfold sp_scalar. rewrite H, !Bool.orb_true_r. split; reflexivity. Qed.
End N3.
(* with the option on, sp_scalar is the identity on every string; off, it is the identity exactly on valid UTF-8 *)
Lemma sp_scalar_accept c s : sp_scalar (with_acceptInvalid c true) s = s.
Proof. reflexivity. Qed.
Lemma sp_scalar_strict c s : sp_scalar (with_acceptInvalid c false) s = to_valid s.
Proof.
  unfold sp_scalar. cbn [c_acceptInvalid with_acceptInvalid orb].
  destruct (valid_utf8 s) eqn:E; [symmetry; apply to_valid_of_valid, E|reflexivity].
Qed.
Print Assumptions acceptInvalid_neutral_run.
Print Assumptions acceptInvalid_neutral.
Print Assumptions acceptInvalid_sp_scalar.

Example acceptInvalid_premise_ex : valid_utf8 (pre_input (bs "  http://exa mple.org/%zz	x "%string) None) = true.
Proof. vm_compute. reflexivity. Qed.

(* the premise is needed: an invalid byte in the host *)
Lemma acceptInvalid_neutral_refuted : exists x,
  Parse id_idna (with_acceptInvalid default_cfg true) x <> Parse id_idna (with_acceptInvalid default_cfg false) x.
Proof. exists (bs "http://a"%string ++ [255] ++ bs "b/"%string). vm_compute. discriminate. Qed.
(* validity of the CLEANED input is not enough: the tab/newline removal itself reads the option.
   Here the bytes C3 09 A9 become the valid sequence C3 A9 when the tab is removed byte-wise (option on),
   but two U+FFFD when the input is first read as scalar values (option off). *)
Lemma acceptInvalid_cleaning_refuted : exists x,
  valid_utf8 (cleaned true x None) = true /\
  Parse id_idna (with_acceptInvalid default_cfg true) x <> Parse id_idna (with_acceptInvalid default_cfg false) x.
Proof. exists (bs "http://h/"%string ++ [195; 9; 169]). split; [vm_compute; reflexivity|vm_compute; discriminate]. Qed.

Lemma sp_scalar_refuted : exists s,
  sp_scalar (with_acceptInvalid default_cfg true) s <> sp_scalar (with_acceptInvalid default_cfg false) s.
Proof. exists [255]. vm_compute. discriminate. Qed.

(* ================================================================== *)
(* N4  c_singlePct matters only at a '%' not followed by two hex digits *)
(* ================================================================== *)
(* every '%' among the code points is followed by two hex digits *)
Fixpoint pct_ok_runes (l : list N) : bool :=
  match l with
  | [] => true
  | _ :: t => negb (invalid_pct l) && pct_ok_runes t
  end.

Lemma pct_ok_skipn l : pct_ok_runes l = true -> forall n, invalid_pct (skipn n l) = false.
Proof.
  induction l as [|x l IH]; intros H n.
  - destruct n; reflexivity.
  - cbn [pct_ok_runes] in H. apply andb_true_iff in H as [H1 H2].
    destruct n; cbn [skipn]; [apply negb_true_iff, H1|apply IH, H2].
Qed.

Lemma invalid_pct_cons r l :
  invalid_pct (r :: l) =
  (r =? 37) && match l with a :: b :: _ => negb (isHexDigit a && isHexDigit b) | _ => true end.
Proof.
  destruct (r =? 37) eqn:E.
  - apply N.eqb_eq in E. subst r. destruct l as [|a [|b l]]; reflexivity.
  - cbn [andb]. destruct r as [|p]; [reflexivity|].
    do 6 (destruct p as [p|p|]; try reflexivity). discriminate E.
Qed.

Lemma pes_loop_singlePct c b1 b2 tr l : pct_ok_runes l = true ->
  pes_loop (with_singlePct c b1) tr l = pes_loop (with_singlePct c b2) tr l.
Proof.
  induction l as [|r l IH]; intros H; [reflexivity|].
  cbn [pct_ok_runes] in H. apply andb_true_iff in H as [H1 H2]. apply negb_true_iff in H1.
  rewrite invalid_pct_cons in H1. cbn [pes_loop]. rewrite H1, (IH H2). cbn [andb].
  rewrite !(per_congr (with_singlePct c b1) (with_singlePct c b2) eq_refl). reflexivity.
Qed.

Section N4.
  Variable idna_raw : str -> str * bool.
  Variable c : cfg.
  Variables b1 b2 : bool.
  Notation c1 := (with_singlePct c b1).
  Notation c2 := (with_singlePct c b2).

  Theorem singlePct_PercentEncodeString s tr : pct_ok_runes (runes s) = true ->
    PercentEncodeString c1 s tr = PercentEncodeString c2 s tr.
  Proof. apply pes_loop_singlePct. Qed.

  Corollary singlePct_SetUsername u s : pct_ok_runes (runes s) = true -> SetUsername c1 u s = SetUsername c2 u s.
  Proof. intros H. unfold SetUsername. rewrite (singlePct_PercentEncodeString s _ H). reflexivity. Qed.
  Corollary singlePct_SetPassword u s : pct_ok_runes (runes s) = true -> SetPassword c1 u s = SetPassword c2 u s.
  Proof. intros H. unfold SetPassword. rewrite (singlePct_PercentEncodeString s _ H). reflexivity. Qed.

  Hypothesis Hlax : c_lax c = false.

  Lemma singlePct_step inp base ov m : pct_ok_runes (map rv inp) = true ->
    step idna_raw c1 inp base ov m = step idna_raw c2 inp base ov m.
  Proof.
    intros H. apply step_eq_simple; try reflexivity; try (intros; reflexivity).
    - repeat split; reflexivity.
    - cbn [c_lax with_singlePct]. rewrite Hlax. discriminate.
    - intros Hi. exfalso. unfold rest_from in Hi. rewrite <- skipn_map in Hi.
      rewrite (pct_ok_skipn _ H) in Hi. discriminate.
  Qed.

  Theorem singlePct_neutral_run inp base ov fuel m : pct_ok_runes (map rv inp) = true ->
    run idna_raw c1 inp base ov fuel m = run idna_raw c2 inp base ov fuel m.
  Proof.
    intros H. apply (run_sim_eq idna_raw _ _ inp base ov (fun _ => True)); auto.
    intros; apply singlePct_step, H.
  Qed.

  Theorem singlePct_neutral x base u0 ov : pct_ok_runes (runes (cleaned (c_acceptInvalid c) x u0)) = true ->
    BasicParser idna_raw c1 x base u0 ov = BasicParser idna_raw c2 x base u0 ov.
  Proof.
    intros H. apply BasicParser_lift_eq; try reflexivity. intros v i.
    apply singlePct_neutral_run, H.
  Qed.

  Corollary singlePct_Parse x : pct_ok_runes (runes (clean_sv (c_acceptInvalid c) x)) = true -> Parse idna_raw c1 x = Parse idna_raw c2 x.
  Proof. intros H. apply to_pres_congr, singlePct_neutral, H. Qed.
  Corollary singlePct_UrlParse bu x : pct_ok_runes (runes (clean_sv (c_acceptInvalid c) x)) = true ->
    UrlParse idna_raw c1 bu x = UrlParse idna_raw c2 bu x.
  Proof. intros H. apply to_pres_congr, singlePct_neutral, H. Qed.
End N4.
Print Assumptions singlePct_PercentEncodeString.
Print Assumptions singlePct_neutral_run.
Print Assumptions singlePct_neutral.

Example singlePct_premise_ex :
  c_lax default_cfg = false /\ pct_ok_runes (runes (clean (bs "http://h/a%20b%C3%A9?x=%41#%7e"%string))) = true.
Proof. split; vm_compute; reflexivity. Qed.

(* the premise on the input is needed *)
Lemma singlePct_neutral_refuted : exists x,
  Parse id_idna (with_singlePct default_cfg true) x <> Parse id_idna (with_singlePct default_cfg false) x.
Proof. exists (bs "http://h/a%zz"%string). vm_compute. discriminate. Qed.

(* and so is c_lax = false: under lax host parsing the output of the IDNA step is percent-encoded with the host set,
   and a '%' produced by DECODING the host ("%25" -> "%") is then treated as a single percent sign *)
Lemma singlePct_neutral_lax_refuted : exists x,
  pct_ok_runes (runes (clean x)) = true /\
  Parse id_idna (with_singlePct (with_lax default_cfg true) true) x <>
  Parse id_idna (with_singlePct (with_lax default_cfg true) false) x.
Proof. exists (bs "http://a%25b/"%string). split; [vm_compute; reflexivity|vm_compute; discriminate]. Qed.
