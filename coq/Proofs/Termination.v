(* Termination of the BasicParser state machine (Model/Machine.v): the main loop performs at
   most 24 * (n + 3) iterations on an input of n code points -- in fact at most 14 * (n + 3). *)
From Verif Require Import Lib.Base Lib.Utf8 Lib.GoStr Model.Cfg Gen.Tables Model.Sets Model.Percent Model.Url Model.Host Model.Machine.
From Coq Require Import Lia ZifyBool ZifyN ZifyNat.

Local Open Scope N_scope.

(* ------------------------------------------------------------------------------------------ *)
(* 1. UTF-8: appending the encoding of one code point adds exactly one rune to []rune(buf)      *)
(* ------------------------------------------------------------------------------------------ *)

(* the first byte of t (if any) is not a continuation byte *)
Definition head_ok (t : str) : Prop :=
  match t with [] => True | b :: _ => is_cont b = false end.

Lemma in_rng_not_cont lo hi b :
  is_cont b = false -> 128 <= lo -> hi <= 191 -> in_rng lo hi b = false.
Proof. unfold is_cont, in_rng. lia. Qed.

Lemma lohi_not_cont (x y : bool) b (l1 l2 h1 h2 : N) :
  is_cont b = false -> 128 <= l1 -> 128 <= l2 -> h1 <= 191 -> h2 <= 191 ->
  in_rng (if x then l1 else l2) (if y then h1 else h2) b = false.
Proof. intros. apply in_rng_not_cont; auto; [destruct x | destruct y]; assumption. Qed.

Lemma dec1_app b0 rest t :
  head_ok t ->
  dec1 b0 (rest ++ t) = (fst (dec1 b0 rest), snd (dec1 b0 rest) ++ t).
Proof.
  intros Ht. unfold dec1.
  destruct (b0 <? 128); [reflexivity|].
  destruct (in_rng 194 223 b0).
  { destruct rest as [|b1 r1]; cbn [app].
    - destruct t as [|x t']; [reflexivity|]. cbn in Ht. rewrite Ht. reflexivity.
    - destruct (is_cont b1); reflexivity. }
  destruct (in_rng 224 239 b0).
  { destruct rest as [|b1 [|b2 r2]]; cbn [app].
    - destruct t as [|x [|y t']]; try reflexivity. cbn in Ht.
      rewrite lohi_not_cont by (auto; lia). reflexivity.
    - destruct t as [|x t']; [reflexivity|]. cbn in Ht. rewrite Ht.
      rewrite andb_false_r. reflexivity.
    - destruct (in_rng _ _ b1 && is_cont b2); reflexivity. }
  destruct (in_rng 240 244 b0).
  { destruct rest as [|b1 [|b2 [|b3 r3]]]; cbn [app].
    - destruct t as [|x [|y [|z t']]]; try reflexivity. cbn in Ht.
      rewrite lohi_not_cont by (auto; lia). reflexivity.
    - destruct t as [|x [|y t']]; try reflexivity. cbn in Ht. rewrite Ht.
      rewrite andb_false_r. reflexivity.
    - destruct t as [|x t']; try reflexivity. cbn in Ht. rewrite Ht.
      rewrite andb_false_r. reflexivity.
    - destruct (in_rng _ _ b1 && is_cont b2 && is_cont b3); reflexivity. }
  reflexivity.
Qed.

Lemma dec1_shorter b0 rest : (length (snd (dec1 b0 rest)) <= length rest)%nat.
Proof.
  unfold dec1.
  destruct (b0 <? 128); [cbn; lia|].
  destruct (in_rng 194 223 b0).
  { destruct rest as [|b1 r1]; [cbn; lia|]. destruct (is_cont b1); cbn; lia. }
  destruct (in_rng 224 239 b0).
  { destruct rest as [|b1 [|b2 r2]]; try (cbn; lia).
    destruct (in_rng _ _ b1 && is_cont b2); cbn; lia. }
  destruct (in_rng 240 244 b0).
  { destruct rest as [|b1 [|b2 [|b3 r3]]]; try (cbn; lia).
    destruct (in_rng _ _ b1 && is_cont b2 && is_cont b3); cbn; lia. }
  cbn; lia.
Qed.

Lemma decode_fuel_indep f1 : forall f2 s, (length s <= f1)%nat -> (length s <= f2)%nat ->
  decode_fuel f1 s = decode_fuel f2 s.
Proof.
  induction f1 as [|f1 IH]; intros f2 s H1 H2.
  - destruct s; [destruct f2; reflexivity | cbn in H1; lia].
  - destruct s as [|b0 rest]; [destruct f2; reflexivity|].
    destruct f2 as [|f2]; [cbn in H2; lia|].
    cbn [length decode_fuel] in *.
    pose proof (dec1_shorter b0 rest) as Hsh.
    destruct (dec1 b0 rest) as [r rest'] eqn:E. cbn [snd] in Hsh.
    f_equal. apply IH; lia.
Qed.

Lemma decode_fuel_enough f s : (length s <= f)%nat -> decode_fuel f s = decode s.
Proof. intros. unfold decode. apply decode_fuel_indep; lia. Qed.

Lemma decode_cons b0 rest :
  decode (b0 :: rest) = fst (dec1 b0 rest) :: decode (snd (dec1 b0 rest)).
Proof.
  unfold decode at 1. cbn [length decode_fuel].
  pose proof (dec1_shorter b0 rest) as Hsh.
  destruct (dec1 b0 rest) as [r rest'] eqn:E. cbn [fst snd] in *.
  f_equal. apply decode_fuel_enough. assumption.
Qed.

Lemma decode_app_aux k : forall s t, (length s <= k)%nat -> head_ok t -> decode (s ++ t) = decode s ++ decode t.
Proof.
  induction k as [|k IH]; intros s t Hs Ht.
  - destruct s; [reflexivity | cbn in Hs; lia].
  - destruct s as [|b0 rest]; [reflexivity|].
    cbn [app]. rewrite !decode_cons. rewrite (dec1_app b0 rest t Ht). cbn [fst snd].
    pose proof (dec1_shorter b0 rest) as Hsh. cbn [length] in Hs.
    rewrite IH by (auto; lia). reflexivity.
Qed.

Lemma decode_app s t : head_ok t -> decode (s ++ t) = decode s ++ decode t.
Proof. apply (decode_app_aux (length s)). lia. Qed.

Ltac Zify.zify_post_hook ::= Z.div_mod_to_equations.

Lemma utf8_enc_head_ok r : head_ok (utf8_enc r).
Proof.
  unfold utf8_enc, head_ok.
  destruct (r <? 128) eqn:E1; [unfold is_cont; lia|].
  destruct (r <? 2048) eqn:E2; [unfold is_cont; lia|].
  destruct (is_surrogate r || (1114111 <? r)) eqn:E3; [reflexivity|].
  destruct (r <? 65536) eqn:E4; unfold is_cont; lia.
Qed.

(* decoding the encoding of any rune value yields exactly one rune *)
Lemma decode_utf8_enc_len r : length (decode (utf8_enc r)) = 1%nat.
Proof.
  unfold utf8_enc.
  destruct (r <? 128) eqn:E1.
  { rewrite decode_cons. unfold dec1. rewrite E1. reflexivity. }
  destruct (r <? 2048) eqn:E2.
  { rewrite decode_cons. unfold dec1.
    replace (192 + r / 64 <? 128) with false by lia.
    replace (in_rng 194 223 (192 + r / 64)) with true by (unfold in_rng; lia).
    replace (is_cont (128 + r mod 64)) with true by (unfold is_cont; lia).
    reflexivity. }
  destruct (is_surrogate r || (1114111 <? r)) eqn:E3; [reflexivity|].
  unfold is_surrogate in E3.
  destruct (r <? 65536) eqn:E4.
  { rewrite decode_cons. unfold dec1.
    replace (224 + r / 4096 <? 128) with false by lia.
    replace (in_rng 194 223 (224 + r / 4096)) with false by (unfold in_rng; lia).
    replace (in_rng 224 239 (224 + r / 4096)) with true by (unfold in_rng; lia).
    replace (in_rng (if 224 + r / 4096 =? 224 then 160 else 128) (if 224 + r / 4096 =? 237 then 159 else 191)
               (128 + (r / 64) mod 64)) with true
      by (unfold in_rng; destruct (224 + r / 4096 =? 224) eqn:Ea; destruct (224 + r / 4096 =? 237) eqn:Eb; lia).
    replace (is_cont (128 + r mod 64)) with true by (unfold is_cont; lia).
    reflexivity. }
  { rewrite decode_cons. unfold dec1.
    replace (240 + r / 262144 <? 128) with false by lia.
    replace (in_rng 194 223 (240 + r / 262144)) with false by (unfold in_rng; lia).
    replace (in_rng 224 239 (240 + r / 262144)) with false by (unfold in_rng; lia).
    replace (in_rng 240 244 (240 + r / 262144)) with true by (unfold in_rng; lia).
    replace (in_rng (if 240 + r / 262144 =? 240 then 144 else 128) (if 240 + r / 262144 =? 244 then 143 else 191)
               (128 + (r / 4096) mod 64)) with true
      by (unfold in_rng; destruct (240 + r / 262144 =? 240) eqn:Ea; destruct (240 + r / 262144 =? 244) eqn:Eb; lia).
    replace (is_cont (128 + (r / 64) mod 64)) with true by (unfold is_cont; lia).
    replace (is_cont (128 + r mod 64)) with true by (unfold is_cont; lia).
    reflexivity. }
Qed.

Lemma runes_snoc_len buf r : len (runes (buf ++ utf8_enc r)) = (len (runes buf) + 1)%Z.
Proof.
  unfold runes, len. rewrite !map_length.
  rewrite decode_app by apply utf8_enc_head_ok.
  rewrite app_length, decode_utf8_enc_len. lia.
Qed.

Lemma runes_nil_len : len (runes []) = 0%Z.
Proof. reflexivity. Qed.

(* ------------------------------------------------------------------------------------------ *)
(* 2. The measure and the invariant                                                            *)
(* ------------------------------------------------------------------------------------------ *)

Local Open Scope Z_scope.

(* the transition graph of the 21 states is acyclic apart from self loops; rank = a topological order *)
Definition rank (s : state) : Z :=
  match s with
  | FragmentSt => 0 | QuerySt => 1 | PathSt => 2 | OpaquePath => 2 | PathStart => 3 | FileHost => 4
  | PortSt => 5 | FileSlash => 5 | HostSt => 6 | HostnameSt => 6 | File => 6 | Authority => 7
  | SpecialAuthorityIgnoreSlashes => 8 | PathOrAuthority => 8 | RelativeSlash => 9
  | SpecialAuthoritySlashes => 9 | Relative => 10 | SpecialRelativeOrAuthority => 11 | NoScheme => 11
  | Scheme => 12 | SchemeStart => 13
  end.

Lemma rank_bounds s : 0 <= rank s <= 13.
Proof. destruct s; cbn; lia. Qed.

(* what is known about the buffer: empty in every state from which Authority can still be reached;
   in Authority it holds at most as many code points as were read *)
Definition bufinv (s : state) (buf : str) (ptr : Z) : Prop :=
  match s with
  | SchemeStart | NoScheme | SpecialRelativeOrAuthority | SpecialAuthoritySlashes
  | SpecialAuthorityIgnoreSlashes | PathOrAuthority | Relative | RelativeSlash => buf = []
  | Authority => len (runes buf) <= ptr + 1
  | _ => True
  end.

Section Term.
  Variable idna_raw : str -> str * bool.
  Variable c : cfg.
  Variable inp : list rune.
  Variable base : option url.
  Variable override : option state.

  Notation n := (n_inp inp).
  Notation stepf := (step idna_raw c inp base override).

  Definition mu (m : mstate) : Z := rank (m_state m) * (n + 3) + (n + 1 - m_ptr m).

  Definition Inv (m : mstate) : Prop :=
    m_eof m = false /\ -1 <= m_ptr m <= n - 1 /\ bufinv (m_state m) (m_buf m) (m_ptr m).

  (* what one loop iteration guarantees: if the loop goes on, the invariant holds again and the measure dropped *)
  Definition Q (m : mstate) (o : outcome) : Prop :=
    match o with
    | Cont m' => m_eof m' = false -> Inv m' /\ mu m' < mu m
    | _ => True
    end.

  Lemma Q_mherr m u t f k : (forall u', Q m (k u')) -> Q m (mherr c u t f k).
  Proof.
    intros H. unfold mherr. destruct (handleError c u t f) as [u' [e|]]; [exact I | apply H].
  Qed.

  (* a failure is always returned *)
  Lemma Q_mherr_true m u t k : Q m (mherr c u t true k).
  Proof. unfold mherr, handleError. cbn. exact I. Qed.

  Lemma n_nonneg : 0 <= n.
  Proof. unfold n_inp, len. lia. Qed.

  Ltac walk :=
    repeat first
      [ progress cbv beta
      | match goal with
        | |- Q _ (mherr _ _ _ true _) => apply Q_mherr_true
        | |- Q _ (mherr _ _ _ _ _) => apply Q_mherr; intros ?u'
        | |- Q _ ((if ?b then _ else _) _) => destruct b eqn:?
        | |- Q _ (if ?b then _ else _) => destruct b eqn:?
        | |- Q _ (match ?x with _ => _ end) => destruct x eqn:?
        end ].

  Ltac fin :=
    try exact I;
    unfold Q, Inv, mu, mk; cbn [m_state m_ptr m_eof m_buf rank bufinv];
    rewrite ?runes_snoc_len, ?runes_nil_len;
    repeat match goal with |- context [(?a <=? ?b)%Z] => destruct (a <=? b)%Z eqn:? end;
    intros; pose proof n_nonneg; unfold len in *;
    try discriminate;
    repeat split; try assumption; try reflexivity; try lia.

  Ltac start m Hst Hinv :=
    destruct m as [st p e buf aF brF pwF u]; cbn [m_state] in Hst; subst st;
    destruct Hinv as (He & Hp & Hb); cbn [m_state m_ptr m_eof m_buf] in He, Hp, Hb;
    subst e;
    cbv beta iota zeta delta [step mk m_state m_ptr m_eof m_buf m_at m_br m_pw m_url];
    cbn [bufinv] in Hb; try subst buf;
    destruct (n <=? p + 1)%Z eqn:En.

  Lemma Q_SchemeStart m : m_state m = SchemeStart -> Inv m -> Q m (stepf m).
  Proof. intros Hst Hinv. start m Hst Hinv; walk; fin. Qed.
  Lemma Q_Scheme m : m_state m = Scheme -> Inv m -> Q m (stepf m).
  Proof. intros Hst Hinv. start m Hst Hinv; walk; fin. Qed.
  Lemma Q_NoScheme m : m_state m = NoScheme -> Inv m -> Q m (stepf m).
  Proof. intros Hst Hinv. start m Hst Hinv; walk; fin. Qed.
  Lemma Q_OpaquePath m : m_state m = OpaquePath -> Inv m -> Q m (stepf m).
  Proof. intros Hst Hinv. start m Hst Hinv; walk; fin. Qed.
  Lemma Q_SpecialRelativeOrAuthority m : m_state m = SpecialRelativeOrAuthority -> Inv m -> Q m (stepf m).
  Proof. intros Hst Hinv. start m Hst Hinv; walk; fin. Qed.
  Lemma Q_SpecialAuthoritySlashes m : m_state m = SpecialAuthoritySlashes -> Inv m -> Q m (stepf m).
  Proof. intros Hst Hinv. start m Hst Hinv; walk; fin. Qed.
  Lemma Q_SpecialAuthorityIgnoreSlashes m : m_state m = SpecialAuthorityIgnoreSlashes -> Inv m -> Q m (stepf m).
  Proof. intros Hst Hinv. start m Hst Hinv; walk; fin. Qed.
  Lemma Q_PathOrAuthority m : m_state m = PathOrAuthority -> Inv m -> Q m (stepf m).
  Proof. intros Hst Hinv. start m Hst Hinv; walk; fin. Qed.
  Lemma Q_Authority m : m_state m = Authority -> Inv m -> Q m (stepf m).
  Proof. intros Hst Hinv. start m Hst Hinv; walk; fin. Qed.
  Lemma Q_HostSt m : m_state m = HostSt -> Inv m -> Q m (stepf m).
  Proof. intros Hst Hinv. start m Hst Hinv; walk; fin. Qed.
  Lemma Q_HostnameSt m : m_state m = HostnameSt -> Inv m -> Q m (stepf m).
  Proof. intros Hst Hinv. start m Hst Hinv; walk; fin. Qed.
  Lemma Q_File m : m_state m = File -> Inv m -> Q m (stepf m).
  Proof. intros Hst Hinv. start m Hst Hinv; walk; fin. Qed.
  Lemma Q_FileHost m : m_state m = FileHost -> Inv m -> Q m (stepf m).
  Proof. intros Hst Hinv. start m Hst Hinv; walk; fin. Qed.
  Lemma Q_FileSlash m : m_state m = FileSlash -> Inv m -> Q m (stepf m).
  Proof. intros Hst Hinv. start m Hst Hinv; walk; fin. Qed.
  Lemma Q_PortSt m : m_state m = PortSt -> Inv m -> Q m (stepf m).
  Proof. intros Hst Hinv. start m Hst Hinv; walk; fin. Qed.
  Lemma Q_PathSt m : m_state m = PathSt -> Inv m -> Q m (stepf m).
  Proof. intros Hst Hinv. start m Hst Hinv; walk; fin. Qed.
  Lemma Q_PathStart m : m_state m = PathStart -> Inv m -> Q m (stepf m).
  Proof. intros Hst Hinv. start m Hst Hinv; walk; fin. Qed.
  Lemma Q_QuerySt m : m_state m = QuerySt -> Inv m -> Q m (stepf m).
  Proof. intros Hst Hinv. start m Hst Hinv; walk; fin. Qed.
  Lemma Q_FragmentSt m : m_state m = FragmentSt -> Inv m -> Q m (stepf m).
  Proof. intros Hst Hinv. start m Hst Hinv; walk; fin. Qed.
  Lemma Q_Relative m : m_state m = Relative -> Inv m -> Q m (stepf m).
  Proof. intros Hst Hinv. start m Hst Hinv; walk; fin. Qed.
  Lemma Q_RelativeSlash m : m_state m = RelativeSlash -> Inv m -> Q m (stepf m).
  Proof. intros Hst Hinv. start m Hst Hinv; walk; fin. Qed.

  (* T0: one iteration of the loop preserves the invariant and lowers the measure *)
  Lemma step_Q m : Inv m -> Q m (stepf m).
  Proof.
    intros H. destruct (m_state m) eqn:E;
      eauto using Q_SchemeStart, Q_Scheme, Q_NoScheme, Q_OpaquePath, Q_SpecialRelativeOrAuthority,
        Q_SpecialAuthoritySlashes, Q_SpecialAuthorityIgnoreSlashes, Q_PathOrAuthority, Q_Authority,
        Q_HostSt, Q_HostnameSt, Q_File, Q_FileHost, Q_FileSlash, Q_PortSt, Q_PathSt, Q_PathStart,
        Q_QuerySt, Q_FragmentSt, Q_Relative, Q_RelativeSlash.
  Qed.

  Theorem step_decreases m m' :
    stepf m = Cont m' -> Inv m -> m_eof m' = false -> Inv m' /\ mu m' < mu m.
  Proof. intros Hs Hi He. pose proof (step_Q m Hi) as HQ. rewrite Hs in HQ. exact (HQ He). Qed.

  Lemma mu_lower m : Inv m -> 2 <= mu m.
  Proof.
    intros (_ & Hp & _). unfold mu. pose proof (rank_bounds (m_state m)). pose proof n_nonneg. nia.
  Qed.

  Lemma mu_upper m : Inv m -> mu m <= 14 * (n + 3) - 1.
  Proof.
    intros (_ & Hp & _). unfold mu. pose proof (rank_bounds (m_state m)). pose proof n_nonneg. nia.
  Qed.

  Notation runf := (run idna_raw c inp base override).

  Lemma run_enough : forall fuel m, Inv m -> mu m <= Z.of_nat fuel -> runf fuel m <> ROutOfFuel.
  Proof.
    induction fuel as [|f IH]; intros m Hi Hm.
    - pose proof (mu_lower m Hi). lia.
    - cbn [run]. destruct (stepf m) as [m'| | | |] eqn:Es; try discriminate.
      destruct (m_eof m') eqn:Ee; [discriminate|].
      destruct (step_decreases m m' Es Hi Ee) as [Hi' Hlt].
      apply IH; [assumption | lia].
  Qed.

  (* run, instrumented with the number of calls of step *)
  Fixpoint run_count (fuel : nat) (m : mstate) : result * nat :=
    match fuel with
    | O => (ROutOfFuel, O)
    | Datatypes.S f =>
        match stepf m with
        | Cont m' => if m_eof m' then (RUrl (m_url m'), 1%nat)
                     else let '(r, k) := run_count f m' in (r, Datatypes.S k)
        | RetUrl u => (RUrl u, 1%nat)
        | RetErr u e => (RErr u e, 1%nat)
        | RetNilNil u => (RNilNil u, 1%nat)
        | Panic => (RPanic, 1%nat)
        end
    end.

  Lemma run_count_result : forall fuel m, fst (run_count fuel m) = runf fuel m.
  Proof.
    induction fuel as [|f IH]; intros m; [reflexivity|].
    cbn [run run_count]. destruct (stepf m) as [m'| | | |]; try reflexivity.
    destruct (m_eof m'); [reflexivity|]. rewrite <- IH. destruct (run_count f m'). reflexivity.
  Qed.

  Lemma run_count_le_fuel : forall fuel m, (snd (run_count fuel m) <= fuel)%nat.
  Proof.
    induction fuel as [|f IH]; intros m; [cbn; lia|].
    cbn [run_count]. destruct (stepf m) as [m'| | | |]; try (cbn; lia).
    destruct (m_eof m'); [cbn; lia|]. specialize (IH m'). destruct (run_count f m'). cbn in *. lia.
  Qed.

  (* however much fuel is supplied, the loop body runs at most mu m times *)
  Lemma run_count_bound : forall fuel m, Inv m -> Z.of_nat (snd (run_count fuel m)) <= mu m - 1.
  Proof.
    induction fuel as [|f IH]; intros m Hi; pose proof (mu_lower m Hi) as Hl.
    - cbn. lia.
    - cbn [run_count]. destruct (stepf m) as [m'| | | |] eqn:Es; try (cbn; lia).
      destruct (m_eof m') eqn:Ee; [cbn; lia|].
      destruct (step_decreases m m' Es Hi Ee) as [Hi' Hlt].
      specialize (IH m' Hi'). destruct (run_count f m'). cbn [snd] in *. lia.
  Qed.

  (* more fuel does not change the result of a run that ended *)
  Lemma run_more_fuel : forall f k m, runf f m <> ROutOfFuel -> runf (f + k) m = runf f m.
  Proof.
    induction f as [|f IH]; intros k m H; [cbn in H; congruence|].
    cbn [run Nat.add] in *. destruct (stepf m) as [m'| | | |]; try reflexivity.
    destruct (m_eof m'); [reflexivity|]. apply IH. assumption.
  Qed.

  (* the initial machine state of BasicParser, for any start state *)
  Definition m_init (st0 : state) (u : url) : mstate := mk st0 (-1) false [] false false false u.

  Lemma Inv_init st0 u : Inv (m_init st0 u).
  Proof.
    unfold Inv, m_init, mk. cbn [m_eof m_ptr m_state m_buf]. pose proof n_nonneg.
    repeat split; try lia. destruct st0; cbn [bufinv]; try exact I; try reflexivity;
      rewrite ?runes_nil_len; lia.
  Qed.

  Lemma fuel_of_Z : Z.of_nat (fuel_of (length inp)) = 24 * (n + 3).
  Proof. unfold fuel_of, n_inp, len. lia. Qed.

  (* the number of loop iterations of a run with the given fuel *)
  Definition steps (fuel : nat) (st0 : state) (u : url) : nat := snd (run_count fuel (m_init st0 u)).
End Term.

(* ------------------------------------------------------------------------------------------ *)
(* 3. The theorems                                                                             *)
(* ------------------------------------------------------------------------------------------ *)

(* T1 *)
Theorem run_never_out_of_fuel :
  forall idna_raw c inp base override st0 u,
    run idna_raw c inp base override (fuel_of (length inp)) (mk st0 (-1) false [] false false false u)
    <> ROutOfFuel.
Proof.
  intros. apply run_enough; [apply Inv_init|].
  pose proof (mu_upper inp _ (Inv_init inp st0 u)) as H. rewrite fuel_of_Z.
  pose proof (n_nonneg inp). fold (m_init st0 u). lia.
Qed.
Print Assumptions run_never_out_of_fuel.

(* quantitative form: whatever the fuel, the loop body is executed at most 14 * (n + 3) - 2 times,
   n the number of code points of the input; in particular at most fuel_of n = 24 * (n + 3) times *)
Theorem run_steps_bound_sharp :
  forall idna_raw c inp base override fuel st0 u,
    (Z.of_nat (steps idna_raw c inp base override fuel st0 u) <= 14 * (len inp + 3) - 2)%Z.
Proof.
  intros. unfold steps.
  pose proof (run_count_bound idna_raw c inp base override fuel _ (Inv_init inp st0 u)) as H1.
  pose proof (mu_upper inp _ (Inv_init inp st0 u)) as H2. unfold n_inp in *. lia.
Qed.
Print Assumptions run_steps_bound_sharp.

Theorem run_steps_bound :
  forall idna_raw c inp base override fuel st0 u,
    (steps idna_raw c inp base override fuel st0 u <= fuel_of (length inp))%nat.
Proof.
  intros. pose proof (run_steps_bound_sharp idna_raw c inp base override fuel st0 u) as H.
  unfold fuel_of, len in *. lia.
Qed.
Print Assumptions run_steps_bound.

(* steps really is the number of iterations of run: run_count computes the same result *)
Theorem steps_agrees_with_run :
  forall idna_raw c inp base override fuel m,
    fst (run_count idna_raw c inp base override fuel m) = run idna_raw c inp base override fuel m.
Proof. intros. apply run_count_result. Qed.
Print Assumptions steps_agrees_with_run.

(* the result does not depend on the fuel constant once it is at least 14 * (n + 3) - 1 *)
Theorem run_fuel_irrelevant :
  forall idna_raw c inp base override st0 u k,
    run idna_raw c inp base override (fuel_of (length inp) + k) (mk st0 (-1) false [] false false false u)
    = run idna_raw c inp base override (fuel_of (length inp)) (mk st0 (-1) false [] false false false u).
Proof. intros. apply run_more_fuel. apply run_never_out_of_fuel. Qed.
Print Assumptions run_fuel_irrelevant.

(* ------------------------------------------------------------------------------------------ *)
(* 4. Concrete runs                                                                            *)
(* ------------------------------------------------------------------------------------------ *)
From Verif Require Import Gen.Options.
From Coq Require Import String.
Local Open Scope string_scope.

Definition ex_idna (s : str) : str * bool := (s, false).
(* "http://u:p@h:8/p?q#f" : 20 code points, 26 iterations (the host is scanned twice) *)
Definition ex_input : list rune := decode (bs "http://u:p@h:8/p?q#f").
Example ex_steps :
  steps ex_idna default_cfg ex_input None None 4000 SchemeStart (empty_url []) = 26%nat
  /\ fuel_of (List.length ex_input) = 552%nat.
Proof. vm_compute. split; reflexivity. Qed.
(* "aaaaaaaaaa/" against a base: the scheme state reads ten code points, then the pointer is reset *)
Definition ex_base : url := set_host (set_scheme (empty_url []) (bs "http")) (Some (bs "h")).
Example ex_steps_reset :
  steps ex_idna default_cfg (decode (bs "aaaaaaaaaa/")) (Some ex_base) None 4000 SchemeStart (empty_url []) = 25%nat.
Proof. vm_compute. reflexivity. Qed.
