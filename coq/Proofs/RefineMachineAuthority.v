(* R8: one-step simulation for the authority state. *)
From Verif Require Import Lib.Base Lib.Utf8 Lib.GoStr Model.Cfg Gen.Tables Gen.Options Model.Sets Model.Percent
     Model.Url Model.Host Model.Machine.
From Verif Require Spec.Url Spec.Host Spec.BasicParser.
From Verif Require Import Spec.PercentSets Spec.PercentCodec.
From Verif Require Import Proofs.Utf8Proofs Proofs.SetsProofs Proofs.RefineUtf8 Proofs.RefineCodec
     Proofs.RefineHost Proofs.RefineMachineBase.
From Coq Require Import Lia ZifyBool ZifyN ZifyNat.

(* ------------------------------------------------------------------ *)
(* the credentials loop changes the username and the password only      *)
(* ------------------------------------------------------------------ *)
Definition cred_frame (su su' : SU.surl) : Prop :=
  SU.u_scheme su' = SU.u_scheme su /\ SU.u_host su' = SU.u_host su /\ SU.u_port su' = SU.u_port su /\
  SU.u_path su' = SU.u_path su /\ SU.u_query su' = SU.u_query su /\ SU.u_fragment su' = SU.u_fragment su.

Lemma cred_frame_refl su : cred_frame su su.
Proof. repeat split. Qed.

Lemma cred_frame_step su pw x : cred_frame su (fst (SB.authority_code_point (su, pw) x)).
Proof.
  unfold SB.authority_code_point. destruct ((x =? 58) && negb pw); [apply cred_frame_refl|].
  destruct pw; repeat split.
Qed.

Lemma cred_frame_trans a b d : cred_frame a b -> cred_frame b d -> cred_frame a d.
Proof.
  intros [A1 [A2 [A3 [A4 [A5 A6]]]]] [B1 [B2 [B3 [B4 [B5 B6]]]]].
  repeat split; congruence.
Qed.

Lemma cred_frame_fold l : forall su pw, cred_frame su (fst (fold_left SB.authority_code_point l (su, pw))).
Proof.
  induction l as [|x l IH]; intros su pw; [apply cred_frame_refl|].
  cbn [fold_left].
  pose proof (cred_frame_step su pw x) as S1.
  destruct (SB.authority_code_point (su, pw) x) as [su1 pw1]. cbn [fst] in S1.
  exact (cred_frame_trans _ _ _ S1 (IH su1 pw1)).
Qed.

Lemma R_cred u su su' : R u su -> cred_frame su su' ->
  R (set_password (set_username u (encode_runes (SU.u_username su'))) (encode_runes (SU.u_password su'))) su'.
Proof.
  intros [H1 H2 H3 H4 H5 H6 H7 H8] [F1 [F2 [F3 [F4 [F5 F6]]]]].
  constructor;
    cbn [set_password set_username u_scheme u_username u_password u_host u_port u_path u_opaque u_query u_fragment];
    rewrite ?F1, ?F2, ?F3, ?F4, ?F5, ?F6; try assumption; reflexivity.
Qed.

Section States.
  Variable idna_raw : str -> str * bool.
  Variable c : cfg.
  Hypothesis Hstd : std_cfg c.
  Variable inp : list rune.
  Let input : list N := map rv inp.
  Hypothesis Hinp : Forall scalar (map rv inp).
  Variable base : option url.
  Variable sbase : option SU.surl.
  Variable override : option state.

  Let Hfail := std_fail c Hstd.
  Let Hl1 := std_latin1 c Hstd.
  Let Hspecial := std_special_tab c Hstd.

  Notation sim_for := (step_sim_for idna_raw c inp base sbase override).

  (* the model's loop over the code points of the buffer is the standard's "for each codePoint in buffer" *)
  Lemma cred_loop_spec l : forall pw su,
    cred_loop c l pw (encode_runes (SU.u_username su)) (encode_runes (SU.u_password su)) =
    (snd (fold_left SB.authority_code_point l (su, pw)),
     encode_runes (SU.u_username (fst (fold_left SB.authority_code_point l (su, pw)))),
     encode_runes (SU.u_password (fst (fold_left SB.authority_code_point l (su, pw))))).
  Proof.
    induction l as [|x l IH]; intros pw su; [reflexivity|].
    cbn [cred_loop fold_left]. unfold SB.authority_code_point at 2 4 6.
    destruct ((x =? 58) && negb pw) eqn:E.
    - apply IH.
    - rewrite (R1_userinfo c Hstd x). destruct pw.
      + rewrite <- enc_runes_app.
        exact (IH true (SU.with_password su (SU.u_password su ++ utf8_percent_encode_cp in_userinfo_set x))).
      + rewrite <- enc_runes_app.
        exact (IH false (SU.with_username su (SU.u_username su ++ utf8_percent_encode_cp in_userinfo_set x))).
  Qed.

  (* the code point under the pointer is one of the input *)
  Lemma cp_at_in p : (0 <= p)%Z -> (p < n_inp inp)%Z -> In (cp_at inp p) (map rv inp).
  Proof.
    intros H0 Hn. pose proof (here_cons inp p H0 Hn) as E.
    assert (I : In (cp_at inp p) (SB.substring_from (map rv inp) p)) by (rewrite E; left; reflexivity).
    unfold SB.substring_from in I.
    rewrite <- (firstn_skipn (Z.to_nat p) (map rv inp)). apply in_or_app. right. exact I.
  Qed.

  Lemma cp_at_scalar p : (0 <= p)%Z -> (p < n_inp inp)%Z -> scalar (cp_at inp p).
  Proof. intros H0 Hn. rewrite Forall_forall in Hinp. apply Hinp. apply cp_at_in; assumption. Qed.

  (* all projections of the two machine records *)
  Ltac proj_all :=
    unfold mk;
    cbn [m_state m_ptr m_eof m_buf m_at m_br m_pw m_url st_map st_rel
         SB.m_url SB.m_buffer SB.m_state SB.m_pointer SB.m_atSignSeen SB.m_insideBrackets SB.m_passwordTokenSeen
         SB.set_state SB.set_buffer SB.set_url SB.set_atSignSeen SB.set_passwordTokenSeen
         SB.decrease_pointer SB.set_pointer SB.append_to_buffer].

  Theorem sim_authority : sim_for (fun st => st = Authority).
  Proof.
    intros mm sm Hst [Hs Hp He Hlo Hhi Hfl Hb].
    rewrite Hst in Hs, Hb. cbn [st_map] in Hs. cbn [st_rel] in Hb.
    destruct Hb as [Hbuf [Hsc [Hlen [HR Hlp]]]].
    unfold mstep, sstep, step, SB.step. rewrite Hst, <- Hs. cbv beta iota zeta. rewrite He, Hp.
    set (p := (m_ptr mm + 1)%Z).
    unfold SB.authority_state.
    assert (Hrunes : runes (m_buf mm) = SB.m_buffer sm)
      by (rewrite Hbuf; apply runes_encode_runes; exact Hsc).
    (* what the end of the authority does *)
    assert (T : forall u, R u (SB.m_url sm) ->
      out_rel inp (is_some override) sbase
        ((if m_at mm && is_nil (m_buf mm) then (fun k => mherr c u InvalidCredentials true k) else (fun k => k u))
           (fun u0 => Cont (mk HostSt (p - (len (runes (m_buf mm)) + 1))%Z false [] (m_at mm) (m_br mm) (m_pw mm) u0)))
        (if SB.m_atSignSeen sm && is_nil (SB.m_buffer sm) then SB.SFail (SB.m_url sm)
         else SB.SCont (SB.set_state (SB.set_buffer
                 (SB.decrease_pointer sm (Z.of_nat (length (SB.m_buffer sm)) + 1)%Z) []) SB.HostState))).
    { intros u Hu.
      replace (is_nil (m_buf mm)) with (is_nil (SB.m_buffer sm)) by (rewrite Hbuf; symmetry; apply is_nil_enc).
      replace (SB.m_atSignSeen sm) with (m_at mm) by (apply Hfl).
      destruct (m_at mm && is_nil (SB.m_buffer sm)) eqn:Ef.
      - destruct (mherr_fatal c u InvalidCredentials
          (fun u0 => Cont (mk HostSt (p - (len (runes (m_buf mm)) + 1))%Z false [] (m_at mm) (m_br mm) (m_pw mm) u0)))
          as [e ->].
        cbn [out_rel]. apply R_noted. exact Hu.
      - cbn [out_rel]. rewrite Hrunes. unfold len. clear Ef.
        destruct sm as [su sst sbuf sa sbr spw sp]. proj_all. cbn [SB.m_buffer SB.m_pointer SB.m_url] in *.
        constructor; proj_all.
        + reflexivity.
        + rewrite Hp. reflexivity.
        + clear - Hlo Hlen. lia.
        + rewrite points_to_eof_spec. clear - Hlo Hhi Hlen. lia.
        + exact Hfl.
        + split; [reflexivity|]. split; [constructor|]. split; [exact Hu|exact Hlp].
        + discriminate. }
    destruct (n_inp inp <=? p)%Z eqn:En.
    - (* the EOF code point *)
      unfold input. rewrite here_eof by (clear - En; lia).
      cbn [SB.c_of hd_error SB.c_is SB.c_is_eof SB.ends_authority orb].
      change (rune_error =? 64) with false. cbv iota.
      apply T. exact HR.
    - (* a code point *)
      assert (Hp0 : (0 <= p)%Z) by (clear - Hlo; lia).
      assert (Hpn : (p < n_inp inp)%Z) by (clear - En; lia).
      unfold input. rewrite (here_cons inp p Hp0 Hpn).
      cbn [SB.c_of hd_error SB.c_is SB.c_is_eof]. unfold SB.ends_authority.
      cbn [SB.c_is SB.c_is_eof orb].
      set (r := cp_at inp p).
      assert (Hr : scalar r) by (apply cp_at_scalar; assumption).
      destruct (r =? 64) eqn:E64.
      + (* '@' *)
        rewrite mherr_warn by exact Hfail.
        rewrite noted_username, noted_password.
        rewrite (RU.R_username _ _ HR), (RU.R_password _ _ HR).
        match goal with |- context [cred_loop c (runes ?x)] =>
          assert (Eb : runes x
                     = if SB.m_atSignSeen sm then [37;52;48] ++ SB.m_buffer sm else SB.m_buffer sm) end.
        { replace (SB.m_atSignSeen sm) with (m_at mm) by (apply Hfl).
          destruct (m_at mm); [|exact Hrunes].
          rewrite runes_app_ascii_l by (repeat constructor; lia). rewrite Hrunes. reflexivity. }
        rewrite Eb. rewrite cred_loop_spec.
        replace (m_pw mm) with (SB.m_passwordTokenSeen sm) by (symmetry; apply Hfl).
        destruct sm as [su sst sbuf sa sbr spw sp]. proj_all. cbn [SB.m_buffer SB.m_pointer SB.m_url SB.m_state] in *.
        set (l := if sa then [37;52;48] ++ sbuf else sbuf).
        pose proof (cred_frame_fold l su spw) as Fr.
        destruct (fold_left SB.authority_code_point l (su, spw)) as [su' pts]. cbn [fst snd] in *.
        cbn [out_rel].
        constructor; proj_all.
        * exact Hs.
        * exact Hp.
        * clear - Hp0. lia.
        * rewrite points_to_eof_spec. clear - Hp0 Hpn. lia.
        * destruct Hfl as [_ [Hbr _]]. repeat split. exact Hbr.
        * split; [reflexivity|]. split; [constructor|]. split; [cbn [length]; clear - Hp0; lia|]. split.
          -- apply (R_cred _ su su'); [apply R_noted; exact HR|exact Fr].
          -- unfold list_path, SU.has_opaque_path in *. destruct Fr as [_ [_ [_ [F4 _]]]]. rewrite F4. exact Hlp.
        * discriminate.
      + (* not '@' *)
        assert (Esp : isSpecialSchemeAndBackslash c (m_url mm) r = SB.special sm && (r =? 92)).
        { unfold isSpecialSchemeAndBackslash, SB.special. rewrite (R_special c _ _ Hspecial HR). reflexivity. }
        rewrite Esp.
        destruct ((r =? 47) || (r =? 63) || (r =? 35) || SB.special sm && (r =? 92)) eqn:Et.
        * (* the authority ends *)
          apply T. exact HR.
        * (* append *)
          cbn [out_rel]. clear Et Esp E64 T.
          destruct sm as [su sst sbuf sa sbr spw sp]. proj_all. cbn [SB.m_buffer SB.m_pointer SB.m_url SB.m_state] in *.
          constructor; proj_all.
          -- exact Hs.
          -- exact Hp.
          -- clear - Hp0. lia.
          -- rewrite points_to_eof_spec. clear - Hp0 Hpn. lia.
          -- exact Hfl.
          -- split.
             { rewrite Hbuf, enc_runes_app. unfold encode_runes at 3. cbn [flat_map]. rewrite app_nil_r. reflexivity. }
             split.
             { apply Forall_app. split; [exact Hsc|]. constructor; [exact Hr|constructor]. }
             split; [rewrite app_length; cbn [length]; clear - Hlen; lia|]. split; [exact HR|exact Hlp].
          -- discriminate.
  Qed.
End States.

Print Assumptions sim_authority.

(* ================================================================== *)
(* the premises are satisfiable: the authority "a@b:c@h" of an http URL, the pointer on the second '@' *)
(* ================================================================== *)
Definition auth_ex_inp : list rune := map Good [97;64;98;58;99;64;104].
Definition auth_ex_su : SU.surl := SU.mkSUrl SU.sc_http [97] [] None None (SU.PList []) None None.
Definition auth_ex_u : url := set_username (set_scheme (empty_url []) [104;116;116;112]) [97].
Definition auth_ex_mm : mstate := mk Authority 4 false [98;58;99] true false false auth_ex_u.
Definition auth_ex_sm : SB.machine := SB.mkM auth_ex_su SB.AuthorityState [98;58;99] true false false 5.

Example sim_authority_premises :
  std_cfg default_cfg /\ Forall scalar (map rv auth_ex_inp) /\ m_state auth_ex_mm = Authority /\
  Rel_before auth_ex_inp false None auth_ex_mm auth_ex_sm.
Proof.
  split; [exact std_cfg_default|]. split.
  { apply Forall_forall. intros x Hx. apply scalarb_spec.
    assert (F : forallb scalarb (map rv auth_ex_inp) = true) by (vm_compute; reflexivity).
    rewrite forallb_forall in F. apply F. exact Hx. }
  split; [reflexivity|].
  constructor.
  - reflexivity.
  - reflexivity.
  - reflexivity.
  - vm_compute. discriminate.
  - vm_compute. reflexivity.
  - repeat split; reflexivity.
  - change (st_rel false None Authority 4 [98;58;99] auth_ex_u auth_ex_sm). cbn [st_rel].
    split; [vm_compute; reflexivity|]. split.
    + apply Forall_forall. intros x Hx. apply scalarb_spec.
      assert (F : forallb scalarb [98;58;99] = true) by (vm_compute; reflexivity).
      rewrite forallb_forall in F. apply F. exact Hx.
    + split; [vm_compute; discriminate|].
      split; [constructor; vm_compute; try split; reflexivity|reflexivity].
Qed.

(* what the theorem gives on it: both sides prepend "%40" and split at the first ':' -- username "a%40b", password "c" *)
Example sim_authority_instance :
  out_rel auth_ex_inp false None
    (mstep (fun s => (s, true)) default_cfg auth_ex_inp None None auth_ex_mm)
    (sstep (fun s => (s, true)) default_cfg auth_ex_inp None None auth_ex_sm) /\
  (exists mm', mstep (fun s => (s, true)) default_cfg auth_ex_inp None None auth_ex_mm = Cont mm' /\
               u_username (m_url mm') = [97;37;52;48;98] /\ u_password (m_url mm') = [99] /\
               m_state mm' = Authority /\ m_buf mm' = [] /\ m_at mm' = true /\ m_pw mm' = true) /\
  (exists sm', sstep (fun s => (s, true)) default_cfg auth_ex_inp None None auth_ex_sm = SB.SCont sm' /\
               SU.u_username (SB.m_url sm') = [97;37;52;48;98] /\ SU.u_password (SB.m_url sm') = [99] /\
               SB.m_state sm' = SB.AuthorityState /\ SB.m_buffer sm' = [] /\ SB.m_passwordTokenSeen sm' = true).
Proof.
  destruct sim_authority_premises as [P1 [P2 [P3 P4]]].
  split; [|split].
  - exact (sim_authority (fun s => (s, true)) default_cfg P1 auth_ex_inp P2 None None None auth_ex_mm auth_ex_sm P3 P4).
  - eexists. split; [vm_compute; reflexivity|]. repeat split; reflexivity.
  - eexists. split; [vm_compute; reflexivity|]. repeat split; reflexivity.
Qed.
