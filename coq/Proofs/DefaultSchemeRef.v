(* C16, default-scheme through ParseRef (canonicalizer profile, Model/Canon.v [ProfileParseRef]).
   The default scheme is consulted for the BASE only, and only when the base fails for lack of a scheme; the
   resolution of the reference against the parsed base is never retried: a failure of the resolution (e.g. the
   missing-scheme error of a relative reference against a base with an opaque path) is returned as it is.
   [Properties/C16.v C16_default_scheme] (= CanonBasics.parse_retry_spec) is the ProfileParse form. *)
From Verif Require Import Lib.Base Lib.Utf8 Lib.GoStr Model.Cfg Gen.Tables Gen.Options Model.Sets Model.Percent Model.Url Model.Host Model.Machine Model.Api Model.Canon.
From Verif Require Import Proofs.OptionTable Proofs.CanonBasics.
From Coq Require Import String.

Local Open Scope N_scope.

(* what ParseRef does once the base has been read: resolve and canonicalize, or hand the base's failure on *)
Definition resolve_on (idna_raw : str -> str * bool) (p : profile) (rb : pres) (ref : str) : cres :=
  match rb with
  | PUrl b => canon_of idna_raw p (UrlParse idna_raw (p_cfg p) b ref)
  | PErr e => CErr e
  | _ => CPanic
  end.

Lemma ProfileParseRef_resolve_on idna_raw p base ref :
  ProfileParseRef idna_raw p base ref = resolve_on idna_raw p (parse_retry idna_raw p base) ref.
Proof. reflexivity. Qed.

Theorem default_scheme_parseref : forall idna_raw p ds base ref,
  p_defaultScheme p = ds ->
  let c := p_cfg p in
  (* 1. the base parses: the default scheme plays no role, whatever the resolution gives *)
  (forall b, Parse idna_raw c base = PUrl b ->
     ProfileParseRef idna_raw p base ref = canon_of idna_raw p (UrlParse idna_raw c b ref)) /\
  (* 2. the base fails for lack of a scheme and there is a default scheme: the same with scheme://base *)
  (forall e, Parse idna_raw c base = PErr e -> e_type e = MissingSchemeNonRelativeURL -> ds <> [] ->
     ProfileParseRef idna_raw p base ref =
     match Parse idna_raw c (ds ++ [58;47;47] ++ base) with
     | PUrl b => canon_of idna_raw p (UrlParse idna_raw c b ref)
     | PErr e' => CErr e'
     | _ => CPanic
     end) /\
  (* 3. any other failure of the base (or no default scheme): the base's error *)
  (forall e, Parse idna_raw c base = PErr e -> (e_type e <> MissingSchemeNonRelativeURL \/ ds = []) ->
     ProfileParseRef idna_raw p base ref = CErr e) /\
  (* (a parse of the base that neither returns a URL nor an error - never the case, CanonTotal.Parse_total - is a panic) *)
  (forall r, Parse idna_raw c base = r -> (forall b, r <> PUrl b) -> (forall e, r <> PErr e) ->
     ProfileParseRef idna_raw p base ref = CPanic).
Proof.
  intros idna_raw p ds base ref Hds c. subst c.
  rewrite ProfileParseRef_resolve_on, (parse_retry_spec idna_raw p base), Hds.
  split; [|split; [|split]].
  - intros b E. rewrite E. reflexivity.
  - intros e E Ht Hne. rewrite E, Ht.
    destruct ds as [|d ds']; [contradiction Hne; reflexivity|]. reflexivity.
  - intros e E [Ht|Hnil]; rewrite E.
    + destruct (e_type e); try reflexivity. contradiction Ht; reflexivity.
    + rewrite Hnil. destruct (e_type e); reflexivity.
  - intros r E Hu He. rewrite E.
    destruct r as [b|e| | |]; [exfalso; exact (Hu b eq_refl)|exfalso; exact (He e eq_refl)| | |]; reflexivity.
Qed.
Print Assumptions default_scheme_parseref.

(* the point of case 1 as a corollary: a failed resolution is returned as it is - whatever the default scheme *)
Corollary default_scheme_does_not_repair_resolution : forall idna_raw p base ref b e,
  Parse idna_raw (p_cfg p) base = PUrl b -> UrlParse idna_raw (p_cfg p) b ref = PErr e ->
  ProfileParseRef idna_raw p base ref = CErr e.
Proof.
  intros idna_raw p base ref b e Hb Hr.
  destruct (default_scheme_parseref idna_raw p (p_defaultScheme p) base ref eq_refl) as [H1 _].
  rewrite (H1 b Hb), Hr. reflexivity.
Qed.
Print Assumptions default_scheme_does_not_repair_resolution.

(* and the default scheme is neutral for ParseRef whenever the base has a scheme of its own *)
Corollary default_scheme_neutral_parseref : forall idna_raw p ds base ref b,
  Parse idna_raw (p_cfg p) base = PUrl b ->
  ProfileParseRef idna_raw (pwith_defaultScheme p ds) base ref =
  match UrlParse idna_raw (p_cfg p) b ref with
  | PUrl u => match Canonicalize idna_raw (pwith_defaultScheme p ds) u with Some u' => CUrl u' | None => CPanic end
  | PErr e => CErr e
  | _ => CPanic
  end.
Proof.
  intros idna_raw p ds base ref b Hb.
  destruct (default_scheme_parseref idna_raw (pwith_defaultScheme p ds) ds base ref eq_refl) as [H1 _].
  cbn [pwith_defaultScheme p_cfg] in H1. rewrite (H1 b Hb). reflexivity.
Qed.
Print Assumptions default_scheme_neutral_parseref.

(* ------------------------------------------------------------------------------------------ *)
(* Examples                                                                                    *)
(* ------------------------------------------------------------------------------------------ *)

Definition ds_idna (s : str) : str * bool := (s, false).
Definition prof_http : profile := pwith_defaultScheme prof_none (bs "http").

Definition cres_obs (r : cres) : option str + etype :=
  match r with
  | CUrl u => inl (Some (match Href u false with Some s => s | None => [] end))
  | CErr e => inr (e_type e)
  | CPanic => inl None
  end.

(* ParseRef("mailto:user@example.com", "inbox") with default scheme "http": the base parses (opaque path), the
   resolution fails for lack of a scheme, and that error is the result - not a URL *)
Example default_scheme_parseref_mailto :
  p_defaultScheme prof_http = bs "http" /\
  (exists b, Parse ds_idna (p_cfg prof_http) (bs "mailto:user@example.com") = PUrl b /\ u_opaque b = true /\
     exists e, UrlParse ds_idna (p_cfg prof_http) b (bs "inbox") = PErr e /\ e_type e = MissingSchemeNonRelativeURL) /\
  (exists e, ProfileParseRef ds_idna prof_http (bs "mailto:user@example.com") (bs "inbox") = CErr e /\
     e_type e = MissingSchemeNonRelativeURL) /\
  (forall u, ProfileParseRef ds_idna prof_http (bs "mailto:user@example.com") (bs "inbox") <> CUrl u).
Proof.
  split; [reflexivity|]. split; [|split].
  - eexists. split; [vm_compute; reflexivity|]. split; [reflexivity|].
    eexists. split; [vm_compute; reflexivity|]. reflexivity.
  - eexists. split; [vm_compute; reflexivity|]. reflexivity.
  - intros u H. apply (f_equal cres_obs) in H. vm_compute in H. discriminate H.
Qed.

(* the reference alone WOULD be repaired by ProfileParse (it is the base that the default scheme applies to) *)
Example default_scheme_parse_inbox :
  cres_obs (ProfileParse ds_idna prof_http (bs "inbox")) = inl (Some (bs "http://inbox/")).
Proof. vm_compute. reflexivity. Qed.

(* case 2: the base lacks a scheme; it is read as http://example.com/a/ and the reference is resolved against that *)
Example default_scheme_parseref_case2 :
  (exists e, Parse ds_idna (p_cfg prof_http) (bs "example.com/a/") = PErr e /\ e_type e = MissingSchemeNonRelativeURL) /\
  cres_obs (ProfileParseRef ds_idna prof_http (bs "example.com/a/") (bs "b?q")) = inl (Some (bs "http://example.com/a/b?q")).
Proof. split; [eexists; split; [vm_compute; reflexivity|reflexivity] | vm_compute; reflexivity]. Qed.

(* case 2 with a failure after the retry: the retried parse's error *)
Example default_scheme_parseref_case2_err :
  (exists e, Parse ds_idna (p_cfg prof_http) (bs "a b/") = PErr e /\ e_type e = MissingSchemeNonRelativeURL) /\
  (exists e, Parse ds_idna (p_cfg prof_http) (bs "http://a b/") = PErr e /\
     cres_obs (ProfileParseRef ds_idna prof_http (bs "a b/") (bs "x")) = inr (e_type e)).
Proof.
  split; [eexists; split; [vm_compute; reflexivity|reflexivity]|].
  eexists; split; vm_compute; reflexivity.
Qed.

(* case 3: the base fails for another reason (a port out of range): its error, no retry *)
Example default_scheme_parseref_case3 :
  exists e, Parse ds_idna (p_cfg prof_http) (bs "http://h:99999/") = PErr e /\ e_type e = PortOutOfRange /\
    ProfileParseRef ds_idna prof_http (bs "http://h:99999/") (bs "x") = CErr e.
Proof. eexists. split; [vm_compute; reflexivity|]. split; [reflexivity|vm_compute; reflexivity]. Qed.

(* case 3, no default scheme: the missing-scheme error of the base itself *)
Example default_scheme_parseref_case3_nods :
  exists e, Parse ds_idna (p_cfg prof_none) (bs "example.com/a/") = PErr e /\ e_type e = MissingSchemeNonRelativeURL /\
    ProfileParseRef ds_idna prof_none (bs "example.com/a/") (bs "b") = CErr e.
Proof. eexists. split; [vm_compute; reflexivity|]. split; [reflexivity|vm_compute; reflexivity]. Qed.
