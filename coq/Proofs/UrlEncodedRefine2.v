(* The serializers: the model's SearchParams.String (Model/Api.v sp_string, Go's QueryEscape) against the
   application/x-www-form-urlencoded serializer and parser of the URL Standard (Spec/UrlEncoded.v).

   - the standard's parser applied to the model's serialization returns the list (as code points), under the
     premises of SearchParamsProofs.sp_roundtrip (spec_parse_of_model_string);
   - the standard's own round trip parse (serialize t) = t for scalar value tuples (spec_roundtrip);
   - the two serializers differ: the code points on which they differ, for the query percent-encode set of the
     standard, are exactly ! $ % ' ( ) , / : ; ? @ [ \ ] ^ ` { | } ~ (serializers_differ_exactly); off these the
     model's serialization is the standard's (sp_string_is_urlencoded_serialize); and under the premises of the
     round trip both serializations parse back to the same list (serializers_same_parse). *)
From Verif Require Import Lib.Base Lib.Utf8 Lib.GoStr Model.Cfg Gen.Tables Gen.Options Model.Sets Model.Percent
  Model.Url Model.Host Model.Machine Model.Api.
From Verif Require Import Spec.PercentSets Spec.PercentCodec Spec.UrlEncoded.
From Verif Require Import Proofs.Utf8Proofs Proofs.RefineUtf8 Proofs.RefineUtf8Dec Proofs.RefineCodec Proofs.SearchParamsProofs
  Proofs.UrlEncodedRefine.
From Coq Require Import Lia ZifyBool ZifyN ZifyNat.
Ltac Zify.zify_post_hook ::= Z.div_mod_to_equations.

Local Arguments N.mul : simpl never.
Local Arguments N.add : simpl never.
Local Arguments N.sub : simpl never.
Local Arguments N.div : simpl never.
Local Arguments N.modulo : simpl never.
Local Arguments N.eqb : simpl never.
Local Arguments N.ltb : simpl never.
Local Arguments N.leb : simpl never.

Notation wdec := utf8_decode_without_bom.

(* ====================================================================================== *)
(* 1. the standard's parser on the model's serialization                                   *)
(* ====================================================================================== *)

Lemma map_both_id {A} (f : A -> A) (L : list (A * A)) : (forall x, f x = x) -> map (both f) L = L.
Proof.
  intros H. induction L as [|[a b] L IH]; [reflexivity|]. cbn [map]. unfold both at 1. cbn [fst snd].
  rewrite !H, IH. reflexivity.
Qed.

(* byte level: the percent-decoded names and values of the serialization are the names and values.
   (sp_string and pair_ok do not read acceptInvalidCodepoints; with that option on, sp_init returns the
   percent-decoded bytes unchanged, so sp_roundtrip for that configuration is a byte-level statement.) *)
Theorem parse_bytes_of_sp_string : forall c l,
  c_latin1 c = false -> forallb (pair_ok c) l = true ->
  urlencoded_parse_bytes (sp_string c l) = l.
Proof.
  intros c l HL HP.
  set (c' := cfg_with c true (c_latin1 c) (c_skipEq c)).
  assert (HL' : c_latin1 c' = false) by exact HL.
  assert (HP' : forallb (pair_ok c') l = true) by exact HP.
  pose proof (sp_roundtrip c' l HL' HP') as R.
  change (sp_string c' l) with (sp_string c l) in R.
  rewrite (sp_init_bytes c' _ HL') in R.
  rewrite map_both_id in R; [exact R|].
  intros x. reflexivity.
Qed.
Print Assumptions parse_bytes_of_sp_string.

(* the statement of the task: serialize with the model, parse with the standard *)
Theorem spec_parse_of_model_string : forall c l,
  c_latin1 c = false -> forallb (pair_ok c) l = true ->
  urlencoded_parse (sp_string c l) = map (fun nv => (codepoints_of_utf8 (fst nv), codepoints_of_utf8 (snd nv))) l.
Proof.
  intros c l HL HP. rewrite urlencoded_parse_bytes_spec, parse_bytes_of_sp_string by assumption. reflexivity.
Qed.
Print Assumptions spec_parse_of_model_string.

Lemma pair_ok_valid c l : forallb (pair_ok c) l = true ->
  forall nv, In nv l -> valid_utf8 (fst nv) = true /\ valid_utf8 (snd nv) = true.
Proof.
  intros H nv Hin. rewrite forallb_forall in H. specialize (H nv Hin). unfold pair_ok in H.
  apply andb_true_iff in H. destruct H as [H _].
  apply andb_true_iff in H. destruct H as [H _].
  apply andb_true_iff in H. destruct H as [H _].
  apply andb_true_iff in H. exact H.
Qed.

(* ... the names and values being valid UTF-8, the standard's decoder reads them as Go does ... *)
Corollary spec_parse_of_model_string_runes : forall c l,
  c_latin1 c = false -> forallb (pair_ok c) l = true ->
  urlencoded_parse (sp_string c l) = map (both runes) l.
Proof.
  intros c l HL HP. rewrite spec_parse_of_model_string by assumption.
  apply map_ext_in. intros nv Hin. destruct (pair_ok_valid c l HP nv Hin) as [H1 H2].
  unfold both, codepoints_of_utf8. rewrite !whatwg_decode_valid by assumption. reflexivity.
Qed.

(* ... and encoding the standard's result gives the list back: the cross round trip *)
Corollary spec_parse_of_model_string_bytes : forall c l,
  c_latin1 c = false -> forallb (pair_ok c) l = true ->
  map (both utf8_of_codepoints) (urlencoded_parse (sp_string c l)) = l.
Proof.
  intros c l HL HP. rewrite spec_parse_of_model_string by assumption. rewrite map_map.
  rewrite <- (map_id l) at 2. apply map_ext_in. intros [n v] Hin.
  destruct (pair_ok_valid c l HP _ Hin) as [H1 H2]. cbn [fst snd] in *.
  unfold both, codepoints_of_utf8, utf8_of_codepoints, utf8_encode. cbn [fst snd].
  rewrite !whatwg_decode_encode_valid by assumption. reflexivity.
Qed.
Print Assumptions spec_parse_of_model_string_bytes.

(* premises and instance: "a&b =+%" -> "é%%4", "" -> "", "" -> "x", "%4" -> "1" *)
Example spec_parse_of_model_string_ex :
  c_latin1 default_cfg = false /\
  forallb (pair_ok default_cfg)
    [([97;38;98;32;61;43;37], [195;169;37;37;52]); ([], []); ([], [120]); ([37;52], [49])] = true /\
  urlencoded_parse (sp_string default_cfg
    [([97;38;98;32;61;43;37], [195;169;37;37;52]); ([], []); ([], [120]); ([37;52], [49])])
  = [([97;38;98;32;61;43;37], [233;37;37;52]); ([], []); ([], [120]); ([37;52], [49])].
Proof. vm_compute. repeat split; reflexivity. Qed.

(* the premises are those of sp_roundtrip and are needed here as well *)
Theorem spec_parse_of_model_string_pct_needed :
  exists l, forallb (fun nv : pair => valid_utf8 (fst nv) && valid_utf8 (snd nv)) l = true /\
    urlencoded_parse (sp_string default_cfg l) <> map (both codepoints_of_utf8) l.
Proof. exists [([37;52;49], [])]. split; [reflexivity | vm_compute; discriminate]. Qed.

Theorem spec_parse_of_model_string_latin1_needed :
  exists l, forallb (pair_ok (cfg_with default_cfg false true false)) l = true /\
    urlencoded_parse (sp_string (cfg_with default_cfg false true false) l) <> map (both codepoints_of_utf8) l.
Proof. exists [([196;128], [])]. split; [vm_compute; reflexivity | vm_compute; discriminate]. Qed.

Theorem spec_parse_of_model_string_skipEq_needed :
  exists l, forallb (fun nv : pair => str_ok (fst nv) && str_ok (snd nv)) l = true /\
    urlencoded_parse (sp_string (cfg_with default_cfg false false true) l) <> map (both codepoints_of_utf8) l.
Proof. exists [([], [])]. split; [reflexivity | vm_compute; discriminate]. Qed.

(* ====================================================================================== *)
(* 2. the standard's own round trip                                                        *)
(* ====================================================================================== *)

(* percent-encode after encoding, with the application/x-www-form-urlencoded set and spaceAsPlus *)
Definition ue (s : list N) : list N := percent_encode_after_utf8 in_urlencoded_set true s.
Definition ue_chunk (b : N) : list N :=
  if b =? 32 then [43] else if in_urlencoded_set b then percent_encode_byte b else [b].

Lemma ue_chunks s : ue s = flat_map ue_chunk (utf8_encode s).
Proof. reflexivity. Qed.

Definition ser_tuple (p : list N * list N) : list N := ue (fst p) ++ 61 :: ue (snd p).
Definition ser_tail (t : list (list N * list N)) : list N := flat_map (fun p => 38 :: ser_tuple p) t.

Lemma serialize_fold t : forall acc, acc <> [] ->
  fold_left
    (fun output tuple =>
       let name := percent_encode_after_utf8 in_urlencoded_set true (fst tuple) in
       let value := percent_encode_after_utf8 in_urlencoded_set true (snd tuple) in
       let output := if negb (is_nil output) then output ++ [38] else output in
       output ++ name ++ [61] ++ value) t acc = acc ++ ser_tail t.
Proof.
  induction t as [|p t IH]; intros acc Hacc; [cbn [fold_left ser_tail flat_map]; rewrite app_nil_r; reflexivity|].
  cbn [fold_left]. destruct acc as [|a acc']; [congruence|]. cbn [is_nil negb].
  rewrite IH by (destruct acc'; discriminate).
  cbn [ser_tail flat_map]. unfold ser_tuple, ue. cbn [app]. rewrite <- !app_assoc. reflexivity.
Qed.

(* the serializer in closed form *)
Lemma serialize_is t :
  urlencoded_serialize t = match t with [] => [] | p :: t' => ser_tuple p ++ ser_tail t' end.
Proof.
  destruct t as [|p t']; [reflexivity|]. unfold urlencoded_serialize. cbn [fold_left is_nil negb app].
  rewrite serialize_fold; [reflexivity|].
  destruct (percent_encode_after_utf8 in_urlencoded_set true (fst p)); discriminate.
Qed.

Lemma not_in_set_plain b : in_urlencoded_set b = false -> b <> 38 /\ b <> 61 /\ b <> 43 /\ b <> 37.
Proof.
  unfold in_urlencoded_set, in_component_set, in_userinfo_set, in_path_set, in_query_set, in_c0_control_set.
  intros H. lia.
Qed.

Lemma ue_chunk_clean b x : In x (ue_chunk b) -> x <> 38 /\ x <> 61.
Proof.
  unfold ue_chunk. destruct (b =? 32) eqn:E1.
  - intros [<-|[]]. lia.
  - destruct (in_urlencoded_set b) eqn:S.
    + rewrite <- pct_byte_spec. intros H. apply pct_byte_clean in H. tauto.
    + intros [<-|[]]. apply not_in_set_plain in S. tauto.
Qed.

Lemma ue_clean s x : In x (ue s) -> x <> 38 /\ x <> 61.
Proof.
  rewrite ue_chunks. intros H. apply in_flat_map in H. destruct H as (b & _ & H). exact (ue_chunk_clean b x H).
Qed.

Lemma pts_app a b : UrlEncoded.plus_to_space (a ++ b) = UrlEncoded.plus_to_space a ++ UrlEncoded.plus_to_space b.
Proof. apply map_app. Qed.

Lemma pd_pct_byte b X : b < 256 -> percent_decode (pct_byte b ++ X) = b :: percent_decode X.
Proof.
  intros H. pose proof (D_pct_byte default_cfg eq_refl b X H) as G.
  rewrite !R2_decode in G by reflexivity. exact G.
Qed.

Lemma pd_plain b X : b <> 37 -> percent_decode (b :: X) = b :: percent_decode X.
Proof. intros H. cbn [percent_decode]. replace (b =? 37) with false by lia. reflexivity. Qed.

Lemma pd_chunk b X : b < 256 ->
  percent_decode (UrlEncoded.plus_to_space (ue_chunk b ++ X)) = b :: percent_decode (UrlEncoded.plus_to_space X).
Proof.
  intros Hb. rewrite pts_app. unfold ue_chunk. destruct (b =? 32) eqn:E1.
  - apply N.eqb_eq in E1. subst b. change (UrlEncoded.plus_to_space [43]) with [32]. cbn [app].
    apply pd_plain. lia.
  - destruct (in_urlencoded_set b) eqn:S.
    + rewrite <- pct_byte_spec.
      change (UrlEncoded.plus_to_space (pct_byte b)) with (GoStr.plus_to_space (pct_byte b)).
      rewrite plus_to_space_id by (intros H; apply pct_byte_clean in H; lia).
      apply pd_pct_byte. exact Hb.
    + apply not_in_set_plain in S. destruct S as (_ & _ & S43 & S37).
      unfold UrlEncoded.plus_to_space at 1. cbn [map app]. replace (b =? 43) with false by lia.
      apply pd_plain. exact S37.
Qed.

Lemma pd_chunks bs : (forall b, In b bs -> b < 256) ->
  percent_decode (UrlEncoded.plus_to_space (flat_map ue_chunk bs)) = bs.
Proof.
  induction bs as [|b bs IH]; intros H; [reflexivity|].
  cbn [flat_map]. rewrite pd_chunk by (apply H; left; reflexivity).
  rewrite IH by (intros x Hx; apply H; right; exact Hx). reflexivity.
Qed.

Lemma utf8_encode_bytes s b : In b (utf8_encode s) -> b < 256.
Proof.
  unfold utf8_encode. intros H. apply in_flat_map in H. destruct H as (r & _ & H).
  exact (SearchParamsProofs.utf8_enc_bytes r b H).
Qed.

(* escape, '+' to space, percent-decode: the UTF-8 bytes of the string *)
Theorem pd_ue s : percent_decode (UrlEncoded.plus_to_space (ue s)) = utf8_encode s.
Proof. rewrite ue_chunks. apply pd_chunks. apply utf8_encode_bytes. Qed.

(* the standard's decoder inverts the UTF-8 encoder on scalar value strings *)
Theorem wdec_utf8_encode s : Forall scalar s -> wdec (utf8_encode s) = s.
Proof.
  intros H. change (utf8_encode s) with (encode_runes s).
  rewrite whatwg_decode_valid by (apply valid_encode_runes; exact H).
  apply runes_encode_runes. exact H.
Qed.

Lemma raw_elem_cut a s : ~ In 61 a ->
  raw_elem (a ++ 61 :: s) =
  [(percent_decode (UrlEncoded.plus_to_space a), percent_decode (UrlEncoded.plus_to_space s))].
Proof.
  intros H. pose proof (cut_found 61 a s H) as G. rewrite cut_same in G.
  destruct (a ++ 61 :: s) as [|x y] eqn:EQ; [destruct a; discriminate EQ|].
  unfold raw_elem. destruct (split_at_first_eq (x :: y) []) as [[a' b']|]; [|discriminate G].
  injection G as -> ->. reflexivity.
Qed.

Lemma raw_elem_ser p : raw_elem (ser_tuple p) = [both utf8_encode p].
Proof.
  unfold ser_tuple. rewrite raw_elem_cut by (intros H; apply ue_clean in H; lia).
  rewrite !pd_ue. reflexivity.
Qed.

Lemma ser_tuple_no_amp p : ~ In 38 (ser_tuple p).
Proof.
  unfold ser_tuple. intros H. apply in_app_or in H. destruct H as [H|[H|H]].
  - apply ue_clean in H. lia.
  - lia.
  - apply ue_clean in H. lia.
Qed.

Lemma split_ser t : forall p, strictly_split 38 (ser_tuple p ++ ser_tail t) = ser_tuple p :: map ser_tuple t.
Proof.
  induction t as [|p' t IH]; intros p.
  - cbn [ser_tail flat_map map]. rewrite app_nil_r, <- split_same. apply split_single. apply ser_tuple_no_amp.
  - cbn [ser_tail flat_map map app]. rewrite <- split_same, split_cons by apply ser_tuple_no_amp.
    rewrite split_same. fold (ser_tail t). rewrite IH. reflexivity.
Qed.

(* byte level *)
Theorem parse_bytes_of_serialize t :
  urlencoded_parse_bytes (urlencoded_serialize t) = map (both utf8_encode) t.
Proof.
  rewrite serialize_is. destruct t as [|p t]; [reflexivity|].
  unfold urlencoded_parse_bytes. rewrite split_ser.
  change (ser_tuple p :: map ser_tuple t) with (map ser_tuple (p :: t)).
  induction (p :: t) as [|x L IH]; [reflexivity|].
  cbn [map flat_map]. rewrite raw_elem_ser, IH. reflexivity.
Qed.

Definition scalar_tuple (nv : list N * list N) : Prop := Forall scalar (fst nv) /\ Forall scalar (snd nv).

(* "serializing any list of tuples and parsing the result returns the same list", for the standard itself *)
Theorem spec_roundtrip : forall t, Forall scalar_tuple t -> urlencoded_parse (urlencoded_serialize t) = t.
Proof.
  intros t H. rewrite urlencoded_parse_bytes_spec, parse_bytes_of_serialize, map_map.
  rewrite <- (map_id t) at 2. apply map_ext_in. intros [n v] Hin.
  rewrite Forall_forall in H. destruct (H _ Hin) as [H1 H2]. cbn [fst snd] in H1, H2.
  unfold both. cbn [fst snd]. rewrite !wdec_utf8_encode by assumption. reflexivity.
Qed.
Print Assumptions spec_roundtrip.

(* without the premise: a surrogate is serialized as U+FFFD (the standard asserts scalar value strings) *)
Theorem spec_roundtrip_scalar_needed : exists t, urlencoded_parse (urlencoded_serialize t) <> t.
Proof. exists [([55296], [])]. vm_compute. discriminate. Qed.

(* "a&b =+%é" -> "%41~", "" -> "", "" -> "x" *)
Example spec_roundtrip_ex :
  Forall scalar_tuple [([97;38;98;32;61;43;37;233], [37;52;49;126]); ([], []); ([], [120])] /\
  urlencoded_serialize [([97;38;98;32;61;43;37;233], [37;52;49;126]); ([], []); ([], [120])] =
    [97;37;50;54;98;43;37;51;68;37;50;66;37;50;53;37;67;51;37;65;57;61;37;50;53;52;49;37;55;69;38;61;38;61;120] /\
  urlencoded_parse
    [97;37;50;54;98;43;37;51;68;37;50;66;37;50;53;37;67;51;37;65;57;61;37;50;53;52;49;37;55;69;38;61;38;61;120] =
    [([97;38;98;32;61;43;37;233], [37;52;49;126]); ([], []); ([], [120])].
Proof.
  split; [|vm_compute; split; reflexivity].
  repeat constructor; unfold scalar, is_surrogate; cbn [fst snd]; lia.
Qed.

(* ====================================================================================== *)
(* 3. the two serializers                                                                  *)
(* ====================================================================================== *)

(* QueryEscape: a space is '+'; '&', '=' and '+' are always percent-encoded; any other code point is
   percent-encoded (all bytes of its UTF-8 encoding) iff it is in the configured query percent-encode set,
   otherwise written as it is. The standard percent-encodes everything but ASCII alphanumerics and * - . _
   The code points on which the two differ, for the query percent-encode set of the standard:
   ! $ % ' ( ) , / : ; ? @ [ \ ] ^ ` { | } ~ *)
Definition differing_code_points : list N :=
  [33; 36; 37; 39; 40; 41; 44; 47; 58; 59; 63; 64; 91; 92; 93; 94; 96; 123; 124; 125; 126].

Lemma qe_chunk_default c r : c_latin1 c = false -> c_querySet c = pes_Query ->
  qe_chunk c r = qe_chunk default_cfg r.
Proof. intros HL HQ. unfold qe_chunk, percentEncodeRune. rewrite HL, HQ. reflexivity. Qed.

Lemma differ_sweep :
  forallb (fun r => Bool.eqb (list_eqb N.eqb (qe_chunk default_cfg r) (ue [r])) (negb (mem r differing_code_points)))
    SetsProofs.below128 = true.
Proof. vm_compute. reflexivity. Qed.

Lemma mem_In r l : mem r l = true <-> In r l.
Proof.
  unfold mem. rewrite existsb_exists. split.
  - intros (x & Hx & E). apply N.eqb_eq in E. subst x. exact Hx.
  - intros H. exists r. split; [exact H | apply N.eqb_refl].
Qed.

Lemma ue_chunk_high b : 128 <= b -> ue_chunk b = pct_byte b.
Proof.
  intros H. unfold ue_chunk. replace (b =? 32) with false by lia.
  replace (in_urlencoded_set b) with true; [symmetry; apply pct_byte_spec|].
  unfold in_urlencoded_set, in_component_set, in_userinfo_set, in_path_set, in_query_set, in_c0_control_set. lia.
Qed.

Lemma ue_single_high r : 128 <= r -> ue [r] = flat_map pct_byte (utf8_enc r).
Proof.
  intros H. rewrite ue_chunks. unfold utf8_encode. cbn [flat_map]. rewrite app_nil_r.
  pose proof (utf8_enc_high r H) as G. induction G as [|b bs Hb _ IH]; [reflexivity|].
  cbn [flat_map]. rewrite ue_chunk_high by exact Hb. rewrite IH. reflexivity.
Qed.

(* one code point: the serializers agree exactly off the list (for every code point, scalar or not) *)
Theorem serializers_differ_exactly : forall c r,
  c_latin1 c = false -> c_querySet c = pes_Query ->
  (qe_chunk c r = ue [r] <-> ~ In r differing_code_points).
Proof.
  intros c r HL HQ. rewrite (qe_chunk_default c r HL HQ).
  destruct (N.ltb_spec r 128) as [Hlt|Hge].
  - pose proof differ_sweep as S. rewrite forallb_forall in S.
    specialize (S r (SetsProofs.in_below128 r Hlt)). apply Bool.eqb_prop in S.
    rewrite <- mem_In. destruct (mem r differing_code_points).
    + cbn [negb] in S. split; [|intros H; exfalso; apply H; reflexivity].
      intros E. rewrite E in S. rewrite (proj2 (list_eqb_N_eq _ _) eq_refl) in S. discriminate S.
    + cbn [negb] in S. split; [intros _; discriminate|]. intros _. apply list_eqb_N_eq. exact S.
  - split.
    + intros _ H. unfold differing_code_points in H. cbn [In] in H. lia.
    + intros _. rewrite ue_single_high by exact Hge. unfold qe_chunk, percentEncodeRune.
      replace (r =? 32) with false by lia. replace ((r =? 38) || (r =? 61) || (r =? 43)) with false by lia.
      cbn [c_latin1 default_cfg c_querySet]. unfold RuneShouldBeEncoded.
      replace (126 <? r) with true by lia. rewrite orb_true_r. reflexivity.
Qed.
Print Assumptions serializers_differ_exactly.

(* strings: QueryEscape and the standard's escape agree when no byte of the string is on the list *)
Lemma ue_runes_chunks rs : ue rs = flat_map (fun r => ue [r]) rs.
Proof.
  induction rs as [|r rs IH]; [reflexivity|].
  cbn [flat_map]. rewrite <- IH. rewrite !ue_chunks. unfold utf8_encode. cbn [flat_map].
  rewrite app_nil_r. apply flat_map_app.
Qed.

Definition plain_str (s : str) : Prop := forall b, In b s -> ~ In b differing_code_points.

Lemma QueryEscape_is_ue c s : c_latin1 c = false -> c_querySet c = pes_Query -> plain_str s ->
  QueryEscape c s = ue (runes s).
Proof.
  intros HL HQ HP. rewrite QueryEscape_chunks, ue_runes_chunks.
  assert (G : forall r, In r (runes s) -> ~ In r differing_code_points).
  { intros r Hr Hd. assert (L : r < 128) by (unfold differing_code_points in Hd; cbn [In] in Hd; lia).
    apply (in_runes_low s r L) in Hr. exact (HP r Hr Hd). }
  induction (runes s) as [|r rs IH]; [reflexivity|].
  cbn [flat_map]. rewrite (proj2 (serializers_differ_exactly c r HL HQ)) by (apply G; left; reflexivity).
  rewrite IH by (intros x Hx; apply G; right; exact Hx). reflexivity.
Qed.

Lemma join_is {A} (f : A -> str) l :
  join [38] (map f l) = match l with [] => [] | p :: t => f p ++ flat_map (fun p => 38 :: f p) t end.
Proof.
  destruct l as [|p t]; [reflexivity|]. revert p. induction t as [|p' t IH]; intros p.
  - cbn [map join flat_map]. rewrite app_nil_r. reflexivity.
  - change (join [38] (map f (p :: p' :: t))) with (f p ++ [38] ++ join [38] (map f (p' :: t))).
    rewrite IH. reflexivity.
Qed.

(* the model's serialization IS the standard's on lists whose names and values avoid the 21 code points
   (no premise about UTF-8 validity: both sides read the bytes with Go's []rune) *)
Theorem sp_string_is_urlencoded_serialize : forall c l,
  c_latin1 c = false -> c_querySet c = pes_Query -> c_skipEq c = false ->
  Forall (fun nv : pair => plain_str (fst nv) /\ plain_str (snd nv)) l ->
  sp_string c l = urlencoded_serialize (map (both runes) l).
Proof.
  intros c l HL HQ HS HP. rewrite sp_string_is, serialize_is, join_is.
  assert (P : forall nv, In nv l -> ser_pair c nv = ser_tuple (both runes nv)).
  { intros [n v] Hin. rewrite Forall_forall in HP. destruct (HP _ Hin) as [P1 P2]. cbn [fst snd] in P1, P2.
    unfold ser_pair, ser_tuple, both. cbn [fst snd]. rewrite HS. cbn [negb orb app].
    rewrite QueryEscape_is_ue by assumption. f_equal. f_equal.
    destruct v as [|vb v]; [reflexivity|]. cbn [is_nil negb].
    apply QueryEscape_is_ue; assumption. }
  destruct l as [|p t]; [reflexivity|]. cbn [map].
  rewrite P by (left; reflexivity). f_equal.
  assert (P' : forall nv, In nv t -> ser_pair c nv = ser_tuple (both runes nv)) by (intros nv H; apply P; right; exact H).
  clear P HP. induction t as [|p' t IH]; [reflexivity|].
  cbn [map ser_tail flat_map]. rewrite P' by (left; reflexivity).
  fold (ser_tail (map (both runes) t)). rewrite <- IH by (intros nv H; apply P'; right; exact H). reflexivity.
Qed.
Print Assumptions sp_string_is_urlencoded_serialize.

Example sp_string_is_urlencoded_serialize_ex :
  sp_string default_cfg [([97;38;98;32;61;43;233], [195;169;42;45;46;95]); ([], [])] =
  urlencoded_serialize (map (both runes) [([97;38;98;32;61;43;233], [195;169;42;45;46;95]); ([], [])]).
Proof. vm_compute. reflexivity. Qed.

(* they do differ: ("!~%", "") is "!~%=" for the model and "%21%7E%25=" for the standard ... *)
Theorem serializers_differ :
  exists l, forallb (pair_ok default_cfg) l = true /\
    sp_string default_cfg l <> urlencoded_serialize (map (both runes) l).
Proof. exists [([33;126;37], [])]. split; [vm_compute; reflexivity | vm_compute; discriminate]. Qed.

Example serializers_differ_values :
  sp_string default_cfg [([33;126;37], [])] = [33;126;37;61] /\
  urlencoded_serialize [([33;126;37], [])] = [37;50;49;37;55;69;37;50;53;61].
Proof. vm_compute. split; reflexivity. Qed.

(* ... and skipEqualsForEmptySearchParamsValue changes the model's output as well *)
Theorem serializers_differ_skipEq :
  exists l, Forall (fun nv : pair => plain_str (fst nv) /\ plain_str (snd nv)) l /\
    sp_string (cfg_with default_cfg false false true) l <> urlencoded_serialize (map (both runes) l).
Proof.
  exists [([97], [])]. split; [|vm_compute; discriminate].
  constructor; [|constructor]. split; cbn [fst snd]; intros b Hb.
  - destruct Hb as [<-|[]]. unfold differing_code_points. cbn [In]. lia.
  - destruct Hb.
Qed.

(* ... but under the premises of the round trip both serializations parse (with the standard's parser) to
   the same list: the decoded equality *)
Theorem serializers_same_parse : forall c l,
  c_latin1 c = false -> forallb (pair_ok c) l = true ->
  urlencoded_parse (sp_string c l) = urlencoded_parse (urlencoded_serialize (map (both runes) l)).
Proof.
  intros c l HL HP. rewrite spec_parse_of_model_string_runes by assumption.
  symmetry. apply spec_roundtrip. rewrite Forall_forall. intros nv Hin.
  apply in_map_iff in Hin. destruct Hin as ([n v] & <- & _).
  split; apply runes_scalar.
Qed.
Print Assumptions serializers_same_parse.

(* the premise of sp_string_is_urlencoded_serialize, decidably *)
Definition plain_strb (s : str) : bool := forallb (fun b => negb (mem b differing_code_points)) s.

Lemma plain_strb_spec s : plain_strb s = true -> plain_str s.
Proof.
  unfold plain_strb, plain_str. rewrite forallb_forall. intros H b Hb Hd.
  specialize (H b Hb). apply mem_In in Hd. rewrite Hd in H. discriminate H.
Qed.

Example sp_string_is_urlencoded_serialize_premises :
  c_latin1 default_cfg = false /\ c_querySet default_cfg = pes_Query /\ c_skipEq default_cfg = false /\
  Forall (fun nv : pair => plain_str (fst nv) /\ plain_str (snd nv))
    [([97;38;98;32;61;43;233], [195;169;42;45;46;95]); ([], [])].
Proof.
  repeat split; try reflexivity.
  constructor; [|constructor; [|constructor]]; split; apply plain_strb_spec; vm_compute; reflexivity.
Qed.

Print Assumptions spec_parse_of_model_string_runes.
Print Assumptions parse_bytes_of_serialize.
Print Assumptions wdec_utf8_encode.
Print Assumptions pd_ue.
Print Assumptions serializers_differ.
Print Assumptions serializers_differ_skipEq.
Print Assumptions spec_roundtrip_scalar_needed.
Print Assumptions spec_parse_of_model_string_pct_needed.
