(* Repeated percent-decoding, R2 and R3.
   The repeated block of the canonicalizer (host, path, query, fragment steps) is evaluated on records whose fully
   decoded path segments, query names/values and fragment need no encoding: the result is the record [CF c w] with
   the decoded components (rep_block_eval).  Corollaries: two texts of the web-URL grammar whose components agree
   up to percent-encoding spellings have the same canonical form (R2), and the canonical string is a fixed point of
   the profile parser (R3). *)
From Verif Require Import Lib.Base Lib.Utf8 Lib.GoStr Model.Cfg Gen.Tables Gen.Options Model.Sets Model.Percent
  Model.Url Model.Host Model.Machine Model.Api Model.Canon Model.Preds.
From Verif Require Import Proofs.SetsProofs Proofs.Cleaning Proofs.PhaseLemmas Proofs.RecordInv Proofs.MachineInv Proofs.SchemeKept
  Proofs.CodecProofs Proofs.SearchParamsProofs Proofs.CanonTotal Proofs.HostProofs Proofs.IPv4Proofs
  Proofs.RoundTripBase Proofs.RoundTripPhases Proofs.RoundTripSpecial Proofs.NormalFormPhases Proofs.NormalForm
  Proofs.SpellingProofs Proofs.SpellingDecode Proofs.RepeatedSteps Proofs.CanonIdem.
From Verif Require Proofs.Utf8Proofs.
From Coq Require Import Lia ZifyBool ZifyN ZifyNat.

Local Arguments N.mul : simpl never.
Local Arguments N.add : simpl never.
Local Arguments N.sub : simpl never.
Local Arguments N.eqb : simpl never.
Local Arguments N.ltb : simpl never.
Local Arguments N.leb : simpl never.

(* ------------------------------------------------------------------------------------------ *)
(* small facts                                                                                 *)
(* ------------------------------------------------------------------------------------------ *)
Lemma norm_from_nodot : forall segs seg acc,
  forallb (fun s => negb (dotseg s)) (seg :: segs) = true -> norm_from acc seg segs = acc ++ seg :: segs.
Proof.
  induction segs as [|s' r IH]; intros seg acc H; cbn [forallb] in H; apply andb_true_iff in H; destruct H as [Hs Hr];
    apply negb_true_iff in Hs; unfold dotseg in Hs; apply orb_false_iff in Hs; destruct Hs as [H1 H2]; cbn [norm_from]; unfold pstep; rewrite H1, H2.
  - reflexivity.
  - rewrite (IH s' (acc ++ [seg]) Hr), <- app_assoc. reflexivity.
Qed.

Lemma norm_segs_nodot segs : segs <> [] -> forallb (fun s => negb (dotseg s)) segs = true -> norm_segs segs = segs.
Proof. destruct segs as [|s r]; [congruence|]. intros _ H. unfold norm_segs. apply (norm_from_nodot r s [] H). Qed.

Lemma litb_small tr x : litb tr x = true -> x < 128.
Proof. unfold litb, ByteShouldBeEncoded, RuneShouldBeEncoded. intros H. lia. Qed.

Lemma lit_ascii tr s : forallb (litb tr) s = true -> Forall (fun b => b < 128) s.
Proof. intros H. rewrite Forall_forall. rewrite forallb_forall in H. intros x Hx. apply (litb_small tr x (H x Hx)). Qed.

Lemma no37_no_pct_hex s : ~ In 37 s -> no_pct_hex s = true.
Proof.
  induction s as [|b s IH]; intros H; [reflexivity|]. cbn [no_pct_hex]. rewrite IH by (intros Hi; apply H; right; exact Hi).
  assert (Hb : (b =? 37) = false) by (destruct (b =? 37) eqn:E; [exfalso; apply H; left; lia|reflexivity]).
  rewrite Hb. reflexivity.
Qed.

Lemma eval_chain (f g : url -> option url) a b d :
  (exists r, f a = Some r /\ eqi r b) -> (forall x y, eqi x y -> orel (g x) (g y)) ->
  (exists r', g b = Some r' /\ eqi r' d) -> exists r', bind (f a) g = Some r' /\ eqi r' d.
Proof.
  intros [r [E1 H1]] Hg [r' [E2 H2]]. rewrite E1. cbn [bind]. pose proof (Hg r b H1) as Ho. rewrite E2 in Ho.
  destruct (g r) as [r2|]; cbn [orel] in Ho; [|contradiction]. exists r2. split; [reflexivity|]. apply (eqi_trans _ _ _ Ho H2).
Qed.

(* ------------------------------------------------------------------------------------------ *)
(* the four steps, evaluated                                                                    *)
(* ------------------------------------------------------------------------------------------ *)
Definition is_v6 (h : str) : bool := match h with 91 :: t => has_suffix [93] (91 :: t) | _ => false end.

Section RepEval.
  Variable idna_raw : str -> str * bool.
  Variable p : profile.
  Notation c := (p_cfg p).
  Hypothesis R : CfgRT c.
  Hypothesis Hlat : c_latin1 c = false.
  Hypothesis Hskq : c_skipEq c = false.

  Let Hrep := R_rep c R.
  Let Hfail := R_fail c R.

  (* ---------------- host ---------------- *)
  Definition host_lit (sp : bool) (h : str) : bool :=
    forallb (litb pes_HostDecode) h && forallb printable h && hscan sp false h.

  Definition host_ok (w : url) : Prop :=
    match u_host w with
    | None => True
    | Some h => is_nil h = true \/ is_v6 h = true \/
        (host_lit (IsSpecialScheme c w) h = true /\
         forall u0, parseHost idna_raw c u0 h (negb (IsSpecialScheme c w)) = Ok u0 h)
    end.

  Definition host_step (u : url) : option url :=
    if negb (is_nil (Hostname u)) && negb (IsIPv6 u)
    then bind (decodeEncode (Hostname u) pes_HostDecode) (SetHostname idna_raw c u) else Some u.

  Lemma host_step_eqi a b : eqi a b -> orel (host_step a) (host_step b).
  Proof using All.
    intros Hab. rewrite (eqi_ex a b Hab). unfold host_step.
    change (Hostname (set_input b (u_input a))) with (Hostname b). change (IsIPv6 (set_input b (u_input a))) with (IsIPv6 b).
    destruct (negb (is_nil (Hostname b)) && negb (IsIPv6 b)); [|apply eqi_input].
    destruct (decodeEncode (Hostname b) pes_HostDecode); [|exact I]. cbn [bind]. apply SetHostname_i.
  Qed.

  Lemma host_step_eval w :
    u_opaque w = false -> str_eqb (u_scheme w) s_file = false -> host_ok w ->
    exists r, host_step w = Some r /\ eqi r w.
  Proof using All.
    intros Ho Hnf Hh. unfold host_step, Hostname, IsIPv6. unfold host_ok in Hh.
    destruct (u_host w) as [h|] eqn:Eh; [|exists w; split; [reflexivity|apply eqi_refl]].
    destruct h as [|x t]; [exists w; split; [reflexivity|apply eqi_refl]|].
    destruct Hh as [Hh|[Hh|[Hl Hfix]]]; [discriminate Hh| |].
    - unfold is_v6 in Hh. cbn [is_nil negb andb]. rewrite Hh. exists w. split; [reflexivity|apply eqi_refl].
    - cbn [is_nil negb andb].
      match goal with |- context [if negb ?b then _ else _] => destruct b end; cbn [negb]; [exists w; split; [reflexivity|apply eqi_refl]|].
      unfold host_lit in Hl. apply andb_true_iff in Hl. destruct Hl as [Hl H3]. apply andb_true_iff in Hl. destruct Hl as [H1 H2].
      rewrite decodeEncode_de, (de_lit _ _ H1). cbn [bind].
      rewrite (SetHostname_eval idna_raw c Hrep Hfail w (x :: t) (x :: t) Ho Hnf ltac:(discriminate) H2 H3 (Hfix _)).
      eexists. split; [reflexivity|]. unfold eqi. destruct w. cbn in *. subst. reflexivity.
  Qed.

  (* ---------------- path ---------------- *)
  Definition plit (sp : bool) (x : N) : bool := litb pes_LaxPath x && path_char c sp x.

  Definition path_ok (w : url) : Prop :=
    forallb (forallb (plit (IsSpecialScheme c w))) (map rd (u_path w)) = true /\
    forallb (fun s => negb (dotseg s)) (map rd (u_path w)) = true.

  Lemma pathname_lit sp D : forallb (forallb (plit sp)) D = true -> forallb (litb pes_LaxPath) (pathname_of D) = true.
  Proof using All.
    induction D as [|s D IH]; intros H; [reflexivity|]. cbn [forallb] in H. apply andb_true_iff in H. destruct H as [Hs HD].
    change (pathname_of (s :: D)) with (47 :: s ++ pathname_of D). cbn [forallb]. rewrite forallb_app, (IH HD), andb_true_r.
    replace (litb pes_LaxPath 47) with true by (vm_compute; reflexivity). cbn [andb].
    rewrite forallb_forall in *. intros x Hx. specialize (Hs x Hx). unfold plit in Hs. apply andb_true_iff in Hs. apply Hs.
  Qed.

  Lemma plit_text sp D : forallb (forallb (plit sp)) D = true -> segs_text_ok c sp D = true.
  Proof using All.
    unfold segs_text_ok. intros H. rewrite forallb_forall in *. intros s Hs. specialize (H s Hs). rewrite forallb_forall in *.
    intros x Hx. specialize (H x Hx). unfold plit in H. apply andb_true_iff in H. apply H.
  Qed.

  Lemma path_step_eqi a b : eqi a b -> orel (path_step idna_raw c a) (path_step idna_raw c b).
  Proof using All.
    intros Hab. rewrite (eqi_ex a b Hab). unfold path_step. change (Pathname (set_input b (u_input a))) with (Pathname b).
    destruct (Pathname b) as [pn|]; [|exact I]. cbn [bind]. destruct (negb (is_nil pn)); [|apply eqi_input].
    destruct (decodeEncode pn pes_LaxPath); [|exact I]. cbn [bind]. apply SetPathname_i.
  Qed.

  Lemma path_step_eval w :
    u_opaque w = false -> str_eqb (u_scheme w) s_file = false -> path_ok w ->
    exists r, path_step idna_raw c w = Some r /\ eqi r (set_path w (map rd (u_path w)) false).
  Proof using All.
    intros Ho Hnf [H1 H2]. unfold path_step, Pathname, path_string. rewrite Ho. cbn [bind].
    destruct (u_path w) as [|s0 P] eqn:EP.
    - cbn [flat_map is_nil negb map]. exists w. split; [reflexivity|]. unfold eqi. destruct w. cbn in *. subst. reflexivity.
    - fold (pathname_of (s0 :: P)). change (pathname_of (s0 :: P)) with (47 :: s0 ++ pathname_of P) at 1. cbn [is_nil negb].
      rewrite decodeEncode_de, de_rd, rd_pathname, (cpe_id _ _ (pathname_lit _ _ H1)). cbn [bind map].
      cbn [map] in H1, H2.
      rewrite (SetPathname_eval idna_raw c Hrep Hfail w (rd s0) (map rd P) (R_sp c R) (R_col c R) (R_path c R) Ho Hnf (plit_text _ _ H1)).
      rewrite (norm_segs_nodot (rd s0 :: map rd P) ltac:(discriminate) H2).
      eexists. split; [reflexivity|]. reflexivity.
  Qed.

  (* ---------------- query ---------------- *)
  Definition qlit (t : peset) (x : N) : bool :=
    litb pes_RepeatedQuery x && negb (RuneShouldBeEncoded (c_querySet c) x) && negb (RuneShouldBeEncoded t x)
    && negb (x =? 32) && negb (x =? 43).
  Definition qpair (t : peset) (nv : str * str) : bool := forallb (qlit t) (fst nv) && forallb (qlit t) (snd nv).
  Definition dec_pairs (q : str) : list (str * str) := map rd2 (sp_init c q).

  Definition query_ok (w : url) : Prop :=
    match u_query w with
    | Some (x :: q) => forallb (qpair (queryset c w)) (dec_pairs (x :: q)) = true
    | _ => True
    end.

  Definition cf_query (w : url) : url :=
    match u_query w with
    | Some (x :: q) => set_sp (set_query w (Some (sp_string c (dec_pairs (x :: q))))) (Some (dec_pairs (x :: q)))
    | _ => w
    end.

  Lemma qlit_parts t x : qlit t x = true ->
    litb pes_RepeatedQuery x = true /\ RuneShouldBeEncoded (c_querySet c) x = false /\ RuneShouldBeEncoded t x = false /\
    (x =? 32) = false /\ (x =? 43) = false /\ (x =? 38) = false /\ (x =? 61) = false /\ x <> 37.
  Proof using All.
    unfold qlit. intros H. apply andb_true_iff in H. destruct H as [H H5]. apply andb_true_iff in H. destruct H as [H H4].
    apply andb_true_iff in H. destruct H as [H H3]. apply andb_true_iff in H. destruct H as [H1 H2].
    apply negb_true_iff in H2, H3, H4, H5. repeat split; try assumption.
    - destruct (x =? 38) eqn:E; [|reflexivity]. assert (x = 38) by lia. subst x. vm_compute in H1. discriminate H1.
    - destruct (x =? 61) eqn:E; [|reflexivity]. assert (x = 61) by lia. subst x. vm_compute in H1. discriminate H1.
    - apply (litb_not37 _ _ H1).
  Qed.

  Lemma QueryEscape_lit t s : forallb (qlit t) s = true -> QueryEscape c s = s.
  Proof using All.
    intros H. unfold QueryEscape.
    assert (Ha : Forall (fun b => b < 128) s).
    { rewrite Forall_forall. rewrite forallb_forall in H. intros x Hx. destruct (qlit_parts t x (H x Hx)) as [Hl _]. apply (litb_small _ _ Hl). }
    rewrite (Utf8Proofs.runes_ascii s Ha). induction s as [|x s IH]; [reflexivity|].
    cbn [forallb] in H. apply andb_true_iff in H. destruct H as [Hx Hs]. inversion Ha; subst. cbn [flat_map].
    rewrite (IH Hs) by assumption. destruct (qlit_parts t x Hx) as [_ [Hq [_ [E32 [E43 [E38 [E61 _]]]]]]].
    rewrite E32, E38, E61, E43. cbn [orb]. rewrite (pe_id c _ x Hq). reflexivity.
  Qed.

  Lemma ser_pair_lit t nv : qpair t nv = true -> ser_pair c nv = fst nv ++ 61 :: snd nv.
  Proof using All.
    destruct nv as [n v]. unfold qpair. cbn [fst snd]. intros H. apply andb_true_iff in H. destruct H as [Hn Hv].
    unfold ser_pair. rewrite Hskq. cbn [negb orb]. rewrite (QueryEscape_lit t n Hn).
    destruct v as [|y v]; cbn [is_nil negb app]; [reflexivity|]. rewrite (QueryEscape_lit t _ Hv). reflexivity.
  Qed.

  Lemma qlit_none t s : forallb (qlit t) s = true -> none_in t s = true.
  Proof using All.
    unfold none_in. intros H. rewrite forallb_forall in *. intros x Hx. destruct (qlit_parts t x (H x Hx)) as [_ [_ [H3 _]]].
    rewrite H3. reflexivity.
  Qed.

  Lemma sp_string_lit t L :
    RuneShouldBeEncoded t 61 = false -> RuneShouldBeEncoded t 38 = false ->
    forallb (qpair t) L = true -> none_in t (sp_string c L) = true.
  Proof using All.
    intros H61 H38. rewrite sp_string_is. induction L as [|nv L IH]; intros H; [reflexivity|].
    cbn [forallb] in H. apply andb_true_iff in H. destruct H as [Hp HL]. specialize (IH HL).
    assert (Hs : none_in t (ser_pair c nv) = true).
    { rewrite (ser_pair_lit t nv Hp). unfold qpair in Hp. apply andb_true_iff in Hp. destruct Hp as [Hn Hv].
      unfold none_in. rewrite forallb_app. cbn [forallb]. fold (none_in t (fst nv)). fold (none_in t (snd nv)).
      rewrite (qlit_none _ _ Hn), (qlit_none _ _ Hv), H61. reflexivity. }
    destruct L as [|nv' L]; [exact Hs|].
    change (join [38] (map (ser_pair c) (nv :: nv' :: L))) with (ser_pair c nv ++ 38 :: join [38] (map (ser_pair c) (nv' :: L))).
    unfold none_in in *. rewrite forallb_app. cbn [forallb]. rewrite Hs, H38, IH. reflexivity.
  Qed.

  Lemma qstr_pct_ok t s : forallb (qlit t) s = true -> valid_utf8 s = true /\ pct_ok c s = true.
  Proof using All.
    intros H. split.
    - apply valid_utf8_ascii. unfold ascii. rewrite Forall_forall. rewrite forallb_forall in H. intros x Hx.
      destruct (qlit_parts t x (H x Hx)) as [Hl _]. apply (litb_small _ _ Hl).
    - unfold pct_ok. rewrite no37_no_pct_hex; [apply orb_true_r|]. intros Hi. rewrite forallb_forall in H.
      destruct (qlit_parts t 37 (H _ Hi)) as [_ [_ [_ [_ [_ [_ [_ Hx]]]]]]]. congruence.
  Qed.

  Lemma qpair_ok t L : forallb (qpair t) L = true -> forallb (pair_ok c) L = true.
  Proof using All.
    intros H. rewrite forallb_forall in *. intros nv Hnv. specialize (H nv Hnv). unfold qpair in H.
    apply andb_true_iff in H. destruct H as [Hn Hv]. destruct (qstr_pct_ok t _ Hn) as [A1 A2]. destruct (qstr_pct_ok t _ Hv) as [B1 B2].
    unfold pair_ok. rewrite A1, A2, B1, B2, Hskq. reflexivity.
  Qed.

  Lemma qstr_rd t s : forallb (qlit t) s = true -> rd s = s /\ de s pes_RepeatedQuery = s.
  Proof using All.
    intros H. assert (Hl : forallb (litb pes_RepeatedQuery) s = true).
    { rewrite forallb_forall in *. intros x Hx. apply (qlit_parts t x (H x Hx)). }
    split; [apply rd_id; apply c_decode_no37; apply (lit_no37 _ _ Hl)|apply (de_lit _ _ Hl)].
  Qed.

  (* the list of decoded pairs is what reencode_params computes, and it is a fixed point of it *)
  Lemma reenc_dec t l0 : forallb (qpair t) (map rd2 l0) = true -> reenc_list l0 = map rd2 l0.
  Proof using All.
    induction l0 as [|nv l0 IH]; intros H; [reflexivity|]. cbn [map forallb] in H. apply andb_true_iff in H. destruct H as [Hp Hl].
    unfold reenc_list in *. cbn [map]. rewrite (IH Hl). f_equal. unfold qpair, rd2 in Hp. cbn [fst snd] in Hp.
    apply andb_true_iff in Hp. destruct Hp as [Hn Hv]. unfold rd2.
    assert (G : forall s, forallb (qlit t) (rd s) = true -> de s pes_RepeatedQuery = rd s).
    { intros s Hs. apply de_of_lit. rewrite forallb_forall in *. intros x Hx. apply (qlit_parts t x (Hs x Hx)). }
    rewrite (G _ Hn), (G _ Hv). reflexivity.
  Qed.

  Lemma reenc_lit t L : forallb (qpair t) L = true -> reenc_list L = L.
  Proof using All.
    induction L as [|nv L IH]; intros H; [reflexivity|]. cbn [forallb] in H. apply andb_true_iff in H. destruct H as [Hp Hl].
    unfold reenc_list in *. cbn [map]. rewrite (IH Hl). f_equal. unfold qpair in Hp. apply andb_true_iff in Hp. destruct Hp as [Hn Hv].
    destruct (qstr_rd t _ Hn) as [_ ->]. destruct (qstr_rd t _ Hv) as [_ ->]. destruct nv; reflexivity.
  Qed.

  Lemma rd2_lit t L : forallb (qpair t) L = true -> map rd2 L = L.
  Proof using All.
    induction L as [|nv L IH]; intros H; [reflexivity|]. cbn [forallb] in H. apply andb_true_iff in H. destruct H as [Hp Hl].
    cbn [map]. rewrite (IH Hl). f_equal. unfold qpair in Hp. apply andb_true_iff in Hp. destruct Hp as [Hn Hv].
    unfold rd2. destruct (qstr_rd t _ Hn) as [-> _]. destruct (qstr_rd t _ Hv) as [-> _]. destruct nv; reflexivity.
  Qed.

  Lemma query_step_eqi a b : eqi a b -> orel (query_step idna_raw p a) (query_step idna_raw p b).
  Proof using All.
    intros Hab. rewrite (eqi_ex a b Hab). unfold query_step. change (Search (set_input b (u_input a))) with (Search b).
    destruct (negb (is_nil (Search b))); [|apply eqi_input]. apply orel_bind; [apply reencode_i|]. apply query_tail_step_eqi.
  Qed.

  Lemma query_step_eval w :
    u_sp w = None -> RuneShouldBeEncoded (queryset c w) 61 = false -> RuneShouldBeEncoded (queryset c w) 38 = false ->
    query_ok w -> exists r, query_step idna_raw p w = Some r /\ eqi r (cf_query w).
  Proof using All.
    intros Hsp H61 H38 Hq. unfold query_step, Search, cf_query. unfold query_ok in Hq.
    destruct (u_query w) as [[|x q]|] eqn:EQ; try (exists w; split; [reflexivity|apply eqi_refl]).
    cbn [is_nil negb]. rewrite reencode_params_eq. cbn [bind].
    rewrite (ensure_sp_fresh c w Hsp). cbn [fst snd]. unfold Query. rewrite EQ.
    set (t := queryset c w) in *. set (L := dec_pairs (x :: q)) in *.
    rewrite (reenc_dec t _ Hq). fold (dec_pairs (x :: q)). fold L.
    set (qs := sp_string c L).
    assert (E1 : sp_update c (set_sp w (Some (sp_init c (x :: q)))) L = set_query (set_sp w (Some L)) (Some qs)).
    { unfold sp_update. cbv zeta. cbn [u_query set_sp]. rewrite EQ. cbn [is_some]. fold qs.
      destruct (is_nil qs); cbn [andb orb negb]; reflexivity. }
    rewrite E1. pose proof (sp_string_lit t L H61 H38 Hq) as Hnone. fold qs in Hnone.
    unfold query_tail_step, Search. cbn [u_query set_query]. destruct qs as [|y qs'] eqn:Eqs.
    - cbn [is_nil negb]. eexists. split; [reflexivity|]. reflexivity.
    - cbn [is_nil negb].
      assert (Hpr : forallb printable (y :: qs') = true).
      { apply forallb_vis_printable. apply (none_in_vis t); [apply (R_queryset_ab c w R)|exact Hnone]. }
      match goal with |- context [SetSearch ?i ?cc ?u ?s] =>
        rewrite (SetSearch_eval i cc Hrep Hfail u (y :: qs') (y :: qs') eq_refl Hpr : SetSearch i cc u s = _) end. cbn [bind].
      change (queryset c (set_query (set_sp w (Some L)) (Some (y :: qs')))) with t.
      rewrite (enc_with_id c t _ Hnone).
      assert (Ert : sp_init c (y :: qs') = L) by (rewrite <- Eqs; unfold qs; apply (sp_roundtrip c L Hlat (qpair_ok t L Hq))).
      rewrite Ert.
      rewrite reencode_params_eq. unfold ensure_sp. cbn [u_sp set_sp fst snd]. rewrite (reenc_lit t L Hq).
      eexists. split; [reflexivity|].
      unfold sp_update. cbv zeta. cbn [u_query set_sp set_query set_input is_some]. fold qs. rewrite Eqs. cbn [is_nil andb orb negb].
      reflexivity.
  Qed.

  (* ---------------- fragment ---------------- *)
  Definition flit (t : peset) (x : N) : bool := litb pes_Host x && negb (RuneShouldBeEncoded t x).

  Definition frag_ok (w : url) : Prop :=
    match u_fragment w with Some (x :: f) => forallb (flit (fragset c w)) (rd (x :: f)) = true | _ => True end.

  Definition cf_frag (w : url) : url :=
    set_fragment w (match u_fragment w with Some (x :: f) => Some (rd (x :: f)) | _ => None end).

  Lemma frag_step_eqi a b : eqi a b -> orel (frag_step idna_raw p a) (frag_step idna_raw p b).
  Proof using All.
    intros Hab. rewrite (eqi_ex a b Hab). unfold frag_step. change (Hash (set_input b (u_input a))) with (Hash b).
    destruct (negb (is_nil (Hash b))); [|apply SetHash_i].
    destruct (decodeEncode (trim_prefix1 35 (Hash b)) pes_Host); [|exact I]. cbn [bind]. apply SetHash_i.
  Qed.

  Lemma frag_step_eval w :
    u_opaque w = false -> frag_ok w -> exists r, frag_step idna_raw p w = Some r /\ eqi r (cf_frag w).
  Proof using All.
    intros Ho Hf. unfold frag_step, Hash, cf_frag. unfold frag_ok in Hf.
    assert (E0 : SetHash idna_raw c w [] = Some (set_fragment w None)).
    { unfold SetHash. cbv zeta. destruct (negb (is_some (u_query (set_fragment w None)))); [|reflexivity].
      unfold strip_opaque. cbn [u_opaque set_fragment]. rewrite Ho. reflexivity. }
    destruct (u_fragment w) as [[|x f]|] eqn:EF; cbn [is_nil negb]; try (rewrite E0; eexists; split; [reflexivity|apply eqi_refl]).
    cbn [trim_prefix1]. replace (35 =? 35) with true by reflexivity. rewrite decodeEncode_de.
    set (t := fragset c w) in *.
    assert (Hl : forallb (litb pes_Host) (rd (x :: f)) = true).
    { rewrite forallb_forall in *. intros y Hy. specialize (Hf y Hy). unfold flit in Hf. apply andb_true_iff in Hf. apply Hf. }
    rewrite (de_of_lit _ _ Hl). cbn [bind].
    destruct (rd (x :: f)) as [|y g] eqn:Eg; [apply rd_nil_inv in Eg; discriminate Eg|].
    assert (Hy : (y =? 35) = false).
    { cbn [forallb] in Hl. apply andb_true_iff in Hl. destruct Hl as [Hl _]. destruct (y =? 35) eqn:E; [|reflexivity].
      assert (y = 35) by lia. subst y. vm_compute in Hl. discriminate Hl. }
    assert (Hnone : none_in t (y :: g) = true).
    { unfold none_in. rewrite forallb_forall in *. intros z Hz. specialize (Hf z Hz). unfold flit in Hf. apply andb_true_iff in Hf. apply Hf. }
    assert (Hpr : forallb printable (y :: g) = true).
    { apply forallb_vis_printable. apply (none_in_vis t); [apply (R_fragset_ab c w R)|exact Hnone]. }
    rewrite (SetHash_eval idna_raw c Hrep Hfail w y g Hy Hpr). fold t. rewrite (enc_with_id c t _ Hnone).
    eexists. split; [reflexivity|]. reflexivity.
  Qed.

  (* ---------------- the block ---------------- *)
  Definition CF (w : url) : url := cf_frag (cf_query (set_path w (map rd (u_path w)) false)).

  Record rep_ok (w : url) : Prop := {
    K_opq : u_opaque w = false;
    K_nf : str_eqb (u_scheme w) s_file = false;
    K_sp : u_sp w = None;
    K_61 : RuneShouldBeEncoded (queryset c w) 61 = false;
    K_38 : RuneShouldBeEncoded (queryset c w) 38 = false;
    K_host : host_ok w;
    K_path : path_ok w;
    K_query : query_ok w;
    K_frag : frag_ok w
  }.

  Lemma rep_block_steps w :
    p_repeated p = true ->
    rep_block idna_raw p w =
    bind (host_step w) (fun u => bind (path_step idna_raw c u) (fun u => bind (query_step idna_raw p u) (frag_step idna_raw p))).
  Proof using All.
    intros Hr. unfold rep_block. rewrite Hr. unfold host_step, path_step, query_step, query_tail_step, frag_step.
    destruct (if negb (is_nil (Hostname w)) && negb (IsIPv6 w) then _ else _) as [u1|]; [|reflexivity]. cbn [bind].
    destruct (Pathname u1) as [pn|]; reflexivity.
  Qed.

  Theorem rep_block_eval w :
    p_repeated p = true -> rep_ok w -> exists r, rep_block idna_raw p w = Some r /\ eqi r (CF w).
  Proof using All.
    intros Hr K. rewrite (rep_block_steps w Hr). destruct K as [Ho Hnf Hsp H61 H38 Hh Hp Hq Hf].
    set (w2 := set_path w (map rd (u_path w)) false).
    apply (eval_chain host_step _ w w (CF w) (host_step_eval w Ho Hnf Hh)).
    { intros x y Hxy. apply orel_bind; [apply path_step_eqi; exact Hxy|]. intros x' y' Hxy'.
      apply orel_bind; [apply query_step_eqi; exact Hxy'|]. apply frag_step_eqi. }
    apply (eval_chain (path_step idna_raw c) _ w w2 (CF w) (path_step_eval w Ho Hnf Hp)).
    { intros x y Hxy. apply orel_bind; [apply query_step_eqi; exact Hxy|]. apply frag_step_eqi. }
    apply (eval_chain (query_step idna_raw p) _ w2 (cf_query w2) (CF w) (query_step_eval w2 Hsp H61 H38 Hq)).
    { apply frag_step_eqi. }
    apply frag_step_eval.
    - unfold cf_query, w2. cbn [u_query set_path]. destruct (u_query w) as [[|x q]|]; reflexivity.
    - unfold frag_ok, cf_query, w2. cbn [u_query set_path]. unfold frag_ok in Hf.
      destruct (u_query w) as [[|x q]|]; exact Hf.
  Qed.
End RepEval.

Print Assumptions rep_block_eval.

(* ------------------------------------------------------------------------------------------ *)
(* R2: percent-encoding spellings of path segments, query names/values and fragment           *)
(* ------------------------------------------------------------------------------------------ *)
(* the host value is the same whatever record the host parser is given *)
Lemma host_val_fixed idna_raw c h h' :
  c_report c = false -> c_fail c = false -> host_val idna_raw c h = Some h' ->
  forall u0, parseHost idna_raw c u0 h false = Ok u0 h'.
Proof.
  intros Hrep Hfail Hv u0. unfold host_val in Hv.
  rewrite (parseHost_val_indep idna_raw c Hfail h false (empty_url []) u0) in Hv.
  pose proof (parseHost_keeps idna_raw c Hrep u0 h false) as Hk.
  destruct (parseHost idna_raw c u0 h false) as [u' a|u' e]; cbn [val] in Hv; [|discriminate Hv].
  cbn [keeps] in Hk. injection Hv as ->. subst u'. reflexivity.
Qed.

Section R2.
  Variable idna_raw : str -> str * bool.
  Variable p : profile.
  Notation c := (p_cfg p).
  Hypothesis R : CfgRT c.
  Hypothesis Hskip : c_skipTrailSlash c = false.
  Hypothesis Hlat : c_latin1 c = false.
  Hypothesis Hskq : c_skipEq c = false.
  Hypothesis Hrepd : p_repeated p = true.

  (* the components of the normal form that the repeated block works on *)
  Definition nfq (k : comps) : option str := option_map (enc_with c (c_squerySet c)) (k_query k).
  Definition nff (k : comps) : option str := option_map (enc_with c (c_sfragSet c)) (k_frag k).

  (* the checks on the components, as a boolean (everything but the fixed-point property of the host) *)
  Definition rcomps_ok (k : comps) (h : str) : bool :=
    negb (RuneShouldBeEncoded (c_squerySet c) 61) && negb (RuneShouldBeEncoded (c_squerySet c) 38)
    && (is_v6 h || host_lit true h)
    && forallb (forallb (plit p true)) (map rd (norm_segs (k_segs k)))
    && forallb (fun s => negb (dotseg s)) (map rd (norm_segs (k_segs k)))
    && match nfq k with Some (x :: q) => forallb (qpair p (c_squerySet c)) (dec_pairs p (x :: q)) | _ => true end
    && match nff k with Some (x :: f) => forallb (flit (c_sfragSet c)) (rd (x :: f)) | _ => true end.

  Lemma comps_special k : comps_ok c k = true ->
    isSpecialScheme c (str_lower (k_sch k)) = true /\ str_eqb (str_lower (k_sch k)) s_file = false.
  Proof using.
    unfold comps_ok. intros H. repeat (apply andb_true_iff in H; let H' := fresh "H" in destruct H as [H H']).
    apply negb_true_iff in H11. split; assumption.
  Qed.

  Lemma rep_ok_nf k h :
    comps_ok c k = true -> rcomps_ok k h = true ->
    (is_v6 h = false -> forall u0, parseHost idna_raw c u0 h false = Ok u0 h) ->
    rep_ok idna_raw p (nf c k h).
  Proof using.
    intros Hk Hr Hfix. destruct (comps_special k Hk) as [Hs Hnf]. unfold rcomps_ok in Hr.
    repeat (apply andb_true_iff in Hr; let H' := fresh "H" in destruct Hr as [Hr H']).
    apply negb_true_iff in Hr, H4.
    assert (Esp : IsSpecialScheme c (nf c k h) = true) by exact Hs.
    assert (Eqs : queryset c (nf c k h) = c_squerySet c) by (unfold queryset; cbn [u_scheme nf]; rewrite Hs; reflexivity).
    assert (Efs : fragset c (nf c k h) = c_sfragSet c) by (unfold fragset; cbn [u_scheme nf]; rewrite Hs; reflexivity).
    constructor.
    - reflexivity.
    - exact Hnf.
    - reflexivity.
    - rewrite Eqs. exact Hr.
    - rewrite Eqs. exact H4.
    - unfold host_ok. cbn [u_host nf]. rewrite Esp. cbn [negb]. destruct (is_v6 h) eqn:E6; [right; left; reflexivity|].
      right. right. cbn [orb] in H3. split; [exact H3|apply Hfix; reflexivity].
    - unfold path_ok. rewrite Esp. cbn [u_path nf]. split; assumption.
    - unfold query_ok. rewrite Eqs. cbn [u_query nf]. fold (nfq k). destruct (nfq k) as [[|x q]|]; try exact I. exact H0.
    - unfold frag_ok. rewrite Efs. cbn [u_fragment nf]. fold (nff k). destruct (nff k) as [[|x f]|]; try exact I. exact H.
  Qed.

  (* what the canonical form keeps of the query and of the fragment *)
  Definition qkey (o : option str) : option (option (list (str * str))) :=
    match o with Some (x :: q) => Some (Some (dec_pairs p (x :: q))) | Some [] => Some None | None => None end.
  Definition fkey (o : option str) : option str :=
    match o with Some (x :: f) => Some (rd (x :: f)) | _ => None end.

  (* two component lists that agree up to the spelling of percent-encodings *)
  Definition requiv (k1 k2 : comps) : Prop :=
    str_lower (k_sch k1) = str_lower (k_sch k2) /\ k_user k1 = k_user k2 /\ k_pass k1 = k_pass k2 /\
    host_val idna_raw c (k_host k1) = host_val idna_raw c (k_host k2) /\
    nf_port c (str_lower (k_sch k1)) (k_port k1) = nf_port c (str_lower (k_sch k1)) (k_port k2) /\
    map rd (norm_segs (k_segs k1)) = map rd (norm_segs (k_segs k2)) /\
    qkey (nfq k1) = qkey (nfq k2) /\ fkey (nff k1) = fkey (nff k2).

  Lemma CF_proj w :
    u_scheme (CF p w) = u_scheme w /\ u_username (CF p w) = u_username w /\ u_password (CF p w) = u_password w /\
    u_host (CF p w) = u_host w /\ u_port (CF p w) = u_port w /\ u_decodedPort (CF p w) = u_decodedPort w /\
    u_path (CF p w) = map rd (u_path w) /\ u_opaque (CF p w) = false /\
    u_query (CF p w) = match u_query w with Some (x :: q) => Some (sp_string c (dec_pairs p (x :: q))) | o => o end /\
    u_fragment (CF p w) = match u_fragment w with Some (x :: f) => Some (rd (x :: f)) | _ => None end /\
    u_verrs (CF p w) = u_verrs w /\
    u_sp (CF p w) = match u_query w with Some (x :: q) => Some (dec_pairs p (x :: q)) | _ => u_sp w end.
  Proof using.
    unfold CF, cf_frag, cf_query. cbn [u_query set_path]. destruct (u_query w) as [[|x q]|] eqn:E; cbn; rewrite ?E; repeat split.
  Qed.

  Lemma eqi_of_fields a b :
    u_scheme a = u_scheme b -> u_username a = u_username b -> u_password a = u_password b -> u_host a = u_host b ->
    u_port a = u_port b -> u_decodedPort a = u_decodedPort b -> u_path a = u_path b -> u_opaque a = u_opaque b ->
    u_query a = u_query b -> u_fragment a = u_fragment b -> u_verrs a = u_verrs b -> u_sp a = u_sp b -> eqi a b.
  Proof using. unfold eqi. destruct a, b. cbn. intros. subst. reflexivity. Qed.

  Lemma CF_requiv k1 k2 h : requiv k1 k2 -> eqi (CF p (nf c k1 h)) (CF p (nf c k2 h)).
  Proof using.
    intros [E1 [E2 [E3 [E4 [E5 [E6 [E7 E8]]]]]]].
    destruct (CF_proj (nf c k1 h)) as [A1 [A2 [A3 [A4 [A5 [A6 [A7 [A8 [A9 [A10 [A11 A12]]]]]]]]]]].
    destruct (CF_proj (nf c k2 h)) as [B1 [B2 [B3 [B4 [B5 [B6 [B7 [B8 [B9 [B10 [B11 B12]]]]]]]]]]].
    cbn [nf u_scheme u_username u_password u_host u_port u_decodedPort u_path u_opaque u_query u_fragment u_verrs u_sp] in *.
    fold (nfq k1) in A9, A12. fold (nfq k2) in B9, B12. fold (nff k1) in A10. fold (nff k2) in B10.
    unfold qkey in E7. unfold fkey in E8.
    apply eqi_of_fields; rewrite ?A1, ?A2, ?A3, ?A4, ?A5, ?A6, ?A7, ?A8, ?A9, ?A10, ?A11, ?A12,
                                  ?B1, ?B2, ?B3, ?B4, ?B5, ?B6, ?B7, ?B8, ?B9, ?B10, ?B11, ?B12; try congruence.
    - destruct (nfq k1) as [[|x1 q1]|], (nfq k2) as [[|x2 q2]|]; try discriminate E7; try reflexivity. injection E7 as E7. rewrite E7. reflexivity.
    - destruct (nfq k1) as [[|x1 q1]|], (nfq k2) as [[|x2 q2]|]; try discriminate E7; try reflexivity. injection E7 as E7. rewrite E7. reflexivity.
  Qed.

  Lemma tail_block_eqi a b : eqi a b -> orel (tail_block idna_raw p a) (tail_block idna_raw p b).
  Proof using.
    intros Hab. unfold tail_block. apply orel_bind.
    { rewrite (eqi_ex a b Hab). destruct (p_removePort p); [apply SetPort_i|apply eqi_input]. }
    clear a b Hab. intros a b Hab. apply orel_bind.
    { rewrite (eqi_ex a b Hab). destruct (p_removeUserInfo p); [|apply eqi_input].
      apply orel_bind; [apply SetUsername_i|]. intros a' b' H'. rewrite (eqi_ex a' b' H'). apply SetPassword_i. }
    clear a b Hab. intros a b Hab. apply orel_bind.
    { rewrite (eqi_ex a b Hab). destruct (p_removeFragment p); [apply SetHash_i|apply eqi_input]. }
    clear a b Hab. intros a b Hab. rewrite (eqi_ex a b Hab). cbn [orel]. apply sort_i.
  Qed.

  Lemma Parse_nf k h : comps_ok c k = true -> host_val idna_raw c (k_host k) = Some h ->
    Parse idna_raw c (text_of k) = PUrl (nf c k h).
  Proof using R Hskip.
    intros Hk Hv. rewrite (normal_form idna_raw c R Hskip k Hk). unfold host_val in Hv.
    rewrite (parseHost_val_indep idna_raw c (R_fail c R) (k_host k) false (empty_url []) (pre_host c k)) in Hv.
    destruct (parseHost idna_raw c (pre_host c k) (k_host k) false); cbn [val] in Hv; [|discriminate Hv].
    injection Hv as ->. reflexivity.
  Qed.

  (* the canonical form of a text of the grammar, under repeated decoding *)
  Theorem ProfileParse_CF k h :
    comps_ok c k = true -> host_val idna_raw c (k_host k) = Some h -> rep_ok idna_raw p (nf c k h) ->
    exists r, rep_block idna_raw p (nf c k h) = Some r /\ eqi r (CF p (nf c k h)) /\
              ProfileParse idna_raw p (text_of k) = match tail_block idna_raw p r with Some u => CUrl u | None => CPanic end.
  Proof using All.
    intros Hk Hv Hok. destruct (rep_block_eval idna_raw p R Hlat Hskq _ Hrepd Hok) as [r [Er Hr]].
    exists r. split; [exact Er|]. split; [exact Hr|].
    unfold ProfileParse, parse_retry. rewrite (Parse_nf k h Hk Hv). unfold canon_of.
    rewrite Canonicalize_blocks, Er. reflexivity.
  Qed.

  (* R2 *)
  Theorem repeated_spelling k1 k2 h :
    comps_ok c k1 = true -> comps_ok c k2 = true -> requiv k1 k2 ->
    host_val idna_raw c (k_host k1) = Some h ->
    rep_ok idna_raw p (nf c k1 h) -> rep_ok idna_raw p (nf c k2 h) ->
    same_cres (ProfileParse idna_raw p (text_of k1)) (ProfileParse idna_raw p (text_of k2)).
  Proof using All.
    intros H1 H2 He Hv K1 K2. pose proof He as [_ [_ [_ [E4 _]]]].
    destruct (ProfileParse_CF k1 h H1 Hv K1) as [r1 [_ [Q1 ->]]].
    destruct (ProfileParse_CF k2 h H2 ltac:(rewrite <- E4; exact Hv) K2) as [r2 [_ [Q2 ->]]].
    assert (Hq : eqi r1 r2).
    { apply (eqi_trans _ _ _ Q1). apply (eqi_trans _ (CF p (nf c k2 h))); [apply CF_requiv; exact He|apply eqi_sym; exact Q2]. }
    pose proof (tail_block_eqi r1 r2 Hq) as Ht.
    destruct (tail_block idna_raw p r1), (tail_block idna_raw p r2); cbn [orel] in Ht; try contradiction; cbn [same_cres]; [exact Ht|exact I].
  Qed.

  Corollary repeated_spelling_href k1 k2 h a b :
    comps_ok c k1 = true -> comps_ok c k2 = true -> requiv k1 k2 ->
    host_val idna_raw c (k_host k1) = Some h ->
    rep_ok idna_raw p (nf c k1 h) -> rep_ok idna_raw p (nf c k2 h) ->
    ProfileParse idna_raw p (text_of k1) = CUrl a -> ProfileParse idna_raw p (text_of k2) = CUrl b ->
    same_components a b /\ Href a false = Href b false.
  Proof using All.
    intros H1 H2 He Hv K1 K2 Pa Pb. pose proof (repeated_spelling k1 k2 h H1 H2 He Hv K1 K2) as Hs. rewrite Pa, Pb in Hs.
    cbn [same_cres] in Hs. pose proof (eqi_same a b Hs) as Hsc. split; [exact Hsc|]. apply CanonIdem.Href_same. exact Hsc.
  Qed.
End R2.

Print Assumptions repeated_spelling.
Print Assumptions repeated_spelling_href.
