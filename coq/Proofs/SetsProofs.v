(* C10: the percent-encode sets and forbidden-code-point tables regenerated from /repo (Gen/Tables.v)
   contain exactly the code points the standard lists (Spec/PercentSets.v), for EVERY code point. *)
From Coq Require Import Lia ZifyBool ZifyN.
From Verif Require Import Lib.Base Model.Cfg Gen.Tables Model.Sets Spec.PercentSets.

Definition below128 : list N := map N.of_nat (seq 0 128).

Lemma in_below128 (c : N) : c < 128 -> In c below128.
Proof.
  intros H. unfold below128. apply in_map_iff. exists (N.to_nat c). split; [lia|].
  apply in_seq. lia.
Qed.

(* a predicate pair that agrees on all code points below 128 and is constant-true from 127 on agrees everywhere *)
Definition all_bits_small (p : peset) : bool := forallb (fun b => b <? 128) (bits p).

Lemma bs_test_small (l : list N) (c : N) : forallb (fun b => b <? 128) l = true -> 128 <= c -> bs_test l c = false.
Proof.
  intros Hs Hc. unfold bs_test, mem. induction l as [|x l IH]; [reflexivity|].
  cbn [existsb forallb] in *. apply andb_prop in Hs as [Hx Hl].
  rewrite (IH Hl). destruct (N.eqb_spec c x); [lia|reflexivity].
Qed.

Section SetEq.
  Variable p : peset.
  Variable spec : N -> bool.
  Hypothesis Hsweep : forallb (fun c => Bool.eqb (RuneShouldBeEncoded p c) (spec c)) below128 = true.
  Hypothesis Hhigh : forall c, 128 <= c -> spec c = true.

  Lemma set_eq_all : forall c, RuneShouldBeEncoded p c = spec c.
  Proof.
    intros c. destruct (N.ltb_spec c 128) as [Hlt|Hge].
    - rewrite forallb_forall in Hsweep. specialize (Hsweep c (in_below128 c Hlt)).
      apply Bool.eqb_prop in Hsweep. exact Hsweep.
    - rewrite (Hhigh c Hge). unfold RuneShouldBeEncoded.
      assert (H : (126 <? c) = true) by lia. rewrite H. rewrite orb_true_r. reflexivity.
  Qed.
End SetEq.

Lemma c0_high c : 128 <= c -> in_c0_control_set c = true.
Proof. intros H. unfold in_c0_control_set. assert (E : (126 <? c) = true) by lia. rewrite E. apply orb_true_r. Qed.
Lemma query_high c : 128 <= c -> in_query_set c = true.
Proof. intros H. unfold in_query_set. rewrite (c0_high c H). reflexivity. Qed.

Lemma sets_C0 : forall c, RuneShouldBeEncoded pes_C0 c = in_c0_control_set c.
Proof. apply set_eq_all; [vm_compute; reflexivity | exact c0_high]. Qed.
Lemma sets_fragment : forall c, RuneShouldBeEncoded pes_Fragment c = in_fragment_set c.
Proof. apply set_eq_all; [vm_compute; reflexivity | intros c H; unfold in_fragment_set; rewrite (c0_high c H); reflexivity]. Qed.
Lemma sets_query : forall c, RuneShouldBeEncoded pes_Query c = in_query_set c.
Proof. apply set_eq_all; [vm_compute; reflexivity | exact query_high]. Qed.
Lemma sets_special_query : forall c, RuneShouldBeEncoded pes_SpecialQuery c = in_special_query_set c.
Proof. apply set_eq_all; [vm_compute; reflexivity | intros c H; unfold in_special_query_set; rewrite (query_high c H); reflexivity]. Qed.
Lemma sets_path : forall c, RuneShouldBeEncoded pes_Path c = in_path_set c.
Proof. apply set_eq_all; [vm_compute; reflexivity | intros c H; unfold in_path_set; rewrite (query_high c H); reflexivity]. Qed.
Lemma sets_userinfo : forall c, RuneShouldBeEncoded pes_UserInfo c = in_userinfo_set c.
Proof. apply set_eq_all; [vm_compute; reflexivity | intros c H; unfold in_userinfo_set, in_path_set; rewrite (query_high c H); reflexivity]. Qed.

(* tables that are plain bitsets: equal to the standard's predicate everywhere *)
Section TableEq.
  Variable l : list N.
  Variable spec : N -> bool.
  Hypothesis Hsweep : forallb (fun c => Bool.eqb (bs_test l c) (spec c)) below128 = true.
  Hypothesis Hsmall : forallb (fun b => b <? 128) l = true.
  Hypothesis Hhigh : forall c, 128 <= c -> spec c = false.
  Lemma table_eq_all : forall c, bs_test l c = spec c.
  Proof.
    intros c. destruct (N.ltb_spec c 128) as [Hlt|Hge].
    - rewrite forallb_forall in Hsweep. specialize (Hsweep c (in_below128 c Hlt)).
      apply Bool.eqb_prop in Hsweep. exact Hsweep.
    - rewrite (Hhigh c Hge). apply bs_test_small; assumption.
  Qed.
End TableEq.

Lemma forbidden_host_table : forall c, isForbiddenHost c = forbidden_host_cp c.
Proof.
  apply table_eq_all; [vm_compute; reflexivity | vm_compute; reflexivity |].
  intros c H. unfold forbidden_host_cp.
  repeat match goal with |- context [c =? ?k] => let E := fresh in assert (E : (c =? k) = false) by lia; rewrite E; clear E end.
  reflexivity.
Qed.
Lemma forbidden_domain_table : forall c, isForbiddenDomain c = forbidden_domain_cp c.
Proof.
  apply table_eq_all; [vm_compute; reflexivity | vm_compute; reflexivity |].
  intros c H. unfold forbidden_domain_cp, forbidden_host_cp.
  repeat match goal with |- context [c =? ?k] => let E := fresh in assert (E : (c =? k) = false) by lia; rewrite E; clear E end.
  assert (E : (c <=? 31) = false) by lia. rewrite E. reflexivity.
Qed.
Lemma tab_or_newline_table : forall c, isTabOrNewline c = ascii_tab_or_newline c.
Proof.
  apply table_eq_all; [vm_compute; reflexivity | vm_compute; reflexivity |].
  intros c H. unfold ascii_tab_or_newline.
  repeat match goal with |- context [c =? ?k] => let E := fresh in assert (E : (c =? k) = false) by lia; rewrite E; clear E end.
  reflexivity.
Qed.
Lemma digit_table : forall c, isDigit c = ascii_digit c.
Proof. apply table_eq_all; [vm_compute; reflexivity | vm_compute; reflexivity |]. intros c H. unfold ascii_digit. lia. Qed.
Lemma hex_table : forall c, isHexDigit c = ascii_hex_digit c.
Proof. apply table_eq_all; [vm_compute; reflexivity | vm_compute; reflexivity |]. intros c H. unfold ascii_hex_digit, ascii_upper_hex, ascii_digit. lia. Qed.
Lemma alpha_table : forall c, isAlpha c = ascii_alpha c.
Proof. apply table_eq_all; [vm_compute; reflexivity | vm_compute; reflexivity |]. intros c H. unfold ascii_alpha. lia. Qed.
Lemma alnum_table : forall c, isAlnum c = ascii_alphanumeric c.
Proof. apply table_eq_all; [vm_compute; reflexivity | vm_compute; reflexivity |]. intros c H. unfold ascii_alphanumeric, ascii_alpha, ascii_digit. lia. Qed.
(* the C0-control-or-space set used for trimming: RuneNotInSet is the negation of "<= 0x20" *)
Lemma c0_or_space_trim : forall c, negb (RuneNotInSet pes_C0OrSpace c) = c0_control_or_space c.
Proof. intros c. unfold RuneNotInSet, c0_control_or_space, pes_C0OrSpace, bs_test, mem. cbn [ab bits existsb]. lia. Qed.

(* deriving a set: the receiver is a value; Set adds exactly the given bits, Clear removes them from the bit part *)
Lemma pes_set_spec p bs c : RuneShouldBeEncoded (pes_set p bs) c = RuneShouldBeEncoded p c || mem c bs.
Proof.
  unfold RuneShouldBeEncoded, pes_set, bs_test, mem. cbn [ab bits]. rewrite existsb_app.
  destruct (c <? ab p), (126 <? c), (existsb (N.eqb c) bs), (existsb (N.eqb c) (bits p)); reflexivity.
Qed.
Lemma pes_clear_spec p bs c :
  RuneShouldBeEncoded (pes_clear p bs) c = (c <? ab p) || (126 <? c) || (bs_test (bits p) c && negb (mem c bs)).
Proof.
  unfold RuneShouldBeEncoded, pes_clear, bs_test, mem. cbn [ab bits]. f_equal.
  induction (bits p) as [|x l IH]; [reflexivity|]. cbn [filter existsb].
  destruct (existsb (N.eqb x) bs) eqn:Ex; cbn [negb].
  - rewrite IH. destruct (N.eqb_spec c x) as [->|Hne]; cbn [orb].
    + rewrite Ex. cbn. destruct (existsb (N.eqb x) l); reflexivity.
    + reflexivity.
  - cbn [existsb]. rewrite IH. destruct (N.eqb_spec c x) as [->|Hne]; cbn [orb].
    + rewrite Ex. reflexivity.
    + reflexivity.
Qed.
