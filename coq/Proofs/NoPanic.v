(* Totality of the public API of the model: no call panics, runs out of fuel or returns (nil, nil);
   every URL that is returned is well formed (an opaque path has its segment), and on well-formed
   URLs every setter and getter works -- for every configuration c and every IDNA oracle. *)
From Verif Require Import Lib.Base Lib.Utf8 Lib.GoStr Model.Cfg Gen.Tables Model.Sets Model.Percent Model.Url Model.Host Model.Machine Model.Api.
From Verif Require Import Proofs.Termination.
From Coq Require Import Lia ZifyBool ZifyN ZifyNat.

Local Open Scope N_scope.

(* ------------------------------------------------------------------------------------------ *)
(* 1. Well-formedness, and the part of the record the argument looks at                        *)
(* ------------------------------------------------------------------------------------------ *)

(* path.opaque implies len(path.p) > 0: what Pathname / Href / stripTrailingSpacesIfOpaque index *)
Definition wf (u : url) : Prop := u_opaque u = true -> u_path u <> [].

(* the fields that matter here; error handling and the host parsers leave them alone *)
Definition sh (u : url) : list str * bool * option str := (u_path u, u_opaque u, u_query u).

Lemma sh_inv u u' : sh u' = sh u -> u_path u' = u_path u /\ u_opaque u' = u_opaque u /\ u_query u' = u_query u.
Proof. unfold sh. intros H. injection H. auto. Qed.

Lemma sh_handleError c u t f : sh (fst (handleError c u t f)) = sh u.
Proof. unfold handleError. cbn [fst]. destruct (c_report c); reflexivity. Qed.

Lemma handleError_true c u t : snd (handleError c u t true) <> None.
Proof. unfold handleError. cbn. discriminate. Qed.

(* ---------- the host parsers only add validation errors ---------- *)
Definition R {A} (u0 : url) (r : res A) : Prop :=
  match r with Ok u' _ => sh u' = sh u0 | Er u' _ => sh u' = sh u0 end.

Lemma R_herr {A} c u0 u t f (k : url -> res A) :
  sh u = sh u0 -> (forall u', sh u' = sh u0 -> R u0 (k u')) -> R u0 (herr c u t f k).
Proof.
  intros Hu Hk. unfold herr. pose proof (sh_handleError c u t f) as Hs.
  destruct (handleError c u t f) as [u' [e|]]; cbn [fst] in Hs.
  - cbn. congruence.
  - apply Hk. congruence.
Qed.

Lemma sh_parseIPv4Number c u input : sh (fst (parseIPv4Number c u input)) = sh u.
Proof.
  unfold parseIPv4Number. destruct input; [|reflexivity].
  pose proof (sh_handleError c u IPv4EmptyPart true) as Hs.
  destruct (handleError c u IPv4EmptyPart true). exact Hs.
Qed.

Lemma sh_endsInANumber c u input : sh (fst (endsInANumber c u input)) = sh u.
Proof.
  unfold endsInANumber.
  destruct (last_opt _) as [[|x l]|]; try reflexivity.
  destruct (all_in isDigit (x :: l)); [reflexivity|].
  pose proof (sh_parseIPv4Number c u (x :: l)) as Hs.
  destruct (parseIPv4Number c u (x :: l)) as [u' [? ?|?]]; exact Hs.
Qed.

Lemma R_ipv4_numbers c u0 : forall parts u acc, sh u = sh u0 -> R u0 (ipv4_numbers c u parts acc).
Proof.
  induction parts as [|p rest IH]; intros u acc Hu; cbn [ipv4_numbers].
  - exact Hu.
  - pose proof (sh_parseIPv4Number c u p) as Hs.
    destruct (parseIPv4Number c u p) as [u1 [nn ve|rg]]; cbn [fst] in Hs.
    + destruct ve.
      * apply R_herr; [congruence|]. intros. apply IH. assumption.
      * apply IH. congruence.
    + apply R_herr; [congruence|]. intros. apply IH. assumption.
Qed.

Lemma R_ipv4_range_warn c u0 k : (forall u', sh u' = sh u0 -> R u0 (k u')) ->
  forall ns u, sh u = sh u0 -> R u0 (ipv4_range_warn c u ns k).
Proof.
  intros Hk. induction ns as [|x rest IH]; intros u Hu; cbn [ipv4_range_warn].
  - apply Hk. assumption.
  - destruct (255 <? x).
    + apply R_herr; [assumption|]. intros. apply IH. assumption.
    + apply IH. assumption.
Qed.

Lemma R_parseIPv4 c u0 u input : sh u = sh u0 -> R u0 (parseIPv4 c u input).
Proof.
  intros Hu. unfold parseIPv4.
  assert (Hafter : forall u parts, sh u = sh u0 ->
    R u0 ((if (4 <? len parts)%Z then (fun k => herr c u IPv4TooManyParts true k) else (fun k => k u))
      (fun u => match ipv4_numbers c u parts [] with
       | Er u e => Er u e
       | Ok u numbers =>
          ipv4_range_warn c u numbers (fun u =>
            let init := drop_last numbers in
            if existsb (fun n => 255 <? n) init then herr c u IPv4OutOfRangePart true (fun u => Ok u [])
            else match last_opt numbers with
                 | None => Ok u []
                 | Some lastn =>
                     if 256 ^ (5 - N.of_nat (length numbers)) <=? lastn
                     then herr c u IPv4OutOfRangePart true (fun u => Ok u [])
                     else Ok u (IPv4String (lastn + ipv4_sum init 0))
                 end)
       end))).
  { intros u1 parts Hu1.
    assert (Hbody : forall u2, sh u2 = sh u0 -> R u0 (match ipv4_numbers c u2 parts [] with
       | Er u e => Er u e
       | Ok u numbers =>
          ipv4_range_warn c u numbers (fun u =>
            let init := drop_last numbers in
            if existsb (fun n => 255 <? n) init then herr c u IPv4OutOfRangePart true (fun u => Ok u [])
            else match last_opt numbers with
                 | None => Ok u []
                 | Some lastn =>
                     if 256 ^ (5 - N.of_nat (length numbers)) <=? lastn
                     then herr c u IPv4OutOfRangePart true (fun u => Ok u [])
                     else Ok u (IPv4String (lastn + ipv4_sum init 0))
                 end)
       end)).
    { intros u2 Hu2. pose proof (R_ipv4_numbers c u0 parts u2 [] Hu2) as Hn.
      destruct (ipv4_numbers c u2 parts []) as [u3 numbers|u3 e]; [|exact Hn].
      cbn in Hn. apply R_ipv4_range_warn; [|assumption].
      intros u4 Hu4. cbv zeta.
      destruct (existsb _ _).
      - apply R_herr; [assumption|]. intros; assumption.
      - destruct (last_opt numbers); [|assumption].
        destruct (_ <=? _).
        + apply R_herr; [assumption|]. intros; assumption.
        + assumption. }
    destruct (4 <? len parts)%Z.
    - apply R_herr; [assumption|]. exact Hbody.
    - apply Hbody. assumption. }
  cbv zeta.
  destruct (last_opt (split 46 input)) as [[|x l]|].
  - apply R_herr; [assumption|]. intros. apply Hafter. assumption.
  - apply Hafter. assumption.
  - apply Hafter. assumption.
Qed.

Lemma R_parseIPv6 c u0 u input : sh u = sh u0 -> R u0 (parseIPv6 c u input).
Proof.
  intros Hu. unfold parseIPv6. destruct (ipv6_parse (runes input)).
  - exact Hu.
  - apply R_herr; [assumption|]. intros; assumption.
Qed.

Lemma R_opaque_loop c u0 input : forall l u out, sh u = sh u0 -> R u0 (opaque_loop c u input l out).
Proof.
  induction l as [|ch rest IH]; intros u out Hu; cbn [opaque_loop].
  - exact Hu.
  - cbv zeta.
    assert (Hk1 : forall u1, sh u1 = sh u0 ->
      R u0 ((if negb (isURLCodePoint ch) && negb (ch =? 37)
         then (fun k => herr c u1 InvalidURLUnit false k) else (fun k => k u1))
        (fun u =>
          (if (ch =? 37) && invalid_pct (ch :: rest)
           then (fun k => herr c u InvalidURLUnit false k) else (fun k => k u))
          (fun u => opaque_loop c u input rest (out ++ percentEncodeRune c ch (Some pes_C0)))))).
    { intros u1 Hu1.
      assert (Hk2 : forall u2, sh u2 = sh u0 ->
        R u0 ((if (ch =? 37) && invalid_pct (ch :: rest)
           then (fun k => herr c u2 InvalidURLUnit false k) else (fun k => k u2))
          (fun u => opaque_loop c u input rest (out ++ percentEncodeRune c ch (Some pes_C0))))).
      { intros u2 Hu2. destruct ((ch =? 37) && invalid_pct (ch :: rest)).
        - apply R_herr; [assumption|]. intros. apply IH. assumption.
        - apply IH. assumption. }
      destruct (negb (isURLCodePoint ch) && negb (ch =? 37)).
      - apply R_herr; [assumption|]. exact Hk2.
      - apply Hk2. assumption. }
    destruct (isForbiddenHost ch).
    + destruct (c_lax c); [exact Hu|]. apply R_herr; [assumption|]. exact Hk1.
    + apply Hk1. assumption.
Qed.

Lemma R_parseHost idna_raw c u input ns : R u (parseHost idna_raw c u input ns).
Proof.
  unfold parseHost. cbv zeta.
  destruct (apply_hostfun (c_pre c) input) as [|b0 rest] eqn:Ein; [reflexivity|].
  assert (Hv6 : R u ((if negb (has_suffix [93] (b0 :: rest)) then (fun k => herr c u IPv6Unclosed true k) else (fun k => k u))
        (fun u => parseIPv6 c u (drop_last (tl (b0 :: rest)))))).
  { destruct (negb _).
    - apply R_herr; [reflexivity|]. intros. apply R_parseIPv6. assumption.
    - apply R_parseIPv6. reflexivity. }
  assert (Hgen : R u (if ns then parseOpaqueHost c u (b0 :: rest)
      else
        let domain := DecodePercentEncoded c (b0 :: rest) in
        let k_valid (u : url) : res str :=
          match ToASCII idna_raw c domain with
          | None =>
              if c_lax c then Ok u domain
              else herr c u DomainToASCII true (fun u => Ok u [])
          | Some asciiDomain =>
              let forbidden := existsb isForbiddenDomain (runes asciiDomain) in
              let k_clean (u : url) : res str :=
                match endsInANumber c u asciiDomain with
                | (u, true) => parseIPv4 c u asciiDomain
                | (u, false) => Ok u (apply_hostfun (c_post c) asciiDomain)
                end in
              if forbidden then
                if c_lax c then Ok u (PercentEncodeString c asciiDomain pes_Host)
                else herr c u DomainInvalidCodePoint true k_clean
              else k_clean u
          end in
        if negb (valid_utf8 domain) then
          if c_lax c then Ok u (percentEncodeBytes (b0 :: rest) pes_Host)
          else herr c u DomainToASCII true k_valid
        else k_valid u)).
  { destruct ns.
    - unfold parseOpaqueHost. apply R_opaque_loop. reflexivity.
    - cbv zeta.
      assert (Hvalid : forall u1, sh u1 = sh u ->
        R u (match ToASCII idna_raw c (DecodePercentEncoded c (b0 :: rest)) with
          | None =>
              if c_lax c then Ok u1 (DecodePercentEncoded c (b0 :: rest))
              else herr c u1 DomainToASCII true (fun u => Ok u [])
          | Some asciiDomain =>
              if existsb isForbiddenDomain (runes asciiDomain) then
                if c_lax c then Ok u1 (PercentEncodeString c asciiDomain pes_Host)
                else herr c u1 DomainInvalidCodePoint true (fun u =>
                  match endsInANumber c u asciiDomain with
                  | (u, true) => parseIPv4 c u asciiDomain
                  | (u, false) => Ok u (apply_hostfun (c_post c) asciiDomain)
                  end)
              else match endsInANumber c u1 asciiDomain with
                   | (u, true) => parseIPv4 c u asciiDomain
                   | (u, false) => Ok u (apply_hostfun (c_post c) asciiDomain)
                   end
          end)).
      { intros u1 Hu1. destruct (ToASCII idna_raw c _) as [ad|].
        - assert (Hclean : forall u2, sh u2 = sh u -> R u (match endsInANumber c u2 ad with
                   | (u, true) => parseIPv4 c u ad
                   | (u, false) => Ok u (apply_hostfun (c_post c) ad)
                   end)).
          { intros u2 Hu2. pose proof (sh_endsInANumber c u2 ad) as Hs.
            destruct (endsInANumber c u2 ad) as [u3 [|]]; cbn [fst] in Hs.
            - apply R_parseIPv4. congruence.
            - cbn. congruence. }
          destruct (existsb _ _).
          + destruct (c_lax c); [exact Hu1|]. apply R_herr; [assumption|]. exact Hclean.
          + apply Hclean. assumption.
        - destruct (c_lax c); [exact Hu1|]. apply R_herr; [assumption|]. intros; assumption. }
      destruct (negb (valid_utf8 _)).
      + destruct (c_lax c); [exact eq_refl|]. apply R_herr; [reflexivity|]. exact Hvalid.
      + apply Hvalid. reflexivity. }
  destruct (N.eq_dec b0 91) as [->|Hne]; [exact Hv6|].
  destruct b0 as [|pb]; [exact Hgen|].
  (* the match on the literal 91 *)
  repeat (destruct pb as [pb|pb|]; try exact Hgen; try exact Hv6).
Qed.

Lemma parseHost_Ok idna_raw c u input ns u' h :
  parseHost idna_raw c u input ns = Ok u' h ->
  u_path u' = u_path u /\ u_opaque u' = u_opaque u /\ u_query u' = u_query u.
Proof. intros H. pose proof (R_parseHost idna_raw c u input ns) as HR. rewrite H in HR. apply sh_inv. exact HR. Qed.

Lemma parseHost_Er idna_raw c u input ns u' e :
  parseHost idna_raw c u input ns = Er u' e ->
  u_path u' = u_path u /\ u_opaque u' = u_opaque u /\ u_query u' = u_query u.
Proof. intros H. pose proof (R_parseHost idna_raw c u input ns) as HR. rewrite H in HR. apply sh_inv. exact HR. Qed.

(* ------------------------------------------------------------------------------------------ *)
(* 2. The invariant of the state machine                                                       *)
(* ------------------------------------------------------------------------------------------ *)

(* the states a run under a state override can be in *)
Definition ov_ok (st : state) : bool :=
  match st with
  | SchemeStart | Scheme | HostSt | HostnameSt | FileHost | PortSt | PathStart | PathSt | QuerySt | FragmentSt => true
  | _ => false
  end.

(* what is guaranteed of a record that leaves the parser *)
(* the flag w switches the well-formedness part of the invariant off: absence of panics does not need it *)
Definition wfp (w : bool) (u : url) : Prop := if w then wf u else True.

Definition Fin (w : bool) (override : option state) (u : url) : Prop :=
  wfp w u /\ (override = Some QuerySt -> u_query u <> None).

Definition J (w : bool) (base : option url) (override : option state) (m : mstate) : Prop :=
  let st := m_state m in
  let u := m_url m in
  m_eof m = false /\
  match st with QuerySt => u_query u <> None | _ => True end /\
  match override with
  | None =>
      match st with Relative | RelativeSlash | SpecialRelativeOrAuthority => base <> None | _ => True end /\
      match st with PathSt => True | _ => wfp w u end
  | Some ov =>
      ov_ok st = true /\ wfp w u /\
      match st with PathStart | PathSt => u_opaque u = false | _ => True end /\
      (st = QuerySt \/ ov <> QuerySt)
  end.

Definition Post (w : bool) (base : option url) (override : option state) (o : outcome) : Prop :=
  match o with
  | Panic => False
  | Cont m' => (m_eof m' = false -> J w base override m') /\ (m_eof m' = true -> Fin w override (m_url m'))
  | RetUrl u => Fin w override u
  | RetErr u _ => is_some override = true -> Fin w override u
  | RetNilNil u => is_some override = true /\ Fin w override u
  end.

Lemma replaceLast_path {X} (a b d : bool) (p : list X) :
  negb (a && b && negb (is_nil p) && d) = false -> p <> [].
Proof.
  destruct p as [|y p]; cbn [is_nil negb]; [|discriminate].
  rewrite andb_false_r. discriminate.
Qed.
Lemma replace_last_nonnil {X} (a b d : bool) (p : list X) (x : X) :
  negb (a && b && negb (is_nil p) && d) = false -> replace_last p x <> [].
Proof.
  intros H. apply replaceLast_path in H. destruct p as [|y [|z p]]; cbn; congruence.
Qed.

Lemma sh_cleanDefaultPort c u : sh (cleanDefaultPort c u) = sh u.
Proof.
  unfold cleanDefaultPort. destruct (getSpecialScheme c (u_scheme u)); [|reflexivity].
  destruct (u_port u); [|reflexivity]. destruct (str_eqb _ _); reflexivity.
Qed.
Lemma path_cleanDefaultPort c u : u_path (cleanDefaultPort c u) = u_path u.
Proof. pose proof (sh_cleanDefaultPort c u) as H. apply sh_inv in H. tauto. Qed.
Lemma opaque_cleanDefaultPort c u : u_opaque (cleanDefaultPort c u) = u_opaque u.
Proof. pose proof (sh_cleanDefaultPort c u) as H. apply sh_inv in H. tauto. Qed.
Lemma query_cleanDefaultPort c u : u_query (cleanDefaultPort c u) = u_query u.
Proof. pose proof (sh_cleanDefaultPort c u) as H. apply sh_inv in H. tauto. Qed.

Section Step.
  Variable idna_raw : str -> str * bool.
  Variable c : cfg.
  Variable inp : list rune.

  Notation stepf := (step idna_raw c inp).

  Lemma P_mherr w base override u t f k :
    (is_some override = true -> Fin w override u) ->
    (forall u', u_path u' = u_path u -> u_opaque u' = u_opaque u -> u_query u' = u_query u -> Post w base override (k u')) ->
    Post w base override (mherr c u t f k).
  Proof.
    intros Hfin Hk. unfold mherr. pose proof (sh_handleError c u t f) as Hs. apply sh_inv in Hs.
    destruct (handleError c u t f) as [u' [e|]]; cbn [fst] in Hs; destruct Hs as (Hp & Ho & Hq).
    - cbn. intros Hov. destruct (Hfin Hov) as [Hw Hqq]. destruct w; unfold Fin, wfp, wf in *; rewrite ?Hp, ?Ho, ?Hq; auto.
    - apply Hk; assumption.
  Qed.

  Lemma P_mherr_true w base override u t k :
    (is_some override = true -> Fin w override u) ->
    Post w base override (mherr c u t true k).
  Proof.
    intros Hfin. unfold mherr. pose proof (sh_handleError c u t true) as Hs. apply sh_inv in Hs.
    pose proof (handleError_true c u t) as Ht.
    destruct (handleError c u t true) as [u' [e|]]; cbn [fst snd] in *; destruct Hs as (Hp & Ho & Hq).
    - cbn. intros Hov. destruct (Hfin Hov) as [Hw Hqq]. destruct w; unfold Fin, wfp, wf in *; rewrite ?Hp, ?Ho, ?Hq; auto.
    - congruence.
  Qed.

  (* the value read at the end of the input *)
  Lemma re_35 : (rune_error =? 35) = false. Proof. reflexivity. Qed.
  Lemma re_37 : (rune_error =? 37) = false. Proof. reflexivity. Qed.
  Lemma re_43 : (rune_error =? 43) = false. Proof. reflexivity. Qed.
  Lemma re_45 : (rune_error =? 45) = false. Proof. reflexivity. Qed.
  Lemma re_46 : (rune_error =? 46) = false. Proof. reflexivity. Qed.
  Lemma re_47 : (rune_error =? 47) = false. Proof. reflexivity. Qed.
  Lemma re_58 : (rune_error =? 58) = false. Proof. reflexivity. Qed.
  Lemma re_63 : (rune_error =? 63) = false. Proof. reflexivity. Qed.
  Lemma re_64 : (rune_error =? 64) = false. Proof. reflexivity. Qed.
  Lemma re_91 : (rune_error =? 91) = false. Proof. reflexivity. Qed.
  Lemma re_92 : (rune_error =? 92) = false. Proof. reflexivity. Qed.
  Lemma re_93 : (rune_error =? 93) = false. Proof. reflexivity. Qed.
  Lemma re_alpha : isAlpha rune_error = false. Proof. vm_compute. reflexivity. Qed.
  Lemma re_alnum : isAlnum rune_error = false. Proof. vm_compute. reflexivity. Qed.
  Lemma re_digit : isDigit rune_error = false. Proof. vm_compute. reflexivity. Qed.

  Ltac pwalk :=
    repeat first
      [ progress cbv beta
      | match goal with
        | |- Post _ _ _ (mherr _ _ _ true _) => apply P_mherr_true
        | |- Post _ _ _ (mherr _ _ _ _ _) => apply P_mherr; [ | intros ?u' ?Hp ?Ho ?Hq ]
        | |- Post _ _ _ (match parseHost ?a ?b ?u ?d ?e with _ => _ end) =>
            let E := fresh "Eph" in
            destruct (parseHost a b u d e) as [?u' ?h|?u' ?e'] eqn:E;
            [apply parseHost_Ok in E | apply parseHost_Er in E]; destruct E as (?Hp & ?Ho & ?Hq)
        | |- Post _ _ _ ((if ?b then _ else _) _) => destruct b eqn:?
        | |- Post _ _ _ (if ?b then _ else _) => destruct b eqn:?
        | |- Post _ _ _ (match ?x with _ => _ end) => destruct x eqn:?
        end ].

  Ltac norm :=
    unfold Post, J, Fin, wfp, wf, mk, addSegment, copy_base_auth in *;
    cbn [m_state m_url m_eof is_some ov_ok u_path u_opaque u_query
         set_input set_scheme set_username set_password set_host set_port set_path set_query set_fragment set_verrs set_sp] in *;
    rewrite ?path_cleanDefaultPort, ?opaque_cleanDefaultPort, ?query_cleanDefaultPort in *;
    cbn [m_state m_url m_eof is_some ov_ok u_path u_opaque u_query
         set_input set_scheme set_username set_password set_host set_port set_path set_query set_fragment set_verrs set_sp] in *.

  Ltac leaf :=
    norm;
    repeat match goal with |- context [if ?b then _ else _] => destruct b eqn:? end;
    norm;
    intros; repeat split; intros;
    try discriminate; try congruence;
    try (left; reflexivity); try (right; assumption);
    try solve [ match goal with
                | H : u_opaque ?y = true -> u_path ?y <> [] |- u_path ?x <> [] =>
                    let E := fresh in intro E; apply H; congruence
                end ];
    try solve [eapply replaceLast_path; eassumption];
    try solve [eapply replace_last_nonnil; eassumption];
    try solve [exfalso; unfold rune_error in *; lia].

  Ltac pstart w m Hbase Hst HJ :=
    destruct m as [st p e buf aF brF pwF u]; cbn [m_state] in Hst; subst st;
    unfold J in HJ; cbn [m_state m_url m_eof] in HJ; cbv zeta in HJ;
    destruct w; unfold wfp in HJ, Hbase |- *;
    destruct HJ as (He & Hq & HJ); subst e;
    match goal with
    | |- Post _ ?base _ _ => destruct base as [b|]; [ pose proof (Hbase b eq_refl) as Hwb | ]; clear Hbase
    end;
    match goal with
    | |- Post _ _ ?override _ =>
        destruct override as [ov|];
        [ destruct HJ as (Hok & Hw & Hop & Hov); cbn [ov_ok] in Hok; try discriminate Hok;
          destruct Hov as [Hov|Hov]; try discriminate Hov
        | destruct HJ as (Hb & Hw) ]
    end;
    cbv beta iota zeta delta [step mk m_state m_ptr m_eof m_buf m_at m_br m_pw m_url overridden is_some isSpecialSchemeAndBackslash];
    destruct (n_inp inp <=? p + 1)%Z eqn:En;
    rewrite ?re_35, ?re_37, ?re_43, ?re_45, ?re_46, ?re_47, ?re_58, ?re_63, ?re_64, ?re_91, ?re_92, ?re_93,
            ?re_alpha, ?re_alnum, ?re_digit;
    cbn [negb andb orb];
    rewrite ?orb_false_r, ?andb_false_r, ?orb_true_r, ?andb_true_r;
    cbn [negb andb orb].

  Lemma P_SchemeStart w base override m : (forall b, base = Some b -> wfp w b) ->
    m_state m = SchemeStart -> J w base override m -> Post w base override (stepf base override m).
  Proof. intros Hbase Hst HJ. pstart w m Hbase Hst HJ; pwalk; leaf. Qed.
  Lemma P_Scheme w base override m : (forall b, base = Some b -> wfp w b) ->
    m_state m = Scheme -> J w base override m -> Post w base override (stepf base override m).
  Proof. intros Hbase Hst HJ. pstart w m Hbase Hst HJ; pwalk; leaf. Qed.
  Lemma P_NoScheme w base override m : (forall b, base = Some b -> wfp w b) ->
    m_state m = NoScheme -> J w base override m -> Post w base override (stepf base override m).
  Proof. intros Hbase Hst HJ. pstart w m Hbase Hst HJ; pwalk; leaf. Qed.
  Lemma P_OpaquePath w base override m : (forall b, base = Some b -> wfp w b) ->
    m_state m = OpaquePath -> J w base override m -> Post w base override (stepf base override m).
  Proof. intros Hbase Hst HJ. pstart w m Hbase Hst HJ; pwalk; leaf. Qed.
  Lemma P_SpecialRelativeOrAuthority w base override m : (forall b, base = Some b -> wfp w b) ->
    m_state m = SpecialRelativeOrAuthority -> J w base override m -> Post w base override (stepf base override m).
  Proof. intros Hbase Hst HJ. pstart w m Hbase Hst HJ; pwalk; leaf. Qed.
  Lemma P_SpecialAuthoritySlashes w base override m : (forall b, base = Some b -> wfp w b) ->
    m_state m = SpecialAuthoritySlashes -> J w base override m -> Post w base override (stepf base override m).
  Proof. intros Hbase Hst HJ. pstart w m Hbase Hst HJ; pwalk; leaf. Qed.
  Lemma P_SpecialAuthorityIgnoreSlashes w base override m : (forall b, base = Some b -> wfp w b) ->
    m_state m = SpecialAuthorityIgnoreSlashes -> J w base override m -> Post w base override (stepf base override m).
  Proof. intros Hbase Hst HJ. pstart w m Hbase Hst HJ; pwalk; leaf. Qed.
  Lemma P_PathOrAuthority w base override m : (forall b, base = Some b -> wfp w b) ->
    m_state m = PathOrAuthority -> J w base override m -> Post w base override (stepf base override m).
  Proof. intros Hbase Hst HJ. pstart w m Hbase Hst HJ; pwalk; leaf. Qed.
  Lemma P_Authority w base override m : (forall b, base = Some b -> wfp w b) ->
    m_state m = Authority -> J w base override m -> Post w base override (stepf base override m).
  Proof. intros Hbase Hst HJ. pstart w m Hbase Hst HJ; pwalk; leaf. Qed.
  Lemma P_HostSt w base override m : (forall b, base = Some b -> wfp w b) ->
    m_state m = HostSt -> J w base override m -> Post w base override (stepf base override m).
  Proof. intros Hbase Hst HJ. pstart w m Hbase Hst HJ; pwalk; leaf. Qed.
  Lemma P_HostnameSt w base override m : (forall b, base = Some b -> wfp w b) ->
    m_state m = HostnameSt -> J w base override m -> Post w base override (stepf base override m).
  Proof. intros Hbase Hst HJ. pstart w m Hbase Hst HJ; pwalk; leaf. Qed.
  Lemma P_File w base override m : (forall b, base = Some b -> wfp w b) ->
    m_state m = File -> J w base override m -> Post w base override (stepf base override m).
  Proof. intros Hbase Hst HJ. pstart w m Hbase Hst HJ; pwalk; leaf. Qed.
  Lemma P_FileHost w base override m : (forall b, base = Some b -> wfp w b) ->
    m_state m = FileHost -> J w base override m -> Post w base override (stepf base override m).
  Proof. intros Hbase Hst HJ. pstart w m Hbase Hst HJ; pwalk; leaf. Qed.
  Lemma P_FileSlash w base override m : (forall b, base = Some b -> wfp w b) ->
    m_state m = FileSlash -> J w base override m -> Post w base override (stepf base override m).
  Proof. intros Hbase Hst HJ. pstart w m Hbase Hst HJ; pwalk; leaf. Qed.
  Lemma P_PortSt w base override m : (forall b, base = Some b -> wfp w b) ->
    m_state m = PortSt -> J w base override m -> Post w base override (stepf base override m).
  Proof. intros Hbase Hst HJ. pstart w m Hbase Hst HJ; pwalk; leaf. Qed.
  Lemma P_PathSt w base override m : (forall b, base = Some b -> wfp w b) ->
    m_state m = PathSt -> J w base override m -> Post w base override (stepf base override m).
  Proof. intros Hbase Hst HJ. pstart w m Hbase Hst HJ; pwalk; leaf. Qed.
  Lemma P_PathStart w base override m : (forall b, base = Some b -> wfp w b) ->
    m_state m = PathStart -> J w base override m -> Post w base override (stepf base override m).
  Proof. intros Hbase Hst HJ. pstart w m Hbase Hst HJ; pwalk; leaf. Qed.
  Lemma P_QuerySt w base override m : (forall b, base = Some b -> wfp w b) ->
    m_state m = QuerySt -> J w base override m -> Post w base override (stepf base override m).
  Proof. intros Hbase Hst HJ. pstart w m Hbase Hst HJ; pwalk; leaf. Qed.
  Lemma P_FragmentSt w base override m : (forall b, base = Some b -> wfp w b) ->
    m_state m = FragmentSt -> J w base override m -> Post w base override (stepf base override m).
  Proof. intros Hbase Hst HJ. pstart w m Hbase Hst HJ; pwalk; leaf. Qed.
  Lemma P_Relative w base override m : (forall b, base = Some b -> wfp w b) ->
    m_state m = Relative -> J w base override m -> Post w base override (stepf base override m).
  Proof. intros Hbase Hst HJ. pstart w m Hbase Hst HJ; pwalk; leaf. Qed.
  Lemma P_RelativeSlash w base override m : (forall b, base = Some b -> wfp w b) ->
    m_state m = RelativeSlash -> J w base override m -> Post w base override (stepf base override m).
  Proof. intros Hbase Hst HJ. pstart w m Hbase Hst HJ; pwalk; leaf. Qed.

  (* one loop iteration from a state satisfying the invariant does not panic and re-establishes it *)
  Lemma step_Post w base override m : (forall b, base = Some b -> wfp w b) ->
    J w base override m -> Post w base override (stepf base override m).
  Proof.
    intros Hbase HJ. destruct (m_state m) eqn:E;
      eauto using P_SchemeStart, P_Scheme, P_NoScheme, P_OpaquePath, P_SpecialRelativeOrAuthority,
        P_SpecialAuthoritySlashes, P_SpecialAuthorityIgnoreSlashes, P_PathOrAuthority, P_Authority,
        P_HostSt, P_HostnameSt, P_File, P_FileHost, P_FileSlash, P_PortSt, P_PathSt, P_PathStart,
        P_QuerySt, P_FragmentSt, P_Relative, P_RelativeSlash.
  Qed.

  Definition RPost (w : bool) (override : option state) (r : result) : Prop :=
    match r with
    | RPanic => False
    | ROutOfFuel => True
    | RUrl u => Fin w override u
    | RErr u _ => is_some override = true -> Fin w override u
    | RNilNil u => is_some override = true /\ Fin w override u
    end.

  Lemma run_Post w base override : (forall b, base = Some b -> wfp w b) ->
    forall fuel m, J w base override m -> RPost w override (run idna_raw c inp base override fuel m).
  Proof.
    intros Hbase. induction fuel as [|f IH]; intros m HJ; [exact I|].
    cbn [run]. pose proof (step_Post w base override m Hbase HJ) as HP.
    destruct (stepf base override m) as [m'|u'|u' e'|u'|]; cbn [Post] in HP; try exact HP.
    destruct HP as [H1 H2]. destruct (m_eof m') eqn:Ee.
    - cbn. apply H2. reflexivity.
    - apply IH. apply H1. reflexivity.
  Qed.
End Step.

(* ------------------------------------------------------------------------------------------ *)
(* 3. BasicParser                                                                              *)
(* ------------------------------------------------------------------------------------------ *)

Definition start_state (override : option state) : state :=
  match override with Some s => s | None => SchemeStart end.

(* what BasicParser needs of the record it starts from (the state overrides are those of the setters) *)
Definition init_ok (w : bool) (override : option state) (u : url) : Prop :=
  match override with
  | None => wfp w u
  | Some ov =>
      ov_ok ov = true /\ wfp w u /\
      match ov with PathStart | PathSt => u_opaque u = false | _ => True end /\
      match ov with QuerySt => u_query u <> None | _ => True end
  end.

Lemma wfp_sh w u u' : sh u' = sh u -> wfp w u -> wfp w u'.
Proof.
  intros H. apply sh_inv in H. destruct H as (Hp & Ho & Hq).
  destruct w; unfold wfp, wf; [rewrite Hp, Ho|]; auto.
Qed.

Lemma init_J w base override u u' : sh u' = sh u -> init_ok w override u ->
  J w base override (mk (start_state override) (-1) false [] false false false u').
Proof.
  intros Hs Hi. pose proof (wfp_sh w u u' Hs) as Hwf. apply sh_inv in Hs. destruct Hs as (Hp & Ho & Hq).
  unfold J, init_ok, mk in *. cbn [m_state m_url m_eof].
  destruct override as [ov|]; cbn [start_state].
  - destruct Hi as (Hok & Hw & Hop & Hqq).
    destruct ov; cbn [ov_ok] in Hok; try discriminate Hok; rewrite ?Ho, ?Hq;
      repeat split; auto; try (left; reflexivity); try (right; discriminate).
  - repeat split; auto.
Qed.

Lemma init_Fin w override u u' : sh u' = sh u -> init_ok w override u ->
  is_some override = true -> Fin w override u'.
Proof.
  intros Hs Hi Hov. pose proof (wfp_sh w u u' Hs) as Hwf. apply sh_inv in Hs. destruct Hs as (Hp & Ho & Hq).
  destruct override as [ov|]; [|discriminate Hov].
  destruct Hi as (Hok & Hw & Hop & Hqq). split; [auto|].
  intros E. injection E as ->. rewrite Hq. exact Hqq.
Qed.

Section Basic.
  Variable idna_raw : str -> str * bool.
  Variable c : cfg.

  (* the body of BasicParser once the record to fill is known *)
  Definition bp_start (baseUrl : option url) (override : option state) (u : url) : result :=
    let '(i, changed) := remove_tabnl_sv (c_acceptInvalid c) (u_input u) in
    let k (u : url) : result :=
      let inp := decode (u_input u) in
      run idna_raw c inp (option_map clone baseUrl) override (fuel_of (length inp))
          (mk (start_state override) (-1)%Z false [] false false false u) in
    if changed then
      match handleError c u InvalidURLUnit false with
      | (u', Some e) => RErr u' e
      | (u', None) => k (set_input u' i)
      end
    else k u.

  Lemma BasicParser_eq urlOrRef baseUrl u0 override :
    BasicParser idna_raw c urlOrRef baseUrl u0 override =
    match u0 with
    | Some u => bp_start baseUrl override (set_input u urlOrRef)
    | None =>
        let u := empty_url urlOrRef in
        let '(i, changed) := trim_c0space urlOrRef in
        if changed then
          match handleError c u InvalidURLUnit false with
          | (u', Some e) => RErr u' e
          | (u', None) => bp_start baseUrl override (set_input u' i)
          end
        else bp_start baseUrl override u
    end.
  Proof. reflexivity. Qed.

  Lemma bp_start_Post w baseUrl override u0 u :
    (forall b, baseUrl = Some b -> wfp w b) -> init_ok w override u0 -> sh u = sh u0 ->
    RPost w override (bp_start baseUrl override u) /\ bp_start baseUrl override u <> ROutOfFuel.
  Proof.
    intros Hbase Hi Hs. unfold bp_start.
    assert (Hbase' : forall b, option_map clone baseUrl = Some b -> wfp w b).
    { intros b Hb. destruct baseUrl as [b0|]; [|discriminate Hb]. injection Hb as <-.
      apply (wfp_sh w b0); [reflexivity | apply Hbase; reflexivity]. }
    assert (Hk : forall u1, sh u1 = sh u0 ->
      RPost w override (run idna_raw c (decode (u_input u1)) (option_map clone baseUrl) override
        (fuel_of (length (decode (u_input u1)))) (mk (start_state override) (-1)%Z false [] false false false u1)) /\
      run idna_raw c (decode (u_input u1)) (option_map clone baseUrl) override
        (fuel_of (length (decode (u_input u1)))) (mk (start_state override) (-1)%Z false [] false false false u1) <> ROutOfFuel).
    { intros u1 Hu1. split.
      - apply run_Post; [exact Hbase'|]. apply (init_J w _ override u0); assumption.
      - apply run_never_out_of_fuel. }
    destruct (remove_tabnl_sv (c_acceptInvalid c) (u_input u)) as [i changed]. cbv zeta.
    destruct changed; [|apply Hk; assumption].
    pose proof (sh_handleError c u InvalidURLUnit false) as Hh.
    destruct (handleError c u InvalidURLUnit false) as [u' [e|]]; cbn [fst] in Hh.
    - split; [|discriminate]. cbn. intros Hov. apply (init_Fin w override u0); [congruence | assumption | assumption].
    - apply Hk. change (sh (set_input u' i)) with (sh u'). congruence.
  Qed.

  Theorem BP_Post w urlOrRef baseUrl u0 override :
    (forall b, baseUrl = Some b -> wfp w b) ->
    init_ok w override (match u0 with Some u => u | None => empty_url urlOrRef end) ->
    RPost w override (BasicParser idna_raw c urlOrRef baseUrl u0 override) /\
    BasicParser idna_raw c urlOrRef baseUrl u0 override <> ROutOfFuel.
  Proof.
    intros Hbase Hi. rewrite BasicParser_eq. destruct u0 as [u|].
    - apply (bp_start_Post w baseUrl override u); auto.
    - cbv zeta. destruct (trim_c0space urlOrRef) as [i changed].
      destruct changed; [|apply (bp_start_Post w baseUrl override (empty_url urlOrRef)); auto].
      pose proof (sh_handleError c (empty_url urlOrRef) InvalidURLUnit false) as Hh.
      destruct (handleError c (empty_url urlOrRef) InvalidURLUnit false) as [u' [e|]]; cbn [fst] in Hh.
      + split; [|discriminate]. cbn. intros Hov.
        apply (init_Fin w override (empty_url urlOrRef)); assumption.
      + apply (bp_start_Post w baseUrl override (empty_url urlOrRef)); auto.
  Qed.

  (* termination of BasicParser itself, for all arguments (no condition on the records or the override) *)
  Theorem BasicParser_never_out_of_fuel urlOrRef baseUrl u0 override :
    BasicParser idna_raw c urlOrRef baseUrl u0 override <> ROutOfFuel.
  Proof.
    rewrite BasicParser_eq.
    assert (H : forall u, bp_start baseUrl override u <> ROutOfFuel).
    { intros u. unfold bp_start. destruct (remove_tabnl_sv (c_acceptInvalid c) (u_input u)) as [i ch]. cbv zeta.
      destruct ch; [|apply run_never_out_of_fuel].
      destruct (handleError c u InvalidURLUnit false) as [u' [e|]]; [discriminate | apply run_never_out_of_fuel]. }
    destruct u0 as [u|]; [apply H|]. cbv zeta.
    destruct (trim_c0space urlOrRef) as [i ch]. destruct ch; [|apply H].
    destruct (handleError c (empty_url urlOrRef) InvalidURLUnit false) as [u' [e|]]; [discriminate | apply H].
  Qed.
End Basic.

(* ------------------------------------------------------------------------------------------ *)
(* 4. The public API                                                                           *)
(* ------------------------------------------------------------------------------------------ *)

Section ApiTotal.
  Variable idna_raw : str -> str * bool.
  Variable c : cfg.

  Notation BP := (BasicParser idna_raw c).
  Notation Parse := (Parse idna_raw c).
  Notation UrlParse := (UrlParse idna_raw c).
  Notation ParseRef := (ParseRef idna_raw c).

  Lemma wf_empty i : wf (empty_url i).
  Proof. unfold wf. cbn. discriminate. Qed.

  (* a parse call without state override: a URL or an error, whatever the base *)
  Lemma BP_parse_total i base :
    match BP i base None None with
    | RUrl _ | RErr _ _ => True
    | _ => False
    end.
  Proof.
    destruct (BP_Post idna_raw c false i base None None) as [HP HF].
    - intros; exact I.
    - exact I.
    - destruct (BP i base None None); cbn in HP; try exact I;
        [ destruct HP as [H _]; discriminate H | contradiction | congruence ].
  Qed.

  Lemma BP_parse_wf i base u :
    (forall b, base = Some b -> wf b) -> BP i base None None = RUrl u -> wf u.
  Proof.
    intros Hb E. destruct (BP_Post idna_raw c true i base None None) as [HP HF].
    - exact Hb.
    - apply wf_empty.
    - rewrite E in HP. cbn in HP. apply HP.
  Qed.

  (* P1 *)
  Theorem Parse_total : forall i, Parse i <> PPanic /\ Parse i <> PFuel /\ Parse i <> PNilNil.
  Proof.
    intros i. unfold Api.Parse. pose proof (BP_parse_total i None) as H.
    destruct (BP i None None None); cbn [to_pres]; try contradiction; repeat split; discriminate.
  Qed.

  (* P2: totality holds for every base record, well formed or not *)
  Theorem UrlParse_total : forall b ref,
    UrlParse b ref <> PPanic /\ UrlParse b ref <> PFuel /\ UrlParse b ref <> PNilNil.
  Proof.
    intros b ref. unfold Api.UrlParse. pose proof (BP_parse_total ref (Some b)) as H.
    destruct (BP ref (Some b) None None); cbn [to_pres]; try contradiction; repeat split; discriminate.
  Qed.

  Theorem ParseRef_total : forall rawUrl ref,
    ParseRef rawUrl ref <> PPanic /\ ParseRef rawUrl ref <> PFuel /\ ParseRef rawUrl ref <> PNilNil.
  Proof.
    intros rawUrl ref. unfold Api.ParseRef. destruct rawUrl as [|x r]; [apply Parse_total|].
    pose proof (Parse_total (x :: r)) as H.
    destruct (Api.Parse idna_raw c (x :: r)) as [b|e| | |]; try exact H.
    apply UrlParse_total.
  Qed.

  (* P3 *)
  Theorem Parse_wf : forall i u, Parse i = PUrl u -> wf u.
  Proof.
    intros i u. unfold Api.Parse. destruct (BP i None None None) as [u'| | | |] eqn:E; cbn [to_pres]; try discriminate.
    intros H. injection H as <-. apply (BP_parse_wf i None); [discriminate | exact E].
  Qed.

  Theorem UrlParse_wf : forall b ref u, wf b -> UrlParse b ref = PUrl u -> wf u.
  Proof.
    intros b ref u Hb. unfold Api.UrlParse.
    destruct (BP ref (Some b) None None) as [u'| | | |] eqn:E; cbn [to_pres]; try discriminate.
    intros H. injection H as <-. apply (BP_parse_wf ref (Some b)); [|exact E].
    intros b' Hb'. injection Hb' as <-. exact Hb.
  Qed.

  Theorem ParseRef_wf : forall rawUrl ref u, ParseRef rawUrl ref = PUrl u -> wf u.
  Proof.
    intros rawUrl ref u. unfold Api.ParseRef. destruct rawUrl as [|x r]; [apply Parse_wf|].
    destruct (Api.Parse idna_raw c (x :: r)) as [b|e| | |] eqn:E; try discriminate.
    apply UrlParse_wf. apply (Parse_wf (x :: r)). exact E.
  Qed.

  (* a setter's parser call: it comes back with a record, and the record is well formed *)
  Lemma after_BP s u ov :
    init_ok true (Some ov) u ->
    exists u', after (BP s None (Some u) (Some ov)) = Some u' /\ Fin true (Some ov) u'.
  Proof.
    intros Hi. destruct (BP_Post idna_raw c true s None (Some u) (Some ov)) as [HP HF].
    - discriminate.
    - exact Hi.
    - destruct (BP s None (Some u) (Some ov)) as [u'|u' e|u'| |]; cbn in HP; cbn [after].
      + eauto.
      + eauto.
      + destruct HP. eauto.
      + contradiction.
      + congruence.
  Qed.

  Lemma after_BP_wf s u ov :
    init_ok true (Some ov) u -> exists u', after (BP s None (Some u) (Some ov)) = Some u' /\ wf u'.
  Proof. intros Hi. destruct (after_BP s u ov Hi) as (u' & E & Hw & _). eauto. Qed.

  Theorem SetProtocol_wf : forall u s, wf u -> exists u', SetProtocol idna_raw c u s = Some u' /\ wf u'.
  Proof. intros u s Hw. unfold SetProtocol. apply after_BP_wf. cbn. auto. Qed.

  Theorem SetUsername_wf : forall u s, wf u -> exists u', SetUsername c u s = Some u' /\ wf u'.
  Proof. intros u s Hw. unfold SetUsername. destruct (no_host_or_file u); eauto. Qed.

  Theorem SetPassword_wf : forall u s, wf u -> exists u', SetPassword c u s = Some u' /\ wf u'.
  Proof. intros u s Hw. unfold SetPassword. destruct (no_host_or_file u); eauto. Qed.

  Theorem SetHost_wf : forall u s, wf u -> exists u', SetHost idna_raw c u s = Some u' /\ wf u'.
  Proof.
    intros u s Hw. unfold SetHost. destruct (u_opaque u); [eauto|]. apply after_BP_wf. cbn. auto.
  Qed.

  Theorem SetHostname_wf : forall u s, wf u -> exists u', SetHostname idna_raw c u s = Some u' /\ wf u'.
  Proof.
    intros u s Hw. unfold SetHostname. destruct (u_opaque u); [eauto|]. apply after_BP_wf. cbn. auto.
  Qed.

  Theorem SetPort_wf : forall u s, wf u -> exists u', SetPort idna_raw c u s = Some u' /\ wf u'.
  Proof.
    intros u s Hw. unfold SetPort. destruct (no_host_or_file u); [eauto|].
    destruct s as [|x s]; [eauto|]. apply after_BP_wf. cbn. auto.
  Qed.

  Theorem SetPathname_wf : forall u s, wf u -> exists u', SetPathname idna_raw c u s = Some u' /\ wf u'.
  Proof.
    intros u s Hw. unfold SetPathname. destruct (u_opaque u) eqn:Eo; [eauto|]. apply after_BP_wf.
    cbn. repeat split; auto. unfold wf. cbn. discriminate.
  Qed.

  Lemma strip_opaque_wf u : wf u -> exists u', strip_opaque u = Some u' /\ wf u'.
  Proof.
    intros Hw. unfold strip_opaque. destruct (u_opaque u) eqn:Eo; [|eauto].
    destruct (u_path u) as [|x rest] eqn:Ep; [exfalso; apply (Hw Eo Ep)|].
    eexists; split; [reflexivity|]. unfold wf. cbn. discriminate.
  Qed.

  Theorem SetSearch_wf : forall u s, wf u -> exists u', SetSearch idna_raw c u s = Some u' /\ wf u'.
  Proof.
    intros u s Hw. unfold SetSearch. destruct s as [|x s].
    - cbv zeta.
      assert (Hw1 : wf (match u_sp (set_query u None) with
                        | Some _ => set_sp (set_query u None) (Some [])
                        | None => set_query u None end)).
      { destruct (u_sp (set_query u None)); exact Hw. }
      destruct (negb _); [apply strip_opaque_wf; exact Hw1 | eauto].
    - cbv zeta.
      assert (Hi : init_ok true (Some QuerySt)
                (match u_query u with None => set_query u (Some []) | Some _ => u end)).
      { cbn. destruct (u_query u) eqn:Eq; repeat split; auto; cbn; congruence. }
      destruct (after_BP (trim_prefix1 63 (x :: s)) _ QuerySt Hi) as (u' & E & Hw' & Hq').
      rewrite E. destruct (u_query u') as [q|] eqn:Eq.
      + eexists; split; [reflexivity|]. exact Hw'.
      + exfalso. apply Hq'; reflexivity.
  Qed.

  Theorem SetHash_wf : forall u s, wf u -> exists u', SetHash idna_raw c u s = Some u' /\ wf u'.
  Proof.
    intros u s Hw. unfold SetHash. destruct s as [|x s].
    - cbv zeta. destruct (negb _); [apply strip_opaque_wf; exact Hw | eauto].
    - cbv zeta. apply after_BP_wf. cbn. auto.
  Qed.

  (* all nine setters at once *)
  Theorem setter_wf : forall u s, wf u ->
    (exists u', SetProtocol idna_raw c u s = Some u' /\ wf u') /\
    (exists u', SetUsername c u s = Some u' /\ wf u') /\
    (exists u', SetPassword c u s = Some u' /\ wf u') /\
    (exists u', SetHost idna_raw c u s = Some u' /\ wf u') /\
    (exists u', SetHostname idna_raw c u s = Some u' /\ wf u') /\
    (exists u', SetPort idna_raw c u s = Some u' /\ wf u') /\
    (exists u', SetPathname idna_raw c u s = Some u' /\ wf u') /\
    (exists u', SetSearch idna_raw c u s = Some u' /\ wf u') /\
    (exists u', SetHash idna_raw c u s = Some u' /\ wf u').
  Proof.
    intros u s Hw. repeat split;
      auto using SetProtocol_wf, SetUsername_wf, SetPassword_wf, SetHost_wf, SetHostname_wf, SetPort_wf,
        SetPathname_wf, SetSearch_wf, SetHash_wf.
  Qed.
End ApiTotal.

(* P4 *)
Theorem getters_total : forall u b, wf u -> Href u b <> None /\ Pathname u <> None.
Proof.
  intros u b Hw.
  assert (Hp : Pathname u <> None).
  { unfold Pathname, path_string. destruct (u_opaque u) eqn:Eo; [|discriminate].
    destruct (u_path u) eqn:Ep; [exfalso; apply (Hw Eo Ep) | cbn; discriminate]. }
  split; [|exact Hp]. unfold Href. destruct (Pathname u); [discriminate | congruence].
Qed.

(* wf is the weakest predicate with P4 *)
Theorem wf_weakest : forall u, wf u <-> Pathname u <> None.
Proof.
  intros u. split; [intros Hw; apply (getters_total u false Hw)|].
  unfold Pathname, path_string, wf. intros H Eo Ep. rewrite Eo, Ep in H. apply H. reflexivity.
Qed.

Print Assumptions BasicParser_never_out_of_fuel.
Print Assumptions Parse_total.
Print Assumptions UrlParse_total.
Print Assumptions ParseRef_total.
Print Assumptions Parse_wf.
Print Assumptions UrlParse_wf.
Print Assumptions ParseRef_wf.
Print Assumptions setter_wf.
Print Assumptions getters_total.
Print Assumptions wf_weakest.

(* ------------------------------------------------------------------------------------------ *)
(* 5. Concrete instances: the premises are satisfiable and cannot be dropped                   *)
(* ------------------------------------------------------------------------------------------ *)
From Verif Require Import Gen.Options.
From Coq Require Import String.
Local Open Scope string_scope.

Definition np_idna (s : str) : str * bool := (s, false).

(* a well-formed opaque URL produced by Parse; every getter and the "clearing" setters work on it *)
Example ex_wf_opaque :
  exists u, Parse np_idna default_cfg (bs "mailto:x  ?q#f") = PUrl u /\ u_opaque u = true /\ wf u /\
    Href u false = Some (bs "mailto:x  ?q#f") /\
    exists u1 u2, SetSearch np_idna default_cfg u [] = Some u1 /\ SetHash np_idna default_cfg u1 [] = Some u2 /\
      Href u2 false = Some (bs "mailto:x").
Proof.
  eexists. split; [vm_compute; reflexivity|]. split; [reflexivity|]. split; [unfold wf; cbn; discriminate|].
  split; [vm_compute; reflexivity|]. eexists. eexists. split; [vm_compute; reflexivity|].
  split; vm_compute; reflexivity.
Qed.

(* UrlParse_wf needs wf of the base: resolving "#x" against an opaque base without segment returns a URL
   on which Href panics (such a base is never produced by the library itself, by Parse_wf / setter_wf) *)
Definition np_bad_base : url := set_path (set_scheme (empty_url []) (bs "a")) [] true.
Example UrlParse_wf_needs_wf_base :
  ~ wf np_bad_base /\
  exists u, UrlParse np_idna default_cfg np_bad_base (bs "#x") = PUrl u /\ Href u false = None.
Proof.
  split.
  - intros H. apply H; reflexivity.
  - eexists. split; vm_compute; reflexivity.
Qed.

(* the invariant is not vacuous: from states the API never starts in, the machine does panic *)
Example panic_from_Relative_without_base :
  BasicParser np_idna default_cfg (bs "x") None (Some (empty_url [])) (Some Relative) = RPanic.
Proof. vm_compute. reflexivity. Qed.

Example panic_from_QuerySt_with_nil_query :
  run np_idna default_cfg (decode (bs "#")) None None 100
      (mk QuerySt (-1) false [] false false false (empty_url [])) = RPanic.
Proof. vm_compute. reflexivity. Qed.
