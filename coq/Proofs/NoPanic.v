(* Totality of the public API of the model: no call panics, runs out of fuel or returns (nil, nil);
   every URL that is returned is well formed (an opaque path has its segment), and on well-formed
   URLs every setter and getter works -- for every configuration c and every IDNA oracle. *)
From Verif Require Import Lib.Base Lib.Utf8 Lib.GoStr Model.Cfg Gen.Tables Model.Sets Model.Percent Model.Url Model.Host Model.Machine Model.Api.
From Verif Require Import Proofs.Termination.
From Coq Require Import Lia ZifyBool ZifyN ZifyNat.

Local Open Scope N_scope.

(* ------------------------------------------------------------------------------------------ *)
(* 1. Well-formedness, and the part of the record the argument looks at                        *)
(* ------------------------------------------------------------------------------------------ *)

(* path.opaque implies len(path.p) > 0: what Pathname / Href / stripTrailingSpacesIfOpaque index *)
Definition wf (u : url) : Prop := u_opaque u = true -> u_path u <> [].

(* the fields that matter here; error handling and the host parsers leave them alone *)
Definition sh (u : url) : list str * bool * option str := (u_path u, u_opaque u, u_query u).

Lemma sh_inv u u' : sh u' = sh u -> u_path u' = u_path u /\ u_opaque u' = u_opaque u /\ u_query u' = u_query u.
Proof. unfold sh. intros H. injection H. auto. Qed.

Lemma sh_handleError c u t f : sh (fst (handleError c u t f)) = sh u.
Proof. unfold handleError. cbn [fst]. destruct (c_report c); reflexivity. Qed.

Lemma handleError_true c u t : snd (handleError c u t true) <> None.
Proof. unfold handleError. cbn. discriminate. Qed.

(* ---------- the host parsers only add validation errors ---------- *)
Definition R {A} (u0 : url) (r : res A) : Prop :=
  match r with Ok u' _ => sh u' = sh u0 | Er u' _ => sh u' = sh u0 end.

Lemma R_herr {A} c u0 u t f (k : url -> res A) :
  sh u = sh u0 -> (forall u', sh u' = sh u0 -> R u0 (k u')) -> R u0 (herr c u t f k).
Proof.
  intros Hu Hk. unfold herr. pose proof (sh_handleError c u t f) as Hs.
  destruct (handleError c u t f) as [u' [e|]]; cbn [fst] in Hs.
  - cbn. congruence.
  - apply Hk. congruence.
Qed.

Lemma sh_parseIPv4Number c u input : sh (fst (parseIPv4Number c u input)) = sh u.
Proof.
  unfold parseIPv4Number. destruct input; [|reflexivity].
  pose proof (sh_handleError c u IPv4EmptyPart true) as Hs.
  destruct (handleError c u IPv4EmptyPart true). exact Hs.
Qed.

Lemma sh_endsInANumber c u input : sh (fst (endsInANumber c u input)) = sh u.
Proof.
  unfold endsInANumber.
  destruct (last_opt _) as [[|x l]|]; try reflexivity.
  destruct (all_in isDigit (x :: l)); [reflexivity|].
  pose proof (sh_parseIPv4Number c u (x :: l)) as Hs.
  destruct (parseIPv4Number c u (x :: l)) as [u' [? ?|?]]; exact Hs.
Qed.

Lemma R_ipv4_numbers c u0 : forall parts u acc, sh u = sh u0 -> R u0 (ipv4_numbers c u parts acc).
Proof.
  induction parts as [|p rest IH]; intros u acc Hu; cbn [ipv4_numbers].
  - exact Hu.
  - pose proof (sh_parseIPv4Number c u p) as Hs.
    destruct (parseIPv4Number c u p) as [u1 [nn ve|rg]]; cbn [fst] in Hs.
    + destruct ve.
      * apply R_herr; [congruence|]. intros. apply IH. assumption.
      * apply IH. congruence.
    + apply R_herr; [congruence|]. intros. apply IH. assumption.
Qed.

Lemma R_ipv4_range_warn c u0 k : (forall u', sh u' = sh u0 -> R u0 (k u')) ->
  forall ns u, sh u = sh u0 -> R u0 (ipv4_range_warn c u ns k).
Proof.
  intros Hk. induction ns as [|x rest IH]; intros u Hu; cbn [ipv4_range_warn].
  - apply Hk. assumption.
  - destruct (255 <? x).
    + apply R_herr; [assumption|]. intros. apply IH. assumption.
    + apply IH. assumption.
Qed.

Lemma R_parseIPv4 c u0 u input : sh u = sh u0 -> R u0 (parseIPv4 c u input).
Proof.
  intros Hu. unfold parseIPv4.
  assert (Hafter : forall u parts, sh u = sh u0 ->
    R u0 ((if (4 <? len parts)%Z then (fun k => herr c u IPv4TooManyParts true k) else (fun k => k u))
      (fun u => match ipv4_numbers c u parts [] with
       | Er u e => Er u e
       | Ok u numbers =>
          ipv4_range_warn c u numbers (fun u =>
            let init := drop_last numbers in
            if existsb (fun n => 255 <? n) init then herr c u IPv4OutOfRangePart true (fun u => Ok u [])
            else match last_opt numbers with
                 | None => Ok u []
                 | Some lastn =>
                     if 256 ^ (5 - N.of_nat (length numbers)) <=? lastn
                     then herr c u IPv4OutOfRangePart true (fun u => Ok u [])
                     else Ok u (IPv4String (lastn + ipv4_sum init 0))
                 end)
       end))).
  { intros u1 parts Hu1.
    assert (Hbody : forall u2, sh u2 = sh u0 -> R u0 (match ipv4_numbers c u2 parts [] with
       | Er u e => Er u e
       | Ok u numbers =>
          ipv4_range_warn c u numbers (fun u =>
            let init := drop_last numbers in
            if existsb (fun n => 255 <? n) init then herr c u IPv4OutOfRangePart true (fun u => Ok u [])
            else match last_opt numbers with
                 | None => Ok u []
                 | Some lastn =>
                     if 256 ^ (5 - N.of_nat (length numbers)) <=? lastn
                     then herr c u IPv4OutOfRangePart true (fun u => Ok u [])
                     else Ok u (IPv4String (lastn + ipv4_sum init 0))
                 end)
       end)).
    { intros u2 Hu2. pose proof (R_ipv4_numbers c u0 parts u2 [] Hu2) as Hn.
      destruct (ipv4_numbers c u2 parts []) as [u3 numbers|u3 e]; [|exact Hn].
      cbn in Hn. apply R_ipv4_range_warn; [|assumption].
      intros u4 Hu4. cbv zeta.
      destruct (existsb _ _).
      - apply R_herr; [assumption|]. intros; assumption.
      - destruct (last_opt numbers); [|assumption].
        destruct (_ <=? _).
        + apply R_herr; [assumption|]. intros; assumption.
        + assumption. }
    destruct (4 <? len parts)%Z.
    - apply R_herr; [assumption|]. exact Hbody.
    - apply Hbody. assumption. }
  cbv zeta.
  destruct (last_opt (split 46 input)) as [[|x l]|].
  - apply R_herr; [assumption|]. intros. apply Hafter. assumption.
  - apply Hafter. assumption.
  - apply Hafter. assumption.
Qed.

Lemma R_parseIPv6 c u0 u input : sh u = sh u0 -> R u0 (parseIPv6 c u input).
Proof.
  intros Hu. unfold parseIPv6. destruct (ipv6_parse (runes input)).
  - exact Hu.
  - apply R_herr; [assumption|]. intros; assumption.
Qed.

Lemma R_opaque_loop c u0 input : forall l u out, sh u = sh u0 -> R u0 (opaque_loop c u input l out).
Proof.
  induction l as [|ch rest IH]; intros u out Hu; cbn [opaque_loop].
  - exact Hu.
  - cbv zeta.
    assert (Hk1 : forall u1, sh u1 = sh u0 ->
      R u0 ((if negb (isURLCodePoint ch) && negb (ch =? 37)
         then (fun k => herr c u1 InvalidURLUnit false k) else (fun k => k u1))
        (fun u =>
          (if (ch =? 37) && invalid_pct (ch :: rest)
           then (fun k => herr c u InvalidURLUnit false k) else (fun k => k u))
          (fun u => opaque_loop c u input rest (out ++ percentEncodeRune c ch (Some pes_C0)))))).
    { intros u1 Hu1.
      assert (Hk2 : forall u2, sh u2 = sh u0 ->
        R u0 ((if (ch =? 37) && invalid_pct (ch :: rest)
           then (fun k => herr c u2 InvalidURLUnit false k) else (fun k => k u2))
          (fun u => opaque_loop c u input rest (out ++ percentEncodeRune c ch (Some pes_C0))))).
      { intros u2 Hu2. destruct ((ch =? 37) && invalid_pct (ch :: rest)).
        - apply R_herr; [assumption|]. intros. apply IH. assumption.
        - apply IH. assumption. }
      destruct (negb (isURLCodePoint ch) && negb (ch =? 37)).
      - apply R_herr; [assumption|]. exact Hk2.
      - apply Hk2. assumption. }
    destruct (isForbiddenHost ch).
    + destruct (c_lax c); [exact Hu|]. apply R_herr; [assumption|]. exact Hk1.
    + apply Hk1. assumption.
Qed.

Lemma R_parseHost idna_raw c u input ns : R u (parseHost idna_raw c u input ns).
Proof.
  unfold parseHost. cbv zeta.
  destruct (apply_hostfun (c_pre c) input) as [|b0 rest] eqn:Ein; [reflexivity|].
  assert (Hv6 : R u ((if negb (has_suffix [93] (b0 :: rest)) then (fun k => herr c u IPv6Unclosed true k) else (fun k => k u))
        (fun u => parseIPv6 c u (drop_last (tl (b0 :: rest)))))).
  { destruct (negb _).
    - apply R_herr; [reflexivity|]. intros. apply R_parseIPv6. assumption.
    - apply R_parseIPv6. reflexivity. }
  assert (Hgen : R u (if ns then parseOpaqueHost c u (b0 :: rest)
      else
        let domain := DecodePercentEncoded c (b0 :: rest) in
        let k_valid (u : url) : res str :=
          match ToASCII idna_raw c domain with
          | None =>
              if c_lax c then Ok u domain
              else herr c u DomainToASCII true (fun u => Ok u [])
          | Some asciiDomain =>
              let forbidden := existsb isForbiddenDomain (runes asciiDomain) in
              let k_clean (u : url) : res str :=
                match endsInANumber c u asciiDomain with
                | (u, true) => parseIPv4 c u asciiDomain
                | (u, false) => Ok u (apply_hostfun (c_post c) asciiDomain)
                end in
              if forbidden then
                if c_lax c then Ok u (PercentEncodeString c asciiDomain pes_Host)
                else herr c u DomainInvalidCodePoint true k_clean
              else k_clean u
          end in
        if negb (valid_utf8 domain) then
          if c_lax c then Ok u (percentEncodeBytes (b0 :: rest) pes_Host)
          else herr c u DomainToASCII true k_valid
        else k_valid u)).
  { destruct ns.
    - unfold parseOpaqueHost. apply R_opaque_loop. reflexivity.
    - cbv zeta.
      assert (Hvalid : forall u1, sh u1 = sh u ->
        R u (match ToASCII idna_raw c (DecodePercentEncoded c (b0 :: rest)) with
          | None =>
              if c_lax c then Ok u1 (DecodePercentEncoded c (b0 :: rest))
              else herr c u1 DomainToASCII true (fun u => Ok u [])
          | Some asciiDomain =>
              if existsb isForbiddenDomain (runes asciiDomain) then
                if c_lax c then Ok u1 (PercentEncodeString c asciiDomain pes_Host)
                else herr c u1 DomainInvalidCodePoint true (fun u =>
                  match endsInANumber c u asciiDomain with
                  | (u, true) => parseIPv4 c u asciiDomain
                  | (u, false) => Ok u (apply_hostfun (c_post c) asciiDomain)
                  end)
              else match endsInANumber c u1 asciiDomain with
                   | (u, true) => parseIPv4 c u asciiDomain
                   | (u, false) => Ok u (apply_hostfun (c_post c) asciiDomain)
                   end
          end)).
      { intros u1 Hu1. destruct (ToASCII idna_raw c _) as [ad|].
        - assert (Hclean : forall u2, sh u2 = sh u -> R u (match endsInANumber c u2 ad with
                   | (u, true) => parseIPv4 c u ad
                   | (u, false) => Ok u (apply_hostfun (c_post c) ad)
                   end)).
          { intros u2 Hu2. pose proof (sh_endsInANumber c u2 ad) as Hs.
            destruct (endsInANumber c u2 ad) as [u3 [|]]; cbn [fst] in Hs.
            - apply R_parseIPv4. congruence.
            - cbn. congruence. }
          destruct (existsb _ _).
          + destruct (c_lax c); [exact Hu1|]. apply R_herr; [assumption|]. exact Hclean.
          + apply Hclean. assumption.
        - destruct (c_lax c); [exact Hu1|]. apply R_herr; [assumption|]. intros; assumption. }
      destruct (negb (valid_utf8 _)).
      + destruct (c_lax c); [exact eq_refl|]. apply R_herr; [reflexivity|]. exact Hvalid.
      + apply Hvalid. reflexivity. }
  destruct (N.eq_dec b0 91) as [->|Hne]; [exact Hv6|].
  destruct b0 as [|pb]; [exact Hgen|].
  (* the match on the literal 91 *)
  repeat (destruct pb as [pb|pb|]; try exact Hgen; try exact Hv6).
Qed.

Lemma parseHost_Ok idna_raw c u input ns u' h :
  parseHost idna_raw c u input ns = Ok u' h ->
  u_path u' = u_path u /\ u_opaque u' = u_opaque u /\ u_query u' = u_query u.
Proof. intros H. pose proof (R_parseHost idna_raw c u input ns) as HR. rewrite H in HR. apply sh_inv. exact HR. Qed.

Lemma parseHost_Er idna_raw c u input ns u' e :
  parseHost idna_raw c u input ns = Er u' e ->
  u_path u' = u_path u /\ u_opaque u' = u_opaque u /\ u_query u' = u_query u.
Proof. intros H. pose proof (R_parseHost idna_raw c u input ns) as HR. rewrite H in HR. apply sh_inv. exact HR. Qed.

(* ------------------------------------------------------------------------------------------ *)
(* 2. The invariant of the state machine                                                       *)
(* ------------------------------------------------------------------------------------------ *)

(* the states a run under a state override can be in *)
Definition ov_ok (st : state) : bool :=
  match st with
  | SchemeStart | Scheme | HostSt | HostnameSt | FileHost | PortSt | PathStart | PathSt | QuerySt | FragmentSt => true
  | _ => false
  end.

(* what is guaranteed of a record that leaves the parser *)
Definition Fin (override : option state) (u : url) : Prop :=
  wf u /\ (override = Some QuerySt -> u_query u <> None).

Definition J (base : option url) (override : option state) (m : mstate) : Prop :=
  let st := m_state m in
  let u := m_url m in
  m_eof m = false /\
  match st with QuerySt => u_query u <> None | _ => True end /\
  match override with
  | None =>
      match st with Relative | RelativeSlash | SpecialRelativeOrAuthority => base <> None | _ => True end /\
      match st with PathSt => True | _ => wf u end
  | Some ov =>
      ov_ok st = true /\ wf u /\
      match st with PathStart | PathSt => u_opaque u = false | _ => True end /\
      (st = QuerySt \/ ov <> QuerySt)
  end.

Definition Post (base : option url) (override : option state) (o : outcome) : Prop :=
  match o with
  | Panic => False
  | Cont m' => (m_eof m' = false -> J base override m') /\ (m_eof m' = true -> Fin override (m_url m'))
  | RetUrl u => Fin override u
  | RetErr u _ => is_some override = true -> Fin override u
  | RetNilNil u => is_some override = true /\ Fin override u
  end.

Lemma replaceLast_path {X} (a b d : bool) (p : list X) :
  negb (a && b && negb (is_nil p) && d) = false -> p <> [].
Proof.
  destruct p as [|y p]; cbn [is_nil negb]; [|discriminate].
  rewrite andb_false_r. discriminate.
Qed.
Lemma replace_last_nonnil {X} (a b d : bool) (p : list X) (x : X) :
  negb (a && b && negb (is_nil p) && d) = false -> replace_last p x <> [].
Proof.
  intros H. apply replaceLast_path in H. destruct p as [|y [|z p]]; cbn; congruence.
Qed.

Lemma sh_cleanDefaultPort c u : sh (cleanDefaultPort c u) = sh u.
Proof.
  unfold cleanDefaultPort. destruct (getSpecialScheme c (u_scheme u)); [|reflexivity].
  destruct (u_port u); [|reflexivity]. destruct (str_eqb _ _); reflexivity.
Qed.
Lemma path_cleanDefaultPort c u : u_path (cleanDefaultPort c u) = u_path u.
Proof. pose proof (sh_cleanDefaultPort c u) as H. apply sh_inv in H. tauto. Qed.
Lemma opaque_cleanDefaultPort c u : u_opaque (cleanDefaultPort c u) = u_opaque u.
Proof. pose proof (sh_cleanDefaultPort c u) as H. apply sh_inv in H. tauto. Qed.
Lemma query_cleanDefaultPort c u : u_query (cleanDefaultPort c u) = u_query u.
Proof. pose proof (sh_cleanDefaultPort c u) as H. apply sh_inv in H. tauto. Qed.

Section Step.
  Variable idna_raw : str -> str * bool.
  Variable c : cfg.
  Variable inp : list rune.

  Notation stepf := (step idna_raw c inp).

  Lemma P_mherr base override u t f k :
    (is_some override = true -> Fin override u) ->
    (forall u', u_path u' = u_path u -> u_opaque u' = u_opaque u -> u_query u' = u_query u -> Post base override (k u')) ->
    Post base override (mherr c u t f k).
  Proof.
    intros Hfin Hk. unfold mherr. pose proof (sh_handleError c u t f) as Hs. apply sh_inv in Hs.
    destruct (handleError c u t f) as [u' [e|]]; cbn [fst] in Hs; destruct Hs as (Hp & Ho & Hq).
    - cbn. intros Hov. destruct (Hfin Hov) as [Hw Hqq]. unfold Fin, wf. rewrite Hp, Ho, Hq. auto.
    - apply Hk; assumption.
  Qed.

  Lemma P_mherr_true base override u t k :
    (is_some override = true -> Fin override u) ->
    Post base override (mherr c u t true k).
  Proof.
    intros Hfin. unfold mherr. pose proof (sh_handleError c u t true) as Hs. apply sh_inv in Hs.
    pose proof (handleError_true c u t) as Ht.
    destruct (handleError c u t true) as [u' [e|]]; cbn [fst snd] in *; destruct Hs as (Hp & Ho & Hq).
    - cbn. intros Hov. destruct (Hfin Hov) as [Hw Hqq]. unfold Fin, wf. rewrite Hp, Ho, Hq. auto.
    - congruence.
  Qed.

  (* the value read at the end of the input *)
  Lemma re_35 : (rune_error =? 35) = false. Proof. reflexivity. Qed.
  Lemma re_37 : (rune_error =? 37) = false. Proof. reflexivity. Qed.
  Lemma re_43 : (rune_error =? 43) = false. Proof. reflexivity. Qed.
  Lemma re_45 : (rune_error =? 45) = false. Proof. reflexivity. Qed.
  Lemma re_46 : (rune_error =? 46) = false. Proof. reflexivity. Qed.
  Lemma re_47 : (rune_error =? 47) = false. Proof. reflexivity. Qed.
  Lemma re_58 : (rune_error =? 58) = false. Proof. reflexivity. Qed.
  Lemma re_63 : (rune_error =? 63) = false. Proof. reflexivity. Qed.
  Lemma re_64 : (rune_error =? 64) = false. Proof. reflexivity. Qed.
  Lemma re_91 : (rune_error =? 91) = false. Proof. reflexivity. Qed.
  Lemma re_92 : (rune_error =? 92) = false. Proof. reflexivity. Qed.
  Lemma re_93 : (rune_error =? 93) = false. Proof. reflexivity. Qed.
  Lemma re_alpha : isAlpha rune_error = false. Proof. vm_compute. reflexivity. Qed.
  Lemma re_alnum : isAlnum rune_error = false. Proof. vm_compute. reflexivity. Qed.
  Lemma re_digit : isDigit rune_error = false. Proof. vm_compute. reflexivity. Qed.

  Ltac pwalk :=
    repeat first
      [ progress cbv beta
      | match goal with
        | |- Post _ _ (mherr _ _ _ true _) => apply P_mherr_true
        | |- Post _ _ (mherr _ _ _ _ _) => apply P_mherr; [ | intros ?u' ?Hp ?Ho ?Hq ]
        | |- Post _ _ (match parseHost ?a ?b ?u ?d ?e with _ => _ end) =>
            let E := fresh "Eph" in
            destruct (parseHost a b u d e) as [?u' ?h|?u' ?e'] eqn:E;
            [apply parseHost_Ok in E | apply parseHost_Er in E]; destruct E as (?Hp & ?Ho & ?Hq)
        | |- Post _ _ ((if ?b then _ else _) _) => destruct b eqn:?
        | |- Post _ _ (if ?b then _ else _) => destruct b eqn:?
        | |- Post _ _ (match ?x with _ => _ end) => destruct x eqn:?
        end ].

  Ltac norm :=
    unfold Post, J, Fin, wf, mk, addSegment, copy_base_auth in *;
    cbn [m_state m_url m_eof is_some ov_ok u_path u_opaque u_query
         set_input set_scheme set_username set_password set_host set_port set_path set_query set_fragment set_verrs set_sp] in *;
    rewrite ?path_cleanDefaultPort, ?opaque_cleanDefaultPort, ?query_cleanDefaultPort in *;
    cbn [m_state m_url m_eof is_some ov_ok u_path u_opaque u_query
         set_input set_scheme set_username set_password set_host set_port set_path set_query set_fragment set_verrs set_sp] in *.

  Ltac leaf :=
    norm;
    repeat match goal with |- context [if ?b then _ else _] => destruct b eqn:? end;
    norm;
    intros; repeat split; intros;
    try discriminate; try congruence;
    try (left; reflexivity); try (right; assumption);
    try solve [ match goal with
                | H : u_opaque ?y = true -> u_path ?y <> [] |- u_path ?x <> [] =>
                    let E := fresh in intro E; apply H; congruence
                end ];
    try solve [eapply replaceLast_path; eassumption];
    try solve [eapply replace_last_nonnil; eassumption];
    try solve [exfalso; unfold rune_error in *; lia].

  Ltac pstart m Hbase Hst HJ :=
    destruct m as [st p e buf aF brF pwF u]; cbn [m_state] in Hst; subst st;
    unfold J in HJ; cbn [m_state m_url m_eof] in HJ; cbv zeta in HJ;
    destruct HJ as (He & Hq & HJ); subst e;
    match goal with
    | |- Post ?base _ _ => destruct base as [b|]; [ pose proof (Hbase b eq_refl) as Hwb | ]; clear Hbase
    end;
    match goal with
    | |- Post _ ?override _ =>
        destruct override as [ov|];
        [ destruct HJ as (Hok & Hw & Hop & Hov); cbn [ov_ok] in Hok; try discriminate Hok;
          destruct Hov as [Hov|Hov]; try discriminate Hov
        | destruct HJ as (Hb & Hw) ]
    end;
    cbv beta iota zeta delta [step mk m_state m_ptr m_eof m_buf m_at m_br m_pw m_url overridden is_some isSpecialSchemeAndBackslash];
    destruct (n_inp inp <=? p + 1)%Z eqn:En;
    rewrite ?re_35, ?re_37, ?re_43, ?re_45, ?re_46, ?re_47, ?re_58, ?re_63, ?re_64, ?re_91, ?re_92, ?re_93,
            ?re_alpha, ?re_alnum, ?re_digit;
    cbn [negb andb orb];
    rewrite ?orb_false_r, ?andb_false_r, ?orb_true_r, ?andb_true_r;
    cbn [negb andb orb].

  Lemma P_SchemeStart base override m : (forall b, base = Some b -> wf b) ->
    m_state m = SchemeStart -> J base override m -> Post base override (stepf base override m).
  Proof. intros Hbase Hst HJ. pstart m Hbase Hst HJ; pwalk; leaf. Qed.
  Lemma P_Scheme base override m : (forall b, base = Some b -> wf b) ->
    m_state m = Scheme -> J base override m -> Post base override (stepf base override m).
  Proof. intros Hbase Hst HJ. pstart m Hbase Hst HJ; pwalk; leaf. Qed.
  Lemma P_NoScheme base override m : (forall b, base = Some b -> wf b) ->
    m_state m = NoScheme -> J base override m -> Post base override (stepf base override m).
  Proof. intros Hbase Hst HJ. pstart m Hbase Hst HJ; pwalk; leaf. Qed.
  Lemma P_OpaquePath base override m : (forall b, base = Some b -> wf b) ->
    m_state m = OpaquePath -> J base override m -> Post base override (stepf base override m).
  Proof. intros Hbase Hst HJ. pstart m Hbase Hst HJ; pwalk; leaf. Qed.
  Lemma P_SpecialRelativeOrAuthority base override m : (forall b, base = Some b -> wf b) ->
    m_state m = SpecialRelativeOrAuthority -> J base override m -> Post base override (stepf base override m).
  Proof. intros Hbase Hst HJ. pstart m Hbase Hst HJ; pwalk; leaf. Qed.
  Lemma P_SpecialAuthoritySlashes base override m : (forall b, base = Some b -> wf b) ->
    m_state m = SpecialAuthoritySlashes -> J base override m -> Post base override (stepf base override m).
  Proof. intros Hbase Hst HJ. pstart m Hbase Hst HJ; pwalk; leaf. Qed.
  Lemma P_SpecialAuthorityIgnoreSlashes base override m : (forall b, base = Some b -> wf b) ->
    m_state m = SpecialAuthorityIgnoreSlashes -> J base override m -> Post base override (stepf base override m).
  Proof. intros Hbase Hst HJ. pstart m Hbase Hst HJ; pwalk; leaf. Qed.
  Lemma P_PathOrAuthority base override m : (forall b, base = Some b -> wf b) ->
    m_state m = PathOrAuthority -> J base override m -> Post base override (stepf base override m).
  Proof. intros Hbase Hst HJ. pstart m Hbase Hst HJ; pwalk; leaf. Qed.
  Lemma P_Authority base override m : (forall b, base = Some b -> wf b) ->
    m_state m = Authority -> J base override m -> Post base override (stepf base override m).
  Proof. intros Hbase Hst HJ. pstart m Hbase Hst HJ; pwalk; leaf. Qed.
  Lemma P_HostSt base override m : (forall b, base = Some b -> wf b) ->
    m_state m = HostSt -> J base override m -> Post base override (stepf base override m).
  Proof. intros Hbase Hst HJ. pstart m Hbase Hst HJ; pwalk; leaf. Qed.
  Lemma P_HostnameSt base override m : (forall b, base = Some b -> wf b) ->
    m_state m = HostnameSt -> J base override m -> Post base override (stepf base override m).
  Proof. intros Hbase Hst HJ. pstart m Hbase Hst HJ; pwalk; leaf. Qed.
  Lemma P_File base override m : (forall b, base = Some b -> wf b) ->
    m_state m = File -> J base override m -> Post base override (stepf base override m).
  Proof. intros Hbase Hst HJ. pstart m Hbase Hst HJ; pwalk; leaf. Qed.
  Lemma P_FileHost base override m : (forall b, base = Some b -> wf b) ->
    m_state m = FileHost -> J base override m -> Post base override (stepf base override m).
  Proof. intros Hbase Hst HJ. pstart m Hbase Hst HJ; pwalk; leaf. Qed.
  Lemma P_FileSlash base override m : (forall b, base = Some b -> wf b) ->
    m_state m = FileSlash -> J base override m -> Post base override (stepf base override m).
  Proof. intros Hbase Hst HJ. pstart m Hbase Hst HJ; pwalk; leaf. Qed.
  Lemma P_PortSt base override m : (forall b, base = Some b -> wf b) ->
    m_state m = PortSt -> J base override m -> Post base override (stepf base override m).
  Proof. intros Hbase Hst HJ. pstart m Hbase Hst HJ; pwalk; leaf. Qed.
  Lemma P_PathSt base override m : (forall b, base = Some b -> wf b) ->
    m_state m = PathSt -> J base override m -> Post base override (stepf base override m).
  Proof. intros Hbase Hst HJ. pstart m Hbase Hst HJ; pwalk; leaf. Qed.
  Lemma P_PathStart base override m : (forall b, base = Some b -> wf b) ->
    m_state m = PathStart -> J base override m -> Post base override (stepf base override m).
  Proof. intros Hbase Hst HJ. pstart m Hbase Hst HJ; pwalk; leaf. Qed.
  Lemma P_QuerySt base override m : (forall b, base = Some b -> wf b) ->
    m_state m = QuerySt -> J base override m -> Post base override (stepf base override m).
  Proof. intros Hbase Hst HJ. pstart m Hbase Hst HJ; pwalk; leaf. Qed.
  Lemma P_FragmentSt base override m : (forall b, base = Some b -> wf b) ->
    m_state m = FragmentSt -> J base override m -> Post base override (stepf base override m).
  Proof. intros Hbase Hst HJ. pstart m Hbase Hst HJ; pwalk; leaf. Qed.
  Lemma P_Relative base override m : (forall b, base = Some b -> wf b) ->
    m_state m = Relative -> J base override m -> Post base override (stepf base override m).
  Proof. intros Hbase Hst HJ. pstart m Hbase Hst HJ; pwalk; leaf. Qed.
  Lemma P_RelativeSlash base override m : (forall b, base = Some b -> wf b) ->
    m_state m = RelativeSlash -> J base override m -> Post base override (stepf base override m).
  Proof. intros Hbase Hst HJ. pstart m Hbase Hst HJ; pwalk; leaf. Qed.
End Step.
