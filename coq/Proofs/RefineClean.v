(* Component refinement R3: the cleaning of the input (steps 1-3 of the basic URL parser).
   The model trims and filters BYTES, the standard trims and filters CODE POINTS. *)
From Verif Require Import Lib.Base Lib.Utf8 Lib.GoStr Model.Cfg Gen.Tables Model.Sets Model.Percent Model.Url
     Model.Host Model.Machine.
From Verif Require Import Spec.PercentSets Spec.BasicParser.
From Verif Require Import Proofs.Utf8Proofs Proofs.SetsProofs Proofs.Cleaning Proofs.RefineUtf8.
From Coq Require Import Lia ZifyBool ZifyN ZifyNat.

(* ---------- leading C0 control or space ---------- *)
Lemma in_c0_or_space_spec b : in_c0_or_space b = c0_control_or_space b.
Proof. unfold in_c0_or_space. apply c0_or_space_trim. Qed.

Lemma c0_low b : c0_control_or_space b = true -> b < 128.
Proof. unfold c0_control_or_space. lia. Qed.

Lemma R3_trim_left s : runes (trim_left_set s) = strip_leading_c0_space (runes s).
Proof.
  induction s as [|b s IH]; [reflexivity|].
  cbn [trim_left_set]. rewrite in_c0_or_space_spec.
  destruct (c0_control_or_space b) eqn:E.
  - rewrite (runes_cons_ascii b s (c0_low b E)). cbn [strip_leading_c0_space]. rewrite E. exact IH.
  - unfold runes. destruct (dec1 b s) as [r rest'] eqn:D. rewrite (decode_cons _ _ _ _ D).
    cbn [map strip_leading_c0_space].
    replace (c0_control_or_space (rv r)) with false; [reflexivity|].
    symmetry. destruct (N.lt_ge_cases b 128) as [Hlt|Hge].
    + rewrite (dec1_low b s Hlt) in D. inversion D; subst. exact E.
    + pose proof (dec1_high _ _ _ _ D Hge). unfold c0_control_or_space. lia.
Qed.

(* ---------- trailing ---------- *)
Definition strip_trailing_c0_space (l : list N) : list N := rev (strip_leading_c0_space (rev l)).

Lemma strip_trailing_snoc_c0 l a : c0_control_or_space a = true ->
  strip_trailing_c0_space (l ++ [a]) = strip_trailing_c0_space l.
Proof.
  intros H. unfold strip_trailing_c0_space. rewrite rev_app_distr. cbn [rev app strip_leading_c0_space].
  rewrite H. reflexivity.
Qed.

Lemma strip_trailing_last l r : last_opt l = Some r -> c0_control_or_space r = false ->
  strip_trailing_c0_space l = l.
Proof.
  intros Hl Hr. destruct (last_opt_some_snoc _ _ Hl) as [l' ->].
  unfold strip_trailing_c0_space. rewrite rev_app_distr. cbn [rev app strip_leading_c0_space].
  rewrite Hr. rewrite <- (rev_involutive l') at 2. reflexivity.
Qed.

Lemma R3_trim_right s : runes (rev (trim_left_set (rev s))) = strip_trailing_c0_space (runes s).
Proof.
  induction s as [|a s IH] using rev_ind; [reflexivity|].
  rewrite rev_app_distr. cbn [rev app trim_left_set]. rewrite in_c0_or_space_spec.
  destruct (c0_control_or_space a) eqn:E.
  - rewrite IH. rewrite (runes_snoc_ascii s a (c0_low a E)). symmetry. apply strip_trailing_snoc_c0. exact E.
  - cbn [rev]. rewrite rev_involutive.
    destruct (last_rune (s ++ [a]) a (last_opt_snoc s a)) as [r [Hr [H1 H2]]].
    symmetry. apply (strip_trailing_last _ r Hr).
    destruct (N.lt_ge_cases a 128) as [Hlt|Hge].
    + rewrite (H1 Hlt). exact E.
    + specialize (H2 Hge). unfold c0_control_or_space. lia.
Qed.

Theorem R3_trim s : runes (fst (trim_c0space s)) = strip_c0_space (runes s).
Proof.
  unfold trim_c0space, strip_c0_space. cbn [fst].
  rewrite R3_trim_right, R3_trim_left. reflexivity.
Qed.
Print Assumptions R3_trim.

(* ---------- tab and newline ---------- *)
Definition keep (b : N) : bool := negb (ascii_tab_or_newline b).

Lemma keep_high b : 128 <= b -> keep b = true.
Proof. intros H. unfold keep, ascii_tab_or_newline. lia. Qed.

Lemma remove_tabnl_keep s : fst (remove_tabnl s) = filter keep s.
Proof.
  unfold remove_tabnl. cbn [fst]. apply filter_ext. intros b. unfold keep. rewrite tab_or_newline_table. reflexivity.
Qed.

Lemma remove_tab_newline_keep l : remove_tab_newline l = filter keep l.
Proof. reflexivity. Qed.

Theorem R3_remove s : runes (fst (remove_tabnl_sv false s)) = remove_tab_newline (runes s).
Proof.
  rewrite remove_tab_newline_keep.
  destruct (snd (remove_tabnl_sv false s)) eqn:Ech.
  - (* something was removed *)
    unfold remove_tabnl_sv in *. destruct (remove_tabnl s) as [i changed] eqn:Er.
    cbn [negb andb] in *. rewrite andb_true_r in *.
    destruct (changed && negb (valid_utf8 s)) eqn:E.
    + cbn [fst]. rewrite remove_tabnl_keep. apply runes_filter_to_valid. exact keep_high.
    + cbn [fst snd] in *. subst changed. cbn [andb] in E. apply negb_false_iff in E.
      replace i with (fst (remove_tabnl s)) by (rewrite Er; reflexivity).
      rewrite remove_tabnl_keep. rewrite <- (to_valid_of_valid s E) at 1.
      apply runes_filter_to_valid. exact keep_high.
  - (* nothing was removed *)
    rewrite (remove_sv_unchanged false s Ech).
    assert (Hs : filter keep s = s).
    { rewrite <- remove_tabnl_keep. apply remove_unchanged.
      unfold remove_tabnl_sv in Ech. destruct (remove_tabnl s) as [i changed] eqn:Er.
      cbn [snd]. destruct changed; [|reflexivity].
      cbn [negb andb] in Ech. destruct (negb (valid_utf8 s)); cbn in Ech; discriminate. }
    symmetry. apply filter_runes_unchanged; [exact keep_high|exact Hs].
Qed.
Print Assumptions R3_remove.

(* steps 1.3 and 3 together *)
Theorem R3_clean s : runes (clean_sv false s) = remove_tab_newline (strip_c0_space (runes s)).
Proof. unfold clean_sv. rewrite R3_remove, R3_trim. reflexivity. Qed.
Print Assumptions R3_clean.

Example R3_ex :
  let s := [32; 9; 97; 240; 159; 152; 9; 128; 10; 255; 32; 195; 169; 13; 0; 32] in
  runes (clean_sv false s) = [97; 65533; 65533; 65533; 65533; 65533; 32; 233] /\
  remove_tab_newline (strip_c0_space (runes s)) = [97; 65533; 65533; 65533; 65533; 65533; 32; 233].
Proof. vm_compute. split; reflexivity. Qed.

(* Without the conversion to U+FFFD (i.e. when the parser accepts invalid code points) the byte-level removal
   joins the halves of a broken sequence, and the refinement fails: *)
Lemma R3_remove_acceptInvalid_refuted : exists s,
  runes (fst (remove_tabnl_sv true s)) <> remove_tab_newline (runes s).
Proof. exists [240; 159; 152; 9; 128]. vm_compute. discriminate. Qed.

(* the plain byte-level removal (no conversion) agrees on valid UTF-8 *)
Corollary R3_remove_valid s : valid_utf8 s = true -> runes (fst (remove_tabnl s)) = remove_tab_newline (runes s).
Proof. intros H. rewrite <- (remove_tabnl_sv_valid false s H). apply R3_remove. Qed.
