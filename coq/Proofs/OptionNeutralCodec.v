(* The premise of N4 (OptionNeutral.pct_ok_runes) is the predicate pct_ok of CodecProofs.v. *)
From Verif Require Import Lib.Base Lib.Utf8 Lib.GoStr Model.Cfg Gen.Tables Model.Sets Model.Percent Model.Url Model.Host.
From Verif Require Import Proofs.CodecProofs Proofs.OptionNeutral.

Lemma pct_ok_runes_eq l : pct_ok_runes l = pct_ok l.
Proof.
  induction l as [|b t IH]; [reflexivity|].
  cbn [pct_ok_runes pct_ok]. rewrite IH, invalid_pct_cons, bad_pct_eq.
  destruct (b =? 37); cbn [andb negb]; [rewrite Bool.negb_involutive|]; reflexivity.
Qed.
Print Assumptions pct_ok_runes_eq.
