(* Round trip, part 8: the theorem applied to everything the parser produces.

     parse_roundtrip : Parse idna_raw c x = PUrl u -> host_fixed idna_raw c u ->
                       exists s u', Href u false = Some s /\ Parse idna_raw c s = PUrl u' /\ same_components u' u

   The only hypothesis left on the parse result is that its host is a fixed point of the host parser
   (for a domain: a property of the IDNA oracle). *)
From Verif Require Import Lib.Base Lib.Utf8 Lib.GoStr Model.Cfg Gen.Tables Gen.Options Model.Sets Model.Percent
  Model.Url Model.Host Model.Machine Model.Api Model.Preds.
From Verif Require Import Proofs.RecordInv Proofs.MachineInv Proofs.RoundTripBase Proofs.RoundTrip Proofs.RoundTripStable.

Section ParseRoundTrip.
  Variable idna_raw : str -> str * bool.
  Hypothesis HH3 : H3 idna_raw.
  Variable c : cfg.
  Hypothesis Hokm : cfg_okm c = true.
  Hypothesis Hrt : cfg_rt c = true.

  Theorem Parse_Stable x u : Parse idna_raw c x = PUrl u -> host_fixed idna_raw c u -> Stable idna_raw c u.
  Proof. intros H Hf. split; [apply (Parse_stable idna_raw c x u Hrt H)|exact Hf]. Qed.

  Theorem parse_roundtrip x u :
    Parse idna_raw c x = PUrl u -> host_fixed idna_raw c u ->
    exists s u', Href u false = Some s /\ Parse idna_raw c s = PUrl u' /\ same_components u' u.
  Proof.
    intros H Hf. pose proof (Parse_Inv idna_raw HH3 c Hokm x u H) as Hi.
    destruct (Href_exists c u Hi) as [s Hs]. exists s.
    destruct (roundtrip idna_raw c Hrt u s Hi (Parse_Stable x u H Hf) Hs) as [u' [H1 H2]].
    exists u'. auto.
  Qed.

  (* parse ; serialize ; parse ; serialize  =  parse ; serialize *)
  Corollary parse_serialize_idempotent x u :
    Parse idna_raw c x = PUrl u -> host_fixed idna_raw c u ->
    exists s u', Href u false = Some s /\ Parse idna_raw c s = PUrl u' /\ Href u' false = Some s.
  Proof.
    intros H Hf. pose proof (Parse_Inv idna_raw HH3 c Hokm x u H) as Hi.
    destruct (Href_exists c u Hi) as [s Hs]. exists s.
    destruct (roundtrip_href idna_raw c Hrt u s Hi (Parse_Stable x u H Hf) Hs) as [u' [H1 H2]].
    exists u'. auto.
  Qed.

  (* no hypothesis on the host for non-special schemes, unless the host is an IPv6 address *)
  Corollary parse_roundtrip_nonspecial x u :
    Parse idna_raw c x = PUrl u -> IsSpecialScheme c u = false ->
    (forall h, u_host u = Some h -> is_bracketed h = false) ->
    exists s u', Href u false = Some s /\ Parse idna_raw c s = PUrl u' /\ same_components u' u.
  Proof.
    intros H Hsp Hnb. apply (parse_roundtrip x u H).
    apply (host_fixed_nonspecial idna_raw c u Hrt (Parse_Inv idna_raw HH3 c Hokm x u H) Hsp Hnb).
  Qed.
End ParseRoundTrip.

Print Assumptions parse_roundtrip.
Print Assumptions parse_serialize_idempotent.
Print Assumptions parse_roundtrip_nonspecial.

(* the premises hold: the default configuration, the toy oracle, "HTTP://U:P@EXAMPLE.org:81/a/../b c?q#f g" *)
Example parse_roundtrip_ex :
  H3 idna_toy /\ cfg_okm default_cfg = true /\ cfg_rt default_cfg = true /\
  exists u, Parse idna_toy default_cfg
              [72;84;84;80;58;47;47;85;58;80;64;69;88;65;77;80;76;69;46;111;114;103;58;56;49;47;97;47;46;46;47;98;32;99;63;113;35;102;32;103]
            = PUrl u /\ host_fixed idna_toy default_cfg u.
Proof.
  split; [apply H3_toy|]. split; [vm_compute; reflexivity|]. split; [vm_compute; reflexivity|].
  eexists. split; [vm_compute; reflexivity|].
  intros h E u0. cbn in E. injection E as <-. vm_compute. reflexivity.
Qed.
