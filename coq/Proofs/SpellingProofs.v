(* Equivalent spellings of an ordinary web URL parse to the same components (N2): corollaries of the normal form
   theorem (NormalForm.v).  Scheme case, host spellings with the same host parser result (in particular ASCII letter
   case), port spellings (default port, empty port, leading zeros), dot segments. *)
From Verif Require Import Lib.Base Lib.Utf8 Lib.GoStr Model.Cfg Gen.Tables Gen.Options Model.Sets Model.Percent
  Model.Url Model.Host Model.Machine Model.Api Model.Canon Model.Preds.
From Verif Require Import Proofs.SetsProofs Proofs.PhaseLemmas Proofs.RecordInv Proofs.IPv4Proofs Proofs.MachineInv Proofs.HostProofs
  Proofs.CanonTotal Proofs.RoundTripBase Proofs.RoundTripPhases Proofs.NormalFormPhases Proofs.NormalForm.
From Coq Require Import Lia ZifyBool ZifyN ZifyNat.

Local Arguments N.eqb : simpl never.
Local Arguments N.ltb : simpl never.
Local Arguments N.leb : simpl never.

(* ------------------------------------------------------------------------------------------ *)
(* the value of the host parser does not depend on the record it is given                       *)
(* ------------------------------------------------------------------------------------------ *)
Section HostVal.
  Variable idna_raw : str -> str * bool.
  Variable c : cfg.
  Hypothesis Hfail : c_fail c = false.

  Definition Ind {A} (f : url -> res A) : Prop := forall u1 u2, val (f u1) = val (f u2).

  Lemma herr_Ind {A} t f (k : url -> res A) : Ind k -> Ind (fun u => herr c u t f k).
  Proof using Hfail.
    intros Hk u1 u2. unfold herr, handleError. rewrite Hfail, orb_false_r. destruct f; [reflexivity|]. apply Hk.
  Qed.

  Lemma val_herr {A} t f (k : url -> res A) u1 u2 : Ind k -> val (herr c u1 t f k) = val (herr c u2 t f k).
  Proof using Hfail. intros Hk. apply (herr_Ind t f k Hk). Qed.

  Lemma parseIPv4_Ind a : Ind (fun u => parseIPv4 c u a).
  Proof using Hfail. intros u1 u2. pose proof (parseIPv4_agree c u1 a Hfail) as A1. pose proof (parseIPv4_agree c u2 a Hfail) as A2.
    unfold val. congruence. Qed.

  Lemma parseIPv6_Ind t : Ind (fun u => parseIPv6 c u t).
  Proof using Hfail.
    intros u1 u2. unfold parseIPv6. destruct (ipv6_parse (runes t)); [reflexivity|]. apply val_herr. intros v1 v2. reflexivity.
  Qed.

  Lemma opaque_loop_Ind input : forall l out, Ind (fun u => opaque_loop c u input l out).
  Proof using Hfail.
    induction l as [|ch l IH]; intros out u1 u2; cbn [opaque_loop]; [reflexivity|].
    assert (K : Ind (fun u =>
        (if negb (isURLCodePoint ch) && negb (ch =? 37)
         then (fun k => herr c u InvalidURLUnit false k) else (fun k => k u))
        (fun u =>
          (if (ch =? 37) && invalid_pct (ch :: l)
           then (fun k => herr c u InvalidURLUnit false k) else (fun k => k u))
          (fun u => opaque_loop c u input l (out ++ percentEncodeRune c ch (Some pes_C0)))))).
    { assert (K2 : Ind (fun u => (if (ch =? 37) && invalid_pct (ch :: l)
           then (fun k => herr c u InvalidURLUnit false k) else (fun k => k u))
          (fun u => opaque_loop c u input l (out ++ percentEncodeRune c ch (Some pes_C0))))).
      { intros v1 v2. destruct ((ch =? 37) && invalid_pct (ch :: l)); [apply val_herr|]; apply IH. }
      intros v1 v2. destruct (negb (isURLCodePoint ch) && negb (ch =? 37)); [apply val_herr|]; apply K2. }
    destruct (isForbiddenHost ch); [|apply K].
    destruct (c_lax c); [reflexivity|]. apply val_herr. exact K.
  Qed.

  Theorem parseHost_val_indep h ns : Ind (fun u => parseHost idna_raw c u h ns).
  Proof using Hfail.
    intros u1 u2. rewrite !parseHost_eq. destruct (apply_hostfun (c_pre c) h) as [|x r]; [reflexivity|].
    destruct (x =? 91).
    - unfold ph_v6. destruct (negb (has_suffix [93] (x :: r))); [apply val_herr|]; apply parseIPv6_Ind.
    - destruct ns; [apply opaque_loop_Ind|]. unfold ph_domain. cbv zeta.
      assert (KC : forall a, Ind (fun u => let (u2, b) := endsInANumber c u a in
                                           if b then parseIPv4 c u2 a else Ok u2 (apply_hostfun (c_post c) a))).
      { intros a v1 v2. pose proof (endsInANumber_agree c v1 a) as E1. pose proof (endsInANumber_agree c v2 a) as E2.
        destruct (endsInANumber c v1 a) as [w1 b1], (endsInANumber c v2 a) as [w2 b2]. cbn [snd] in E1, E2. subst b1 b2.
        destruct (Spec.IPv4.ends_in_a_number a); [apply parseIPv4_Ind|reflexivity]. }
      assert (KV : Ind (fun u0 =>
          match ToASCII idna_raw c (DecodePercentEncoded c (x :: r)) with
          | Some asciiDomain =>
              if existsb isForbiddenDomain (runes asciiDomain)
              then if c_lax c then Ok u0 (PercentEncodeString c asciiDomain pes_Host)
                   else herr c u0 DomainInvalidCodePoint true
                          (fun u1 => let (u2, b) := endsInANumber c u1 asciiDomain in
                                     if b then parseIPv4 c u2 asciiDomain else Ok u2 (apply_hostfun (c_post c) asciiDomain))
              else let (u2, b) := endsInANumber c u0 asciiDomain in
                   if b then parseIPv4 c u2 asciiDomain else Ok u2 (apply_hostfun (c_post c) asciiDomain)
          | None => if c_lax c then Ok u0 (DecodePercentEncoded c (x :: r))
                    else herr c u0 DomainToASCII true (fun u1 => Ok u1 [])
          end)).
      { intros v1 v2. destruct (ToASCII idna_raw c (DecodePercentEncoded c (x :: r))) as [a|].
        - destruct (existsb isForbiddenDomain (runes a)); [|apply KC].
          destruct (c_lax c); [reflexivity|]. apply val_herr. apply KC.
        - destruct (c_lax c); [reflexivity|]. apply val_herr. intros w1 w2. reflexivity. }
      destruct (negb (valid_utf8 (DecodePercentEncoded c (x :: r)))); [|apply KV].
      destruct (c_lax c); [reflexivity|]. apply val_herr. exact KV.
  Qed.
End HostVal.

(* the host value of a host text *)
Definition host_val (idna_raw : str -> str * bool) (c : cfg) (h : str) : option str :=
  val (parseHost idna_raw c (empty_url []) h false).

(* ------------------------------------------------------------------------------------------ *)
(* equivalent spellings                                                                         *)
(* ------------------------------------------------------------------------------------------ *)
(* two parse results: both errors, or both records with the same components *)
Definition same_result (r1 r2 : pres) : Prop :=
  match r1, r2 with
  | PUrl u1, PUrl u2 => same_components u1 u2
  | PErr _, PErr _ => True
  | _, _ => False
  end.

Definition equiv_comps (idna_raw : str -> str * bool) (c : cfg) (k1 k2 : comps) : Prop :=
  str_lower (k_sch k1) = str_lower (k_sch k2) /\ k_user k1 = k_user k2 /\ k_pass k1 = k_pass k2 /\
  host_val idna_raw c (k_host k1) = host_val idna_raw c (k_host k2) /\
  nf_port c (str_lower (k_sch k1)) (k_port k1) = nf_port c (str_lower (k_sch k1)) (k_port k2) /\
  norm_segs (k_segs k1) = norm_segs (k_segs k2) /\
  option_map (enc_with c (c_squerySet c)) (k_query k1) = option_map (enc_with c (c_squerySet c)) (k_query k2) /\
  option_map (enc_with c (c_sfragSet c)) (k_frag k1) = option_map (enc_with c (c_sfragSet c)) (k_frag k2).

Section Spelling.
  Variable idna_raw : str -> str * bool.
  Variable c : cfg.
  Hypothesis R : CfgRT c.
  Hypothesis Hskip : c_skipTrailSlash c = false.

  Theorem spelling k1 k2 :
    comps_ok c k1 = true -> comps_ok c k2 = true -> equiv_comps idna_raw c k1 k2 ->
    same_result (Parse idna_raw c (text_of k1)) (Parse idna_raw c (text_of k2)).
  Proof using All.
    intros H1 H2 [E1 [E2 [E3 [E4 [E5 [E6 [E7 E8]]]]]]].
    rewrite (normal_form idna_raw c R Hskip k1 H1), (normal_form idna_raw c R Hskip k2 H2).
    unfold host_val in E4.
    rewrite (parseHost_val_indep idna_raw c (R_fail c R) (k_host k1) false (empty_url []) (pre_host c k1)) in E4.
    rewrite (parseHost_val_indep idna_raw c (R_fail c R) (k_host k2) false (empty_url []) (pre_host c k2)) in E4.
    destruct (parseHost idna_raw c (pre_host c k1) (k_host k1) false) as [v1 h1|v1 e1],
             (parseHost idna_raw c (pre_host c k2) (k_host k2) false) as [v2 h2|v2 e2]; cbn [val] in E4; try discriminate E4;
      cbn [same_result]; [|exact I].
    injection E4 as <-. unfold same_components, nf.
    cbn [u_scheme u_username u_password u_host u_port u_decodedPort u_path u_opaque u_query u_fragment].
    rewrite <- E1, <- E2, <- E3, <- E5, <- E6, <- E7, <- E8. repeat split.
  Qed.
End Spelling.
Print Assumptions parseHost_val_indep.
Print Assumptions spelling.

(* ------------------------------------------------------------------------------------------ *)
(* (c) port spellings                                                                           *)
(* ------------------------------------------------------------------------------------------ *)
Lemma nf_port_empty c l : nf_port c l (Some []) = nf_port c l None.
Proof. reflexivity. Qed.

Lemma nf_port_default c l d dp :
  getSpecialScheme c l = Some dp -> d <> [] -> itoa (digits_val 10 d) = dp -> nf_port c l (Some d) = nf_port c l None.
Proof.
  intros H1 H2 H3. destruct d as [|x d]; [congruence|]. unfold nf_port. cbv zeta. rewrite H1, H3. cbn [opt_eqb].
  rewrite str_eqb_refl. reflexivity.
Qed.

Lemma nf_port_value c l d1 d2 :
  d1 <> [] -> d2 <> [] -> digits_val 10 d1 = digits_val 10 d2 -> nf_port c l (Some d1) = nf_port c l (Some d2).
Proof.
  intros H1 H2 H3. destruct d1 as [|x1 d1]; [congruence|]. destruct d2 as [|x2 d2]; [congruence|].
  unfold nf_port. cbv zeta. rewrite H3. reflexivity.
Qed.

(* ------------------------------------------------------------------------------------------ *)
(* (d) dot segments                                                                             *)
(* ------------------------------------------------------------------------------------------ *)
Definition mids (acc : list str) (l : list str) : list str := fold_left (pstep true) l acc.

Lemma norm_from_app : forall l1 acc s s' l2,
  norm_from acc s (l1 ++ s' :: l2) = norm_from (mids acc (s :: l1)) s' l2.
Proof.
  induction l1 as [|x l1 IH]; intros acc s s' l2; cbn [app norm_from mids fold_left]; [reflexivity|].
  rewrite IH. reflexivity.
Qed.

Lemma mids_app acc l1 l2 : mids acc (l1 ++ l2) = mids (mids acc l1) l2.
Proof. unfold mids. apply fold_left_app. Qed.

Lemma pstep_single acc s : isDoubleDotPathSegment s = false -> isSingleDotPathSegment s = true -> pstep true acc s = acc.
Proof. intros H1 H2. unfold pstep. rewrite H1, H2. reflexivity. Qed.

Lemma pstep_pop acc x dd : dotseg x = false -> isDoubleDotPathSegment dd = true -> pstep true (pstep true acc x) dd = acc.
Proof.
  intros H1 H2. unfold dotseg in H1. apply orb_false_iff in H1. destruct H1 as [A B].
  unfold pstep. rewrite H2, B, A. apply removelast_last.
Qed.

(* a "." segment (in any spelling) inserted before a segment *)
Theorem norm_insert_dot A B dot :
  B <> [] -> isDoubleDotPathSegment dot = false -> isSingleDotPathSegment dot = true ->
  norm_segs (A ++ dot :: B) = norm_segs (A ++ B).
Proof.
  intros HB H1 H2. destruct B as [|b B]; [congruence|]. destruct A as [|a A].
  - cbn [app norm_segs]. destruct B as [|b' B]; cbn [norm_from]; rewrite (pstep_single [] dot H1 H2); reflexivity.
  - cbn [app norm_segs]. rewrite (norm_from_app A [] a dot (b :: B)), (norm_from_app A [] a b B).
    cbn [norm_from]. rewrite (pstep_single _ dot H1 H2). reflexivity.
Qed.

(* a segment followed by a ".." segment (in any spelling) inserted before a segment *)
Theorem norm_insert_pop A B x dd :
  B <> [] -> dotseg x = false -> isDoubleDotPathSegment dd = true ->
  norm_segs (A ++ x :: dd :: B) = norm_segs (A ++ B).
Proof.
  intros HB H1 H2. destruct B as [|b B]; [congruence|]. destruct A as [|a A].
  - cbn [app norm_segs norm_from]. rewrite (pstep_pop [] x dd H1 H2). reflexivity.
  - cbn [app norm_segs]. rewrite (norm_from_app A [] a x (dd :: b :: B)), (norm_from_app A [] a b B).
    cbn [norm_from]. rewrite (pstep_pop _ x dd H1 H2). reflexivity.
Qed.

(* the empty path and "/" *)
Lemma norm_empty_path : norm_segs [] = norm_segs [[]].
Proof. reflexivity. Qed.

(* ------------------------------------------------------------------------------------------ *)
(* the corollaries, one variation at a time                                                     *)
(* ------------------------------------------------------------------------------------------ *)
Definition with_sch (k : comps) (s : str) : comps :=
  {| k_sch := s; k_user := k_user k; k_pass := k_pass k; k_host := k_host k; k_port := k_port k; k_segs := k_segs k;
     k_query := k_query k; k_frag := k_frag k |}.
Definition with_host (k : comps) (h : str) : comps :=
  {| k_sch := k_sch k; k_user := k_user k; k_pass := k_pass k; k_host := h; k_port := k_port k; k_segs := k_segs k;
     k_query := k_query k; k_frag := k_frag k |}.
Definition with_kport (k : comps) (op : option str) : comps :=
  {| k_sch := k_sch k; k_user := k_user k; k_pass := k_pass k; k_host := k_host k; k_port := op; k_segs := k_segs k;
     k_query := k_query k; k_frag := k_frag k |}.
Definition with_segs (k : comps) (l : list str) : comps :=
  {| k_sch := k_sch k; k_user := k_user k; k_pass := k_pass k; k_host := k_host k; k_port := k_port k; k_segs := l;
     k_query := k_query k; k_frag := k_frag k |}.

Section Corollaries.
  Variable idna_raw : str -> str * bool.
  Variable c : cfg.
  Hypothesis R : CfgRT c.
  Hypothesis Hskip : c_skipTrailSlash c = false.

  Lemma equiv_refl k : equiv_comps idna_raw c k k.
  Proof using. repeat split. Qed.

  (* (a) the letter case of the scheme *)
  Corollary spelling_scheme_case k sch' :
    comps_ok c k = true -> scheme_text sch' = true -> str_lower sch' = str_lower (k_sch k) ->
    same_result (Parse idna_raw c (text_of k)) (Parse idna_raw c (text_of (with_sch k sch'))).
  Proof using All.
    intros H1 H2 H3. apply (spelling idna_raw c R Hskip); [exact H1| |].
    - unfold comps_ok in *. cbn [k_sch k_user k_pass k_host k_port k_segs k_query k_frag with_sch]. rewrite H3, H2.
      destruct (scheme_text (k_sch k)); [exact H1|discriminate H1].
    - unfold equiv_comps. cbn [k_sch k_user k_pass k_host k_port k_segs k_query k_frag with_sch]. rewrite H3. repeat split.
  Qed.

  (* (b) another host text with the same host parser result *)
  Corollary spelling_host k h' :
    comps_ok c k = true -> comps_ok c (with_host k h') = true ->
    host_val idna_raw c (k_host k) = host_val idna_raw c h' ->
    same_result (Parse idna_raw c (text_of k)) (Parse idna_raw c (text_of (with_host k h'))).
  Proof using All.
    intros H1 H2 H3. apply (spelling idna_raw c R Hskip); [exact H1|exact H2|].
    unfold equiv_comps. cbn [k_sch k_user k_pass k_host k_port k_segs k_query k_frag with_host]. repeat split. exact H3.
  Qed.

  (* (c) another port text denoting the same port *)
  Corollary spelling_port k op' :
    comps_ok c k = true -> port_text_okb op' = true ->
    nf_port c (str_lower (k_sch k)) (k_port k) = nf_port c (str_lower (k_sch k)) op' ->
    same_result (Parse idna_raw c (text_of k)) (Parse idna_raw c (text_of (with_kport k op'))).
  Proof using All.
    intros H1 H2 H3. apply (spelling idna_raw c R Hskip); [exact H1| |].
    - unfold comps_ok in *. cbn [k_sch k_user k_pass k_host k_port k_segs k_query k_frag with_kport]. rewrite H2.
      destruct (port_text_okb (k_port k)); [exact H1|]. rewrite !andb_false_r in H1. discriminate H1.
    - unfold equiv_comps. cbn [k_sch k_user k_pass k_host k_port k_segs k_query k_frag with_kport]. repeat split. exact H3.
  Qed.

  (* (d) another list of segments with the same dot-segment normalisation *)
  Corollary spelling_segs k l' :
    comps_ok c k = true -> segs_text_ok c true l' = true -> norm_segs (k_segs k) = norm_segs l' ->
    same_result (Parse idna_raw c (text_of k)) (Parse idna_raw c (text_of (with_segs k l'))).
  Proof using All.
    intros H1 H2 H3. apply (spelling idna_raw c R Hskip); [exact H1| |].
    - unfold comps_ok in *. cbn [k_sch k_user k_pass k_host k_port k_segs k_query k_frag with_segs]. rewrite H2.
      destruct (segs_text_ok c true (k_segs k)); [exact H1|]. rewrite !andb_false_r in H1. discriminate H1.
    - unfold equiv_comps. cbn [k_sch k_user k_pass k_host k_port k_segs k_query k_frag with_segs]. repeat split. exact H3.
  Qed.
End Corollaries.

(* (b) for ASCII hosts: the letter case of the host text (oracle hypothesis H2, as in C09) *)
Corollary host_val_case idna_raw c h1 h2 :
  c_lax c = false -> c_latin1 c = false -> c_pre c = HF_none -> c_post c = HF_none -> oracle_case_invariant idna_raw ->
  not_bracket h1 -> str_lower h1 = str_lower h2 -> host_val idna_raw c h1 = host_val idna_raw c h2.
Proof.
  intros A1 A2 A3 A4 A5 Hb Hs. unfold host_val.
  rewrite (host_case_invariant idna_raw c A1 A2 A3 A4 A5 (empty_url []) h1 h2 Hb Hs). reflexivity.
Qed.

Print Assumptions norm_insert_dot.
Print Assumptions norm_insert_pop.
Print Assumptions spelling_scheme_case.
Print Assumptions host_val_case.

(* ------------------------------------------------------------------------------------------ *)
(* the canonicalizer does not read the input text of the record                                  *)
(* ------------------------------------------------------------------------------------------ *)
(* equal up to the input text *)
Definition eqi (u1 u2 : url) : Prop := set_input u1 [] = set_input u2 [].
Definition orel (o1 o2 : option url) : Prop :=
  match o1, o2 with Some a, Some b => eqi a b | None, None => True | _, _ => False end.

Lemma eqi_refl u : eqi u u. Proof. reflexivity. Qed.
Lemma eqi_input u x : eqi (set_input u x) u. Proof. reflexivity. Qed.
Lemma eqi_ex u1 u2 : eqi u1 u2 -> u1 = set_input u2 (u_input u1).
Proof. unfold eqi. destruct u1, u2. cbn. intros H. injection H as -> -> -> -> -> -> -> -> -> -> -> ->. reflexivity. Qed.
Lemma eqi_same u1 u2 : eqi u1 u2 -> same_components u1 u2.
Proof. intros H. rewrite (eqi_ex u1 u2 H). unfold same_components. cbn. repeat split. Qed.
Lemma orel_refl o : orel o o. Proof. destruct o; [apply eqi_refl|exact I]. Qed.

Lemma orel_bind o1 o2 (f g : url -> option url) :
  orel o1 o2 -> (forall a b, eqi a b -> orel (f a) (g b)) -> orel (bind o1 f) (bind o2 g).
Proof. destruct o1, o2; cbn [orel bind]; intros H K; try contradiction; [apply K; exact H|exact I]. Qed.

Section CanonInput.
  Variable idna_raw : str -> str * bool.
  Variable p : profile.
  Notation c := (p_cfg p).

  Lemma BP_input s b u x ov :
    BasicParser idna_raw c s b (Some (set_input u x)) ov = BasicParser idna_raw c s b (Some u) ov.
  Proof. reflexivity. Qed.

  (* each setter, on [set_input u x] and on [u] *)
  Lemma SetHostname_i u x s : orel (SetHostname idna_raw c (set_input u x) s) (SetHostname idna_raw c u s).
  Proof. unfold SetHostname. cbn [u_opaque set_input]. destruct (u_opaque u); [apply eqi_input|]. rewrite BP_input. apply orel_refl. Qed.
  Lemma SetPathname_i u x s : orel (SetPathname idna_raw c (set_input u x) s) (SetPathname idna_raw c u s).
  Proof.
    unfold SetPathname. cbn [u_opaque set_input]. destruct (u_opaque u); [apply eqi_input|].
    change (set_path (set_input u x) [] false) with (set_input (set_path u [] false) x). rewrite BP_input. apply orel_refl.
  Qed.
  Lemma strip_i u x : orel (strip_opaque (set_input u x)) (strip_opaque u).
  Proof. unfold strip_opaque. cbn [u_opaque u_path set_input]. destruct (u_opaque u); [destruct (u_path u)|]; cbn [orel]; try exact I; reflexivity. Qed.
  Lemma SetHash_i u x s : orel (SetHash idna_raw c (set_input u x) s) (SetHash idna_raw c u s).
  Proof.
    unfold SetHash. destruct s as [|y s].
    - cbv zeta. cbn [u_query set_fragment set_input]. destruct (negb (is_some (u_query u))); [|reflexivity].
      change (set_fragment (set_input u x) None) with (set_input (set_fragment u None) x). apply strip_i.
    - change (set_fragment (set_input u x) (Some [])) with (set_input (set_fragment u (Some [])) x). rewrite BP_input. apply orel_refl.
  Qed.
  Lemma SetSearch_i u x s : orel (SetSearch idna_raw c (set_input u x) s) (SetSearch idna_raw c u s).
  Proof.
    unfold SetSearch. destruct s as [|y s].
    - cbv zeta. cbn [u_sp u_fragment set_query set_input set_sp].
      destruct (u_sp u); cbn [u_fragment set_sp set_query set_input]; (destruct (negb (is_some (u_fragment u))); [|reflexivity]).
      + change (set_sp (set_query (set_input u x) None) (Some [])) with (set_input (set_sp (set_query u None) (Some [])) x). apply strip_i.
      + change (set_query (set_input u x) None) with (set_input (set_query u None) x). apply strip_i.
    - cbv zeta. cbn [u_query set_input].
      replace (match u_query u with Some _ => set_input u x | None => set_query (set_input u x) (Some []) end)
        with (set_input (match u_query u with Some _ => u | None => set_query u (Some []) end) x) by (destruct (u_query u); reflexivity).
      rewrite BP_input. destruct (after _) as [v|]; [|exact I]. destruct (u_query v); [reflexivity|exact I].
  Qed.
  Lemma SetPort_i u x : orel (SetPort idna_raw c (set_input u x) []) (SetPort idna_raw c u []).
  Proof. unfold SetPort. change (no_host_or_file (set_input u x)) with (no_host_or_file u). destruct (no_host_or_file u); reflexivity. Qed.
  Lemma SetUsername_i u x s : orel (SetUsername c (set_input u x) s) (SetUsername c u s).
  Proof. unfold SetUsername. change (no_host_or_file (set_input u x)) with (no_host_or_file u). destruct (no_host_or_file u); reflexivity. Qed.
  Lemma SetPassword_i u x s : orel (SetPassword c (set_input u x) s) (SetPassword c u s).
  Proof. unfold SetPassword. change (no_host_or_file (set_input u x)) with (no_host_or_file u). destruct (no_host_or_file u); reflexivity. Qed.
  Lemma reencode_i u x : orel (reencode_params p (set_input u x)) (reencode_params p u).
  Proof.
    unfold reencode_params, ensure_sp. cbn [u_sp u_query set_input].
    destruct (u_sp u) as [l|].
    - match goal with |- orel (if ?b then _ else _) _ => destruct b end; [|exact I]. unfold sp_update. cbv zeta.
      cbn [u_query set_sp set_input]. match goal with |- context [if ?b then _ else _] => destruct b end; reflexivity.
    - match goal with |- orel (if ?b then _ else _) _ => destruct b end; [|exact I]. unfold sp_update. cbv zeta.
      cbn [u_query set_sp set_input]. match goal with |- context [if ?b then _ else _] => destruct b end; reflexivity.
  Qed.
  Lemma sort_i u x : eqi (sort_block p (set_input u x)) (sort_block p u).
  Proof.
    unfold sort_block, ensure_sp. cbn [u_sp u_query set_input].
    destruct (p_sortQuery p); [reflexivity| |]; destruct (u_sp u); cbn [fst snd]; unfold sp_update; cbv zeta;
      cbn [u_query set_sp set_input]; match goal with |- context [if ?b then _ else _] => destruct b end; reflexivity.
  Qed.

  (* from [set_input u x] to any record equal up to the input *)
  Ltac lift L := let a := fresh "a" in let b := fresh "b" in let H := fresh "H" in
    intros a b H; rewrite (eqi_ex a b H); apply L.

  Theorem Canonicalize_eqi u1 u2 : eqi u1 u2 -> orel (Canonicalize idna_raw p u1) (Canonicalize idna_raw p u2).
  Proof.
    intros H. rewrite !CanonTotal.Canonicalize_blocks. apply orel_bind.
    - rewrite (eqi_ex u1 u2 H). generalize (u_input u1). intros x. clear u1 H. rename u2 into u.
      unfold CanonTotal.rep_block. destruct (p_repeated p); [|apply eqi_input].
      apply orel_bind.
      { change (Hostname (set_input u x)) with (Hostname u). change (IsIPv6 (set_input u x)) with (IsIPv6 u).
        destruct (negb (is_nil (Hostname u)) && negb (IsIPv6 u)); [|apply eqi_input].
        destruct (decodeEncode (Hostname u) pes_HostDecode); [|exact I]. cbn [bind]. apply SetHostname_i. }
      intros a b Hab. rewrite (eqi_ex a b Hab). change (Pathname (set_input b (u_input a))) with (Pathname b).
      destruct (Pathname b) as [pn|]; [|exact I]. cbn [bind]. apply orel_bind.
      { destruct (negb (is_nil pn)); [|apply eqi_input]. destruct (decodeEncode pn pes_LaxPath); [|exact I]. cbn [bind].
        apply SetPathname_i. }
      clear a b Hab. intros a b Hab. apply orel_bind.
      { rewrite (eqi_ex a b Hab). change (Search (set_input b (u_input a))) with (Search b).
        destruct (negb (is_nil (Search b))); [|apply eqi_input]. apply orel_bind; [apply reencode_i|].
        intros a' b' Hab'. rewrite (eqi_ex a' b' Hab'). change (Search (set_input b' (u_input a'))) with (Search b').
        destruct (negb (is_nil (Search b'))); [|apply eqi_input]. apply orel_bind; [apply SetSearch_i|]. lift reencode_i. }
      clear a b Hab. intros a b Hab. rewrite (eqi_ex a b Hab). change (Hash (set_input b (u_input a))) with (Hash b).
      destruct (negb (is_nil (Hash b))); [|apply SetHash_i].
      destruct (decodeEncode (trim_prefix1 35 (Hash b)) pes_Host); [|exact I]. cbn [bind]. apply SetHash_i.
    - clear u1 u2 H. intros a b Hab. unfold CanonTotal.tail_block. apply orel_bind.
      { rewrite (eqi_ex a b Hab). destruct (p_removePort p); [apply SetPort_i|apply eqi_input]. }
      clear a b Hab. intros a b Hab. apply orel_bind.
      { rewrite (eqi_ex a b Hab). destruct (p_removeUserInfo p); [|apply eqi_input].
        apply orel_bind; [apply SetUsername_i|]. lift SetPassword_i. }
      clear a b Hab. intros a b Hab. apply orel_bind.
      { rewrite (eqi_ex a b Hab). destruct (p_removeFragment p); [apply SetHash_i|apply eqi_input]. }
      clear a b Hab. intros a b Hab. rewrite (eqi_ex a b Hab). cbn [orel]. apply sort_i.
  Qed.
End CanonInput.
Print Assumptions Canonicalize_eqi.

(* ------------------------------------------------------------------------------------------ *)
(* the same for every canonicalization profile                                                  *)
(* ------------------------------------------------------------------------------------------ *)
Definition same_cres (r1 r2 : cres) : Prop :=
  match r1, r2 with
  | CUrl a, CUrl b => eqi a b
  | CErr _, CErr _ => True
  | CPanic, CPanic => True
  | _, _ => False
  end.

Section Profile.
  Variable idna_raw : str -> str * bool.
  Variable p : profile.
  Notation c := (p_cfg p).
  Hypothesis R : CfgRT c.
  Hypothesis Hskip : c_skipTrailSlash c = false.

  (* the two normal forms differ in the input text only *)
  Lemma nf_eqi k1 k2 h : equiv_comps idna_raw c k1 k2 -> eqi (nf c k1 h) (nf c k2 h).
  Proof using.
    intros [E1 [E2 [E3 [E4 [E5 [E6 [E7 E8]]]]]]]. unfold eqi, nf, set_input.
    cbn [u_scheme u_username u_password u_host u_port u_decodedPort u_path u_opaque u_query u_fragment u_verrs u_sp].
    rewrite <- E1, <- E2, <- E3, <- E5, <- E6, <- E7, <- E8. reflexivity.
  Qed.

  (* the parse results of two equivalent spellings are equal up to the input text *)
  Theorem spelling_eqi k1 k2 h :
    comps_ok c k1 = true -> comps_ok c k2 = true -> equiv_comps idna_raw c k1 k2 ->
    host_val idna_raw c (k_host k1) = Some h ->
    Parse idna_raw c (text_of k1) = PUrl (nf c k1 h) /\ Parse idna_raw c (text_of k2) = PUrl (nf c k2 h) /\
    eqi (nf c k1 h) (nf c k2 h).
  Proof using All.
    intros H1 H2 He Hh. pose proof He as [_ [_ [_ [E4 _]]]].
    assert (G : forall k, comps_ok c k = true -> host_val idna_raw c (k_host k) = Some h ->
                          Parse idna_raw c (text_of k) = PUrl (nf c k h)).
    { intros k Hk Hv. rewrite (normal_form idna_raw c R Hskip k Hk). unfold host_val in Hv.
      rewrite (parseHost_val_indep idna_raw c (R_fail c R) (k_host k) false (empty_url []) (pre_host c k)) in Hv.
      destruct (parseHost idna_raw c (pre_host c k) (k_host k) false); cbn [val] in Hv; [|discriminate Hv].
      injection Hv as ->. reflexivity. }
    split; [apply (G k1 H1 Hh)|]. split; [apply (G k2 H2); rewrite <- E4; exact Hh|]. apply nf_eqi. exact He.
  Qed.

  (* ... hence their canonical forms, for every profile *)
  Theorem spelling_profile k1 k2 h :
    comps_ok c k1 = true -> comps_ok c k2 = true -> equiv_comps idna_raw c k1 k2 ->
    host_val idna_raw c (k_host k1) = Some h ->
    same_cres (ProfileParse idna_raw p (text_of k1)) (ProfileParse idna_raw p (text_of k2)).
  Proof using All.
    intros H1 H2 He Hh. destruct (spelling_eqi k1 k2 h H1 H2 He Hh) as [P1 [P2 Hq]].
    unfold ProfileParse, parse_retry. rewrite P1, P2. unfold canon_of.
    pose proof (Canonicalize_eqi idna_raw p _ _ Hq) as Hc.
    destruct (Canonicalize idna_raw p (nf c k1 h)), (Canonicalize idna_raw p (nf c k2 h)); cbn [orel] in Hc; try contradiction;
      cbn [same_cres]; [exact Hc|exact I].
  Qed.

  Corollary spelling_profile_href k1 k2 h a b :
    comps_ok c k1 = true -> comps_ok c k2 = true -> equiv_comps idna_raw c k1 k2 ->
    host_val idna_raw c (k_host k1) = Some h ->
    ProfileParse idna_raw p (text_of k1) = CUrl a -> ProfileParse idna_raw p (text_of k2) = CUrl b ->
    same_components a b /\ Href a false = Href b false.
  Proof using All.
    intros H1 H2 He Hh Pa Pb. pose proof (spelling_profile k1 k2 h H1 H2 He Hh) as Hs. rewrite Pa, Pb in Hs. cbn [same_cres] in Hs.
    pose proof (eqi_same a b Hs) as Hsc. split; [exact Hsc|].
    destruct Hsc as [S1 [S2 [S3 [S4 [S5 [S6 [S7 [S8 [S9 S10]]]]]]]]].
    unfold Href, Pathname. rewrite S1, S2, S3, S4, S5, S7, S8, S9, S10. reflexivity.
  Qed.
End Profile.

Print Assumptions spelling_profile.
Print Assumptions spelling_profile_href.

(* ------------------------------------------------------------------------------------------ *)
(* the premises are met: "HTTP://U:p@Example.COM:080/a/./b/x/%2E./c?q=1#f" and                   *)
(*                        "http://U:p@example.com/a/b/c?q=1#f"                                  *)
(* ------------------------------------------------------------------------------------------ *)
Definition ex_k1 : comps :=
  {| k_sch := [72;84;84;80]; k_user := [85]; k_pass := [112];
     k_host := [69;120;97;109;112;108;101;46;67;79;77]; k_port := Some [48;56;48];
     k_segs := [[97]; [46]; [98]; [120]; [37;50;69;46]; [99]]; k_query := Some [113;61;49]; k_frag := Some [102] |}.
Definition ex_k2 : comps :=
  {| k_sch := [104;116;116;112]; k_user := [85]; k_pass := [112];
     k_host := [101;120;97;109;112;108;101;46;99;111;109]; k_port := None;
     k_segs := [[97]; [98]; [99]]; k_query := Some [113;61;49]; k_frag := Some [102] |}.

Example spelling_ex :
  cfg_rt default_cfg = true /\ c_skipTrailSlash default_cfg = false /\
  comps_ok default_cfg ex_k1 = true /\ comps_ok default_cfg ex_k2 = true /\ equiv_comps idna_toy default_cfg ex_k1 ex_k2 /\
  host_val idna_toy default_cfg (k_host ex_k1) = Some [101;120;97;109;112;108;101;46;99;111;109] /\
  text_of ex_k1 = [72;84;84;80;58;47;47;85;58;112;64;69;120;97;109;112;108;101;46;67;79;77;58;48;56;48;47;97;47;46;47;98;47;120;47;37;50;69;46;47;99;63;113;61;49;35;102] /\
  text_of ex_k2 = [104;116;116;112;58;47;47;85;58;112;64;101;120;97;109;112;108;101;46;99;111;109;47;97;47;98;47;99;63;113;61;49;35;102].
Proof.
  split; [vm_compute; reflexivity|]. split; [reflexivity|]. split; [vm_compute; reflexivity|]. split; [vm_compute; reflexivity|].
  split; [|split; [vm_compute; reflexivity|split; reflexivity]].
  unfold equiv_comps. repeat split; vm_compute; reflexivity.
Qed.

(* the theorem applied: the two texts parse to the same components, under every predefined profile that keeps the
   default parser options *)
Example spelling_ex_applied :
  same_result (Parse idna_toy default_cfg (text_of ex_k1)) (Parse idna_toy default_cfg (text_of ex_k2)) /\
  same_cres (ProfileParse idna_toy prof_WhatWg (text_of ex_k1)) (ProfileParse idna_toy prof_WhatWg (text_of ex_k2)).
Proof.
  destruct spelling_ex as [Hc [Hs [K1 [K2 [He [Hh _]]]]]]. pose proof (cfg_rt_sound default_cfg Hc) as R. split.
  - apply (spelling idna_toy default_cfg R Hs ex_k1 ex_k2 K1 K2 He).
  - apply (spelling_profile idna_toy prof_WhatWg R Hs ex_k1 ex_k2 _ K1 K2 He Hh).
Qed.
