(* IPv6 hosts: a serialized IPv6 host "[...]" parses to itself (uses Proofs/Utf8Proofs.v: runes_ascii). *)
From Verif Require Import Lib.Base Lib.Utf8 Lib.GoStr Model.Cfg Gen.Tables Model.Sets Model.Percent Model.Url Model.Host.
From Verif Require Gen.Options Spec.IPv6.
From Verif Require Import Proofs.Utf8Proofs Proofs.IPv6Parse Proofs.IPv6Ser Proofs.IPv6RoundTrip.
From Coq Require Import Lia ZifyBool ZifyN ZifyNat.

Lemma hex_fuel_ascii : forall f n, Forall (fun b => b < 128) (IPv6.hex_fuel f n).
Proof.
  induction f as [|f IH]; intros n; [constructor|].
  cbn [IPv6.hex_fuel]. cbv zeta.
  assert (Hd : n mod 16 < 16) by (apply N.mod_lt; lia).
  assert (Hch : (if n mod 16 <? 10 then 48 + n mod 16 else 87 + n mod 16) < 128).
  { destruct (n mod 16 <? 10) eqn:E; lia. }
  destruct (n <? 16).
  - constructor; [exact Hch|constructor].
  - apply Forall_app. split; [apply IH|]. constructor; [exact Hch|constructor].
Qed.

Lemma ser_loop_ascii : forall l idx compress ignore0,
  Forall (fun b => b < 128) (IPv6.ser_loop l idx compress ignore0).
Proof.
  induction l as [|x l IH]; intros idx compress ignore0; [constructor|].
  cbn [IPv6.ser_loop].
  destruct (ignore0 && (x =? 0)); [apply IH|].
  destruct (match compress with Some ci => Nat.eqb ci idx | None => false end).
  - apply Forall_app. split; [|apply IH].
    destruct (Nat.eqb idx 0); repeat constructor.
  - apply Forall_app. split; [apply hex_fuel_ascii|].
    apply Forall_app. split; [|apply IH].
    destruct (Nat.eqb idx 7); repeat constructor.
Qed.

Theorem parseIPv6_IPv6String : forall c u a, length a = 8%nat -> Forall (fun p => p < 65536) a ->
  parseIPv6 c u (IPv6String a) = Ok u ([91] ++ IPv6String a ++ [93]).
Proof.
  intros c u a H F. unfold parseIPv6.
  rewrite runes_ascii.
  - rewrite (ipv6_roundtrip_model a H F). reflexivity.
  - rewrite (IPv6String_agree a H). apply ser_loop_ascii.
Qed.
Print Assumptions parseIPv6_IPv6String.

(* the host parser maps a serialized IPv6 host to itself *)
Theorem parseHost_ipv6_idempotent : forall idna c u a isNotSpecial,
  c_pre c = HF_none -> length a = 8%nat -> Forall (fun p => p < 65536) a ->
  parseHost idna c u ([91] ++ IPv6String a ++ [93]) isNotSpecial = Ok u ([91] ++ IPv6String a ++ [93]).
Proof.
  intros idna c u a isNotSpecial Hpre H F.
  change ([91] ++ IPv6String a ++ [93]) with (91 :: IPv6String a ++ [93]).
  rewrite parseHost_brackets_closed by exact Hpre.
  apply parseIPv6_IPv6String; assumption.
Qed.
Print Assumptions parseHost_ipv6_idempotent.

Example parseHost_ipv6_idempotent_ex :
  c_pre Options.default_cfg = HF_none /\ length [1;0;0;2;0;0;0;65535] = 8%nat
  /\ Forall (fun p => p < 65536) [1;0;0;2;0;0;0;65535].
Proof. split; [reflexivity|]. split; [reflexivity|]. repeat constructor. Qed.
