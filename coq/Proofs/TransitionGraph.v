(* The transition graph of the model machine (Model/Machine.v `step`), as a literal edge list, with
   - step_succ: every continuing step stays in its state or follows an edge of the list,
   - model_edges_realised: every edge of the list is taken by some concrete step (the list is minimal),
   - step_base_insensitive: outside model_base_states the step does not look at the base,
   - model_base_states_needed: in every state of model_base_states some step does depend on the base,
   - reach / closure lemmas used by SelfResolve.v. *)
From Verif Require Import Lib.Base Lib.Utf8 Lib.GoStr Model.Cfg Gen.Tables Model.Sets Model.Percent Model.Url Model.Host Model.Machine.
From Coq Require Import Lia.

Local Open Scope N_scope.

(* ------------------------------------------------------------------------------------------ *)
(* 1. The edge list                                                                            *)
(* ------------------------------------------------------------------------------------------ *)

Definition model_edges : list (state * state) :=
  [ (SchemeStart, Scheme); (SchemeStart, NoScheme);
    (Scheme, File); (Scheme, SpecialRelativeOrAuthority); (Scheme, SpecialAuthoritySlashes);
    (Scheme, PathOrAuthority); (Scheme, OpaquePath); (Scheme, NoScheme);
    (NoScheme, FragmentSt); (NoScheme, Relative); (NoScheme, File);
    (SpecialRelativeOrAuthority, SpecialAuthorityIgnoreSlashes); (SpecialRelativeOrAuthority, Relative);
    (PathOrAuthority, Authority); (PathOrAuthority, PathSt);
    (Relative, RelativeSlash); (Relative, QuerySt); (Relative, FragmentSt); (Relative, PathSt);
    (RelativeSlash, SpecialAuthorityIgnoreSlashes); (RelativeSlash, Authority); (RelativeSlash, PathSt);
    (SpecialAuthoritySlashes, SpecialAuthorityIgnoreSlashes);
    (SpecialAuthorityIgnoreSlashes, Authority);
    (Authority, HostSt);
    (HostSt, FileHost); (HostSt, PortSt); (HostSt, PathStart);
    (HostnameSt, FileHost); (HostnameSt, PortSt); (HostnameSt, PathStart);
    (PortSt, PathStart);
    (File, FileSlash); (File, QuerySt); (File, FragmentSt); (File, PathSt);
    (FileSlash, FileHost); (FileSlash, PathSt);
    (FileHost, PathSt); (FileHost, PathStart);
    (PathStart, PathSt); (PathStart, QuerySt); (PathStart, FragmentSt);
    (PathSt, QuerySt); (PathSt, FragmentSt);
    (OpaquePath, QuerySt); (OpaquePath, FragmentSt);
    (QuerySt, FragmentSt) ].

Lemma state_eqb_eq a b : state_eqb a b = true <-> a = b.
Proof. split; [destruct a, b; cbn; congruence | intros ->; destruct b; reflexivity]. Qed.

Definition is_edge (s s' : state) : bool :=
  existsb (fun e => state_eqb (fst e) s && state_eqb (snd e) s') model_edges.

Lemma is_edge_In s s' : is_edge s s' = true <-> In (s, s') model_edges.
Proof.
  unfold is_edge. rewrite existsb_exists. split.
  - intros [[a b] [Hin H]]. cbn [fst snd] in H. apply andb_true_iff in H. destruct H as [Ha Hb].
    apply state_eqb_eq in Ha. apply state_eqb_eq in Hb. subst. exact Hin.
  - intros Hin. exists (s, s'). split; [exact Hin|]. cbn [fst snd].
    apply andb_true_iff. split; apply state_eqb_eq; reflexivity.
Qed.

(* the list has no self loops and no duplicates *)
Lemma model_edges_irreflexive : forall s, ~ In (s, s) model_edges.
Proof. intros s H. apply is_edge_In in H. destruct s; vm_compute in H; discriminate. Qed.

Definition edge_eqb (e f : state * state) : bool := state_eqb (fst e) (fst f) && state_eqb (snd e) (snd f).
Fixpoint nodupb (l : list (state * state)) : bool :=
  match l with [] => true | e :: l' => negb (existsb (edge_eqb e) l') && nodupb l' end.
Lemma model_edges_nodup : nodupb model_edges = true /\ length model_edges = 48%nat.
Proof. vm_compute. split; reflexivity. Qed.

(* ------------------------------------------------------------------------------------------ *)
(* 2. step_succ                                                                                *)
(* ------------------------------------------------------------------------------------------ *)

(* what a step from state s guarantees *)
Definition E (s : state) (o : outcome) : Prop :=
  match o with
  | Cont m' => m_state m' = s \/ is_edge s (m_state m') = true
  | _ => True
  end.

Section Succ.
  Variable idna_raw : str -> str * bool.
  Variable c : cfg.
  Variable inp : list rune.
  Variable base : option url.
  Variable override : option state.

  Notation stepf := (step idna_raw c inp base override).

  Lemma E_mherr s u t f k : (forall u', E s (k u')) -> E s (mherr c u t f k).
  Proof.
    intros H. unfold mherr. destruct (handleError c u t f) as [u' [e|]]; [exact I | apply H].
  Qed.

  Ltac walk :=
    repeat first
      [ progress cbv beta
      | match goal with
        | |- E _ (mherr _ _ _ _ _) => apply E_mherr; intros ?u'
        | |- E _ ((if ?b then _ else _) _) => destruct b
        | |- E _ (if ?b then _ else _) => destruct b
        | |- E _ (match ?x with _ => _ end) => destruct x
        end ].

  Ltac fin :=
    try exact I;
    unfold E, mk; cbn [m_state];
    first [ left; reflexivity | right; vm_compute; reflexivity ].

  Ltac start m Hst :=
    destruct m as [st p e buf aF brF pwF u]; cbn [m_state] in Hst; subst st;
    cbv beta iota zeta delta [step mk m_state m_ptr m_eof m_buf m_at m_br m_pw m_url].

  Lemma succ_SchemeStart m : m_state m = SchemeStart -> E SchemeStart (stepf m).
  Proof. intros Hst. start m Hst; walk; fin. Qed.
  Lemma succ_Scheme m : m_state m = Scheme -> E Scheme (stepf m).
  Proof. intros Hst. start m Hst; walk; fin. Qed.
  Lemma succ_NoScheme m : m_state m = NoScheme -> E NoScheme (stepf m).
  Proof. intros Hst. start m Hst; walk; fin. Qed.
  Lemma succ_OpaquePath m : m_state m = OpaquePath -> E OpaquePath (stepf m).
  Proof. intros Hst. start m Hst; walk; fin. Qed.
  Lemma succ_SpecialRelativeOrAuthority m :
    m_state m = SpecialRelativeOrAuthority -> E SpecialRelativeOrAuthority (stepf m).
  Proof. intros Hst. start m Hst; walk; fin. Qed.
  Lemma succ_SpecialAuthoritySlashes m :
    m_state m = SpecialAuthoritySlashes -> E SpecialAuthoritySlashes (stepf m).
  Proof. intros Hst. start m Hst; walk; fin. Qed.
  Lemma succ_SpecialAuthorityIgnoreSlashes m :
    m_state m = SpecialAuthorityIgnoreSlashes -> E SpecialAuthorityIgnoreSlashes (stepf m).
  Proof. intros Hst. start m Hst; walk; fin. Qed.
  Lemma succ_PathOrAuthority m : m_state m = PathOrAuthority -> E PathOrAuthority (stepf m).
  Proof. intros Hst. start m Hst; walk; fin. Qed.
  Lemma succ_Authority m : m_state m = Authority -> E Authority (stepf m).
  Proof. intros Hst. start m Hst; walk; fin. Qed.
  Lemma succ_HostSt m : m_state m = HostSt -> E HostSt (stepf m).
  Proof. intros Hst. start m Hst; walk; fin. Qed.
  Lemma succ_HostnameSt m : m_state m = HostnameSt -> E HostnameSt (stepf m).
  Proof. intros Hst. start m Hst; walk; fin. Qed.
  Lemma succ_File m : m_state m = File -> E File (stepf m).
  Proof. intros Hst. start m Hst; walk; fin. Qed.
  Lemma succ_FileHost m : m_state m = FileHost -> E FileHost (stepf m).
  Proof. intros Hst. start m Hst; walk; fin. Qed.
  Lemma succ_FileSlash m : m_state m = FileSlash -> E FileSlash (stepf m).
  Proof. intros Hst. start m Hst; walk; fin. Qed.
  Lemma succ_PortSt m : m_state m = PortSt -> E PortSt (stepf m).
  Proof. intros Hst. start m Hst; walk; fin. Qed.
  Lemma succ_PathSt m : m_state m = PathSt -> E PathSt (stepf m).
  Proof. intros Hst. start m Hst; walk; fin. Qed.
  Lemma succ_PathStart m : m_state m = PathStart -> E PathStart (stepf m).
  Proof. intros Hst. start m Hst; walk; fin. Qed.
  Lemma succ_QuerySt m : m_state m = QuerySt -> E QuerySt (stepf m).
  Proof. intros Hst. start m Hst; walk; fin. Qed.
  Lemma succ_FragmentSt m : m_state m = FragmentSt -> E FragmentSt (stepf m).
  Proof. intros Hst. start m Hst; walk; fin. Qed.
  Lemma succ_Relative m : m_state m = Relative -> E Relative (stepf m).
  Proof. intros Hst. start m Hst; walk; fin. Qed.
  Lemma succ_RelativeSlash m : m_state m = RelativeSlash -> E RelativeSlash (stepf m).
  Proof. intros Hst. start m Hst; walk; fin. Qed.

  Lemma step_E m : E (m_state m) (stepf m).
  Proof.
    destruct (m_state m) eqn:Est;
      eauto using succ_SchemeStart, succ_Scheme, succ_NoScheme, succ_OpaquePath, succ_SpecialRelativeOrAuthority,
        succ_SpecialAuthoritySlashes, succ_SpecialAuthorityIgnoreSlashes, succ_PathOrAuthority, succ_Authority,
        succ_HostSt, succ_HostnameSt, succ_File, succ_FileHost, succ_FileSlash, succ_PortSt, succ_PathSt,
        succ_PathStart, succ_QuerySt, succ_FragmentSt, succ_Relative, succ_RelativeSlash.
  Qed.
End Succ.

Theorem step_succ : forall idna_raw c inp base ov m m',
  step idna_raw c inp base ov m = Cont m' ->
  m_state m' = m_state m \/ In (m_state m, m_state m') model_edges.
Proof.
  intros idna_raw c inp base ov m m' Hs.
  pose proof (step_E idna_raw c inp base ov m) as H. rewrite Hs in H. cbn [E] in H.
  destruct H as [H|H]; [left; exact H | right; apply is_edge_In; exact H].
Qed.
Print Assumptions step_succ.

(* ------------------------------------------------------------------------------------------ *)
(* 3. Every edge of the list is realised by a concrete step (so model_edges cannot be smaller)  *)
(* ------------------------------------------------------------------------------------------ *)

(* the list of (state before, state after) of the iterations of `run` *)
Fixpoint trace (idna_raw : str -> str * bool) (c : cfg) (inp : list rune) (base : option url) (ov : option state)
    (fuel : nat) (m : mstate) : list (state * state) :=
  match fuel with
  | O => []
  | Datatypes.S f =>
      match step idna_raw c inp base ov m with
      | Cont m' => (m_state m, m_state m') :: (if m_eof m' then [] else trace idna_raw c inp base ov f m')
      | _ => []
      end
  end.

Definition realised (s s' : state) : Prop :=
  exists idna_raw c inp base ov m m',
    step idna_raw c inp base ov m = Cont m' /\ m_state m = s /\ m_state m' = s'.

Lemma trace_sound idna_raw c inp base ov : forall fuel m s s',
  In (s, s') (trace idna_raw c inp base ov fuel m) -> realised s s'.
Proof.
  induction fuel as [|f IH]; intros m s s' H; [destruct H|].
  cbn [trace] in H. destruct (step idna_raw c inp base ov m) as [m'| | | |] eqn:Es; try destruct H.
  - injection H as H1 H2. exists idna_raw, c, inp, base, ov, m, m'. auto.
  - destruct (m_eof m'); [destruct H|]. eapply IH; eassumption.
Qed.

From Verif Require Import Gen.Options Model.Api.
From Coq Require Import String.
Local Open Scope string_scope.

Definition tg_idna (s : str) : str * bool := (s, false).

(* one concrete run: input, base (as a string to parse), state override, start state, start record *)
Record tg_run := { tr_inp : string; tr_base : option string; tr_ov : option state; tr_st : state; tr_url : url }.

Definition tg_base (b : option string) : option url :=
  match b with
  | None => None
  | Some s => match Parse tg_idna default_cfg (bs s) with PUrl u => Some u | _ => None end
  end.

Definition tg_trace (r : tg_run) : list (state * state) :=
  let inp := decode (bs (tr_inp r)) in
  trace tg_idna default_cfg inp (tg_base (tr_base r)) (tr_ov r) (fuel_of (List.length inp))
    (mk (tr_st r) (-1)%Z false [] false false false (tr_url r)).

Definition e0 : url := empty_url [].
Definition efile : url := set_scheme (empty_url []) (bs "file").
Definition plain (i : string) (b : option string) : tg_run :=
  {| tr_inp := i; tr_base := b; tr_ov := None; tr_st := SchemeStart; tr_url := e0 |}.

Definition tg_runs : list tg_run :=
  [ plain "http://u:p@h:8/p?q#f" None;
    plain "http://h/p#f" None;
    plain "foo://h?q" None;
    plain "foo://h#f" None;
    plain "foo:/p" None;
    plain "foo:op?q#f" None;
    plain "foo:op#f" None;
    plain "file:///p" None;
    plain "file://c:/p" None;
    plain "file:/p" None;
    plain "file:p" None;
    plain "file:?q" (Some "file:///a/b");
    plain "file:#f" (Some "file:///a/b");
    plain "x" (Some "file:///a/b");
    plain "x" (Some "http://h/a/b");
    plain "?q" (Some "http://h/a/b");
    plain "#f" (Some "http://h/a/b");
    plain "/x" (Some "http://h/a/b");
    plain "//g" (Some "http://h/a/b");
    plain "//g" (Some "foo://h/a/b");
    plain "ab/" (Some "http://h/a/b");
    plain "#f" (Some "foo:op");
    plain "http://g" (Some "http://h/a/b");
    plain "http:x" (Some "http://h/a/b");
    {| tr_inp := "h"; tr_base := None; tr_ov := Some HostSt; tr_st := HostSt; tr_url := efile |};
    {| tr_inp := "h"; tr_base := None; tr_ov := Some HostnameSt; tr_st := HostnameSt; tr_url := efile |};
    {| tr_inp := "h:8/"; tr_base := None; tr_ov := None; tr_st := HostnameSt; tr_url := e0 |};
    {| tr_inp := "h/"; tr_base := None; tr_ov := None; tr_st := HostnameSt; tr_url := e0 |} ].

Definition tg_seen : list (state * state) := flat_map tg_trace tg_runs.

Lemma tg_seen_covers :
  forallb (fun e => existsb (edge_eqb e) tg_seen) model_edges = true.
Proof. vm_compute. reflexivity. Qed.

Theorem model_edges_realised : forall s s', In (s, s') model_edges -> realised s s'.
Proof.
  intros s s' Hin.
  pose proof tg_seen_covers as H. rewrite forallb_forall in H. specialize (H _ Hin).
  apply existsb_exists in H. destruct H as [[a b] [Hseen Heq]].
  unfold edge_eqb in Heq. cbn [fst snd] in Heq. apply andb_true_iff in Heq. destruct Heq as [Ha Hb].
  apply state_eqb_eq in Ha. apply state_eqb_eq in Hb. subst a b.
  unfold tg_seen in Hseen. apply in_flat_map in Hseen. destruct Hseen as [r [_ Hr]].
  unfold tg_trace in Hr. eapply trace_sound. exact Hr.
Qed.
Print Assumptions model_edges_realised.

(* step_succ and model_edges_realised together: model_edges is exactly the set of state changes of `step` *)
Corollary model_edges_exact : forall s s',
  In (s, s') model_edges <-> (s <> s' /\ realised s s').
Proof.
  intros s s'. split.
  - intros Hin. split; [|apply model_edges_realised; exact Hin].
    intros ->. exact (model_edges_irreflexive _ Hin).
  - intros [Hne (idna_raw & c & inp & base & ov & m & m' & Hs & H1 & H2)].
    destruct (step_succ _ _ _ _ _ _ _ Hs) as [H|H]; [congruence | rewrite H1, H2 in H; exact H].
Qed.
Print Assumptions model_edges_exact.

(* ------------------------------------------------------------------------------------------ *)
(* 4. The states whose step consults the base                                                  *)
(* ------------------------------------------------------------------------------------------ *)

Definition model_base_states : list state := [Scheme; NoScheme; Relative; RelativeSlash; File; FileSlash].

Definition is_base_state (s : state) : bool := existsb (state_eqb s) model_base_states.

Lemma is_base_state_In s : is_base_state s = true <-> In s model_base_states.
Proof.
  unfold is_base_state. rewrite existsb_exists. split.
  - intros [x [Hin H]]. apply state_eqb_eq in H. subst. exact Hin.
  - intros Hin. exists s. split; [exact Hin | apply state_eqb_eq; reflexivity].
Qed.

Theorem step_base_insensitive : forall idna_raw c inp b1 b2 ov m,
  ~ In (m_state m) model_base_states -> step idna_raw c inp b1 ov m = step idna_raw c inp b2 ov m.
Proof.
  intros idna_raw c inp b1 b2 ov m H.
  destruct m as [st p e buf aF brF pwF u]. cbn [m_state] in H.
  destruct st; try (exfalso; apply H; cbn; tauto);
    cbv beta iota zeta delta [step mk m_state m_ptr m_eof m_buf m_at m_br m_pw m_url]; reflexivity.
Qed.
Print Assumptions step_base_insensitive.

(* state Scheme consults the base only at the colon *)
Theorem step_base_insensitive_Scheme : forall idna_raw c inp b1 b2 ov m,
  m_state m = Scheme ->
  (let p := (m_ptr m + 1)%Z in
   (if (n_inp inp <=? p)%Z then rune_error else cp_at inp p) <> 58) ->
  step idna_raw c inp b1 ov m = step idna_raw c inp b2 ov m.
Proof.
  intros idna_raw c inp b1 b2 ov m Hst Hr.
  destruct m as [st p e buf aF brF pwF u]. cbn [m_state m_ptr] in Hst, Hr. subst st.
  cbv beta iota zeta delta [step mk m_state m_ptr m_eof m_buf m_at m_br m_pw m_url].
  cbv zeta in Hr.
  destruct (N.eqb (if (n_inp inp <=? p + 1)%Z then rune_error else cp_at inp (p + 1)) 58) eqn:E58.
  - apply N.eqb_eq in E58. contradiction.
  - reflexivity.
Qed.
Print Assumptions step_base_insensitive_Scheme.

(* the list is minimal: in each of its states some step gives different outcomes for two bases *)
Definition out_obs (o : outcome) : option (state * option str) :=
  match o with Cont m => Some (m_state m, u_host (m_url m)) | _ => None end.

Definition tg_m (st : state) (u : url) : mstate := mk st (-1)%Z false [] false false false u.

Theorem model_base_states_needed : forall s, In s model_base_states ->
  exists idna_raw c inp b1 b2 ov m,
    m_state m = s /\ step idna_raw c inp b1 ov m <> step idna_raw c inp b2 ov m.
Proof.
  intros s H. cbn [In model_base_states] in H.
  destruct H as [<-|[<-|[<-|[<-|[<-|[<-|[]]]]]]].
  - exists tg_idna, default_cfg, (decode (bs ":")), None, (tg_base (Some "http://h/a")), None,
      (mk Scheme (-1)%Z false (bs "http") false false false e0).
    split; [reflexivity|]. intro Heq. apply (f_equal out_obs) in Heq. vm_compute in Heq. discriminate.
  - exists tg_idna, default_cfg, (decode (bs "x")), None, (tg_base (Some "http://h/a")), None, (tg_m NoScheme e0).
    split; [reflexivity|]. intro Heq. apply (f_equal out_obs) in Heq. vm_compute in Heq. discriminate.
  - exists tg_idna, default_cfg, (decode (bs "x")), None, (tg_base (Some "http://h/a")), None, (tg_m Relative e0).
    split; [reflexivity|]. intro Heq. apply (f_equal out_obs) in Heq. vm_compute in Heq. discriminate.
  - exists tg_idna, default_cfg, (decode (bs "x")), None, (tg_base (Some "http://h/a")), None, (tg_m RelativeSlash e0).
    split; [reflexivity|]. intro Heq. apply (f_equal out_obs) in Heq. vm_compute in Heq. discriminate.
  - exists tg_idna, default_cfg, (decode (bs "?")), None, (tg_base (Some "file:///a")), None, (tg_m File e0).
    split; [reflexivity|]. intro Heq. apply (f_equal out_obs) in Heq. vm_compute in Heq. discriminate.
  - exists tg_idna, default_cfg, (decode (bs "x")), None, (tg_base (Some "file://h/a")), None, (tg_m FileSlash efile).
    split; [reflexivity|]. intro Heq. apply (f_equal out_obs) in Heq. vm_compute in Heq. discriminate.
Qed.
Print Assumptions model_base_states_needed.

(* ------------------------------------------------------------------------------------------ *)
(* 5. Runs inside an edge-closed set of base-free states do not depend on the base             *)
(* ------------------------------------------------------------------------------------------ *)

Definition in_states (s : state) (T : list state) : bool := existsb (state_eqb s) T.

Lemma in_states_In s T : in_states s T = true <-> In s T.
Proof.
  unfold in_states. rewrite existsb_exists. split.
  - intros [x [Hin H]]. apply state_eqb_eq in H. subst. exact Hin.
  - intros Hin. exists s. split; [exact Hin | apply state_eqb_eq; reflexivity].
Qed.

(* T is closed under model_edges and contains no state that consults the base *)
Definition base_free_closed (T : list state) : bool :=
  forallb (fun e => negb (in_states (fst e) T) || in_states (snd e) T) model_edges
  && forallb (fun s => negb (is_base_state s)) T.

Lemma base_free_closed_step T : base_free_closed T = true ->
  forall idna_raw c inp base ov m m',
    In (m_state m) T -> step idna_raw c inp base ov m = Cont m' -> In (m_state m') T.
Proof.
  intros HT idna_raw c inp base ov m m' Hin Hs.
  apply andb_true_iff in HT. destruct HT as [Hcl _]. rewrite forallb_forall in Hcl.
  destruct (step_succ _ _ _ _ _ _ _ Hs) as [H|H]; [rewrite H; exact Hin|].
  specialize (Hcl _ H). cbn [fst snd] in Hcl.
  apply in_states_In in Hin. rewrite Hin in Hcl. cbn in Hcl. apply in_states_In. exact Hcl.
Qed.

Lemma base_free_closed_insensitive T : base_free_closed T = true ->
  forall idna_raw c inp b1 b2 ov m,
    In (m_state m) T -> step idna_raw c inp b1 ov m = step idna_raw c inp b2 ov m.
Proof.
  intros HT idna_raw c inp b1 b2 ov m Hin.
  apply andb_true_iff in HT. destruct HT as [_ Hbf]. rewrite forallb_forall in Hbf.
  apply step_base_insensitive. intro Hb. apply is_base_state_In in Hb.
  specialize (Hbf _ Hin). rewrite Hb in Hbf. discriminate.
Qed.

Theorem run_base_insensitive T : base_free_closed T = true ->
  forall idna_raw c inp b1 b2 ov fuel m,
    In (m_state m) T -> run idna_raw c inp b1 ov fuel m = run idna_raw c inp b2 ov fuel m.
Proof.
  intros HT idna_raw c inp b1 b2 ov. induction fuel as [|f IH]; intros m Hin; [reflexivity|].
  cbn [run]. rewrite (base_free_closed_insensitive T HT idna_raw c inp b1 b2 ov m Hin).
  destruct (step idna_raw c inp b2 ov m) as [m'| | | |] eqn:Es; try reflexivity.
  destruct (m_eof m'); [reflexivity|]. apply IH.
  eapply base_free_closed_step; eassumption.
Qed.
Print Assumptions run_base_insensitive.

(* the states reachable from SpecialAuthorityIgnoreSlashes, SpecialAuthoritySlashes, FileHost, PathOrAuthority,
   OpaquePath: everything after the scheme of an absolute URL with "//", or of a non-special one *)
Definition after_scheme_states : list state :=
  [ SpecialAuthoritySlashes; SpecialAuthorityIgnoreSlashes; PathOrAuthority; OpaquePath; Authority; HostSt; HostnameSt;
    FileHost; PortSt; PathStart; PathSt; QuerySt; FragmentSt ].

Lemma after_scheme_states_closed : base_free_closed after_scheme_states = true.
Proof. vm_compute. reflexivity. Qed.

(* the largest such set: all states from which no base state is reachable; SpecialRelativeOrAuthority is not in it
   (it can fall back to Relative), SchemeStart is not (NoScheme) *)
Lemma after_scheme_states_maximal :
  forall s, In s [SchemeStart; SpecialRelativeOrAuthority] ->
    forall T, In s T -> base_free_closed T = false.
Proof.
  intros s Hs T Hin.
  destruct (base_free_closed T) eqn:HT; [exfalso|reflexivity].
  pose proof HT as HT'. apply andb_true_iff in HT'. destruct HT' as [Hcl Hbf].
  rewrite forallb_forall in Hcl, Hbf.
  assert (Hstep : forall a b, In (a, b) model_edges -> In a T -> In b T).
  { intros a b Hab Ha. specialize (Hcl _ Hab). cbn [fst snd] in Hcl. apply in_states_In in Ha.
    rewrite Ha in Hcl. apply in_states_In. exact Hcl. }
  assert (Hno : forall a, In a T -> is_base_state a = false).
  { intros a Ha. specialize (Hbf _ Ha). destruct (is_base_state a); [discriminate|reflexivity]. }
  cbn [In] in Hs. destruct Hs as [<-|[<-|[]]].
  - assert (H1 : In NoScheme T) by (apply (Hstep SchemeStart); [apply is_edge_In; reflexivity | exact Hin]).
    apply Hno in H1. discriminate.
  - assert (H1 : In Relative T) by (apply (Hstep SpecialRelativeOrAuthority); [apply is_edge_In; reflexivity | exact Hin]).
    apply Hno in H1. discriminate.
Qed.
