(* Repeated percent-decoding (profiles with p_repeated = true), R1 and the evaluation of the four steps.
   Part 0: facts on the full decoding [rd] and on [decodeEncode];
   Part A: the fragment step and the query step of the canonicalizer are functions of the fully decoded
           fragment / names and values and of the other components (analogues of SpellingDecode.path_step_same);
   Part B: the runs of the machine under a state override (HostnameSt, PathStart, QuerySt, FragmentSt) on
           texts that need no encoding, as explicit functions: SetHostname / SetPathname / SetSearch / SetHash. *)
From Verif Require Import Lib.Base Lib.Utf8 Lib.GoStr Model.Cfg Gen.Tables Gen.Options Model.Sets Model.Percent
  Model.Url Model.Host Model.Machine Model.Api Model.Canon Model.Preds.
From Verif Require Import Proofs.SetsProofs Proofs.Cleaning Proofs.PhaseLemmas Proofs.RecordInv Proofs.SchemeKept
  Proofs.Termination Proofs.CodecProofs Proofs.SearchParamsProofs Proofs.CanonTotal
  Proofs.RoundTripBase Proofs.RoundTripPhases Proofs.RoundTripSpecial Proofs.NormalFormPhases Proofs.NormalForm
  Proofs.SpellingProofs Proofs.SpellingDecode.
From Verif Require Proofs.Utf8Proofs.
From Coq Require Import Lia ZifyBool ZifyN ZifyNat.

Local Arguments N.mul : simpl never.
Local Arguments N.add : simpl never.
Local Arguments N.sub : simpl never.
Local Arguments N.eqb : simpl never.
Local Arguments N.ltb : simpl never.
Local Arguments N.leb : simpl never.

(* ================================================================== *)
(* Part 0  the full decoding                                            *)
(* ================================================================== *)
Lemma rd_fixed s : c_decode (rd s) = rd s.
Proof. destruct (rd_iter s) as [n [_ H]]. exact H. Qed.

Lemma rd_id s : c_decode s = s -> rd s = s.
Proof. intros H. apply (rd_unique s 0%nat); [reflexivity|exact H]. Qed.

Lemma rd_idem s : rd (rd s) = rd s.
Proof. apply rd_id. apply rd_fixed. Qed.

Lemma c_decode_nil_inv s : c_decode s = [] -> s = [].
Proof.
  destruct s as [|b s']; [reflexivity|]. cbn [c_decode]. destruct (b =? 37); [|discriminate].
  destruct s' as [|h [|l s'']]; try discriminate. destruct (isHexDigit h && isHexDigit l); discriminate.
Qed.

Lemma iter_dec_nil_inv n : forall s, iter_dec n s = [] -> s = [].
Proof. induction n as [|n IH]; intros s H; [exact H|]. cbn [iter_dec] in H. apply c_decode_nil_inv. apply IH. exact H. Qed.

Lemma rd_nil_inv s : rd s = [] -> s = [].
Proof. destruct (rd_iter s) as [n [E _]]. rewrite E. apply iter_dec_nil_inv. Qed.

Lemma rd_nil : rd [] = [].
Proof. apply rd_id. reflexivity. Qed.

Lemma de_rd s tr : de s tr = c_percentEncode (rd s) tr.
Proof. reflexivity. Qed.

(* no '%': nothing to decode *)
Lemma c_decode_no37 s : ~ In 37 s -> c_decode s = s.
Proof.
  induction s as [|b s IH]; intros H; [reflexivity|]. cbn [c_decode].
  assert (Hb : (b =? 37) = false) by (destruct (b =? 37) eqn:E; [exfalso; apply H; left; lia|reflexivity]).
  rewrite Hb, IH; [reflexivity|]. intros Hi. apply H. right. exact Hi.
Qed.

(* a byte that [decodeEncode] with the table [tr] leaves alone: not '%' and not in the table *)
Definition litb (tr : peset) (b : N) : bool := negb (ByteShouldBeEncoded (pes_set tr [37]) b).

Lemma litb_not37 tr b : litb tr b = true -> b <> 37.
Proof.
  unfold litb, ByteShouldBeEncoded, RuneShouldBeEncoded, bs_test, pes_set. cbn [bits ab app mem existsb].
  intros H E. subst b. replace (37 =? 37) with true in H by reflexivity. rewrite orb_true_r in H. discriminate H.
Qed.

Lemma lit_no37 tr s : forallb (litb tr) s = true -> ~ In 37 s.
Proof.
  intros H Hi. rewrite forallb_forall in H. exact (litb_not37 tr 37 (H _ Hi) eq_refl).
Qed.

Lemma cpe_id tr s : forallb (litb tr) s = true -> c_percentEncode s tr = s.
Proof.
  induction s as [|b s IH]; intros H; [reflexivity|]. cbn [forallb] in H. apply andb_true_iff in H. destruct H as [Hb Hs].
  unfold c_percentEncode in *. cbn [flat_map]. rewrite IH by exact Hs. unfold percentEncodeByte.
  unfold litb in Hb. apply negb_true_iff in Hb. rewrite Hb. reflexivity.
Qed.

(* a string of such bytes is a fixed point of decodeEncode *)
Lemma de_lit tr s : forallb (litb tr) s = true -> de s tr = s.
Proof. intros H. rewrite de_rd, (rd_id s (c_decode_no37 s (lit_no37 tr s H))). apply cpe_id. exact H. Qed.

(* ... and decodeEncode returns such a string when the full decoding is one *)
Lemma de_of_lit tr s : forallb (litb tr) (rd s) = true -> de s tr = rd s.
Proof. intros H. rewrite de_rd. apply cpe_id. exact H. Qed.

(* ================================================================== *)
(* Part A  R1: the fragment step and the query step                     *)
(* ================================================================== *)
Lemma eqi_sym u1 u2 : eqi u1 u2 -> eqi u2 u1.
Proof. unfold eqi. intros H. symmetry. exact H. Qed.
Lemma eqi_trans u1 u2 u3 : eqi u1 u2 -> eqi u2 u3 -> eqi u1 u3.
Proof. unfold eqi. intros H1 H2. rewrite H1. exact H2. Qed.

Section StepsSame.
  Variable idna_raw : str -> str * bool.
  Variable p : profile.
  Notation c := (p_cfg p).

  Definition frag_step (u : url) : option url :=
    if negb (is_nil (Hash u))
    then bind (decodeEncode (trim_prefix1 35 (Hash u)) pes_Host) (SetHash idna_raw c u) else SetHash idna_raw c u [].

  Definition query_tail_step (u : url) : option url :=
    if negb (is_nil (Search u)) then bind (SetSearch idna_raw c u (Search u)) (reencode_params p) else Some u.

  Definition query_step (u : url) : option url :=
    if negb (is_nil (Search u)) then bind (reencode_params p u) query_tail_step else Some u.

  (* SetHash does not look at the old fragment *)
  Lemma SetHash_frag_indep u1 u2 s :
    eqi (set_fragment u1 None) (set_fragment u2 None) -> orel (SetHash idna_raw c u1 s) (SetHash idna_raw c u2 s).
  Proof.
    intros He. pose proof (eqi_ex _ _ He) as E. cbn [u_input set_fragment] in E. unfold SetHash. destruct s as [|y s].
    - cbv zeta. rewrite E. cbn [u_query set_fragment set_input]. destruct (negb (is_some (u_query u2))); [|reflexivity].
      apply strip_i.
    - change (set_fragment u1 (Some [])) with (set_fragment (set_fragment u1 None) (Some [])). rewrite E.
      change (set_fragment (set_input (set_fragment u2 None) (u_input u1)) (Some []))
        with (set_input (set_fragment u2 (Some [])) (u_input u1)).
      rewrite (BP_input idna_raw p). apply orel_refl.
  Qed.

  (* R1, fragment: same full decoding of the fragments, the same outside the fragment *)
  Theorem frag_step_same u1 u2 :
    eqi (set_fragment u1 None) (set_fragment u2 None) -> rd (Fragment u1) = rd (Fragment u2) ->
    orel (frag_step u1) (frag_step u2).
  Proof.
    intros He Hd. unfold frag_step, Hash. unfold Fragment in Hd.
    destruct (u_fragment u1) as [[|x f]|] eqn:F1; destruct (u_fragment u2) as [[|y g]|] eqn:F2; cbn [is_nil negb];
      try (apply SetHash_frag_indep; exact He);
      try (rewrite rd_nil in Hd; symmetry in Hd; apply rd_nil_inv in Hd; discriminate Hd);
      try (rewrite rd_nil in Hd; apply rd_nil_inv in Hd; discriminate Hd).
    cbn [trim_prefix1]. replace (35 =? 35) with true by reflexivity.
    rewrite !decodeEncode_de, !de_rd, Hd. cbn [bind]. apply SetHash_frag_indep. exact He.
  Qed.

  Lemma eqi_with_query u1 u2 : eqi (set_query u1 None) (set_query u2 None) -> u_query u1 = u_query u2 -> eqi u1 u2.
  Proof.
    unfold eqi. destruct u1, u2. cbn. intros H E. injection H as -> -> -> -> -> -> -> -> -> -> ->. subst. reflexivity.
  Qed.

  Lemma query_tail_step_eqi a b : eqi a b -> orel (query_tail_step a) (query_tail_step b).
  Proof.
    intros Hab. unfold query_tail_step. rewrite (eqi_ex a b Hab). change (Search (set_input b (u_input a))) with (Search b).
    destruct (negb (is_nil (Search b))); [|apply eqi_input]. apply orel_bind; [apply (SetSearch_i idna_raw p)|].
    intros a' b' Hab'. rewrite (eqi_ex a' b' Hab'). apply reencode_i.
  Qed.

  Definition rd2 (nv : str * str) : str * str := (rd (fst nv), rd (snd nv)).

  Lemma reenc_list_rd l1 l2 : map rd2 l1 = map rd2 l2 -> reenc_list l1 = reenc_list l2.
  Proof.
    revert l2. induction l1 as [|a l1 IH]; intros [|b l2] H; try discriminate H; [reflexivity|].
    cbn [map] in H. unfold rd2 at 1 3 in H. injection H as H1 H2 Hl. unfold reenc_list in *. cbn [map]. rewrite (IH _ Hl). f_equal.
    rewrite !de_rd, H1, H2. reflexivity.
  Qed.

  (* R1, query: the lists read from the two queries have pairwise the same fully decoded names and values *)
  Theorem query_step_same u1 u2 q1 q2 :
    u_sp u1 = None -> u_sp u2 = None -> u_query u1 = Some q1 -> u_query u2 = Some q2 -> is_nil q1 = is_nil q2 ->
    eqi (set_query u1 None) (set_query u2 None) ->
    map rd2 (sp_init c q1) = map rd2 (sp_init c q2) ->
    orel (query_step u1) (query_step u2).
  Proof.
    intros S1 S2 Q1 Q2 Hn He Hd. unfold query_step, Search. rewrite Q1, Q2.
    destruct q1 as [|x1 q1]; destruct q2 as [|x2 q2]; try discriminate Hn; cbn [is_nil negb].
    - cbn [orel]. apply eqi_with_query; [exact He|congruence].
    - rewrite !reencode_params_eq. cbn [bind]. apply query_tail_step_eqi.
      unfold ensure_sp. rewrite S1, S2, Q1, Q2. cbn [fst snd]. rewrite (reenc_list_rd _ _ Hd).
      unfold sp_update. cbv zeta. cbn [u_query set_sp]. rewrite Q1, Q2. cbn [is_some].
      match goal with |- context [is_nil (sp_string ?a ?b)] => destruct (is_nil (sp_string a b)) end; cbn [andb orb negb].
      all: unfold eqi in *; destruct u1, u2; cbn in *; injection He as -> -> -> -> -> -> -> -> -> -> ->; reflexivity.
  Qed.
End StepsSame.

Print Assumptions frag_step_same.
Print Assumptions query_step_same.
