(* Repeated percent-decoding (profiles with p_repeated = true), R1 and the evaluation of the four steps.
   Part 0: facts on the full decoding [rd] and on [decodeEncode];
   Part A: the fragment step and the query step of the canonicalizer are functions of the fully decoded
           fragment / names and values and of the other components (analogues of SpellingDecode.path_step_same);
   Part B: the runs of the machine under a state override (HostnameSt, PathStart, QuerySt, FragmentSt) on
           texts that need no encoding, as explicit functions: SetHostname / SetPathname / SetSearch / SetHash. *)
From Verif Require Import Lib.Base Lib.Utf8 Lib.GoStr Model.Cfg Gen.Tables Gen.Options Model.Sets Model.Percent
  Model.Url Model.Host Model.Machine Model.Api Model.Canon Model.Preds.
From Verif Require Import Proofs.SetsProofs Proofs.Cleaning Proofs.PhaseLemmas Proofs.RecordInv Proofs.SchemeKept
  Proofs.Termination Proofs.CodecProofs Proofs.SearchParamsProofs Proofs.CanonTotal
  Proofs.RoundTripBase Proofs.RoundTripPhases Proofs.RoundTripSpecial Proofs.NormalFormPhases Proofs.NormalForm
  Proofs.SpellingProofs Proofs.SpellingDecode.
From Verif Require Proofs.Utf8Proofs.
From Coq Require Import Lia ZifyBool ZifyN ZifyNat.

Local Arguments N.mul : simpl never.
Local Arguments N.add : simpl never.
Local Arguments N.sub : simpl never.
Local Arguments N.eqb : simpl never.
Local Arguments N.ltb : simpl never.
Local Arguments N.leb : simpl never.

(* ================================================================== *)
(* Part 0  the full decoding                                            *)
(* ================================================================== *)
Lemma rd_fixed s : c_decode (rd s) = rd s.
Proof. destruct (rd_iter s) as [n [_ H]]. exact H. Qed.

Lemma rd_id s : c_decode s = s -> rd s = s.
Proof. intros H. apply (rd_unique s 0%nat); [reflexivity|exact H]. Qed.

Lemma rd_idem s : rd (rd s) = rd s.
Proof. apply rd_id. apply rd_fixed. Qed.

Lemma c_decode_nil_inv s : c_decode s = [] -> s = [].
Proof.
  destruct s as [|b s']; [reflexivity|]. cbn [c_decode]. destruct (b =? 37); [|discriminate].
  destruct s' as [|h [|l s'']]; try discriminate. destruct (isHexDigit h && isHexDigit l); discriminate.
Qed.

Lemma iter_dec_nil_inv n : forall s, iter_dec n s = [] -> s = [].
Proof. induction n as [|n IH]; intros s H; [exact H|]. cbn [iter_dec] in H. apply c_decode_nil_inv. apply IH. exact H. Qed.

Lemma rd_nil_inv s : rd s = [] -> s = [].
Proof. destruct (rd_iter s) as [n [E _]]. rewrite E. apply iter_dec_nil_inv. Qed.

Lemma rd_nil : rd [] = [].
Proof. apply rd_id. reflexivity. Qed.

Lemma de_rd s tr : de s tr = c_percentEncode (rd s) tr.
Proof. reflexivity. Qed.

(* no '%': nothing to decode *)
Lemma c_decode_no37 s : ~ In 37 s -> c_decode s = s.
Proof.
  induction s as [|b s IH]; intros H; [reflexivity|]. cbn [c_decode].
  assert (Hb : (b =? 37) = false) by (destruct (b =? 37) eqn:E; [exfalso; apply H; left; lia|reflexivity]).
  rewrite Hb, IH; [reflexivity|]. intros Hi. apply H. right. exact Hi.
Qed.

(* a byte that [decodeEncode] with the table [tr] leaves alone: not '%' and not in the table *)
Definition litb (tr : peset) (b : N) : bool := negb (ByteShouldBeEncoded (pes_set tr [37]) b).

Lemma litb_not37 tr b : litb tr b = true -> b <> 37.
Proof.
  unfold litb, ByteShouldBeEncoded, RuneShouldBeEncoded, bs_test, pes_set. cbn [bits ab app mem existsb].
  intros H E. subst b. replace (37 =? 37) with true in H by reflexivity. rewrite orb_true_r in H. discriminate H.
Qed.

Lemma lit_no37 tr s : forallb (litb tr) s = true -> ~ In 37 s.
Proof.
  intros H Hi. rewrite forallb_forall in H. exact (litb_not37 tr 37 (H _ Hi) eq_refl).
Qed.

Lemma cpe_id tr s : forallb (litb tr) s = true -> c_percentEncode s tr = s.
Proof.
  induction s as [|b s IH]; intros H; [reflexivity|]. cbn [forallb] in H. apply andb_true_iff in H. destruct H as [Hb Hs].
  unfold c_percentEncode in *. cbn [flat_map]. rewrite IH by exact Hs. unfold percentEncodeByte.
  unfold litb in Hb. apply negb_true_iff in Hb. rewrite Hb. reflexivity.
Qed.

(* a string of such bytes is a fixed point of decodeEncode *)
Lemma de_lit tr s : forallb (litb tr) s = true -> de s tr = s.
Proof. intros H. rewrite de_rd, (rd_id s (c_decode_no37 s (lit_no37 tr s H))). apply cpe_id. exact H. Qed.

(* ... and decodeEncode returns such a string when the full decoding is one *)
Lemma de_of_lit tr s : forallb (litb tr) (rd s) = true -> de s tr = rd s.
Proof. intros H. rewrite de_rd. apply cpe_id. exact H. Qed.

(* ================================================================== *)
(* Part A  R1: the fragment step and the query step                     *)
(* ================================================================== *)
Lemma eqi_sym u1 u2 : eqi u1 u2 -> eqi u2 u1.
Proof. unfold eqi. intros H. symmetry. exact H. Qed.
Lemma eqi_trans u1 u2 u3 : eqi u1 u2 -> eqi u2 u3 -> eqi u1 u3.
Proof. unfold eqi. intros H1 H2. rewrite H1. exact H2. Qed.

Section StepsSame.
  Variable idna_raw : str -> str * bool.
  Variable p : profile.
  Notation c := (p_cfg p).

  Definition frag_step (u : url) : option url :=
    if negb (is_nil (Hash u))
    then bind (decodeEncode (trim_prefix1 35 (Hash u)) pes_Host) (SetHash idna_raw c u) else SetHash idna_raw c u [].

  Definition query_tail_step (u : url) : option url :=
    if negb (is_nil (Search u)) then bind (SetSearch idna_raw c u (Search u)) (reencode_params p) else Some u.

  Definition query_step (u : url) : option url :=
    if negb (is_nil (Search u)) then bind (reencode_params p u) query_tail_step else Some u.

  (* SetHash does not look at the old fragment *)
  Lemma SetHash_frag_indep u1 u2 s :
    eqi (set_fragment u1 None) (set_fragment u2 None) -> orel (SetHash idna_raw c u1 s) (SetHash idna_raw c u2 s).
  Proof.
    intros He. pose proof (eqi_ex _ _ He) as E. cbn [u_input set_fragment] in E. unfold SetHash. destruct s as [|y s].
    - cbv zeta. rewrite E. cbn [u_query set_fragment set_input]. destruct (negb (is_some (u_query u2))); [|reflexivity].
      apply strip_i.
    - change (set_fragment u1 (Some [])) with (set_fragment (set_fragment u1 None) (Some [])). rewrite E.
      change (set_fragment (set_input (set_fragment u2 None) (u_input u1)) (Some []))
        with (set_input (set_fragment u2 (Some [])) (u_input u1)).
      rewrite (BP_input idna_raw p). apply orel_refl.
  Qed.

  (* R1, fragment: same full decoding of the fragments, the same outside the fragment *)
  Theorem frag_step_same u1 u2 :
    eqi (set_fragment u1 None) (set_fragment u2 None) -> rd (Fragment u1) = rd (Fragment u2) ->
    orel (frag_step u1) (frag_step u2).
  Proof.
    intros He Hd. unfold frag_step, Hash. unfold Fragment in Hd.
    destruct (u_fragment u1) as [[|x f]|] eqn:F1; destruct (u_fragment u2) as [[|y g]|] eqn:F2; cbn [is_nil negb];
      try (apply SetHash_frag_indep; exact He);
      try (rewrite rd_nil in Hd; symmetry in Hd; apply rd_nil_inv in Hd; discriminate Hd);
      try (rewrite rd_nil in Hd; apply rd_nil_inv in Hd; discriminate Hd).
    cbn [trim_prefix1]. replace (35 =? 35) with true by reflexivity.
    rewrite !decodeEncode_de, !de_rd, Hd. cbn [bind]. apply SetHash_frag_indep. exact He.
  Qed.

  Lemma eqi_with_query u1 u2 : eqi (set_query u1 None) (set_query u2 None) -> u_query u1 = u_query u2 -> eqi u1 u2.
  Proof.
    unfold eqi. destruct u1, u2. cbn. intros H E. injection H as -> -> -> -> -> -> -> -> -> -> ->. subst. reflexivity.
  Qed.

  Lemma query_tail_step_eqi a b : eqi a b -> orel (query_tail_step a) (query_tail_step b).
  Proof.
    intros Hab. unfold query_tail_step. rewrite (eqi_ex a b Hab). change (Search (set_input b (u_input a))) with (Search b).
    destruct (negb (is_nil (Search b))); [|apply eqi_input]. apply orel_bind; [apply (SetSearch_i idna_raw p)|].
    intros a' b' Hab'. rewrite (eqi_ex a' b' Hab'). apply reencode_i.
  Qed.

  Definition rd2 (nv : str * str) : str * str := (rd (fst nv), rd (snd nv)).

  Lemma reenc_list_rd l1 l2 : map rd2 l1 = map rd2 l2 -> reenc_list l1 = reenc_list l2.
  Proof.
    revert l2. induction l1 as [|a l1 IH]; intros [|b l2] H; try discriminate H; [reflexivity|].
    cbn [map] in H. unfold rd2 at 1 3 in H. injection H as H1 H2 Hl. unfold reenc_list in *. cbn [map]. rewrite (IH _ Hl). f_equal.
    rewrite !de_rd, H1, H2. reflexivity.
  Qed.

  (* R1, query: the lists read from the two queries have pairwise the same fully decoded names and values *)
  Theorem query_step_same u1 u2 q1 q2 :
    u_sp u1 = None -> u_sp u2 = None -> u_query u1 = Some q1 -> u_query u2 = Some q2 -> is_nil q1 = is_nil q2 ->
    eqi (set_query u1 None) (set_query u2 None) ->
    map rd2 (sp_init c q1) = map rd2 (sp_init c q2) ->
    orel (query_step u1) (query_step u2).
  Proof.
    intros S1 S2 Q1 Q2 Hn He Hd. unfold query_step, Search. rewrite Q1, Q2.
    destruct q1 as [|x1 q1]; destruct q2 as [|x2 q2]; try discriminate Hn; cbn [is_nil negb].
    - cbn [orel]. apply eqi_with_query; [exact He|congruence].
    - rewrite !reencode_params_eq. cbn [bind]. apply query_tail_step_eqi.
      unfold ensure_sp. rewrite S1, S2, Q1, Q2. cbn [fst snd]. rewrite (reenc_list_rd _ _ Hd).
      unfold sp_update. cbv zeta. cbn [u_query set_sp]. rewrite Q1, Q2. cbn [is_some].
      match goal with |- context [is_nil (sp_string ?a ?b)] => destruct (is_nil (sp_string a b)) end; cbn [andb orb negb].
      all: unfold eqi in *; destruct u1, u2; cbn in *; injection He as -> -> -> -> -> -> -> -> -> -> ->; reflexivity.
  Qed.
End StepsSame.

Print Assumptions frag_step_same.
Print Assumptions query_step_same.

(* ================================================================== *)
(* Part B  runs under a state override                                   *)
(* ================================================================== *)
Section OV.
  Variable idna_raw : str -> str * bool.
  Variable c : cfg.
  Hypothesis Hrep : c_report c = false.
  Hypothesis Hfail : c_fail c = false.
  Variable inp : list rune.
  Variable ov : option state.

  Notation n := (n_inp inp).
  Notation stepo := (step idna_raw c inp None ov).
  Notation runo := (run idna_raw c inp None ov).
  Notation rest := (rest_from inp).

  Definition reacheso (m m' : mstate) : Prop := exists k, forall fuel, runo (k + fuel)%nat m = runo fuel m'.
  Definition finisheso (m : mstate) (u : url) : Prop := exists k, runo k m = RUrl u.

  Lemma reacheso_refl m : reacheso m m.
  Proof using. exists 0%nat. reflexivity. Qed.
  Lemma reacheso_trans m1 m2 m3 : reacheso m1 m2 -> reacheso m2 m3 -> reacheso m1 m3.
  Proof using. intros [k1 H1] [k2 H2]. exists (k1 + k2)%nat. intros fuel. rewrite <- Nat.add_assoc, H1, H2. reflexivity. Qed.
  Lemma reacheso_step m m' : stepo m = Cont m' -> m_eof m' = false -> reacheso m m'.
  Proof using. intros H E. exists 1%nat. intros fuel. cbn [Nat.add]. apply run_cont; assumption. Qed.
  Lemma reacheso_eq m m1 m2 : reacheso m m1 -> m1 = m2 -> reacheso m m2.
  Proof using. intros H <-. exact H. Qed.
  Lemma finisheso_step m m' : stepo m = Cont m' -> m_eof m' = true -> finisheso m (m_url m').
  Proof using. intros H E. exists 1%nat. apply run_last; assumption. Qed.
  Lemma finisheso_ret m u : stepo m = RetUrl u -> finisheso m u.
  Proof using. intros H. exists 1%nat. cbn [run]. rewrite H. reflexivity. Qed.
  Lemma reacheso_finisheso m m' u : reacheso m m' -> finisheso m' u -> finisheso m u.
  Proof using. intros [k1 H1] [k2 H2]. exists (k1 + k2)%nat. rewrite H1. exact H2. Qed.
  Lemma finisheso_eq m u1 u2 : finisheso m u1 -> u1 = u2 -> finisheso m u2.
  Proof using. intros H <-. exact H. Qed.

  Lemma finisheso_fuel st0 u u' :
    finisheso (mk st0 (-1) false [] false false false u) u' ->
    runo (fuel_of (length inp)) (mk st0 (-1) false [] false false false u) = RUrl u'.
  Proof using.
    intros [k H].
    pose proof (run_never_out_of_fuel idna_raw c inp None ov st0 u) as Hne.
    rewrite <- (run_mono idna_raw c inp None ov _ k _ Hne).
    rewrite Nat.add_comm. rewrite run_mono by (rewrite H; discriminate). exact H.
  Qed.

  Ltac unfold_step :=
    cbv beta iota zeta delta [step mk m_state m_ptr m_eof m_buf m_at m_br m_pw m_url overridden is_some].

  Ltac quiet_enc :=
    match goal with |- (if ?b1 then _ else _) _ = _ => destruct b1 end;
    match goal with |- context [if invalid_pct ?l then _ else _] => destruct (invalid_pct l) end;
    cbv beta; repeat (rewrite (PhaseLemmas.mherr_quiet c Hrep Hfail); cbv beta).

  (* ---------------- PathStart / PathSt ---------------- *)
  Lemma step_pathstart_slash_o p buf a br pw u l :
    (-1 <= p)%Z -> rest (p + 1) = 47 :: l ->
    stepo (mk PathStart p false buf a br pw u) = Cont (mk PathSt (p + 1) false buf a br pw u).
  Proof using Hrep Hfail.
    intros Hp Hr. destruct (rest_uncons inp (p + 1)%Z _ _ ltac:(lia) Hr) as [Hc [Hr' Hn]].
    unfold_step. replace (n <=? p + 1)%Z with false by lia. cbv beta iota. rewrite Hc.
    replace (47 =? 92) with false by reflexivity. replace (47 =? 63) with false by reflexivity.
    replace (47 =? 35) with false by reflexivity. replace (47 =? 47) with true by reflexivity.
    rewrite !andb_false_r. cbn [negb andb].
    destruct (IsSpecialScheme c u && negb (c_skipTrailSlash c)); reflexivity.
  Qed.

  Lemma step_path_char_o p buf a br pw u x l :
    c_singlePct c = false ->
    (-1 <= p)%Z -> rest (p + 1) = x :: l -> path_char c (IsSpecialScheme c u) x = true ->
    stepo (mk PathSt p false buf a br pw u) = Cont (mk PathSt (p + 1) false (buf ++ [x]) a br pw u).
  Proof using Hrep Hfail.
    intros Hsp Hp Hr Hx. destruct (rest_uncons inp (p + 1)%Z _ _ ltac:(lia) Hr) as [Hc [Hr' Hn]].
    unfold path_char in Hx.
    apply andb_true_iff in Hx. destruct Hx as [Hx H5]. apply andb_true_iff in Hx. destruct Hx as [Hx H4].
    apply andb_true_iff in Hx. destruct Hx as [Hx H3]. apply andb_true_iff in Hx. destruct Hx as [H1 H2].
    apply negb_true_iff in H1, H2, H3, H4, H5.
    unfold_step. replace (n <=? p + 1)%Z with false by lia. cbv beta iota. rewrite Hc.
    unfold isSpecialSchemeAndBackslash. rewrite H1, H2, H3, H4. cbn [negb orb andb]. rewrite ?andb_false_r.
    quiet_enc; rewrite ?(pei_id c _ x Hsp H5), ?(pe_id c _ x H5); reflexivity.
  Qed.

  Lemma step_path_slash_o p buf a br pw u l :
    (-1 <= p)%Z -> rest (p + 1) = 47 :: l ->
    stepo (mk PathSt p false buf a br pw u) = Cont (mk PathSt (p + 1) false [] a br pw (path_commit c u buf true)).
  Proof using Hrep Hfail.
    intros Hp Hr. destruct (rest_uncons inp (p + 1)%Z _ _ ltac:(lia) Hr) as [Hc [Hr' Hn]].
    unfold_step. replace (n <=? p + 1)%Z with false by lia. cbv beta iota. rewrite Hc.
    unfold isSpecialSchemeAndBackslash. replace (47 =? 92) with false by reflexivity.
    rewrite !andb_false_r.
    replace (47 =? 47) with true by reflexivity. replace (47 =? 63) with false by reflexivity.
    replace (47 =? 35) with false by reflexivity. cbn [orb negb andb].
    unfold path_commit. cbv zeta.
    destruct (isDoubleDotPathSegment buf); [reflexivity|]. destruct (isSingleDotPathSegment buf); reflexivity.
  Qed.

  Lemma step_path_eof_o p buf a br pw u :
    (-1 <= p)%Z -> rest (p + 1) = [] ->
    stepo (mk PathSt p false buf a br pw u) = Cont (mk PathSt (p + 1) true [] a br pw (path_commit c u buf false)).
  Proof using Hrep Hfail.
    intros Hp Hr. pose proof (rest_empty inp (p + 1)%Z ltac:(lia) Hr) as Hn.
    unfold_step. replace (n <=? p + 1)%Z with true by lia. cbv beta iota.
    unfold isSpecialSchemeAndBackslash. replace (rune_error =? 92) with false by reflexivity.
    rewrite !andb_false_r.
    replace (rune_error =? 47) with false by reflexivity. replace (rune_error =? 63) with false by reflexivity.
    replace (rune_error =? 35) with false by reflexivity.
    cbn [orb negb andb]. unfold path_commit. cbv zeta.
    destruct (isDoubleDotPathSegment buf); [reflexivity|]. destruct (isSingleDotPathSegment buf); reflexivity.
  Qed.

  Lemma seg_loop_o : forall seg p buf a br pw u tl,
    c_singlePct c = false ->
    (-1 <= p)%Z -> rest (p + 1) = seg ++ tl -> forallb (path_char c (IsSpecialScheme c u)) seg = true ->
    reacheso (mk PathSt p false buf a br pw u) (mk PathSt (p + len seg) false (buf ++ seg) a br pw u).
  Proof using Hrep Hfail.
    induction seg as [|x l IH]; intros p buf a br pw u tl Hsp Hp Hr Hl.
    - rewrite len_nil, Z.add_0_r, app_nil_r. apply reacheso_refl.
    - cbn [forallb] in Hl. apply andb_true_iff in Hl. destruct Hl as [Hx Hl].
      cbn [app] in Hr. destruct (rest_uncons inp (p + 1)%Z x _ ltac:(lia) Hr) as [Hc [Hr' Hn]].
      eapply reacheso_trans.
      + eapply reacheso_step; [apply (step_path_char_o p buf a br pw u x _ Hsp Hp Hr Hx)|reflexivity].
      + eapply reacheso_eq; [apply (IH (p + 1)%Z _ a br pw _ tl Hsp ltac:(lia) Hr' Hl)|].
        rewrite len_cons, <- app_assoc. cbn [app]. f_equal. lia.
  Qed.

  (* the whole path text, up to the end of the input *)
  Theorem path_phase_o : forall segs seg p a br pw u,
    c_singlePct c = false ->
    (-1 <= p)%Z -> rest (p + 1) = seg ++ flat_map (fun s => 47 :: s) segs ->
    segs_text_ok c (IsSpecialScheme c u) (seg :: segs) = true ->
    finisheso (mk PathSt p false [] a br pw u) (commits c u seg segs).
  Proof using Hrep Hfail.
    induction segs as [|s1 segs IH]; intros seg p a br pw u Hsp Hp Hr Hg.
    - cbn [flat_map] in Hr. unfold segs_text_ok in Hg. cbn [forallb] in Hg. rewrite andb_true_r in Hg.
      eapply reacheso_finisheso; [apply (seg_loop_o seg p [] a br pw u _ Hsp Hp Hr Hg)|].
      cbn [app commits]. pose proof (rest_app inp (p + 1)%Z _ _ ltac:(blia) Hr) as Hr'.
      replace (p + 1 + len seg)%Z with (p + len seg + 1)%Z in Hr' by ring.
      pose proof (len_nonneg seg) as Hl.
      eapply finisheso_eq.
      + eapply finisheso_step; [apply (step_path_eof_o (p + len seg)%Z _ a br pw _ ltac:(blia) Hr')|reflexivity].
      + reflexivity.
    - cbn [flat_map] in Hr. cbn [app] in Hr.
      unfold segs_text_ok in Hg. cbn [forallb] in Hg. apply andb_true_iff in Hg. destruct Hg as [Hch Hgs].
      eapply reacheso_finisheso; [apply (seg_loop_o seg p [] a br pw u _ Hsp Hp Hr Hch)|].
      cbn [app]. pose proof (rest_app inp (p + 1)%Z _ _ ltac:(blia) Hr) as Hr'.
      replace (p + 1 + len seg)%Z with (p + len seg + 1)%Z in Hr' by ring.
      pose proof (len_nonneg seg) as Hl.
      eapply reacheso_finisheso.
      + eapply reacheso_step; [apply (step_path_slash_o (p + len seg)%Z _ a br pw _ _ ltac:(blia) Hr')|reflexivity].
      + destruct (rest_uncons inp (p + len seg + 1)%Z _ _ ltac:(blia) Hr') as [_ [Hr2 _]].
        cbn [commits].
        apply (IH s1 (p + len seg + 1)%Z a br pw (path_commit c u seg true) Hsp ltac:(blia)).
        * rewrite Hr2. reflexivity.
        * rewrite path_commit_special. exact Hgs.
  Qed.

  (* ---------------- HostnameSt ---------------- *)
  Lemma step_hn_char_o p buf a br pw u x l :
    ov = Some HostnameSt -> str_eqb (u_scheme u) s_file = false ->
    all_good inp -> (-1 <= p)%Z -> rest (p + 1) = x :: l ->
    ((x =? 58) && negb br) = false -> ((x =? 47) || (x =? 63) || (x =? 35)) = false ->
    (IsSpecialScheme c u && (x =? 92)) = false -> x < 128 ->
    stepo (mk HostnameSt p false buf a br pw u) = Cont (mk HostnameSt (p + 1) false (buf ++ [x]) a (br_next br x) pw u).
  Proof using Hrep Hfail.
    intros Hov Hnf Hgood Hp Hr H1 H2 H3 H4. destruct (rest_uncons inp (p + 1)%Z _ _ ltac:(lia) Hr) as [Hc [Hr' Hn]].
    rewrite Hov. unfold_step. replace (n <=? p + 1)%Z with false by lia. cbv beta iota. rewrite Hc, Hnf.
    cbn [andb orb]. rewrite H1. unfold isSpecialSchemeAndBackslash. rewrite H2, H3. cbn [orb].
    rewrite (Utf8Proofs.utf8_enc_ascii x H4). unfold br_next.
    destruct (rune_at inp (p + 1)) as [[g|b]|] eqn:E; try reflexivity.
    exfalso. exact (Hgood _ _ E).
  Qed.

  Lemma step_hn_end_o p buf a br pw u host :
    ov = Some HostnameSt -> str_eqb (u_scheme u) s_file = false ->
    (-1 <= p)%Z -> rest (p + 1) = [] -> is_nil buf = false ->
    parseHost idna_raw c u buf (negb (IsSpecialScheme c u)) = Ok u host ->
    stepo (mk HostnameSt p false buf a br pw u) = RetUrl (set_host u (Some host)).
  Proof using Hrep Hfail.
    intros Hov Hnf Hp Hr Hb Hph. pose proof (rest_empty inp (p + 1)%Z ltac:(lia) Hr) as Hn.
    rewrite Hov. unfold_step. replace (n <=? p + 1)%Z with true by lia. cbv beta iota. rewrite Hnf.
    replace (rune_error =? 58) with false by reflexivity. cbn [andb orb]. rewrite Hb, andb_false_r. cbn [andb].
    rewrite Hph. reflexivity.
  Qed.

  Lemma hn_loop_o : forall h p buf a br pw u tl,
    ov = Some HostnameSt -> str_eqb (u_scheme u) s_file = false ->
    all_good inp -> (-1 <= p)%Z -> rest (p + 1) = h ++ tl -> hscan (IsSpecialScheme c u) br h = true ->
    forallb (fun x => x <? 128) h = true ->
    reacheso (mk HostnameSt p false buf a br pw u) (mk HostnameSt (p + len h) false (buf ++ h) a (hbr br h) pw u).
  Proof using Hrep Hfail.
    induction h as [|x l IH]; intros p buf a br pw u tl Hov Hnf Hgood Hp Hr Hs Hl.
    - rewrite len_nil, Z.add_0_r, app_nil_r. apply reacheso_refl.
    - cbn [forallb] in Hl. apply andb_true_iff in Hl. destruct Hl as [Hx Hl].
      cbn [hscan] in Hs. apply andb_true_iff in Hs. destruct Hs as [Hs Hs3].
      apply andb_true_iff in Hs. destruct Hs as [Hs1 Hs2]. apply negb_true_iff in Hs1, Hs2.
      apply orb_false_iff in Hs2. destruct Hs2 as [Hs2 Hs4].
      cbn [app] in Hr. destruct (rest_uncons inp (p + 1)%Z x _ ltac:(lia) Hr) as [Hc [Hr' Hn]].
      eapply reacheso_trans.
      + eapply reacheso_step; [apply (step_hn_char_o p buf a br pw u x _ Hov Hnf Hgood Hp Hr Hs1 Hs2 Hs4 ltac:(lia))|reflexivity].
      + eapply reacheso_eq; [apply (IH (p + 1)%Z _ a _ pw _ tl Hov Hnf Hgood ltac:(lia) Hr' Hs3 Hl)|].
        rewrite len_cons, <- app_assoc. cbn [app hbr]. unfold br_next. f_equal. lia.
  Qed.

  Theorem hn_phase_o h u host :
    ov = Some HostnameSt -> str_eqb (u_scheme u) s_file = false ->
    all_good inp -> rest 0 = h -> h <> [] -> hscan (IsSpecialScheme c u) false h = true ->
    forallb (fun x => x <? 128) h = true ->
    parseHost idna_raw c u h (negb (IsSpecialScheme c u)) = Ok u host ->
    finisheso (mk HostnameSt (-1) false [] false false false u) (set_host u (Some host)).
  Proof using Hrep Hfail.
    intros Hov Hnf Hgood Hr Hne Hs Hl Hph.
    assert (Hr0 : rest (-1 + 1) = h ++ []) by (rewrite app_nil_r; exact Hr).
    eapply reacheso_finisheso; [apply (hn_loop_o h (-1)%Z [] false false false u [] Hov Hnf Hgood ltac:(lia) Hr0 Hs Hl)|].
    cbn [app]. pose proof (rest_app inp (-1 + 1)%Z _ _ ltac:(lia) Hr0) as Hr'.
    replace (-1 + 1 + len h)%Z with (-1 + len h + 1)%Z in Hr' by ring. pose proof (len_nonneg h) as Hlen.
    apply finisheso_ret. apply (step_hn_end_o (-1 + len h)%Z h false (hbr false h) false u host Hov Hnf ltac:(lia) Hr'); [|exact Hph].
    destruct h; [congruence|reflexivity].
  Qed.

  (* ---------------- QuerySt under an override: everything up to the end is the query ---------------- *)
  Theorem query_phase_o : forall fuel p buf a br pw u,
    overridden ov = true ->
    (-1 <= p)%Z -> (length (rest (p + 1)) + 1 <= fuel)%nat ->
    runo fuel (mk QuerySt p false buf a br pw u) = RUrl (set_query u (Some (buf ++ enc_with c (queryset c u) (rest (p + 1))))).
  Proof using Hrep Hfail.
    induction fuel as [|f IH]; intros p buf a br pw u Hov Hp Hf; [lia|].
    destruct (n <=? p + 1)%Z eqn:E.
    - assert (En : (n <= p + 1)%Z) by lia.
      rewrite (run_last idna_raw c inp None ov f _ _ (step_query_end idna_raw c Hrep Hfail inp None ov p buf a br pw u En)) by reflexivity.
      rewrite (PhaseLemmas.rest_nil c Hrep Hfail inp) by lia. cbn [mk m_url enc_with flat_map]. rewrite app_nil_r. reflexivity.
    - assert (En : (p + 1 < n)%Z) by lia.
      assert (E35 : negb (overridden ov) && (cp_at inp (p + 1) =? 35) = false) by (rewrite Hov; reflexivity).
      rewrite (run_cont idna_raw c inp None ov f _ _ (step_query_mid idna_raw c Hrep Hfail inp None ov p buf a br pw u En E35)) by reflexivity.
      rewrite (PhaseLemmas.rest_cons c Hrep Hfail inp (p + 1)) in Hf |- * by lia. cbn [length] in Hf.
      rewrite IH by (try exact Hov; lia). rewrite enc_with_cons, app_assoc. reflexivity.
  Qed.
End OV.

(* ------------------------------------------------------------------------------------------ *)
(* the four setters of the repeated block, evaluated                                            *)
(* ------------------------------------------------------------------------------------------ *)
Section Eval.
  Variable idna_raw : str -> str * bool.
  Variable c : cfg.
  Hypothesis Hrep : c_report c = false.
  Hypothesis Hfail : c_fail c = false.

  Lemma BP_ov_printable s u st :
    forallb printable s = true ->
    BasicParser idna_raw c s None (Some u) (Some st) =
    run idna_raw c (map Good s) None (Some st) (fuel_of (length (map Good s)))
        (mk st (-1) false [] false false false (set_input u s)).
  Proof using All.
    intros H. unfold BasicParser. cbn [u_input set_input]. unfold remove_tabnl_sv. rewrite (remove_tabnl_id s H).
    cbn [andb]. cbn [u_input set_input option_map]. rewrite (decode_printable s H). reflexivity.
  Qed.

  Lemma fuel_of_enough k : (k + 1 <= fuel_of k)%nat.
  Proof using All. unfold fuel_of. lia. Qed.

  (* SetHash on a text that does not start with '#' *)
  Theorem SetHash_eval u x s :
    (x =? 35) = false -> forallb printable (x :: s) = true ->
    SetHash idna_raw c u (x :: s) =
    Some (set_fragment (set_input u (x :: s)) (Some (enc_with c (fragset c u) (x :: s)))).
  Proof using All.
    intros Hx Hp. unfold SetHash. cbn [trim_prefix1]. rewrite Hx. rewrite (BP_ov_printable _ _ _ Hp).
    rewrite (fragment_phase idna_raw c Hrep Hfail (map Good (x :: s)) None (Some FragmentSt)).
    - change (-1 + 1)%Z with 0%Z. rewrite rest_map_good. reflexivity.
    - lia.
    - change (-1 + 1)%Z with 0%Z. rewrite rest_map_good, map_length. apply fuel_of_enough.
  Qed.

  (* SetSearch on "?" ++ qs when the record has a query *)
  Theorem SetSearch_eval u q0 qs :
    u_query u = Some q0 -> forallb printable qs = true ->
    SetSearch idna_raw c u (63 :: qs) =
    Some (set_sp (set_query (set_input u qs) (Some (enc_with c (queryset c u) qs)))
                 (Some (sp_init c (enc_with c (queryset c u) qs)))).
  Proof using All.
    intros Hq Hp. unfold SetSearch. cbn [trim_prefix1]. replace (63 =? 63) with true by reflexivity. rewrite Hq.
    rewrite (BP_ov_printable _ _ _ Hp).
    rewrite (query_phase_o idna_raw c Hrep Hfail (map Good qs) (Some QuerySt)).
    - change (-1 + 1)%Z with 0%Z. rewrite rest_map_good. reflexivity.
    - reflexivity.
    - lia.
    - change (-1 + 1)%Z with 0%Z. rewrite rest_map_good, map_length. apply fuel_of_enough.
  Qed.

  Lemma pathname_printable sp segs :
    (33 <=? ab (c_pathSet c)) = true -> segs_text_ok c sp segs = true -> forallb printable (pathname_of segs) = true.
  Proof using All.
    intros Hab H. induction segs as [|s segs IH]; [reflexivity|].
    unfold segs_text_ok in H. cbn [forallb] in H. apply andb_true_iff in H. destruct H as [Hs Hr].
    change (pathname_of (s :: segs)) with (47 :: s ++ pathname_of segs). cbn [forallb]. rewrite forallb_app, (IH Hr), andb_true_r.
    replace (printable 47) with true by reflexivity. cbn [andb]. rewrite forallb_forall in *. intros x Hx. specialize (Hs x Hx).
    apply vis_printable. unfold path_char in Hs. apply andb_true_iff in Hs. destruct Hs as [_ Hs]. apply negb_true_iff in Hs.
    apply (not_encoded_vis _ _ Hab Hs).
  Qed.

  (* SetPathname on "/" seg "/" seg ... *)
  Theorem SetPathname_eval u seg segs :
    c_singlePct c = false -> c_collapse c = false -> (33 <=? ab (c_pathSet c)) = true ->
    u_opaque u = false -> str_eqb (u_scheme u) s_file = false ->
    segs_text_ok c (IsSpecialScheme c u) (seg :: segs) = true ->
    SetPathname idna_raw c u (pathname_of (seg :: segs)) =
    Some (set_path (set_input u (pathname_of (seg :: segs))) (norm_segs (seg :: segs)) false).
  Proof using All.
    intros Hsp Hcol Hab Ho Hnf Hg. unfold SetPathname. rewrite Ho.
    pose proof (pathname_printable _ _ Hab Hg) as Hp. rewrite (BP_ov_printable _ _ _ Hp).
    set (s := pathname_of (seg :: segs)) in *. set (u' := set_input (set_path u [] false) s).
    assert (F : finisheso idna_raw c (map Good s) (Some PathStart) (mk PathStart (-1) false [] false false false u')
                  (commits c u' seg segs)).
    { assert (R0 : rest_from (map Good s) (-1 + 1) = 47 :: seg ++ pathname_of segs) by (change (-1 + 1)%Z with 0%Z; rewrite rest_map_good; reflexivity).
      eapply reacheso_finisheso.
      - eapply reacheso_step; [apply (step_pathstart_slash_o idna_raw c Hrep Hfail _ _ (-1)%Z [] false false false u' _ ltac:(lia) R0)|reflexivity].
      - destruct (rest_uncons _ (-1 + 1)%Z _ _ ltac:(lia) R0) as [_ [R1 _]].
        apply (path_phase_o idna_raw c Hrep Hfail _ _ segs seg (-1 + 1)%Z false false false u' Hsp ltac:(lia) R1). exact Hg. }
    rewrite (finisheso_fuel idna_raw c _ _ _ _ _ F). cbn [after].
    rewrite (commits_norm c segs seg u' Hcol Hnf eq_refl). reflexivity.
  Qed.

  (* SetHostname on a host text that the host parser accepts *)
  Theorem SetHostname_eval u h host :
    u_opaque u = false -> str_eqb (u_scheme u) s_file = false ->
    h <> [] -> forallb printable h = true -> hscan (IsSpecialScheme c u) false h = true ->
    parseHost idna_raw c (set_input u h) h (negb (IsSpecialScheme c u)) = Ok (set_input u h) host ->
    SetHostname idna_raw c u h = Some (set_host (set_input u h) (Some host)).
  Proof using All.
    intros Ho Hnf Hne Hp Hs Hph. unfold SetHostname. rewrite Ho. rewrite (BP_ov_printable _ _ _ Hp).
    assert (Hl : forallb (fun x => x <? 128) h = true).
    { rewrite forallb_forall. intros x Hx. pose proof (printable_small h Hp) as Hf. rewrite Forall_forall in Hf.
      specialize (Hf x Hx). lia. }
    pose proof (hn_phase_o idna_raw c Hrep Hfail (map Good h) (Some HostnameSt) h (set_input u h) host eq_refl Hnf
                  (all_good_map h) (rest_map_good h) Hne Hs Hl Hph) as F.
    rewrite (finisheso_fuel idna_raw c _ _ _ _ _ F). reflexivity.
  Qed.
End Eval.

Print Assumptions SetHash_eval.
Print Assumptions SetSearch_eval.
Print Assumptions SetPathname_eval.
Print Assumptions SetHostname_eval.
