(* N6: collapseConsecutiveSlashes.  The option is read in PathSt only, when a segment ends, as
     replaceLast := c_collapse c && special u && path <> [] && (last segment of path is empty).
   It is neutral whenever no segment is ever appended to a path that ends in an empty segment. *)
From Coq Require Import String.
From Verif Require Import Lib.Base Lib.Utf8 Lib.GoStr Model.Cfg Gen.Tables Gen.Options Model.Sets Model.Percent Model.Url Model.Host Model.Machine Model.Api.
From Verif Require Import Proofs.OptionTable Proofs.Utf8Proofs Proofs.Cleaning Proofs.OptionNeutralBase Proofs.OptionNeutral.
From Coq Require Import Lia ZifyBool ZifyN ZifyNat.

(* ---------- the segment update ---------- *)
(* the test the option guards, without the option *)
Definition would_replace (c : cfg) (u : url) : bool :=
  IsSpecialScheme c u && negb (is_nil (u_path u)) && last_empty (u_path u).

Lemma seg_end_collapse c b1 b2 u buf sl : would_replace c u = false ->
  seg_end (with_collapse c b1) u buf sl = seg_end (with_collapse c b2) u buf sl.
Proof.
  unfold would_replace. intros H. unfold seg_end. cbv zeta. cbn [c_collapse c_skipDrive with_collapse].
  change (IsSpecialScheme (with_collapse c b1) u) with (IsSpecialScheme c u).
  change (IsSpecialScheme (with_collapse c b2) u) with (IsSpecialScheme c u).
  assert (E : forall b, b && IsSpecialScheme c u && negb (is_nil (u_path u)) && last_empty (u_path u) = false).
  { intros b. destruct b; cbn [andb]; [exact H|reflexivity]. }
  rewrite !E. reflexivity.
Qed.

(* ---------- semantic form ---------- *)
(* states reachable from m0 *)
Inductive reach (idna_raw : str -> str * bool) (c : cfg) (inp : list rune) (base : option url) (ov : option state)
  (m0 : mstate) : mstate -> Prop :=
| reach_refl : reach idna_raw c inp base ov m0 m0
| reach_step m m' : reach idna_raw c inp base ov m0 m -> step idna_raw c inp base ov m = Cont m' -> m_eof m' = false ->
    reach idna_raw c inp base ov m0 m'.

Section N6sem.
  Variable idna_raw : str -> str * bool.
  Variable c : cfg.
  Variables b1 b2 : bool.
  Notation c1 := (with_collapse c b1).
  Notation c2 := (with_collapse c b2).

  Lemma collapse_step inp base ov m :
    (m_state m = PathSt -> would_replace c (m_url m) = false) ->
    step idna_raw c1 inp base ov m = step idna_raw c2 inp base ov m.
  Proof.
    intros H. apply step_eq_simple; try reflexivity; try (intros; reflexivity).
    - repeat split; reflexivity.
    - intros E u sl Hs Hp. apply seg_end_collapse. specialize (H E).
      unfold would_replace, IsSpecialScheme in *. rewrite Hs, Hp. exact H.
  Qed.

  (* with an invariant *)
  Theorem collapse_neutral_inv (I : mstate -> Prop) inp base ov :
    (forall m, I m -> m_state m = PathSt -> would_replace c (m_url m) = false) ->
    (forall m m', I m -> step idna_raw c1 inp base ov m = Cont m' -> m_eof m' = false -> I m') ->
    forall fuel m, I m -> run idna_raw c1 inp base ov fuel m = run idna_raw c2 inp base ov fuel m.
  Proof.
    intros H1 H2. apply (run_sim_eq idna_raw c1 c2 inp base ov I H2).
    intros m Hm. apply collapse_step. apply H1, Hm.
  Qed.

  (* with the reachable states of the first machine *)
  Theorem collapse_neutral_sem inp base ov m0 :
    (forall m, reach idna_raw c1 inp base ov m0 m -> m_state m = PathSt -> would_replace c (m_url m) = false) ->
    forall fuel, run idna_raw c1 inp base ov fuel m0 = run idna_raw c2 inp base ov fuel m0.
  Proof.
    intros H fuel. apply (collapse_neutral_inv (reach idna_raw c1 inp base ov m0) inp base ov H).
    - intros m m' R S E. exact (reach_step _ _ _ _ _ _ m m' R S E).
    - apply reach_refl.
  Qed.
End N6sem.
Print Assumptions collapse_neutral_sem.

(* ================================================================== *)
(* Syntactic form                                                      *)
(* ================================================================== *)
Definition sl (x : N) : bool := (x =? 47) || (x =? 92).
(* no two adjacent slash-like code points *)
Definition no_adjacent_sl (inp : list rune) : Prop :=
  forall p, sl (cp_at inp p) = true -> sl (cp_at inp (p + 1)) = true -> False.
Definition segs_ok (path : list str) : Prop := Forall (fun s => s <> []) path.

Lemma nth_opt_none {A} (l : list A) : forall n, (length l <= n)%nat -> nth_opt l n = None.
Proof.
  induction l as [|x l IH]; intros n H; [destruct n; reflexivity|].
  destruct n; cbn [length] in H; [lia|]. cbn [nth_opt]. apply IH. lia.
Qed.

Lemma r_cp inp p : (if (n_inp inp <=? p)%Z then rune_error else cp_at inp p) = cp_at inp p.
Proof.
  destruct (n_inp inp <=? p)%Z eqn:E; [|reflexivity].
  unfold cp_at. destruct (p <? 0)%Z; [reflexivity|].
  rewrite nth_opt_none; [reflexivity|]. unfold n_inp, len in E. lia.
Qed.

Lemma last_opt_In {A} (l : list A) x : last_opt l = Some x -> In x l.
Proof.
  induction l as [|y l IH]; [discriminate|]. cbn [last_opt]. destruct l as [|z l'].
  - intros [= ->]. left; reflexivity.
  - intros H. right. apply IH, H.
Qed.

Lemma segs_ok_last path : segs_ok path -> last_empty path = false.
Proof.
  intros H. unfold last_empty. destruct (last_opt path) as [s|] eqn:E; [|reflexivity].
  apply last_opt_In in E. unfold segs_ok in H. rewrite Forall_forall in H. specialize (H s E).
  destruct s; [congruence|reflexivity].
Qed.

Lemma segs_ok_removelast path : segs_ok path -> segs_ok (removelast path).
Proof.
  unfold segs_ok. induction 1 as [|x l Hx Hl IH]; [constructor|].
  cbn [removelast]. destruct l; [constructor|]. constructor; assumption.
Qed.

Lemma normalized_nonempty x : isNormalizedWindowsDriveLetter x = true -> x <> [].
Proof. destruct x; [discriminate|congruence]. Qed.

(* all but the last segment non-empty is enough for the shortened path *)
Lemma segs_ok_shorten s path : segs_ok (removelast path) -> segs_ok (shortenPath s path).
Proof.
  intros H. unfold shortenPath. destruct path as [|x [|y l]]; try exact H.
  destruct (str_eqb s s_file && isNormalizedWindowsDriveLetter x) eqn:E; [|constructor].
  apply andb_true_iff in E as [_ E]. constructor; [apply normalized_nonempty, E|constructor].
Qed.

Lemma segs_ok_app path s : segs_ok path -> s <> [] -> segs_ok (path ++ [s]).
Proof. intros H Hs. apply Forall_app. split; [exact H|constructor; [exact Hs|constructor]]. Qed.

Lemma utf8_enc_ne r : utf8_enc r <> [].
Proof. apply utf8_enc_nonempty. Qed.

Lemma per_nonempty c r tr : percentEncodeRune c r tr <> [].
Proof.
  unfold percentEncodeRune.
  assert (E : (if c_latin1 c then pct_byte (fst (latin1_enc r)) else flat_map pct_byte (utf8_enc r)) <> []).
  { destruct (c_latin1 c); [discriminate|]. pose proof (utf8_enc_ne r). destruct (utf8_enc r); [congruence|discriminate]. }
  destruct tr as [t|]; [|exact E]. destruct (RuneShouldBeEncoded t r); [exact E|apply utf8_enc_ne].
Qed.

Lemma peir_nonempty c r tr : percentEncodeInvalidRune c r tr <> [].
Proof. unfold percentEncodeInvalidRune. destruct (c_singlePct c); apply per_nonempty. Qed.

Lemma app_nonempty_r {A} (l e : list A) : e <> [] -> l ++ e <> [].
Proof. intros H E. apply app_eq_nil in E as [_ E]. exact (H E). Qed.

Lemma seg_end_scheme c u buf s : u_scheme (seg_end c u buf s) = u_scheme u.
Proof.
  unfold seg_end. cbv zeta.
  repeat match goal with |- context [if ?b then _ else _] => destruct b end; reflexivity.
Qed.

Lemma drive_buf_nonempty (g : bool) buf : buf <> [] ->
  (if g then match buf with b0 :: _ => [b0; 58] | [] => buf end else buf) <> [].
Proof. intros H. destruct g; [|exact H]. destruct buf; [congruence|discriminate]. Qed.

Lemma seg_end_slash c u buf : segs_ok (u_path u) -> buf <> [] -> segs_ok (u_path (seg_end c u buf true)).
Proof.
  intros P Hb. unfold seg_end. cbv zeta. rewrite (segs_ok_last _ P), !andb_false_r. cbn [negb andb orb].
  destruct (isDoubleDotPathSegment buf).
  - cbn [u_path set_path]. apply segs_ok_shorten, segs_ok_removelast, P.
  - destruct (negb (isSingleDotPathSegment buf)); [|exact P].
    unfold addSegment. cbn [u_path set_path]. apply segs_ok_app; [exact P|]. apply drive_buf_nonempty, Hb.
Qed.

Lemma slashlike_sl c u r : (r =? 47) || isSpecialSchemeAndBackslash c u r = true -> sl r = true.
Proof.
  unfold isSpecialSchemeAndBackslash, sl. intros H. apply orb_true_iff in H as [H|H]; [rewrite H; reflexivity|].
  apply andb_true_iff in H as [_ H]. rewrite H. apply orb_true_r.
Qed.

Definition Inv (c : cfg) (inp : list rune) (m : mstate) : Prop :=
  m_eof m = false /\
  match m_state m with
  | OpaquePath | QuerySt | FragmentSt => True
  | PathOrAuthority => segs_ok (u_path (m_url m)) /\ IsSpecialScheme c (m_url m) = false
  | PathSt => IsSpecialScheme c (m_url m) = true ->
       segs_ok (u_path (m_url m)) /\
       (m_buf m = [] -> sl (cp_at inp (m_ptr m + 1)) = true -> sl (cp_at inp (m_ptr m)) = true)
  | _ => segs_ok (u_path (m_url m))
  end.

Lemma cdp_path c u : u_path (cleanDefaultPort c u) = u_path u.
Proof.
  unfold cleanDefaultPort. destruct (getSpecialScheme c (u_scheme u)); [|reflexivity].
  destruct (u_port u); [|reflexivity]. destruct (str_eqb s s0); reflexivity.
Qed.

Lemma drive_nonempty buf : isWindowsDriveLetter buf = true -> buf <> [].
Proof. destruct buf; [discriminate|congruence]. Qed.

Ltac frame_hosts :=
  repeat match goal with
  | Hph : parseHost _ _ ?u _ _ = Ok ?u0 _ |- _ =>
      let v := fresh "v" in
      destruct (parseHost_ok_frame _ _ _ _ _ _ _ Hph) as [v ->]; clear Hph
  end.

Ltac cbn_url :=
  cbn [u_path u_scheme set_input set_scheme set_username set_password set_host set_port set_path set_query
       set_fragment set_verrs set_sp addSegment copy_base_auth].
Ltac cbn_url_all :=
  cbn [u_path u_scheme set_input set_scheme set_username set_password set_host set_port set_path set_query
       set_fragment set_verrs set_sp addSegment copy_base_auth] in *.

Lemma Inv_step idna_raw c b inp base ov m m' :
  c_skipTrailSlash c = false -> no_adjacent_sl inp ->
  (forall bu, base = Some bu -> segs_ok (removelast (u_path bu))) ->
  m_state m <> PathSt ->
  Inv c inp m -> step idna_raw (with_collapse c b) inp base ov m = Cont m' -> m_eof m' = false -> Inv c inp m'.
Proof.
  intros Hts Hadj Hbase Hst [He0 HI] H Heof. destruct m as [st p0 e0 buf atF brF pwF u].
  unfold step, mherr, handleError in H. cbn [m_state m_ptr m_eof m_buf m_at m_br m_pw m_url] in *.
  rewrite !r_cp in H. subst e0. cbn [orb] in H.
  set (p := (p0 + 1)%Z) in *.
  set (r := cp_at inp p) in *.
  set (eof := if (n_inp inp <=? p)%Z then true else false) in *.
  destruct st; try congruence; clear Hst.
  all: step_crush H.
  all: injection H as <-.
  all: cbn [m_eof mk] in Heof.
  all: try (rewrite Heof in *; cbn [negb orb andb] in *; discriminate).
  all: unfold Inv; cbn [m_state m_eof m_ptr m_buf m_url mk]; (split; [exact Heof|]).
  all: try exact I.
  all: try (destruct HI as [HI HIs]).
  all: frame_hosts.
  all: rewrite ?cdp_path.
  all: cbn_url.
  all: try assumption.
  all: try (split; assumption).
  all: try (intros Hsp; split;
      [ first [ assumption | constructor
              | apply segs_ok_shorten, Hbase; first [assumption | reflexivity]
              | apply segs_ok_app; [assumption|];
                match goal with Hn : _ && isNormalizedWindowsDriveLetter ?s = true |- _ =>
                  apply andb_true_iff in Hn as [_ Hn]; apply normalized_nonempty, Hn end ]
      | intros Hb Hs; try (replace (p - 1 + 1)%Z with p in Hs by lia); fold r in Hs |- *;
        unfold sl, isSpecialSchemeAndBackslash, IsSpecialScheme in *;
        change (isSpecialScheme (with_collapse c b)) with (isSpecialScheme c) in *;
        cbn [c_skipTrailSlash with_collapse] in *; cbn_url_all; rewrite ?Hts in *;
        try discriminate Hb;
        try (match goal with Hd : context [isWindowsDriveLetter ?B], Hb' : ?B = [] |- _ =>
               rewrite Hb' in Hd; cbn [isWindowsDriveLetter] in Hd; rewrite ?andb_false_r in Hd; discriminate Hd end);
        rewrite ?Hsp in *; try rewrite HI in *;
        destruct (r =? 47) eqn:E47; destruct (r =? 92) eqn:E92; cbn [andb orb negb] in *;
        try discriminate; try congruence; try reflexivity ]).
Qed.

(* the end of a segment, terminated by a separator *)
Lemma seg_leaf c' inp (p0 : Z) U buf SL :
  no_adjacent_sl inp -> segs_ok (u_path U) ->
  (buf = [] -> sl (cp_at inp (p0 + 1)%Z) = true -> sl (cp_at inp p0) = true) ->
  SL = true -> sl (cp_at inp (p0 + 1)%Z) = true ->
  segs_ok (u_path (seg_end c' U buf SL)) /\
  ((@nil N) = (@nil N) -> sl (cp_at inp (p0 + 1 + 1)%Z) = true -> sl (cp_at inp (p0 + 1)%Z) = true).
Proof.
  intros Hadj P Hbuf -> Hr. split; [|intros _ _; exact Hr].
  apply seg_end_slash; [exact P|]. intros Hb. exact (Hadj p0 (Hbuf Hb Hr) Hr).
Qed.

Lemma Inv_step_PathSt idna_raw c b inp base ov m m' :
  no_adjacent_sl inp -> m_state m = PathSt ->
  Inv c inp m -> step idna_raw (with_collapse c b) inp base ov m = Cont m' -> m_eof m' = false -> Inv c inp m'.
Proof.
  intros Hadj Hst [He0 HI] H Heof. rewrite (step_PathSt _ _ _ _ _ _ Hst) in H.
  destruct m as [st p0 e0 buf atF brF pwF u]. cbn [m_state m_ptr m_eof m_buf m_at m_br m_pw m_url] in *.
  subst st e0.
  unfold step_path, unit_checks, mherr, handleError in H. cbn [m_state m_ptr m_eof m_buf m_at m_br m_pw m_url] in H.
  rewrite !r_cp in H. cbn [orb] in H.
  set (p := (p0 + 1)%Z) in *.
  set (r := cp_at inp p) in *.
  set (eof := if (n_inp inp <=? p)%Z then true else false) in *.
  step_crush H.
  all: injection H as <-.
  all: cbn [m_eof mk] in Heof.
  all: unfold Inv; cbn [m_state m_eof m_ptr m_buf m_url mk]; (split; [exact Heof|]).
  all: try exact I.
  all: intros Hsp; unfold IsSpecialScheme in Hsp; rewrite ?seg_end_scheme in Hsp; cbn [u_scheme set_verrs] in Hsp.
  all: specialize (HI Hsp); destruct HI as [P Hbuf].
  all: try (split; [exact P|]; intros Hb; exfalso; revert Hb; apply app_nonempty_r;
            first [apply per_nonempty | apply peir_nonempty | apply (per_nonempty c r (Some (c_pathSet c)))]).
  all: assert (SL : (r =? 47) || isSpecialSchemeAndBackslash (with_collapse c b) u r = true)
         by (try rewrite Heof in *; destruct (r =? 47); [reflexivity|]; cbn [orb andb] in *;
             first [ assumption
                   | match goal with Hc : _ = true |- _ => rewrite ?andb_false_r in Hc; discriminate Hc end ]).
  all: apply seg_leaf; [exact Hadj|exact P|exact Hbuf|exact SL|exact (slashlike_sl _ _ _ SL)].
Qed.
