(* N6: collapseConsecutiveSlashes.  The option is read in PathSt only, when a segment ends, as
     replaceLast := c_collapse c && special u && path <> [] && (last segment of path is empty).
   It is neutral whenever no segment is ever appended to a path that ends in an empty segment. *)
From Coq Require Import String.
From Verif Require Import Lib.Base Lib.Utf8 Lib.GoStr Model.Cfg Gen.Tables Gen.Options Model.Sets Model.Percent Model.Url Model.Host Model.Machine Model.Api.
From Verif Require Import Proofs.OptionTable Proofs.Utf8Proofs Proofs.Cleaning Proofs.OptionNeutralBase Proofs.OptionNeutral.
From Coq Require Import Lia ZifyBool ZifyN ZifyNat.

(* ---------- the segment update ---------- *)
(* the test the option controls, without the option *)
Definition would_replace (c : cfg) (u : url) : bool :=
  IsSpecialScheme c u && negb (is_nil (u_path u)) && last_empty (u_path u).

Lemma seg_end_collapse c b1 b2 u buf sl : would_replace c u = false ->
  seg_end (with_collapse c b1) u buf sl = seg_end (with_collapse c b2) u buf sl.
Proof.
  unfold would_replace. intros H. unfold seg_end. cbv zeta. cbn [c_collapse c_skipDrive with_collapse].
  change (IsSpecialScheme (with_collapse c b1) u) with (IsSpecialScheme c u).
  change (IsSpecialScheme (with_collapse c b2) u) with (IsSpecialScheme c u).
  assert (E : forall b, b && IsSpecialScheme c u && negb (is_nil (u_path u)) && last_empty (u_path u) = false).
  { intros b. destruct b; cbn [andb]; [exact H|reflexivity]. }
  rewrite !E. reflexivity.
Qed.

(* ---------- semantic form ---------- *)
(* states reachable from m0 *)
Inductive reach (idna_raw : str -> str * bool) (c : cfg) (inp : list rune) (base : option url) (ov : option state)
  (m0 : mstate) : mstate -> Prop :=
| reach_refl : reach idna_raw c inp base ov m0 m0
| reach_step m m' : reach idna_raw c inp base ov m0 m -> step idna_raw c inp base ov m = Cont m' -> m_eof m' = false ->
    reach idna_raw c inp base ov m0 m'.

Section N6sem.
  Variable idna_raw : str -> str * bool.
  Variable c : cfg.
  Variables b1 b2 : bool.
  Notation c1 := (with_collapse c b1).
  Notation c2 := (with_collapse c b2).

  Lemma collapse_step inp base ov m :
    (m_state m = PathSt -> would_replace c (m_url m) = false) ->
    step idna_raw c1 inp base ov m = step idna_raw c2 inp base ov m.
  Proof.
    intros H. apply step_eq_simple; try reflexivity; try (intros; reflexivity).
    - repeat split; reflexivity.
    - intros E u sl Hs Hp. apply seg_end_collapse. specialize (H E).
      unfold would_replace, IsSpecialScheme in *. rewrite Hs, Hp. exact H.
  Qed.

  (* with an invariant *)
  Theorem collapse_neutral_inv (I : mstate -> Prop) inp base ov :
    (forall m, I m -> m_state m = PathSt -> would_replace c (m_url m) = false) ->
    (forall m m', I m -> step idna_raw c1 inp base ov m = Cont m' -> m_eof m' = false -> I m') ->
    forall fuel m, I m -> run idna_raw c1 inp base ov fuel m = run idna_raw c2 inp base ov fuel m.
  Proof.
    intros H1 H2. apply (run_sim_eq idna_raw c1 c2 inp base ov I H2).
    intros m Hm. apply collapse_step. apply H1, Hm.
  Qed.

  (* with the reachable states of the first machine *)
  Theorem collapse_neutral_sem inp base ov m0 :
    (forall m, reach idna_raw c1 inp base ov m0 m -> m_state m = PathSt -> would_replace c (m_url m) = false) ->
    forall fuel, run idna_raw c1 inp base ov fuel m0 = run idna_raw c2 inp base ov fuel m0.
  Proof.
    intros H fuel. apply (collapse_neutral_inv (reach idna_raw c1 inp base ov m0) inp base ov H).
    - intros m m' R S E. exact (reach_step _ _ _ _ _ _ m m' R S E).
    - apply reach_refl.
  Qed.
End N6sem.
Print Assumptions collapse_neutral_sem.

(* ================================================================== *)
(* Syntactic form                                                      *)
(* ================================================================== *)
Definition sl (x : N) : bool := (x =? 47) || (x =? 92).
(* no two adjacent slash-like code points *)
Definition no_adjacent_sl (inp : list rune) : Prop :=
  forall p, sl (cp_at inp p) = true -> sl (cp_at inp (p + 1)) = true -> False.
Definition segs_ok (path : list str) : Prop := Forall (fun s => s <> []) path.

Lemma last_opt_In {A} (l : list A) x : last_opt l = Some x -> In x l.
Proof.
  induction l as [|y l IH]; [discriminate|]. cbn [last_opt]. destruct l as [|z l'].
  - intros [= ->]. left; reflexivity.
  - intros H. right. apply IH, H.
Qed.

Lemma segs_ok_last path : segs_ok path -> last_empty path = false.
Proof.
  intros H. unfold last_empty. destruct (last_opt path) as [s|] eqn:E; [|reflexivity].
  apply last_opt_In in E. unfold segs_ok in H. rewrite Forall_forall in H. specialize (H s E).
  destruct s; [congruence|reflexivity].
Qed.

Lemma segs_ok_removelast path : segs_ok path -> segs_ok (removelast path).
Proof.
  unfold segs_ok. induction 1 as [|x l Hx Hl IH]; [constructor|].
  cbn [removelast]. destruct l; [constructor|]. constructor; assumption.
Qed.

Lemma normalized_nonempty x : isNormalizedWindowsDriveLetter x = true -> x <> [].
Proof. destruct x; [discriminate|congruence]. Qed.

(* all but the last segment non-empty is enough for the shortened path *)
Lemma segs_ok_shorten s path : segs_ok (removelast path) -> segs_ok (shortenPath s path).
Proof.
  intros H. unfold shortenPath. destruct path as [|x [|y l]]; try exact H.
  destruct (str_eqb s s_file && isNormalizedWindowsDriveLetter x) eqn:E; [|constructor].
  apply andb_true_iff in E as [_ E]. constructor; [apply normalized_nonempty, E|constructor].
Qed.

Lemma segs_ok_app path s : segs_ok path -> s <> [] -> segs_ok (path ++ [s]).
Proof. intros H Hs. apply Forall_app. split; [exact H|constructor; [exact Hs|constructor]]. Qed.

Lemma utf8_enc_ne r : utf8_enc r <> [].
Proof. apply utf8_enc_nonempty. Qed.

Lemma per_nonempty c r tr : percentEncodeRune c r tr <> [].
Proof.
  unfold percentEncodeRune.
  assert (E : (if c_latin1 c then pct_byte (fst (latin1_enc r)) else flat_map pct_byte (utf8_enc r)) <> []).
  { destruct (c_latin1 c); [discriminate|]. pose proof (utf8_enc_ne r). destruct (utf8_enc r); [congruence|discriminate]. }
  destruct tr as [t|]; [|exact E]. destruct (RuneShouldBeEncoded t r); [exact E|apply utf8_enc_ne].
Qed.

Lemma peir_nonempty c r tr : percentEncodeInvalidRune c r tr <> [].
Proof. unfold percentEncodeInvalidRune. destruct (c_singlePct c); apply per_nonempty. Qed.

Lemma app_nonempty_r {A} (l e : list A) : e <> [] -> l ++ e <> [].
Proof. intros H E. apply app_eq_nil in E as [_ E]. exact (H E). Qed.

Lemma seg_end_scheme c u buf s : u_scheme (seg_end c u buf s) = u_scheme u.
Proof.
  unfold seg_end. cbv zeta.
  repeat match goal with |- context [if ?b then _ else _] => destruct b end; reflexivity.
Qed.

Lemma drive_buf_nonempty (g : bool) buf : buf <> [] ->
  (if g then match buf with b0 :: _ => [b0; 58] | [] => buf end else buf) <> [].
Proof. intros H. destruct g; [|exact H]. destruct buf; [congruence|discriminate]. Qed.

Lemma seg_end_slash c u buf : segs_ok (u_path u) -> buf <> [] -> segs_ok (u_path (seg_end c u buf true)).
Proof.
  intros P Hb. unfold seg_end. cbv zeta. rewrite (segs_ok_last _ P), !andb_false_r. cbn [negb andb orb].
  destruct (isDoubleDotPathSegment buf).
  - cbn [u_path set_path]. apply segs_ok_shorten, segs_ok_removelast, P.
  - destruct (negb (isSingleDotPathSegment buf)); [|exact P].
    unfold addSegment. cbn [u_path set_path]. apply segs_ok_app; [exact P|]. apply drive_buf_nonempty, Hb.
Qed.

Lemma slashlike_sl c u r : (r =? 47) || isSpecialSchemeAndBackslash c u r = true -> sl r = true.
Proof.
  unfold isSpecialSchemeAndBackslash, sl. intros H. apply orb_true_iff in H as [H|H]; [rewrite H; reflexivity|].
  apply andb_true_iff in H as [_ H]. rewrite H. apply orb_true_r.
Qed.

Definition Inv (c : cfg) (inp : list rune) (m : mstate) : Prop :=
  m_eof m = false /\
  match m_state m with
  | OpaquePath | QuerySt | FragmentSt => True
  | PathOrAuthority => segs_ok (u_path (m_url m)) /\ IsSpecialScheme c (m_url m) = false
  | PathSt => IsSpecialScheme c (m_url m) = true ->
       segs_ok (u_path (m_url m)) /\
       (m_buf m = [] -> sl (cp_at inp (m_ptr m + 1)) = true -> sl (cp_at inp (m_ptr m)) = true)
  | _ => segs_ok (u_path (m_url m))
  end.

Lemma cdp_path c u : u_path (cleanDefaultPort c u) = u_path u.
Proof.
  unfold cleanDefaultPort. destruct (getSpecialScheme c (u_scheme u)); [|reflexivity].
  destruct (u_port u); [|reflexivity]. destruct (str_eqb s s0); reflexivity.
Qed.

Lemma drive_nonempty buf : isWindowsDriveLetter buf = true -> buf <> [].
Proof. destruct buf; [discriminate|congruence]. Qed.

Ltac frame_hosts :=
  repeat match goal with
  | Hph : parseHost _ _ ?u _ _ = Ok ?u0 _ |- _ =>
      let v := fresh "v" in
      destruct (parseHost_ok_frame _ _ _ _ _ _ _ Hph) as [v ->]; clear Hph
  end.

Ltac cbn_url :=
  cbn [u_path u_scheme set_input set_scheme set_username set_password set_host set_port set_path set_query
       set_fragment set_verrs set_sp addSegment copy_base_auth].
Ltac cbn_url_all :=
  cbn [u_path u_scheme set_input set_scheme set_username set_password set_host set_port set_path set_query
       set_fragment set_verrs set_sp addSegment copy_base_auth] in *.

Lemma Inv_step idna_raw c b inp base ov m m' :
  c_skipTrailSlash c = false -> no_adjacent_sl inp ->
  (forall bu, base = Some bu -> segs_ok (removelast (u_path bu))) ->
  m_state m <> PathSt ->
  Inv c inp m -> step idna_raw (with_collapse c b) inp base ov m = Cont m' -> m_eof m' = false -> Inv c inp m'.
Proof.
  intros Hts Hadj Hbase Hst [He0 HI] H Heof. destruct m as [st p0 e0 buf atF brF pwF u].
  unfold step, mherr, handleError in H. cbn [m_state m_ptr m_eof m_buf m_at m_br m_pw m_url] in *.
  rewrite !r_cp in H. subst e0. cbn [orb] in H.
  set (p := (p0 + 1)%Z) in *.
  set (r := cp_at inp p) in *.
  set (eof := if (n_inp inp <=? p)%Z then true else false) in *.
  destruct st; try congruence; clear Hst.
  all: step_crush H.
  all: injection H as <-.
  all: cbn [m_eof mk] in Heof.
  all: try (rewrite Heof in *; cbn [negb orb andb] in *; discriminate).
  all: unfold Inv; cbn [m_state m_eof m_ptr m_buf m_url mk]; (split; [exact Heof|]).
  all: try exact I.
  all: try (destruct HI as [HI HIs]).
  all: frame_hosts.
  all: rewrite ?cdp_path.
  all: cbn_url.
  all: try assumption.
  all: try (split; assumption).
  all: try (intros Hsp; split;
      [ first [ assumption | constructor
              | apply segs_ok_shorten, Hbase; first [assumption | reflexivity]
              | apply segs_ok_app; [assumption|];
                match goal with Hn : _ && isNormalizedWindowsDriveLetter ?s = true |- _ =>
                  apply andb_true_iff in Hn as [_ Hn]; apply normalized_nonempty, Hn end ]
      | intros Hb Hs; try (replace (p - 1 + 1)%Z with p in Hs by lia); fold r in Hs |- *;
        unfold sl, isSpecialSchemeAndBackslash, IsSpecialScheme in *;
        change (isSpecialScheme (with_collapse c b)) with (isSpecialScheme c) in *;
        cbn [c_skipTrailSlash with_collapse] in *; cbn_url_all; rewrite ?Hts in *;
        try discriminate Hb;
        try (match goal with Hd : context [isWindowsDriveLetter ?B], Hb' : ?B = [] |- _ =>
               rewrite Hb' in Hd; cbn [isWindowsDriveLetter] in Hd; rewrite ?andb_false_r in Hd; discriminate Hd end);
        rewrite ?Hsp in *; try rewrite HI in *;
        destruct (r =? 47) eqn:E47; destruct (r =? 92) eqn:E92; cbn [andb orb negb] in *;
        try discriminate; try congruence; try reflexivity ]).
Qed.

(* the end of a segment, terminated by a separator *)
Lemma seg_leaf c' inp (p0 : Z) U buf SL :
  no_adjacent_sl inp -> segs_ok (u_path U) ->
  (buf = [] -> sl (cp_at inp (p0 + 1)%Z) = true -> sl (cp_at inp p0) = true) ->
  SL = true -> sl (cp_at inp (p0 + 1)%Z) = true ->
  segs_ok (u_path (seg_end c' U buf SL)) /\
  ((@nil N) = (@nil N) -> sl (cp_at inp (p0 + 1 + 1)%Z) = true -> sl (cp_at inp (p0 + 1)%Z) = true).
Proof.
  intros Hadj P Hbuf -> Hr. split; [|intros _ _; exact Hr].
  apply seg_end_slash; [exact P|]. intros Hb. exact (Hadj p0 (Hbuf Hb Hr) Hr).
Qed.

Lemma Inv_step_PathSt idna_raw c b inp base ov m m' :
  no_adjacent_sl inp -> m_state m = PathSt ->
  Inv c inp m -> step idna_raw (with_collapse c b) inp base ov m = Cont m' -> m_eof m' = false -> Inv c inp m'.
Proof.
  intros Hadj Hst [He0 HI] H Heof. rewrite (step_PathSt _ _ _ _ _ _ Hst) in H.
  destruct m as [st p0 e0 buf atF brF pwF u]. cbn [m_state m_ptr m_eof m_buf m_at m_br m_pw m_url] in *.
  subst st e0.
  unfold step_path, unit_checks, mherr, handleError in H. cbn [m_state m_ptr m_eof m_buf m_at m_br m_pw m_url] in H.
  rewrite !r_cp in H. cbn [orb] in H.
  set (p := (p0 + 1)%Z) in *.
  set (r := cp_at inp p) in *.
  set (eof := if (n_inp inp <=? p)%Z then true else false) in *.
  step_crush H.
  all: injection H as <-.
  all: cbn [m_eof mk] in Heof.
  all: unfold Inv; cbn [m_state m_eof m_ptr m_buf m_url mk]; (split; [exact Heof|]).
  all: try exact I.
  all: intros Hsp; unfold IsSpecialScheme in Hsp; rewrite ?seg_end_scheme in Hsp; cbn [u_scheme set_verrs] in Hsp.
  all: specialize (HI Hsp); destruct HI as [P Hbuf].
  all: try (split; [exact P|]; intros Hb; exfalso; revert Hb; apply app_nonempty_r;
            first [apply per_nonempty | apply peir_nonempty | apply (per_nonempty c r (Some (c_pathSet c)))]).
  all: assert (SL : (r =? 47) || isSpecialSchemeAndBackslash (with_collapse c b) u r = true)
         by (try rewrite Heof in *; destruct (r =? 47); [reflexivity|]; cbn [orb andb] in *;
             first [ assumption
                   | match goal with Hc : _ = true |- _ => rewrite ?andb_false_r in Hc; discriminate Hc end ]).
  all: apply seg_leaf; [exact Hadj|exact P|exact Hbuf|exact SL|exact (slashlike_sl _ _ _ SL)].
Qed.

Lemma Inv_safe c inp m : Inv c inp m -> m_state m = PathSt -> would_replace c (m_url m) = false.
Proof.
  intros [_ HI] E. rewrite E in HI. unfold would_replace.
  destruct (IsSpecialScheme c (m_url m)) eqn:S; [|reflexivity].
  destruct (HI eq_refl) as [P _]. rewrite (segs_ok_last _ P). apply andb_false_r.
Qed.

Lemma state_PathSt_dec (st : state) : {st = PathSt} + {st <> PathSt}.
Proof. destruct st; (left; reflexivity) || (right; discriminate). Qed.

(* a decidable form of the premise on the input *)
Fixpoint no_adj_b (l : list N) : bool :=
  match l with
  | x :: t => match t with y :: _ => negb (sl x && sl y) | [] => true end && no_adj_b t
  | [] => true
  end.

Definition cpn (l : list rune) (n : nat) : N := match nth_opt l n with Some r => rv r | None => rune_error end.

Lemma no_adj_b_spec l : no_adj_b (map rv l) = true ->
  forall n, sl (cpn l n) = true -> sl (cpn l (S n)) = true -> False.
Proof.
  induction l as [|x l IH]; intros H n H1 H2.
  - destruct n; discriminate H1.
  - cbn [map no_adj_b] in H. apply andb_true_iff in H as [Ha Hb].
    destruct n as [|n].
    + unfold cpn in H1, H2. cbn [nth_opt] in H1, H2. destruct l as [|y l']; [discriminate H2|].
      cbn [map nth_opt] in *. rewrite H1, H2 in Ha. discriminate Ha.
    + unfold cpn in H1, H2. cbn [nth_opt] in H1, H2. exact (IH Hb n H1 H2).
Qed.

Lemma no_adj_b_sound inp : no_adj_b (map rv inp) = true -> no_adjacent_sl inp.
Proof.
  intros H p H1 H2. unfold cp_at in H1, H2.
  destruct (p <? 0)%Z eqn:L; [discriminate H1|].
  destruct (p + 1 <? 0)%Z eqn:L2; [discriminate H2|].
  replace (Z.to_nat (p + 1)) with (S (Z.to_nat p)) in H2 by lia.
  exact (no_adj_b_spec inp H (Z.to_nat p) H1 H2).
Qed.

Section N6syn.
  Variable idna_raw : str -> str * bool.
  Variable c : cfg.
  Variables b1 b2 : bool.
  Notation c1 := (with_collapse c b1).
  Notation c2 := (with_collapse c b2).
  Hypothesis Hts : c_skipTrailSlash c = false.

  Theorem collapse_neutral_run inp base ov fuel m :
    no_adjacent_sl inp ->
    (forall bu, base = Some bu -> segs_ok (removelast (u_path bu))) ->
    Inv c inp m ->
    run idna_raw c1 inp base ov fuel m = run idna_raw c2 inp base ov fuel m.
  Proof.
    intros Hadj Hbase. apply (collapse_neutral_inv idna_raw c b1 b2 (Inv c inp) inp base ov).
    - intros m0 Hm. apply (Inv_safe c inp), Hm.
    - intros m0 m' Hm S E. destruct (state_PathSt_dec (m_state m0)) as [P|P].
      + exact (Inv_step_PathSt idna_raw c b1 inp base ov m0 m' Hadj P Hm S E).
      + exact (Inv_step idna_raw c b1 inp base ov m0 m' Hts Hadj Hbase P Hm S E).
  Qed.

  (* Parse / UrlParse: no url argument, no state override *)
  Theorem collapse_neutral x base :
    no_adj_b (runes (cleaned (c_acceptInvalid c) x None)) = true ->
    (forall bu, base = Some bu -> segs_ok (removelast (u_path bu))) ->
    BasicParser idna_raw c1 x base None None = BasicParser idna_raw c2 x base None None.
  Proof.
    intros Hadj Hbase. apply BasicParser_lift_eq; try reflexivity. intros v i.
    apply collapse_neutral_run.
    - apply no_adj_b_sound, Hadj.
    - intros bu Hb. destruct base as [b0|]; [|discriminate]. cbn [option_map] in Hb. injection Hb as <-.
      unfold clone. cbn [u_path set_verrs]. apply Hbase. reflexivity.
    - split; [reflexivity|]. cbn [m_state init_m mk m_url]. cbn [u_path set_input set_verrs start_url empty_url]. constructor.
  Qed.

  Corollary collapse_Parse x : no_adj_b (runes (clean_sv (c_acceptInvalid c) x)) = true ->
    Parse idna_raw c1 x = Parse idna_raw c2 x.
  Proof. intros H. apply to_pres_congr, collapse_neutral; [exact H|discriminate]. Qed.

  Corollary collapse_UrlParse bu x : no_adj_b (runes (clean_sv (c_acceptInvalid c) x)) = true ->
    segs_ok (removelast (u_path bu)) ->
    UrlParse idna_raw c1 bu x = UrlParse idna_raw c2 bu x.
  Proof. intros H Hb. apply to_pres_congr, collapse_neutral; [exact H|]. intros b0 [= <-]. exact Hb. Qed.

  (* SetPathname: the path is emptied first *)
  Corollary collapse_SetPathname u s : no_adj_b (runes (cleaned (c_acceptInvalid c) s (Some u))) = true ->
    SetPathname idna_raw c1 u s = SetPathname idna_raw c2 u s.
  Proof.
    intros H. unfold SetPathname. destruct (u_opaque u); [reflexivity|]. f_equal.
    apply BasicParser_lift_eq; try reflexivity. intros v i. apply collapse_neutral_run.
    - apply no_adj_b_sound, H.
    - discriminate.
    - split; [reflexivity|]. cbn [m_state init_m mk m_url]. cbn [u_path set_input set_verrs start_url set_path]. constructor.
  Qed.
End N6syn.
Print Assumptions collapse_neutral_run.
Print Assumptions collapse_neutral.
Print Assumptions collapse_SetPathname.

(* the premises hold for non-trivial values: a relative reference against a base whose path has a trailing empty segment *)
Example collapse_premise_ex :
  c_skipTrailSlash default_cfg = false /\
  no_adj_b (runes (clean (bs "../a/./b\c?x//y#//"%string))) = false /\
  no_adj_b (runes (clean (bs "../a/./b/c"%string))) = true /\
  exists bu, Parse id_idna default_cfg (bs "http://h/p/q/"%string) = PUrl bu /\ segs_ok (removelast (u_path bu)).
Proof.
  split; [reflexivity|]. split; [vm_compute; reflexivity|]. split; [vm_compute; reflexivity|].
  eexists. split; [vm_compute; reflexivity|]. cbn [u_path removelast]. repeat constructor; discriminate.
Qed.

(* the premises are needed *)
Lemma collapse_neutral_refuted : exists x,
  Parse id_idna (with_collapse default_cfg true) x <> Parse id_idna (with_collapse default_cfg false) x.
Proof. exists (bs "http://h/a//b"%string). vm_compute. discriminate. Qed.

(* an empty segment inside the base path *)
Lemma collapse_neutral_base_refuted : exists bu x,
  no_adj_b (runes (clean x)) = true /\
  UrlParse id_idna (with_collapse default_cfg true) bu x <> UrlParse id_idna (with_collapse default_cfg false) bu x.
Proof.
  destruct (Parse id_idna default_cfg (bs "http://h/a//c"%string)) as [bu| | | |] eqn:E; try (vm_compute in E; discriminate E).
  exists bu, (bs "x"%string). vm_compute in E. injection E as <-. split; vm_compute; [reflexivity|discriminate].
Qed.

(* with skipTrailingSlashNormalization a backslash after the host leaves an empty first segment:
   the input has no two adjacent slash-like code points and still the option matters *)
Lemma collapse_neutral_skipTrail_refuted : exists x,
  no_adj_b (runes (clean x)) = true /\
  Parse id_idna (with_collapse (with_skipTrailSlash default_cfg true) true) x <>
  Parse id_idna (with_collapse (with_skipTrailSlash default_cfg true) false) x.
Proof. exists (bs "http:h\a"%string). split; vm_compute; [reflexivity|discriminate]. Qed.

(* ================================================================== *)
(* The effect of the option                                            *)
(* ================================================================== *)
(* no empty segment except possibly the last *)
Definition Q (p : list str) : Prop := segs_ok (removelast p).

Lemma last_opt_snoc {A} (l : list A) x : last_opt (l ++ [x]) = Some x.
Proof.
  induction l as [|y l IH]; [reflexivity|]. cbn [app last_opt]. rewrite IH.
  destruct (l ++ [x]) eqn:E; [destruct l; discriminate|reflexivity].
Qed.

Lemma Q_of_ok p : segs_ok p -> Q p.
Proof. apply segs_ok_removelast. Qed.

Lemma Q_snoc p x : Q (p ++ [x]) <-> segs_ok p.
Proof. unfold Q. rewrite removelast_last. reflexivity. Qed.

(* when the last segment is not empty, all segments are non-empty *)
Lemma Q_full p : Q p -> negb (is_nil p) && last_empty p = false -> segs_ok p.
Proof.
  induction p as [|x l _] using rev_ind; intros H E; [constructor|].
  apply Q_snoc in H. apply segs_ok_app; [exact H|].
  unfold last_empty in E. rewrite last_opt_snoc in E. destruct (l ++ [x]) eqn:F; [destruct l; discriminate|].
  cbn [is_nil negb andb] in E. destruct x; [discriminate|congruence].
Qed.

Lemma removelast_replace_last {A} (l : list A) x : removelast (replace_last l x) = removelast l.
Proof.
  induction l as [|y l IH]; [reflexivity|]. destruct l as [|z l']; [reflexivity|].
  change (replace_last (y :: z :: l') x) with (y :: replace_last (z :: l') x).
  change (removelast (y :: z :: l')) with (y :: removelast (z :: l')).
  rewrite <- IH. destruct (replace_last (z :: l') x) eqn:E; [|reflexivity].
  destruct l'; discriminate.
Qed.

Lemma Q_shorten s p : Q p -> segs_ok (shortenPath s p).
Proof. apply segs_ok_shorten. Qed.

Lemma seg_end_Q c u buf sl : IsSpecialScheme c u = true -> Q (u_path u) ->
  Q (u_path (seg_end (with_collapse c true) u buf sl)).
Proof.
  intros S H. unfold seg_end. cbv zeta. cbn [c_collapse c_skipDrive with_collapse].
  change (IsSpecialScheme (with_collapse c true) u) with (IsSpecialScheme c u). rewrite S. cbn [andb].
  destruct (isDoubleDotPathSegment buf).
  - destruct (negb sl).
    + unfold addSegment. cbn [u_path set_path]. apply Q_snoc, Q_shorten, H.
    + cbn [u_path set_path]. apply Q_of_ok, Q_shorten, H.
  - destruct (isSingleDotPathSegment buf && negb sl).
    + destruct (negb (is_nil (u_path u)) && last_empty (u_path u)) eqn:E; cbn [negb]; [exact H|].
      unfold addSegment. cbn [u_path set_path]. apply Q_snoc, Q_full; assumption.
    + destruct (negb (isSingleDotPathSegment buf)); [|exact H].
      destruct (negb (is_nil (u_path u)) && last_empty (u_path u)) eqn:E; cbn [negb].
      * cbn [u_path set_path]. unfold Q. rewrite removelast_replace_last. exact H.
      * unfold addSegment. cbn [u_path set_path]. apply Q_snoc, Q_full; assumption.
Qed.

(* the invariant *)
Definition K (c : cfg) (m : mstate) : Prop :=
  match m_state m with
  | PathSt | QuerySt | FragmentSt | OpaquePath => IsSpecialScheme c (m_url m) = true -> Q (u_path (m_url m))
  | _ => Q (u_path (m_url m)) /\ (m_eof m = false -> segs_ok (u_path (m_url m)))
  end.

Lemma K_step idna_raw c inp base ov m m' :
  (forall bu, base = Some bu -> Q (u_path bu)) ->
  m_state m <> PathSt -> m_eof m = false ->
  K c m -> step idna_raw (with_collapse c true) inp base ov m = Cont m' -> K c m'.
Proof.
  intros Hbase Hst He0 HK H. destruct m as [st p0 e0 buf atF brF pwF u].
  unfold step, mherr, handleError in H. cbn [m_state m_ptr m_eof m_buf m_at m_br m_pw m_url] in *.
  rewrite !r_cp in H. subst e0. cbn [orb] in H.
  set (p := (p0 + 1)%Z) in *.
  set (r := cp_at inp p) in *.
  set (eof := if (n_inp inp <=? p)%Z then true else false) in *.
  unfold K in HK. cbn [m_state m_url m_eof] in HK.
  destruct st; try congruence; clear Hst.
  all: try (destruct HK as [HQ HS]; specialize (HS eq_refl)).
  all: step_crush H.
  all: injection H as <-.
  all: unfold K; cbn [m_state m_eof m_ptr m_buf m_url mk].
  all: frame_hosts.
  all: rewrite ?cdp_path.
  all: cbn_url.
  all: try assumption.
  all: try (split; [assumption|intros; assumption]).
  all: try (intros _; assumption).
  all: try (intros _; apply Q_of_ok; assumption).
  all: try (intros _; unfold Q; cbn [removelast]; constructor).
  all: try (intros _; apply Hbase; first [assumption|reflexivity]).
  all: try (intros _; apply Q_of_ok, Q_shorten, Hbase; first [assumption|reflexivity]).
  all: try (intros _; apply Q_snoc; assumption).
  all: try (split; [first [apply Hbase; first [assumption|reflexivity] | apply Q_snoc; assumption]
                   | intros E; rewrite E in *; cbn [negb] in *; discriminate]).
Qed.

Lemma K_step_PathSt idna_raw c inp base ov m m' :
  m_state m = PathSt -> K c m -> step idna_raw (with_collapse c true) inp base ov m = Cont m' -> K c m'.
Proof.
  intros Hst HK H. rewrite (step_PathSt _ _ _ _ _ _ Hst) in H.
  destruct m as [st p0 e0 buf atF brF pwF u]. cbn [m_state m_ptr m_eof m_buf m_at m_br m_pw m_url] in *.
  subst st. unfold K in HK. cbn [m_state m_url] in HK.
  unfold step_path, unit_checks, mherr, handleError in H. cbn [m_state m_ptr m_eof m_buf m_at m_br m_pw m_url] in H.
  rewrite !r_cp in H. cbn [orb] in H.
  set (p := (p0 + 1)%Z) in *.
  set (r := cp_at inp p) in *.
  step_crush H.
  all: injection H as <-.
  all: unfold K; cbn [m_state m_eof m_ptr m_buf m_url mk].
  all: unfold IsSpecialScheme in *; cbn [u_scheme u_path set_query set_fragment set_verrs];
       rewrite ?seg_end_scheme; cbn [u_scheme u_path set_query set_fragment set_verrs]; intros Hsp.
  all: try exact (HK Hsp).
  all: apply seg_end_Q; [exact Hsp|exact (HK Hsp)].
Qed.

(* without a state override the machine never returns early with a URL *)
Lemma step_None_no_RetUrl idna_raw c inp base m u : step idna_raw c inp base None m <> RetUrl u.
Proof.
  intros H. destruct m as [st p0 e0 buf atF brF pwF u1].
  unfold step, mherr, handleError, overridden in H. cbn [m_state m_ptr m_eof m_buf m_at m_br m_pw m_url is_some negb andb] in H.
  destruct st; step_crush H.
Qed.

Lemma K_final c m : K c m -> IsSpecialScheme c (m_url m) = true -> Q (u_path (m_url m)).
Proof. unfold K. destruct (m_state m); intros H S; try exact (H S); exact (proj1 H). Qed.

Section Effect.
  Variable idna_raw : str -> str * bool.
  Variable c : cfg.
  Notation con := (with_collapse c true).

  Lemma run_K inp base fuel : (forall bu, base = Some bu -> Q (u_path bu)) ->
    forall m u, K c m -> m_eof m = false -> run idna_raw con inp base None fuel m = RUrl u ->
    IsSpecialScheme c u = true -> Q (u_path u).
  Proof.
    intros Hbase. induction fuel as [|f IH]; intros m u HK He H S; [discriminate H|].
    cbn [run] in H. destruct (step idna_raw con inp base None m) as [m'|u'| | |] eqn:St; try discriminate H.
    - assert (HK' : K c m').
      { destruct (state_PathSt_dec (m_state m)) as [P|P].
        - exact (K_step_PathSt idna_raw c inp base None m m' P HK St).
        - exact (K_step idna_raw c inp base None m m' Hbase P He HK St). }
      destruct (m_eof m') eqn:E.
      + injection H as <-. apply (K_final c); assumption.
      + exact (IH m' u HK' E H S).
    - exfalso. exact (step_None_no_RetUrl _ _ _ _ _ _ St).
  Qed.

  (* with the option on, the path of a special URL has no empty segment except possibly the last one,
     provided the base path (if a base is used) has that property *)
  Theorem collapse_effect_BasicParser x base u :
    (forall bu, base = Some bu -> Q (u_path bu)) ->
    BasicParser idna_raw con x base None None = RUrl u -> IsSpecialScheme c u = true -> Q (u_path u).
  Proof.
    intros Hbase H S.
    destruct (BasicParser_shape idna_raw base None con x None) as [[u' [e Sh]]|[v Sh]].
    - rewrite (Sh con) in H by (repeat split). discriminate H.
    - rewrite (Sh con) in H by (repeat split). unfold machine_run in H.
      revert H S. apply run_K.
      + intros bu Hb. destruct base as [b0|]; [|discriminate]. cbn [option_map] in Hb. injection Hb as <-.
        unfold clone. cbn [u_path set_verrs]. apply Hbase. reflexivity.
      + unfold K, init_m. cbn [m_state m_url m_eof mk u_path set_input set_verrs start_url empty_url].
        split; [constructor|intros _; constructor].
      + reflexivity.
  Qed.

  Theorem collapse_effect x u :
    Parse idna_raw con x = PUrl u -> IsSpecialScheme c u = true -> Q (u_path u).
  Proof.
    unfold Parse. intros H. destruct (BasicParser idna_raw con x None None None) as [u'| | | |] eqn:B; try discriminate H.
    injection H as <-. apply (collapse_effect_BasicParser x None u'); [discriminate|exact B].
  Qed.

  Theorem collapse_effect_UrlParse bu x u : Q (u_path bu) ->
    UrlParse idna_raw con bu x = PUrl u -> IsSpecialScheme c u = true -> Q (u_path u).
  Proof.
    unfold UrlParse. intros Hb H.
    destruct (BasicParser idna_raw con x (Some bu) None None) as [u'| | | |] eqn:B; try discriminate H.
    injection H as <-. apply (collapse_effect_BasicParser x (Some bu) u'); [|exact B]. intros b0 [= <-]. exact Hb.
  Qed.
End Effect.
Print Assumptions collapse_effect.
Print Assumptions collapse_effect_UrlParse.

Example collapse_effect_ex : exists u,
  Parse id_idna (with_collapse default_cfg true) (bs "http://h//a///b/..//c//"%string) = PUrl u /\
  u_path u = [bs "a"%string; bs "c"%string; []].
Proof. eexists. split; vm_compute; reflexivity. Qed.

(* the restrictions are needed: a non-special URL keeps its empty segments ... *)
Lemma collapse_effect_nonspecial_refuted : exists x u,
  Parse id_idna (with_collapse default_cfg true) x = PUrl u /\ ~ Q (u_path u).
Proof.
  exists (bs "foo://h/a//b"%string). eexists. split; [vm_compute; reflexivity|].
  cbn [u_path]. unfold Q, segs_ok. cbn [removelast]. intros H. rewrite Forall_forall in H.
  apply (H []); [right; left; reflexivity|reflexivity].
Qed.

(* ... and so does a base path that is only copied *)
Lemma collapse_effect_base_refuted : exists bu x u,
  UrlParse id_idna (with_collapse default_cfg true) bu x = PUrl u /\ IsSpecialScheme default_cfg u = true /\ ~ Q (u_path u).
Proof.
  destruct (Parse id_idna default_cfg (bs "http://h/a//b"%string)) as [bu| | | |] eqn:E; try (vm_compute in E; discriminate E).
  exists bu, (bs "?q"%string). vm_compute in E. injection E as <-. eexists. split; [vm_compute; reflexivity|]. split; [reflexivity|].
  cbn [u_path]. unfold Q, segs_ok. cbn [removelast]. intros H. rewrite Forall_forall in H.
  apply (H []); [right; left; reflexivity|reflexivity].
Qed.
