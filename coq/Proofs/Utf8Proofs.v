(* Laws of the UTF-8 model Lib/Utf8.v (Go's utf8.EncodeRune, []rune(s), utf8.ValidString). *)
From Verif Require Import Lib.Base Lib.Utf8.
From Coq Require Import Lia ZifyBool ZifyN ZifyNat.
Ltac Zify.zify_post_hook ::= Z.div_mod_to_equations.

(* a Unicode scalar value *)
Definition scalar (c : N) : Prop := c <= 1114111 /\ is_surrogate c = false.
Definition scalarb (c : N) : bool := (c <=? 1114111) && negb (is_surrogate c).

Lemma scalarb_spec c : scalarb c = true <-> scalar c.
Proof. unfold scalarb, scalar. destruct (is_surrogate c); lia. Qed.

(* ---------- generic: induction on the length of a list ---------- *)
Lemma list_len_ind {A} (P : list A -> Prop) :
  (forall l, (forall l', (length l' < length l)%nat -> P l') -> P l) -> forall l, P l.
Proof.
  intros H l.
  assert (G : forall n l, (length l < n)%nat -> P l).
  { induction n as [|n IH]; intros l0 Hl; [lia|].
    apply H. intros l' Hl'. apply IH. lia. }
  apply (G (S (length l))). lia.
Qed.

(* ---------- dec1: one decoding step ---------- *)

(* case analysis of the [if]s and list matches of [dec1] occurring in hypothesis H *)
Ltac dec1_split H :=
  repeat match type of H with
  | context [match ?l with [] => _ | _ :: _ => _ end] =>
      is_var l; destruct l
  | context [if ?b then _ else _] =>
      lazymatch b with
      | context [if _ then _ else _] => fail
      | _ => let E := fresh "E" in destruct b eqn:E
      end
  end.

Lemma dec1_len b0 rest r rest' :
  dec1 b0 rest = (r, rest') -> (length rest' <= length rest)%nat.
Proof.
  intros H. unfold dec1 in H. cbv zeta in H.
  dec1_split H; inversion H; subst; cbn [length]; lia.
Qed.

(* ---------- fuel does not matter ---------- *)
Lemma decode_fuel_irrel : forall f1 f2 s,
  (length s <= f1)%nat -> (length s <= f2)%nat -> decode_fuel f1 s = decode_fuel f2 s.
Proof.
  induction f1 as [|f1 IH]; intros f2 s H1 H2.
  - destruct s; [|cbn [length] in H1; lia]. destruct f2; reflexivity.
  - destruct s as [|b0 rest]; [destruct f2; reflexivity|].
    destruct f2 as [|f2]; [cbn [length] in H2; lia|].
    cbn [decode_fuel]. destruct (dec1 b0 rest) as [r rest'] eqn:E.
    f_equal. apply dec1_len in E. cbn [length] in H1, H2. apply IH; lia.
Qed.

Lemma decode_fuel_enough f s : (length s <= f)%nat -> decode_fuel f s = decode s.
Proof. intros H. unfold decode. apply decode_fuel_irrel; lia. Qed.

Lemma decode_nil : decode [] = [].
Proof. reflexivity. Qed.

Lemma decode_cons b0 rest r rest' :
  dec1 b0 rest = (r, rest') -> decode (b0 :: rest) = r :: decode rest'.
Proof.
  intros E. unfold decode at 1. cbn [length decode_fuel]. rewrite E.
  f_equal. apply decode_fuel_enough. apply dec1_len in E. exact E.
Qed.

(* induction principle following the decoder *)
Lemma decode_ind (P : str -> list rune -> Prop) :
  P [] [] ->
  (forall b0 rest r rest', dec1 b0 rest = (r, rest') ->
     P rest' (decode rest') -> P (b0 :: rest) (r :: decode rest')) ->
  forall s, P s (decode s).
Proof.
  intros H0 HS s. induction s as [s IH] using list_len_ind.
  destruct s as [|b0 rest]; [exact H0|].
  destruct (dec1 b0 rest) as [r rest'] eqn:E.
  rewrite (decode_cons _ _ _ _ E). apply HS; [exact E|].
  apply IH. apply dec1_len in E. cbn [length]. lia.
Qed.

(* ---------- A5 (first half, used below): the shape of utf8_enc ---------- *)
Lemma utf8_enc_ascii c : c < 128 -> utf8_enc c = [c].
Proof. intros H. unfold utf8_enc. replace (c <? 128) with true by lia. reflexivity. Qed.

Lemma utf8_enc_nonscalar c : ~ scalar c -> utf8_enc c = utf8_enc rune_error.
Proof.
  intros H. unfold scalar in H. unfold utf8_enc at 1. unfold is_surrogate in *.
  replace (c <? 128) with false by lia. replace (c <? 2048) with false by lia.
  replace ((55296 <=? c) && (c <=? 57343) || (1114111 <? c)) with true by lia.
  reflexivity.
Qed.

Lemma scalar_rune_error : scalar rune_error.
Proof. apply scalarb_spec. reflexivity. Qed.

Lemma utf8_enc_nonempty c : utf8_enc c <> [].
Proof.
  unfold utf8_enc.
  destruct (c <? 128); [discriminate|]. destruct (c <? 2048); [discriminate|].
  destruct (is_surrogate c || (1114111 <? c)); [discriminate|].
  destruct (c <? 65536); discriminate.
Qed.

Lemma utf8_enc_bytes c : Forall (fun b => b < 256) (utf8_enc c).
Proof.
  unfold utf8_enc, is_surrogate.
  destruct (c <? 128) eqn:E1; [repeat constructor; lia|].
  destruct (c <? 2048) eqn:E2; [repeat constructor; lia|].
  destruct ((55296 <=? c) && (c <=? 57343) || (1114111 <? c)) eqn:E3; [repeat constructor; lia|].
  destruct (c <? 65536) eqn:E4; repeat constructor; lia.
Qed.

Lemma utf8_enc_high c : 128 <= c -> Forall (fun b => 128 <= b) (utf8_enc c).
Proof.
  intros H. unfold utf8_enc, is_surrogate.
  replace (c <? 128) with false by lia.
  destruct (c <? 2048) eqn:E2; [repeat constructor; lia|].
  destruct ((55296 <=? c) && (c <=? 57343) || (1114111 <? c)) eqn:E3; [repeat constructor; lia|].
  destruct (c <? 65536) eqn:E4; repeat constructor; lia.
Qed.

(* ---------- A1: decoding an encoded scalar value ---------- *)

(* decide the conditions of the [if]s of the goal, outermost first *)
Ltac decide_ifs :=
  repeat match goal with
  | |- context [if ?b then _ else _] =>
      lazymatch b with
      | context [if _ then _ else _] => fail
      | _ => first [ replace b with true by lia
                   | replace b with false by lia
                   | let E := fresh "E" in destruct b eqn:E ]
      end
  end.

Lemma dec1_enc c rest : scalar c ->
  match utf8_enc c ++ rest with
  | b0 :: t => dec1 b0 t = (Good c, rest)
  | [] => False
  end.
Proof.
  intros [Hc Hs]. unfold is_surrogate in Hs. unfold utf8_enc, is_surrogate.
  destruct (c <? 128) eqn:E1.
  { cbn [app]. unfold dec1. rewrite E1. reflexivity. }
  destruct (c <? 2048) eqn:E2.
  { cbn [app]. unfold dec1, in_rng, is_cont. cbv zeta. decide_ifs.
    f_equal. f_equal. lia. }
  replace ((55296 <=? c) && (c <=? 57343) || (1114111 <? c)) with false by lia.
  destruct (c <? 65536) eqn:E3.
  { cbn [app]. unfold dec1, in_rng, is_cont. cbv zeta. decide_ifs;
    try (f_equal; f_equal; lia); try lia. }
  { cbn [app]. unfold dec1, in_rng, is_cont. cbv zeta. decide_ifs;
    try (f_equal; f_equal; lia); try lia. }
Qed.

Theorem decode_enc c rest : scalar c -> decode (utf8_enc c ++ rest) = Good c :: decode rest.
Proof.
  intros H. pose proof (dec1_enc c rest H) as G.
  destruct (utf8_enc c ++ rest) as [|b0 t]; [contradiction|].
  apply decode_cons. exact G.
Qed.
Print Assumptions decode_enc.

Example decode_enc_ex :
  scalar 233 /\ decode (utf8_enc 233 ++ [37;52;49]) = [Good 233; Good 37; Good 52; Good 49].
Proof. split; [apply scalarb_spec; reflexivity | vm_compute; reflexivity]. Qed.

Lemma runes_enc c rest : scalar c -> runes (utf8_enc c ++ rest) = c :: runes rest.
Proof. intros H. unfold runes. rewrite decode_enc by exact H. reflexivity. Qed.

(* ---------- A2 ---------- *)
Lemma decode_encode_runes l : Forall scalar l -> decode (encode_runes l) = map Good l.
Proof.
  induction 1 as [|c l Hc Hl IH]; [reflexivity|].
  unfold encode_runes in *. cbn [flat_map map]. rewrite decode_enc by exact Hc. now rewrite IH.
Qed.

Theorem runes_encode_runes l : Forall scalar l -> runes (encode_runes l) = l.
Proof.
  intros H. unfold runes. rewrite decode_encode_runes by exact H.
  rewrite map_map. cbn [rv]. apply map_id.
Qed.
Print Assumptions runes_encode_runes.

Example runes_encode_runes_ex :
  Forall scalar [65; 233; 8364; 128512; 1114111] /\
  runes (encode_runes [65; 233; 8364; 128512; 1114111]) = [65; 233; 8364; 128512; 1114111].
Proof.
  split; [|vm_compute; reflexivity].
  repeat constructor; try (apply scalarb_spec; reflexivity).
Qed.

(* the hypothesis is needed: a surrogate is encoded as U+FFFD *)
Lemma runes_encode_runes_nonscalar_refuted :
  exists l, runes (encode_runes l) <> l.
Proof. exists [55296]. vm_compute. discriminate. Qed.

(* ---------- A3 ---------- *)
Lemma dec1_scalar b0 rest r rest' : dec1 b0 rest = (r, rest') -> scalar (rv r).
Proof.
  intros H. unfold dec1, in_rng, is_cont in H. cbv zeta in H.
  dec1_split H; inversion H; subst; cbn [rv]; try exact scalar_rune_error;
    unfold scalar, is_surrogate; lia.
Qed.

Theorem runes_scalar s : Forall scalar (runes s).
Proof.
  unfold runes. apply (decode_ind (fun _ d => Forall scalar (map rv d))).
  - constructor.
  - intros b0 rest r rest' E IH. cbn [map]. constructor; [|exact IH].
    eapply dec1_scalar; exact E.
Qed.
Print Assumptions runes_scalar.

(* ---------- A4 ---------- *)
Definition is_good (r : rune) : bool := match r with Good _ => true | Bad _ => false end.

Lemma dec1_good b0 rest c rest' :
  dec1 b0 rest = (Good c, rest') -> b0 :: rest = utf8_enc c ++ rest'.
Proof.
  intros H. unfold dec1, in_rng, is_cont in H. cbv zeta in H.
  dec1_split H; inversion H; subst; clear H; unfold utf8_enc, is_surrogate; decide_ifs;
    cbn [app]; repeat f_equal; lia.
Qed.

Theorem to_valid_of_valid s : valid_utf8 s = true -> to_valid s = s.
Proof.
  unfold valid_utf8, to_valid, runes, encode_runes.
  apply (decode_ind (fun s d => forallb is_good d = true -> flat_map utf8_enc (map rv d) = s)).
  - reflexivity.
  - intros b0 rest r rest' E IH H. cbn [forallb] in H. apply andb_true_iff in H.
    destruct H as [Hr Hd]. destruct r as [c|b]; [|discriminate].
    cbn [map flat_map rv]. rewrite (IH Hd). symmetry. apply dec1_good. exact E.
Qed.
Print Assumptions to_valid_of_valid.

Lemma valid_encode_runes l : Forall scalar l -> valid_utf8 (encode_runes l) = true.
Proof.
  intros H. unfold valid_utf8. rewrite decode_encode_runes by exact H.
  clear H. induction l; [reflexivity|exact IHl].
Qed.

Theorem valid_to_valid s : valid_utf8 (to_valid s) = true.
Proof. unfold to_valid. apply valid_encode_runes. apply runes_scalar. Qed.
Print Assumptions valid_to_valid.

Theorem runes_to_valid s : runes (to_valid s) = runes s.
Proof. unfold to_valid. apply runes_encode_runes. apply runes_scalar. Qed.

Theorem to_valid_idem s : to_valid (to_valid s) = to_valid s.
Proof. unfold to_valid at 1. rewrite runes_to_valid. reflexivity. Qed.
Print Assumptions to_valid_idem.

Example to_valid_ex :
  to_valid [37;255;195;169;195] = [37;239;191;189;195;169;239;191;189] /\
  valid_utf8 [37;255;195;169;195] = false /\
  valid_utf8 [37;52;49;195;169] = true /\ to_valid [37;52;49;195;169] = [37;52;49;195;169].
Proof. vm_compute. repeat split; reflexivity. Qed.

(* ---------- A5 ---------- *)
Theorem utf8_enc_valid c : valid_utf8 (utf8_enc c) = true.
Proof.
  assert (G : forall c, scalar c -> valid_utf8 (utf8_enc c) = true).
  { intros c0 H. unfold valid_utf8. rewrite <- (app_nil_r (utf8_enc c0)).
    rewrite decode_enc by exact H. reflexivity. }
  destruct (scalarb c) eqn:E.
  - apply G. apply scalarb_spec. exact E.
  - rewrite utf8_enc_nonscalar.
    + apply G. exact scalar_rune_error.
    + intros H. apply scalarb_spec in H. congruence.
Qed.
Print Assumptions utf8_enc_valid.

Theorem utf8_enc_shape c :
  utf8_enc c <> [] /\
  Forall (fun b => b < 256) (utf8_enc c) /\
  (c < 128 -> utf8_enc c = [c]) /\
  (128 <= c -> Forall (fun b => 128 <= b) (utf8_enc c)).
Proof.
  split; [apply utf8_enc_nonempty|]. split; [apply utf8_enc_bytes|].
  split; [apply utf8_enc_ascii|apply utf8_enc_high].
Qed.
Print Assumptions utf8_enc_shape.

(* bytes >= 128 iff c >= 128 *)
Corollary utf8_enc_high_iff c b : In b (utf8_enc c) -> (128 <= b <-> 128 <= c).
Proof.
  intros Hb. destruct (N.lt_ge_cases c 128) as [H|H].
  - rewrite utf8_enc_ascii in Hb by exact H. destruct Hb as [<-|[]]. lia.
  - pose proof (utf8_enc_high c H) as G. rewrite Forall_forall in G. specialize (G b Hb). lia.
Qed.
Print Assumptions utf8_enc_high_iff.

(* ---------- ASCII strings decode to themselves (used by the codec proofs) ---------- *)
Lemma decode_ascii_cons b rest : b < 128 -> decode (b :: rest) = Good b :: decode rest.
Proof.
  intros H. apply decode_cons. unfold dec1. replace (b <? 128) with true by lia. reflexivity.
Qed.

Lemma runes_ascii s : Forall (fun b => b < 128) s -> runes s = s.
Proof.
  induction 1 as [|b s Hb Hs IH]; [reflexivity|].
  unfold runes in *. rewrite decode_ascii_cons by exact Hb. cbn [map rv]. now rewrite IH.
Qed.
