(* C16, sort-query: the option touches the query only; the parameter list of the result is THE stable sort
   (by name, or by name followed by value) of the list read from the parser's query; the query is the
   serialization of that list; re-reading it gives the list back (so the multiset of decoded pairs is kept)
   whenever no decoded name or value contains a %HH triple (outside: known finding D8b, refuted below). *)
From Verif Require Import Lib.Base Lib.Utf8 Lib.GoStr Model.Cfg Gen.Tables Gen.Options Model.Sets Model.Percent
  Model.Url Model.Host Model.Machine Model.Api Model.Canon Model.Obs.
From Verif Require Import Proofs.OptionTable Proofs.SearchParamsProofs Proofs.HeapProofs Proofs.CanonBasics.
From Coq Require Import Lia ZifyBool ZifyN ZifyNat Permutation Sorted.

(* ---------------------------------------------------------------------------------- *)
(* the sorting step, as a function                                                      *)
(* ---------------------------------------------------------------------------------- *)
Definition sort_fun (k : qsort) (l : list pair) : list pair :=
  match k with NoSort => l | SortKeys => sp_sort l | SortParameter => sp_sort_abs l end.

Definition sort_step (c : cfg) (k : qsort) (u : url) : url :=
  match k with
  | NoSort => u
  | _ => sp_update c (fst (ensure_sp c u)) (sort_fun k (snd (ensure_sp c u)))
  end.

Lemma bind_bind {A B C} (o : option A) (f : A -> option B) (g : B -> option C) :
  bind (bind o f) g = bind o (fun a => bind (f a) g).
Proof. destruct o; reflexivity. Qed.

Lemma bind_ext {A B} (o : option A) (f g : A -> option B) : (forall a, f a = g a) -> bind o f = bind o g.
Proof. intros H. destruct o; [apply H|reflexivity]. Qed.

Lemma bind_Some {A} (o : option A) : bind o (fun a => Some a) = o.
Proof. destruct o; reflexivity. Qed.

(* I1.0 - for EVERY profile (any removal flags, with or without repeated decoding): canonicalizing with
   sort-query is canonicalizing without it, followed by the sorting step *)
Theorem Canonicalize_sort_factor : forall idna_raw p u,
  Canonicalize idna_raw p u =
  bind (Canonicalize idna_raw (pwith_sortQuery p NoSort) u) (fun v => Some (sort_step (p_cfg p) (p_sortQuery p) v)).
Proof.
  intros idna_raw p u. unfold Canonicalize.
  cbn [pwith_sortQuery p_cfg p_removeUserInfo p_removePort p_removeFragment p_sortQuery p_repeated p_defaultScheme].
  rewrite bind_bind. apply bind_ext. intros u1.
  rewrite bind_bind. apply bind_ext. intros u2.
  rewrite bind_bind. apply bind_ext. intros u3.
  rewrite bind_bind. apply bind_ext. intros u4.
  cbn [bind]. unfold sort_step, sort_fun.
  destruct (p_sortQuery p); [reflexivity| |]; destruct (ensure_sp (p_cfg p) u4); reflexivity.
Qed.
Print Assumptions Canonicalize_sort_factor.

Lemma parse_retry_sort idna_raw p k x : parse_retry idna_raw (pwith_sortQuery p k) x = parse_retry idna_raw p x.
Proof. reflexivity. Qed.

(* the same for the public entry points: same errors, same panics, and on success the sorting step applied
   to the result of the profile without sort-query *)
Theorem ProfileParse_sort_factor : forall idna_raw p x,
  ProfileParse idna_raw p x =
  match ProfileParse idna_raw (pwith_sortQuery p NoSort) x with
  | CUrl v => CUrl (sort_step (p_cfg p) (p_sortQuery p) v)
  | other => other
  end.
Proof.
  intros idna_raw p x. unfold ProfileParse. rewrite parse_retry_sort.
  destruct (parse_retry idna_raw p x) as [u|e| | |]; cbn [canon_of]; try reflexivity.
  rewrite Canonicalize_sort_factor.
  destruct (Canonicalize idna_raw (pwith_sortQuery p NoSort) u); reflexivity.
Qed.
Print Assumptions ProfileParse_sort_factor.

Theorem ProfileParseRef_sort_factor : forall idna_raw p b x,
  ProfileParseRef idna_raw p b x =
  match ProfileParseRef idna_raw (pwith_sortQuery p NoSort) b x with
  | CUrl v => CUrl (sort_step (p_cfg p) (p_sortQuery p) v)
  | other => other
  end.
Proof.
  intros idna_raw p b x. unfold ProfileParseRef. rewrite parse_retry_sort.
  destruct (parse_retry idna_raw p b) as [u|e| | |]; try reflexivity.
  change (p_cfg (pwith_sortQuery p NoSort)) with (p_cfg p).
  destruct (UrlParse idna_raw (p_cfg p) u x) as [w|e| | |]; cbn [canon_of]; try reflexivity.
  rewrite Canonicalize_sort_factor.
  destruct (Canonicalize idna_raw (pwith_sortQuery p NoSort) w); reflexivity.
Qed.
Print Assumptions ProfileParseRef_sort_factor.

(* ---------------------------------------------------------------------------------- *)
(* (a) the sorting step touches the query (and the parameter list) only                 *)
(* ---------------------------------------------------------------------------------- *)
Theorem sort_step_frame : forall c k u, same_but_query u (sort_step c k u).
Proof.
  intros c k u. unfold sort_step.
  destruct k; [apply same_but_query_refl| |];
    (eapply same_but_query_trans; [apply ensure_sp_frame | apply sp_update_frame]).
Qed.

(* the ten getters other than Search / Query / Href *)
Theorem sort_step_getters : forall c k u,
  let u' := sort_step c k u in
  Protocol u' = Protocol u /\ Username u' = Username u /\ Password u' = Password u /\
  Hostname u' = Hostname u /\ Port u' = Port u /\ Host u' = Host u /\ Pathname u' = Pathname u /\
  u_opaque u' = u_opaque u /\ Hash u' = Hash u /\ Fragment u' = Fragment u /\
  DecodedPort c u' = DecodedPort c u /\ IsSpecialScheme c u' = IsSpecialScheme c u /\
  IsIPv4 c u' = IsIPv4 c u /\ IsIPv6 u' = IsIPv6 u /\ u_verrs u' = u_verrs u.
Proof.
  intros c k u u'. destruct (sort_step_frame c k u) as (A1&A2&A3&A4&A5&A6&A7&A8&A9&A10&A11). fold u' in A1,A2,A3,A4,A5,A6,A7,A8,A9,A10,A11.
  unfold Protocol, Username, Password, Hostname, Port, Host, Pathname, Hash, Fragment, DecodedPort, getDefaultPort,
    IsSpecialScheme, IsIPv4, IsIPv6, IsSpecialScheme.
  rewrite A2, A3, A4, A5, A6, A7, A8, A9, A10, A11. repeat split.
Qed.

(* the serialized URL differs in the query component only *)
Theorem sort_step_Href : forall c k u x,
  Href (sort_step c k u) x = Href (set_query u (u_query (sort_step c k u))) x.
Proof.
  intros c k u x. destruct (sort_step_frame c k u) as (A1&A2&A3&A4&A5&A6&A7&A8&A9&A10&A11).
  unfold Href, Pathname. cbn [set_query u_path u_opaque u_scheme u_host u_username u_password u_port u_query u_fragment].
  rewrite A2, A3, A4, A5, A6, A8, A9, A10. reflexivity.
Qed.

(* ---------------------------------------------------------------------------------- *)
(* (b) the parameter list and the query of the result                                   *)
(* ---------------------------------------------------------------------------------- *)
Definition sorting (k : qsort) : Prop := k = SortKeys \/ k = SortParameter.

(* the list the sorting step works on: the URL's parameter list if it has one, else what the query reads as *)
Definition params_of (c : cfg) (u : url) : list pair := snd (ensure_sp c u).

Lemma params_of_fresh c u : u_sp u = None -> params_of c u = sp_init c (Query u).
Proof. intros H. unfold params_of. rewrite (ensure_sp_fresh c u H). reflexivity. Qed.

Theorem sort_step_sp : forall c k u, sorting k -> u_sp (sort_step c k u) = Some (sort_fun k (params_of c u)).
Proof. intros c k u [-> | ->]; unfold sort_step; apply sp_update_sp. Qed.

Theorem sort_step_Query : forall c k u, sorting k -> Query (sort_step c k u) = sp_string c (sort_fun k (params_of c u)).
Proof. intros c k u [-> | ->]; unfold sort_step; apply sp_update_Query. Qed.

(* the nullable query: absent stays absent (only possible when the list serializes to the empty string) *)
Theorem sort_step_u_query : forall c k u, sorting k ->
  u_query (sort_step c k u) =
  if is_nil (sp_string c (sort_fun k (params_of c u))) && negb (is_some (u_query u)) then None
  else Some (sp_string c (sort_fun k (params_of c u))).
Proof.
  intros c k u [-> | ->]; unfold sort_step; rewrite sp_update_u_query, ensure_sp_query; reflexivity.
Qed.

(* name order and name-then-value order, in the byte order of the model (str_ltb) *)
Definition name_sorted (l : list pair) : Prop :=
  StronglySorted (fun a b : pair => str_ltb (fst b) (fst a) = false) l.
Definition abs_sorted (l : list pair) : Prop :=
  StronglySorted (fun a b : pair => str_ltb (fst b ++ snd b) (fst a ++ snd a) = false) l.

Theorem sort_fun_perm : forall k l, Permutation l (sort_fun k l).
Proof. intros [| |] l; [apply Permutation_refl | apply sp_sort_perm | apply sp_sort_abs_perm]. Qed.

(* SortKeys: a permutation, sorted by name, equal names in their original relative order - and the only such list *)
Theorem sort_keys_spec : forall l,
  Permutation l (sort_fun SortKeys l) /\ name_sorted (sort_fun SortKeys l) /\
  (forall n, filter (fun p : pair => str_eqb (fst p) n) (sort_fun SortKeys l) = filter (fun p => str_eqb (fst p) n) l) /\
  (forall l', Permutation l l' -> name_sorted l' ->
     (forall n, filter (fun p : pair => str_eqb (fst p) n) l' = filter (fun p => str_eqb (fst p) n) l) ->
     l' = sort_fun SortKeys l).
Proof.
  intros l. cbn [sort_fun]. split; [apply sp_sort_perm|]. split; [apply sp_sort_sorted|].
  split; [intros n; apply sp_sort_stable|]. intros l'. apply sp_sort_unique.
Qed.

(* SortParameter: the same with the key name ++ value *)
Theorem sort_parameter_spec : forall l,
  Permutation l (sort_fun SortParameter l) /\ abs_sorted (sort_fun SortParameter l) /\
  (forall k, filter (fun p : pair => str_eqb (fst p ++ snd p) k) (sort_fun SortParameter l) =
             filter (fun p => str_eqb (fst p ++ snd p) k) l) /\
  (forall l', Permutation l l' -> abs_sorted l' ->
     (forall k, filter (fun p : pair => str_eqb (fst p ++ snd p) k) l' = filter (fun p => str_eqb (fst p ++ snd p) k) l) ->
     l' = sort_fun SortParameter l).
Proof.
  intros l. cbn [sort_fun]. split; [apply sp_sort_abs_perm|]. split; [apply sp_sort_abs_sorted|].
  split; [intros n; apply sp_sort_abs_stable|]. intros l'. apply sp_sort_abs_unique.
Qed.

(* what a user reads through Get / GetAll is unchanged by the name sort *)
Theorem sort_keys_getall : forall l n, sp_getall (sort_fun SortKeys l) n = sp_getall l n.
Proof. intros l n. apply sp_getall_sort. Qed.

(* under SortParameter the values of one name come out sorted, not in their original order *)
Theorem sort_parameter_getall_refuted :
  exists l n, sp_getall (sort_fun SortParameter l) n <> sp_getall l n.
Proof. exists [([97],[50]); ([97],[49])], [97]. vm_compute. discriminate. Qed.

(* ---------------------------------------------------------------------------------- *)
(* (c) re-reading the result's query gives the sorted list                              *)
(* ---------------------------------------------------------------------------------- *)
Lemma forallb_perm {A} (f : A -> bool) l l' : Permutation l l' -> forallb f l = true -> forallb f l' = true.
Proof.
  intros HP H. rewrite forallb_forall in *. intros x Hx. apply H.
  apply (Permutation_in x (Permutation_sym HP)). exact Hx.
Qed.

Theorem sort_step_reparse : forall c k u, sorting k ->
  c_latin1 c = false -> forallb (pair_ok c) (params_of c u) = true ->
  sp_init c (Query (sort_step c k u)) = sort_fun k (params_of c u).
Proof.
  intros c k u Hk Hl Hok. rewrite (sort_step_Query c k u Hk). apply sp_roundtrip; [exact Hl|].
  apply (forallb_perm _ _ _ (sort_fun_perm k (params_of c u)) Hok).
Qed.

(* the multiset of decoded pairs is kept *)
Theorem sort_step_multiset : forall c k u, sorting k -> u_sp u = None ->
  c_latin1 c = false -> forallb (pair_ok c) (sp_init c (Query u)) = true ->
  Permutation (sp_init c (Query u)) (sp_init c (Query (sort_step c k u))).
Proof.
  intros c k u Hk Hsp Hl Hok. rewrite <- (params_of_fresh c u Hsp) in *.
  rewrite (sort_step_reparse c k u Hk Hl Hok). apply sort_fun_perm.
Qed.

(* a URL without query: nothing changes but the (now created, empty) parameter list *)
Theorem sort_step_no_query : forall c k u, sorting k -> u_query u = None -> u_sp u = None ->
  sort_step c k u = set_sp u (Some []).
Proof.
  intros c k u Hk Hq Hsp.
  assert (E : ensure_sp c u = (set_sp u (Some []), [])) by (unfold ensure_sp; rewrite Hsp, Hq; reflexivity).
  destruct Hk as [-> | ->]; unfold sort_step, sort_fun; rewrite E; cbn [fst snd];
    unfold sp_update; cbn; rewrite Hq; reflexivity.
Qed.

Corollary sort_step_no_query_fields : forall c k u, sorting k -> u_query u = None -> u_sp u = None ->
  u_query (sort_step c k u) = None /\ (forall x, Href (sort_step c k u) x = Href u x).
Proof.
  intros c k u Hk Hq Hsp. rewrite (sort_step_no_query c k u Hk Hq Hsp). split; [exact Hq|]. intros x. reflexivity.
Qed.

(* a query that reads as no parameter at all (empty, or only separators) becomes the empty query, not an absent one *)
Theorem sort_step_blank_query : forall c k u q, sorting k -> u_query u = Some q -> u_sp u = None ->
  sp_init c q = [] -> u_query (sort_step c k u) = Some [].
Proof.
  intros c k u q Hk Hq Hsp Hi. rewrite (sort_step_u_query c k u Hk), (params_of_fresh c u Hsp).
  unfold Query. rewrite Hq, Hi. destruct Hk as [-> | ->]; reflexivity.
Qed.

(* ---------------------------------------------------------------------------------- *)
(* the statements for ProfileParse, profiles without repeated decoding                   *)
(* ---------------------------------------------------------------------------------- *)
Section Profile.
  Variable idna_raw : str -> str * bool.

  Lemma strip_opaque_sp u u' : strip_opaque u = Some u' -> u_sp u' = u_sp u.
  Proof.
    unfold strip_opaque. destruct (u_opaque u); [|intros H; injection H as <-; reflexivity].
    destruct (u_path u); [discriminate|]. intros H; injection H as <-. reflexivity.
  Qed.

  Lemma SetHash_nil_sp c u u' : SetHash idna_raw c u [] = Some u' -> u_sp u' = u_sp u.
  Proof.
    unfold SetHash. cbv zeta. destruct (negb (is_some (u_query (set_fragment u None)))).
    - intros H. rewrite (strip_opaque_sp _ _ H). reflexivity.
    - intros H; injection H as <-. reflexivity.
  Qed.

  Lemma SetPort_nil_sp c u u' : SetPort idna_raw c u [] = Some u' -> u_sp u' = u_sp u.
  Proof. unfold SetPort. destruct (no_host_or_file u); intros H; injection H as <-; reflexivity. Qed.

  Lemma SetUsername_sp c u s u' : SetUsername c u s = Some u' -> u_sp u' = u_sp u.
  Proof. unfold SetUsername. destruct (no_host_or_file u); intros H; injection H as <-; reflexivity. Qed.

  Lemma SetPassword_sp c u s u' : SetPassword c u s = Some u' -> u_sp u' = u_sp u.
  Proof. unfold SetPassword. destruct (no_host_or_file u); intros H; injection H as <-; reflexivity. Qed.

  (* without repeated decoding and without sort-query no canonicalization step creates the parameter list *)
  Lemma Canonicalize_nosort_sp p u u' : p_repeated p = false -> p_sortQuery p = NoSort ->
    Canonicalize idna_raw p u = Some u' -> u_sp u' = u_sp u.
  Proof.
    intros Hr Hs. rewrite (Canonicalize_removals idna_raw p u Hr Hs).
    destruct (p_removePort p).
    - destruct (SetPort idna_raw (p_cfg p) u []) as [u1|] eqn:E1; [|discriminate]. cbn [bind].
      rewrite <- (SetPort_nil_sp _ _ _ E1). revert u1 E1. clear. intros u1 _.
      destruct (p_removeUserInfo p).
      + destruct (SetUsername (p_cfg p) u1 []) as [u2|] eqn:E2; [|discriminate]. cbn [bind].
        destruct (SetPassword (p_cfg p) u2 []) as [u3|] eqn:E3; [|discriminate]. cbn [bind].
        rewrite <- (SetUsername_sp _ _ _ _ E2), <- (SetPassword_sp _ _ _ _ E3).
        destruct (p_removeFragment p); [apply SetHash_nil_sp|intros H; injection H as <-; reflexivity].
      + cbn [bind]. destruct (p_removeFragment p); [apply SetHash_nil_sp|intros H; injection H as <-; reflexivity].
    - cbn [bind]. destruct (p_removeUserInfo p).
      + destruct (SetUsername (p_cfg p) u []) as [u2|] eqn:E2; [|discriminate]. cbn [bind].
        destruct (SetPassword (p_cfg p) u2 []) as [u3|] eqn:E3; [|discriminate]. cbn [bind].
        rewrite <- (SetUsername_sp _ _ _ _ E2), <- (SetPassword_sp _ _ _ _ E3).
        destruct (p_removeFragment p); [apply SetHash_nil_sp|intros H; injection H as <-; reflexivity].
      + cbn [bind]. destruct (p_removeFragment p); [apply SetHash_nil_sp|intros H; injection H as <-; reflexivity].
  Qed.

  Lemma parse_retry_no_sp p x u : parse_retry idna_raw p x = PUrl u -> u_sp u = None.
  Proof.
    unfold parse_retry. destruct (Parse idna_raw (p_cfg p) x) as [w|e| | |] eqn:E; try discriminate.
    - intros H; injection H as <-. apply (Parse_no_sp idna_raw (p_cfg p) x w E).
    - destruct (e_type e); try discriminate.
      destruct (negb (is_nil (p_defaultScheme p))); [|discriminate]. apply Parse_no_sp.
  Qed.

  Lemma ProfileParse_nosort_no_sp p x v : p_repeated p = false ->
    ProfileParse idna_raw (pwith_sortQuery p NoSort) x = CUrl v -> u_sp v = None.
  Proof.
    intros Hr. unfold ProfileParse. rewrite parse_retry_sort.
    destruct (parse_retry idna_raw p x) as [u|e| | |] eqn:E; cbn [canon_of]; try discriminate.
    destruct (Canonicalize idna_raw (pwith_sortQuery p NoSort) u) as [u'|] eqn:EC; [|discriminate].
    intros H; injection H as <-.
    rewrite (Canonicalize_nosort_sp (pwith_sortQuery p NoSort) u u' Hr eq_refl EC).
    apply (parse_retry_no_sp p x u E).
  Qed.

  (* I1 (a)+(b)+(c) together, for any removal flags and any default scheme *)
  Theorem sort_query_effect : forall p x u',
    p_repeated p = false -> sorting (p_sortQuery p) ->
    ProfileParse idna_raw p x = CUrl u' ->
    exists v, let c := p_cfg p in let l := sp_init c (Query v) in let k := p_sortQuery p in
      ProfileParse idna_raw (pwith_sortQuery p NoSort) x = CUrl v /\
      (* (a) every component but the query *)
      same_but_query v u' /\ (forall e, Href u' e = Href (set_query v (u_query u')) e) /\
      (* (b) the list, its order, the query *)
      u_sp u' = Some (sort_fun k l) /\ Permutation l (sort_fun k l) /\
      (k = SortKeys -> name_sorted (sort_fun k l) /\
         forall n, filter (fun p : pair => str_eqb (fst p) n) (sort_fun k l) = filter (fun p => str_eqb (fst p) n) l) /\
      (k = SortParameter -> abs_sorted (sort_fun k l) /\
         forall n, filter (fun p : pair => str_eqb (fst p ++ snd p) n) (sort_fun k l) =
                   filter (fun p => str_eqb (fst p ++ snd p) n) l) /\
      Query u' = sp_string c (sort_fun k l) /\
      (u_query v = None -> u_query u' = None) /\ (u_query v <> None -> u_query u' = Some (sp_string c (sort_fun k l))) /\
      (* (c) re-reading *)
      (c_latin1 c = false -> forallb (pair_ok c) l = true ->
         sp_init c (Query u') = sort_fun k l /\ Permutation l (sp_init c (Query u'))).
  Proof.
    intros p x u' Hr Hk H. rewrite ProfileParse_sort_factor in H.
    destruct (ProfileParse idna_raw (pwith_sortQuery p NoSort) x) as [v|e|] eqn:E0; try discriminate.
    injection H as <-. exists v. cbv zeta.
    pose proof (ProfileParse_nosort_no_sp p x v Hr E0) as Hsp.
    pose proof (params_of_fresh (p_cfg p) v Hsp) as Hpo.
    split; [reflexivity|]. split; [apply sort_step_frame|]. split; [intros e; apply sort_step_Href|].
    split; [rewrite sort_step_sp, Hpo by exact Hk; reflexivity|]. split; [apply sort_fun_perm|].
    split; [intros ->; destruct (sort_keys_spec (sp_init (p_cfg p) (Query v))) as (_ & S & St & _); split; assumption|].
    split; [intros ->; destruct (sort_parameter_spec (sp_init (p_cfg p) (Query v))) as (_ & S & St & _); split; assumption|].
    split; [rewrite sort_step_Query, Hpo by exact Hk; reflexivity|].
    split.
    { intros Hq. rewrite (sort_step_no_query _ _ v Hk Hq Hsp). exact Hq. }
    split.
    { intros Hq. rewrite sort_step_u_query, Hpo by exact Hk.
      destruct (u_query v); [|congruence]. cbn [is_some negb]. rewrite andb_false_r. reflexivity. }
    intros Hl Hok. rewrite <- Hpo in *. rewrite (sort_step_reparse _ _ v Hk Hl Hok). split; [reflexivity|apply sort_fun_perm].
  Qed.
End Profile.
Print Assumptions sort_query_effect.

(* ---------------------------------------------------------------------------------- *)
(* examples and witnesses                                                                *)
(* ---------------------------------------------------------------------------------- *)
Definition idna_id0 (s : str) : str * bool := (s, false).
Definition prof_sort2 : profile := pwith_sortQuery prof_none SortParameter.

(* "http://h/p?b=2&a=%7e&b=1&a#f" *)
Definition ex_in : str :=
  [104;116;116;112;58;47;47;104;47;112;63;98;61;50;38;97;61;37;55;101;38;98;61;49;38;97;35;102].

(* premises hold, and the outcome: SortKeys gives ?a=~&a=&b=2&b=1 (stable), SortParameter gives ?a=&a=~&b=1&b=2 *)
Example sort_query_effect_premises :
  p_repeated prof_WhatWgSortQuery = false /\ sorting (p_sortQuery prof_WhatWgSortQuery) /\
  (exists u', ProfileParse idna_id0 prof_WhatWgSortQuery ex_in = CUrl u' /\
     Href u' false = Some [104;116;116;112;58;47;47;104;47;112;63;97;61;126;38;97;61;38;98;61;50;38;98;61;49;35;102]) /\
  (exists u', ProfileParse idna_id0 prof_sort2 ex_in = CUrl u' /\
     Href u' false = Some [104;116;116;112;58;47;47;104;47;112;63;97;61;38;97;61;126;38;98;61;49;38;98;61;50;35;102]) /\
  (exists v, ProfileParse idna_id0 (pwith_sortQuery prof_WhatWgSortQuery NoSort) ex_in = CUrl v /\
     c_latin1 (p_cfg prof_WhatWgSortQuery) = false /\
     forallb (pair_ok (p_cfg prof_WhatWgSortQuery)) (sp_init (p_cfg prof_WhatWgSortQuery) (Query v)) = true).
Proof.
  split; [reflexivity|]. split; [left; reflexivity|].
  split; [eexists; split; [vm_compute; reflexivity|vm_compute; reflexivity]|].
  split; [eexists; split; [vm_compute; reflexivity|vm_compute; reflexivity]|].
  eexists; split; [vm_compute; reflexivity|]. split; vm_compute; reflexivity.
Qed.

(* FINDING (re-spelling, not only re-ordering): the query is re-serialized from the decoded list, so even an
   already sorted query changes its spelling: "http://h/?a&b=%7e" becomes "http://h/?a=&b=~" *)
Theorem sort_query_respells :
  exists x u0 u', ProfileParse idna_id0 (pwith_sortQuery prof_WhatWgSortQuery NoSort) x = CUrl u0 /\
    ProfileParse idna_id0 prof_WhatWgSortQuery x = CUrl u' /\
    sp_sort (sp_init default_cfg (Query u0)) = sp_init default_cfg (Query u0) /\
    Query u0 = [97;38;98;61;37;55;101] /\ Query u' = [97;61;38;98;61;126].
Proof.
  exists [104;116;116;112;58;47;47;104;47;63;97;38;98;61;37;55;101].
  eexists. eexists. split; [vm_compute; reflexivity|]. split; [vm_compute; reflexivity|].
  split; [vm_compute; reflexivity|]. split; vm_compute; reflexivity.
Qed.

(* FINDING: a query that consists of separators only ("http://h/?&&") becomes the EMPTY query ("http://h/?"),
   it is not removed; a URL without query stays without query (sort_step_no_query) *)
Theorem sort_query_blank_to_empty :
  exists x u', ProfileParse idna_id0 prof_WhatWgSortQuery x = CUrl u' /\ u_query u' = Some [] /\
    Href u' false = Some [104;116;116;112;58;47;47;104;47;63].
Proof.
  exists [104;116;116;112;58;47;47;104;47;63;38;38]. eexists.
  split; [vm_compute; reflexivity|]. split; vm_compute; reflexivity.
Qed.

Example sort_query_no_query_unchanged :
  exists u0 u', ProfileParse idna_id0 (pwith_sortQuery prof_WhatWgSortQuery NoSort) [104;116;116;112;58;47;47;104;47] = CUrl u0 /\
    ProfileParse idna_id0 prof_WhatWgSortQuery [104;116;116;112;58;47;47;104;47] = CUrl u' /\
    u' = set_sp u0 (Some []) /\ u_query u' = None.
Proof. eexists. eexists. split; [vm_compute; reflexivity|]. split; [vm_compute; reflexivity|]. split; reflexivity. Qed.

(* (c) without the premise on %HH triples (known finding D8b): "http://h/?a=%2541" has the decoded pair
   ("a","%41"); it is serialized as a=%41, which reads back as ("a","A"): the multiset of decoded pairs is NOT kept *)
Theorem sort_query_multiset_refuted :
  exists x u0 u', ProfileParse idna_id0 (pwith_sortQuery prof_WhatWgSortQuery NoSort) x = CUrl u0 /\
    ProfileParse idna_id0 prof_WhatWgSortQuery x = CUrl u' /\
    sp_init default_cfg (Query u0) = [([97], [37;52;49])] /\
    sp_init default_cfg (Query u') = [([97], [65])] /\
    ~ Permutation (sp_init default_cfg (Query u0)) (sp_init default_cfg (Query u')).
Proof.
  exists [104;116;116;112;58;47;47;104;47;63;97;61;37;50;53;52;49].
  eexists. eexists. split; [vm_compute; reflexivity|]. split; [vm_compute; reflexivity|].
  assert (E0 : sp_init default_cfg [97;61;37;50;53;52;49] = [([97], [37;52;49])]) by (vm_compute; reflexivity).
  assert (E1 : sp_init default_cfg [97;61;37;52;49] = [([97], [65])]) by (vm_compute; reflexivity).
  split; [exact E0|]. split; [exact E1|].
  change (~ Permutation (sp_init default_cfg [97;61;37;50;53;52;49]) (sp_init default_cfg [97;61;37;52;49])).
  rewrite E0, E1. intros HP. apply Permutation_length_1 in HP. discriminate HP.
Qed.

Print Assumptions sort_step_frame.
Print Assumptions sort_step_getters.
Print Assumptions sort_step_Href.
Print Assumptions sort_step_sp.
Print Assumptions sort_step_Query.
Print Assumptions sort_step_u_query.
Print Assumptions sort_keys_spec.
Print Assumptions sort_parameter_spec.
Print Assumptions sort_keys_getall.
Print Assumptions sort_parameter_getall_refuted.
Print Assumptions sort_step_reparse.
Print Assumptions sort_step_multiset.
Print Assumptions sort_step_no_query.
Print Assumptions sort_step_blank_query.
Print Assumptions sort_query_respells.
Print Assumptions sort_query_blank_to_empty.
Print Assumptions sort_query_multiset_refuted.
