(* R8 complete: the one-step simulation holds in ALL 21 states, hence the model's parser refines the
   standard's basic URL parser on every input (Parse, UrlParse, and every run with a state override).

   model:  BasicParser idna_raw c x base u0 override            (bytes; Model/Machine.v)
   spec:   basic_url_parse dta (runes x) sbase su0 soverride     (code points; Spec/BasicParser.v)
           with dta bytes := ToASCII idna_raw c bytes  (the model's IDNA wrapper as the standard's oracle).

   Premises: the standard configuration [std_cfg c] (Proofs/RefineCodec.v), the two assumptions on the
   UTS #46 oracle [oracle_ok idna_raw c] (Proofs/RefineMachineBase.v), related and well-formed base URLs. *)
From Verif Require Import Lib.Base Lib.Utf8 Lib.GoStr Model.Cfg Gen.Tables Gen.Options Model.Sets Model.Percent
     Model.Url Model.Host Model.Machine.
From Verif Require Spec.Url Spec.Host Spec.BasicParser.
From Verif Require Import Proofs.Utf8Proofs Proofs.Cleaning Proofs.RefineCodec Proofs.RefineClean Proofs.RefineHost
     Proofs.RefineMachineBase Proofs.RefineMachineTop.
From Verif Require Import Proofs.RefineMachineQF Proofs.RefineMachineScheme Proofs.RefineMachineSmall
     Proofs.RefineMachineRelFile Proofs.RefineMachinePath Proofs.RefineMachineAuthority Proofs.RefineMachineHost.

(* ---------- all 21 states ---------- *)
Theorem all_states (idna_raw : str -> str * bool) (c : cfg) :
  std_cfg c -> oracle_ok idna_raw c -> all_states_sim idna_raw c.
Proof.
  intros Hstd Hor inp base sbase override Hb Hw Hinp mm sm _ HR.
  destruct (m_state mm) eqn:Est.
  - exact (sim_scheme_start idna_raw c inp base sbase override mm sm Est HR).
  - exact (sim_scheme idna_raw c Hstd inp base sbase override Hb Hw mm sm Est HR).
  - exact (sim_no_scheme idna_raw c inp base sbase override Hb mm sm Est HR).
  - exact (sim_opaque_path idna_raw c Hstd inp base sbase override mm sm Est HR).
  - exact (sim_special_relative_or_authority idna_raw c Hstd inp base sbase override mm sm Est HR).
  - exact (sim_special_authority_slashes idna_raw c Hstd inp base sbase override mm sm Est HR).
  - exact (sim_special_authority_ignore_slashes idna_raw c Hstd inp base sbase override mm sm Est HR).
  - exact (sim_path_or_authority idna_raw c inp base sbase override mm sm Est HR).
  - exact (sim_authority idna_raw c Hstd inp Hinp base sbase override mm sm Est HR).
  - exact (sim_host idna_raw c Hstd inp Hinp Hor base sbase override mm sm (or_introl Est) HR).
  - exact (sim_host idna_raw c Hstd inp Hinp Hor base sbase override mm sm (or_intror Est) HR).
  - exact (sim_file idna_raw c Hstd inp base sbase override Hb Hw mm sm Est HR).
  - exact (sim_file_host idna_raw c Hstd inp Hinp Hor base sbase override mm sm Est HR).
  - exact (sim_file_slash idna_raw c Hstd inp base sbase override Hb Hw mm sm Est HR).
  - exact (sim_port idna_raw c Hstd inp base sbase override mm sm Est HR).
  - exact (sim_path idna_raw c Hstd inp base sbase override mm sm Est HR).
  - exact (sim_path_start idna_raw c Hstd inp base sbase override mm sm Est HR).
  - exact (sim_query idna_raw c Hstd inp base sbase override mm sm Est HR).
  - exact (sim_fragment idna_raw c Hstd inp base sbase override mm sm Est HR).
  - exact (sim_relative idna_raw c Hstd inp base sbase override Hb mm sm Est HR).
  - exact (sim_relative_slash idna_raw c Hstd inp base sbase Hb override mm sm Est HR).
Qed.
Print Assumptions all_states.

Section Refinement.
  Variable idna_raw : str -> str * bool.
  Variable c : cfg.
  Hypothesis Hstd : std_cfg c.
  Hypothesis Horacle : oracle_ok idna_raw c.

  (* ---------- parsing (no url, no state override) ---------- *)
  Theorem R8_parse_run x base sbase fuel :
    base_rel base sbase -> base_wf sbase ->
    (fuel_of (length (decode (clean_sv false x))) <= fuel)%nat ->
    result_rel false (BasicParser idna_raw c x base None None)
      (SB.run_plain (dta idna_raw c) (SB.remove_tab_newline (SB.strip_c0_space (runes x))) sbase None fuel
         (SB.mkM SU.new_url SB.SchemeStartState [] false false false 0)).
  Proof. apply BasicParser_refines_run; [exact Hstd|apply all_states; assumption]. Qed.

  Theorem R8_parse x base sbase :
    base_rel base sbase -> base_wf sbase ->
    let so := SB.basic_url_parse (dta idna_raw c) (runes x) sbase None None in
    so = SB.OutOfFuel \/ result_rel false (BasicParser idna_raw c x base None None) so.
  Proof. apply BasicParser_refines; [exact Hstd|apply all_states; assumption]. Qed.

  Theorem R8_spec_terminates x base sbase :
    base_rel base sbase -> base_wf sbase ->
    SB.run_plain (dta idna_raw c) (SB.remove_tab_newline (SB.strip_c0_space (runes x))) sbase None
      (fuel_of (length (decode (clean_sv false x)))) (SB.mkM SU.new_url SB.SchemeStartState [] false false false 0)
    <> SB.OutOfFuel.
  Proof. apply spec_terminates; [exact Hstd|apply all_states; assumption]. Qed.

  (* ---------- a run on a given record with a state override (what the API setters do) ---------- *)
  Theorem R8_override_run x base sbase u su st fuel :
    base_rel base sbase -> base_wf sbase ->
    st_rel true sbase st (-1) [] u (SB.mkM su (st_map st) [] false false false 0) ->
    (fuel_of (length (decode (fst (remove_tabnl_sv false x)))) <= fuel)%nat ->
    result_rel true (BasicParser idna_raw c x base (Some u) (Some st))
      (SB.run_plain (dta idna_raw c) (SB.remove_tab_newline (runes x)) sbase (Some (st_map st)) fuel
         (SB.mkM su (st_map st) [] false false false 0)).
  Proof. apply BasicParser_override_refines_run; [exact Hstd|apply all_states; assumption]. Qed.

  Theorem R8_override x base sbase u su st :
    base_rel base sbase -> base_wf sbase ->
    st_rel true sbase st (-1) [] u (SB.mkM su (st_map st) [] false false false 0) ->
    let so := SB.basic_url_parse (dta idna_raw c) (runes x) sbase (Some su) (Some (st_map st)) in
    so = SB.OutOfFuel \/ result_rel true (BasicParser idna_raw c x base (Some u) (Some st)) so.
  Proof. apply BasicParser_override_refines; [exact Hstd|apply all_states; assumption]. Qed.
End Refinement.

Print Assumptions R8_parse_run.
Print Assumptions R8_parse.
Print Assumptions R8_spec_terminates.
Print Assumptions R8_override_run.
Print Assumptions R8_override.

(* ---------- the premises are satisfiable; a concrete run ---------- *)
Example R8_premises : std_cfg default_cfg /\ oracle_ok ascii_idna default_cfg /\ base_rel None None /\ base_wf None.
Proof.
  split; [exact std_cfg_default|]. split; [exact oracle_ok_ex|]. split; [exact I|]. intros sb H. discriminate H.
Qed.

Example R8_parse_ex :
  let x := [32; 72; 84; 84; 112; 58; 47; 47; 117; 58; 112; 64; 69; 120; 9; 46; 99; 111; 109; 58; 56; 48; 47; 97; 47;
            46; 46; 47; 195; 169; 63; 113; 39; 35; 102; 32; 103] in  (* " HTTp://u:p@Ex<TAB>.com:80/a/../e-acute?q'#f g" *)
  match BasicParser ascii_idna default_cfg x None None None,
        SB.basic_url_parse (dta ascii_idna default_cfg) (runes x) None None None with
  | RUrl u, SB.Done su =>
      Href u false = Some (encode_runes (SU.url_serialize su false)) /\
      Href u false = Some [104;116;116;112;58;47;47;117;58;112;64;101;120;46;99;111;109;47;37;67;51;37;65;57;63;113;37;50;55;35;102;37;50;48;103]
  | _, _ => False
  end.
Proof. vm_compute. split; reflexivity. Qed.

(* ---------- what the refinement does NOT say ----------
   The standard's parser is run on [runes x], Go's reading of the byte string x as code points (each byte that
   is not part of a valid UTF-8 sequence becomes one U+FFFD). A front end that decodes the bytes with the
   WHATWG UTF-8 decoder (one U+FFFD per maximal invalid prefix) hands a different string to the parser when x
   is not valid UTF-8 (Proofs/RefineUtf8Dec.v: whatwg_vs_go_differ), and the results differ: for the bytes
   "a:" E2 82 "A" the model (like the standard on [runes x]) yields a:%EF%BF%BD%EF%BF%BDA, the standard on the
   WHATWG decoding yields a:%EF%BF%BDA. On valid UTF-8 the two readings coincide (whatwg_decode_valid). *)
From Verif Require Import Spec.PercentCodec Proofs.RefineUtf8Dec.

Lemma R8_whatwg_decoding_refuted : exists x,
  valid_utf8 x = false /\
  match BasicParser ascii_idna default_cfg x None None None,
        SB.basic_url_parse (dta ascii_idna default_cfg) (utf8_decode_without_bom x) None None None with
  | RUrl u, SB.Done su => Href u false <> Some (encode_runes (SU.url_serialize su false))
  | _, _ => False
  end.
Proof. exists [97;58;226;130;65]. split; [reflexivity|]. vm_compute. discriminate. Qed.

Corollary R8_parse_valid_utf8 idna_raw c x base sbase :
  std_cfg c -> oracle_ok idna_raw c -> base_rel base sbase -> base_wf sbase -> valid_utf8 x = true ->
  let so := SB.basic_url_parse (dta idna_raw c) (utf8_decode_without_bom x) sbase None None in
  so = SB.OutOfFuel \/ result_rel false (BasicParser idna_raw c x base None None) so.
Proof.
  intros Hstd Hor Hb Hw Hv. rewrite (whatwg_decode_valid x Hv). apply R8_parse; assumption.
Qed.
Print Assumptions R8_parse_valid_utf8.
