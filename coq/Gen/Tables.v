(* GENERATED from /repo by harness/cmd/gentables on every run. Do not edit. *)
From Verif Require Import Lib.Base Model.Cfg.

Definition bs_ASCIITabOrNewline : list N := [9;10;13].
Definition bs_ASCIIAlpha : list N := [65;66;67;68;69;70;71;72;73;74;75;76;77;78;79;80;81;82;83;84;85;86;87;88;89;90;97;98;99;100;101;102;103;104;105;106;107;108;109;110;111;112;113;114;115;116;117;118;119;120;121;122].
Definition bs_ASCIIDigit : list N := [48;49;50;51;52;53;54;55;56;57].
Definition bs_ASCIIHexDigit : list N := [48;49;50;51;52;53;54;55;56;57;65;66;67;68;69;70;97;98;99;100;101;102].
Definition bs_ASCIIAlphanumeric : list N := [48;49;50;51;52;53;54;55;56;57;65;66;67;68;69;70;71;72;73;74;75;76;77;78;79;80;81;82;83;84;85;86;87;88;89;90;97;98;99;100;101;102;103;104;105;106;107;108;109;110;111;112;113;114;115;116;117;118;119;120;121;122].
Definition bs_C0control : list N := [0;1;2;3;4;5;6;7;8;9;10;11;12;13;14;15;16;17;18;19;20;21;22;23;24;25;26;27;28;29;30;31].
Definition bs_C0controlOrSpace : list N := [0;1;2;3;4;5;6;7;8;9;10;11;12;13;14;15;16;17;18;19;20;21;22;23;24;25;26;27;28;29;30;31;32].
Definition bs_ForbiddenHostCodePoint : list N := [0;9;10;13;32;35;47;58;60;62;63;64;91;92;93;94;124].
Definition bs_ForbiddenDomainCodePoint : list N := [0;1;2;3;4;5;6;7;8;9;10;11;12;13;14;15;16;17;18;19;20;21;22;23;24;25;26;27;28;29;30;31;32;35;37;47;58;60;62;63;64;91;92;93;94;124;127].
Definition bs_someURLCodePoints : list N := [36;38;39;40;41;42;43;44;45;46;47;58;59;61;63;64;95;126].

Definition pes_C0 : peset := {| ab := 32; bits := [] |}.
Definition pes_C0OrSpace : peset := {| ab := 33; bits := [] |}.
Definition pes_Fragment : peset := {| ab := 33; bits := [34;60;62;96] |}.
Definition pes_Query : peset := {| ab := 33; bits := [34;35;60;62] |}.
Definition pes_SpecialQuery : peset := {| ab := 33; bits := [34;35;39;60;62] |}.
Definition pes_Path : peset := {| ab := 33; bits := [34;35;60;62;63;96;123;125] |}.
Definition pes_UserInfo : peset := {| ab := 33; bits := [34;35;47;58;59;60;61;62;63;64;91;92;93;94;96;123;124;125] |}.
Definition pes_Host : peset := {| ab := 33; bits := [35] |}.
Definition pes_LaxPath : peset := {| ab := 33; bits := [34;35;63;96;123;125] |}.
Definition pes_LaxQuery : peset := {| ab := 33; bits := [35;60;62] |}.
Definition pes_RepeatedQuery : peset := {| ab := 33; bits := [35;37;38;61] |}.
Definition pes_HostDecode : peset := {| ab := 33; bits := [35;47;58;60;62;63;64;91;92;93;94;124] |}.
