(* GENERATED from /repo by harness/cmd/gentables on every run. Do not edit. *)
From Verif Require Import Lib.Base Model.Cfg.

Definition default_cfg : cfg :=
  {| c_report := false; c_fail := false; c_lax := false; c_collapse := false; c_acceptInvalid := false;
     c_pre := HF_none; c_post := HF_none; c_singlePct := false; c_allowPathNonBase := false; c_skipDrive := false;
     c_special := [([102;105;108;101], []); ([102;116;112], [50;49]); ([104;116;116;112], [56;48]); ([104;116;116;112;115], [52;52;51]); ([119;115], [56;48]); ([119;115;115], [52;52;51])];
     c_skipTrailSlash := false; c_latin1 := false;
     c_pathSet := {| ab := 33; bits := [34;35;60;62;63;96;123;125] |};
     c_squerySet := {| ab := 33; bits := [34;35;39;60;62] |};
     c_querySet := {| ab := 33; bits := [34;35;60;62] |};
     c_sfragSet := {| ab := 33; bits := [34;60;62;96] |};
     c_fragSet := {| ab := 33; bits := [34;60;62;96] |};
     c_skipEq := false |}.

(* the sentinel set passed to the set-valued options *)
Definition sentinel_set : peset := {| ab := 7; bits := [65;122] |}.

(* options after NewParser(<that single option>) *)
Definition opt_WithReportValidationErrors : cfg :=
  {| c_report := true; c_fail := false; c_lax := false; c_collapse := false; c_acceptInvalid := false;
     c_pre := HF_none; c_post := HF_none; c_singlePct := false; c_allowPathNonBase := false; c_skipDrive := false;
     c_special := [([102;105;108;101], []); ([102;116;112], [50;49]); ([104;116;116;112], [56;48]); ([104;116;116;112;115], [52;52;51]); ([119;115], [56;48]); ([119;115;115], [52;52;51])];
     c_skipTrailSlash := false; c_latin1 := false;
     c_pathSet := {| ab := 33; bits := [34;35;60;62;63;96;123;125] |};
     c_squerySet := {| ab := 33; bits := [34;35;39;60;62] |};
     c_querySet := {| ab := 33; bits := [34;35;60;62] |};
     c_sfragSet := {| ab := 33; bits := [34;60;62;96] |};
     c_fragSet := {| ab := 33; bits := [34;60;62;96] |};
     c_skipEq := false |}.

Definition opt_WithFailOnValidationError : cfg :=
  {| c_report := false; c_fail := true; c_lax := false; c_collapse := false; c_acceptInvalid := false;
     c_pre := HF_none; c_post := HF_none; c_singlePct := false; c_allowPathNonBase := false; c_skipDrive := false;
     c_special := [([102;105;108;101], []); ([102;116;112], [50;49]); ([104;116;116;112], [56;48]); ([104;116;116;112;115], [52;52;51]); ([119;115], [56;48]); ([119;115;115], [52;52;51])];
     c_skipTrailSlash := false; c_latin1 := false;
     c_pathSet := {| ab := 33; bits := [34;35;60;62;63;96;123;125] |};
     c_squerySet := {| ab := 33; bits := [34;35;39;60;62] |};
     c_querySet := {| ab := 33; bits := [34;35;60;62] |};
     c_sfragSet := {| ab := 33; bits := [34;60;62;96] |};
     c_fragSet := {| ab := 33; bits := [34;60;62;96] |};
     c_skipEq := false |}.

Definition opt_WithLaxHostParsing : cfg :=
  {| c_report := false; c_fail := false; c_lax := true; c_collapse := false; c_acceptInvalid := false;
     c_pre := HF_none; c_post := HF_none; c_singlePct := false; c_allowPathNonBase := false; c_skipDrive := false;
     c_special := [([102;105;108;101], []); ([102;116;112], [50;49]); ([104;116;116;112], [56;48]); ([104;116;116;112;115], [52;52;51]); ([119;115], [56;48]); ([119;115;115], [52;52;51])];
     c_skipTrailSlash := false; c_latin1 := false;
     c_pathSet := {| ab := 33; bits := [34;35;60;62;63;96;123;125] |};
     c_squerySet := {| ab := 33; bits := [34;35;39;60;62] |};
     c_querySet := {| ab := 33; bits := [34;35;60;62] |};
     c_sfragSet := {| ab := 33; bits := [34;60;62;96] |};
     c_fragSet := {| ab := 33; bits := [34;60;62;96] |};
     c_skipEq := false |}.

Definition opt_WithCollapseConsecutiveSlashes : cfg :=
  {| c_report := false; c_fail := false; c_lax := false; c_collapse := true; c_acceptInvalid := false;
     c_pre := HF_none; c_post := HF_none; c_singlePct := false; c_allowPathNonBase := false; c_skipDrive := false;
     c_special := [([102;105;108;101], []); ([102;116;112], [50;49]); ([104;116;116;112], [56;48]); ([104;116;116;112;115], [52;52;51]); ([119;115], [56;48]); ([119;115;115], [52;52;51])];
     c_skipTrailSlash := false; c_latin1 := false;
     c_pathSet := {| ab := 33; bits := [34;35;60;62;63;96;123;125] |};
     c_squerySet := {| ab := 33; bits := [34;35;39;60;62] |};
     c_querySet := {| ab := 33; bits := [34;35;60;62] |};
     c_sfragSet := {| ab := 33; bits := [34;60;62;96] |};
     c_fragSet := {| ab := 33; bits := [34;60;62;96] |};
     c_skipEq := false |}.

Definition opt_WithAcceptInvalidCodepoints : cfg :=
  {| c_report := false; c_fail := false; c_lax := false; c_collapse := false; c_acceptInvalid := true;
     c_pre := HF_none; c_post := HF_none; c_singlePct := false; c_allowPathNonBase := false; c_skipDrive := false;
     c_special := [([102;105;108;101], []); ([102;116;112], [50;49]); ([104;116;116;112], [56;48]); ([104;116;116;112;115], [52;52;51]); ([119;115], [56;48]); ([119;115;115], [52;52;51])];
     c_skipTrailSlash := false; c_latin1 := false;
     c_pathSet := {| ab := 33; bits := [34;35;60;62;63;96;123;125] |};
     c_squerySet := {| ab := 33; bits := [34;35;39;60;62] |};
     c_querySet := {| ab := 33; bits := [34;35;60;62] |};
     c_sfragSet := {| ab := 33; bits := [34;60;62;96] |};
     c_fragSet := {| ab := 33; bits := [34;60;62;96] |};
     c_skipEq := false |}.

Definition opt_WithPercentEncodeSinglePercentSign : cfg :=
  {| c_report := false; c_fail := false; c_lax := false; c_collapse := false; c_acceptInvalid := false;
     c_pre := HF_none; c_post := HF_none; c_singlePct := true; c_allowPathNonBase := false; c_skipDrive := false;
     c_special := [([102;105;108;101], []); ([102;116;112], [50;49]); ([104;116;116;112], [56;48]); ([104;116;116;112;115], [52;52;51]); ([119;115], [56;48]); ([119;115;115], [52;52;51])];
     c_skipTrailSlash := false; c_latin1 := false;
     c_pathSet := {| ab := 33; bits := [34;35;60;62;63;96;123;125] |};
     c_squerySet := {| ab := 33; bits := [34;35;39;60;62] |};
     c_querySet := {| ab := 33; bits := [34;35;60;62] |};
     c_sfragSet := {| ab := 33; bits := [34;60;62;96] |};
     c_fragSet := {| ab := 33; bits := [34;60;62;96] |};
     c_skipEq := false |}.

Definition opt_WithAllowSettingPathForNonBaseUrl : cfg :=
  {| c_report := false; c_fail := false; c_lax := false; c_collapse := false; c_acceptInvalid := false;
     c_pre := HF_none; c_post := HF_none; c_singlePct := false; c_allowPathNonBase := true; c_skipDrive := false;
     c_special := [([102;105;108;101], []); ([102;116;112], [50;49]); ([104;116;116;112], [56;48]); ([104;116;116;112;115], [52;52;51]); ([119;115], [56;48]); ([119;115;115], [52;52;51])];
     c_skipTrailSlash := false; c_latin1 := false;
     c_pathSet := {| ab := 33; bits := [34;35;60;62;63;96;123;125] |};
     c_squerySet := {| ab := 33; bits := [34;35;39;60;62] |};
     c_querySet := {| ab := 33; bits := [34;35;60;62] |};
     c_sfragSet := {| ab := 33; bits := [34;60;62;96] |};
     c_fragSet := {| ab := 33; bits := [34;60;62;96] |};
     c_skipEq := false |}.

Definition opt_WithSkipWindowsDriveLetterNormalization : cfg :=
  {| c_report := false; c_fail := false; c_lax := false; c_collapse := false; c_acceptInvalid := false;
     c_pre := HF_none; c_post := HF_none; c_singlePct := false; c_allowPathNonBase := false; c_skipDrive := true;
     c_special := [([102;105;108;101], []); ([102;116;112], [50;49]); ([104;116;116;112], [56;48]); ([104;116;116;112;115], [52;52;51]); ([119;115], [56;48]); ([119;115;115], [52;52;51])];
     c_skipTrailSlash := false; c_latin1 := false;
     c_pathSet := {| ab := 33; bits := [34;35;60;62;63;96;123;125] |};
     c_squerySet := {| ab := 33; bits := [34;35;39;60;62] |};
     c_querySet := {| ab := 33; bits := [34;35;60;62] |};
     c_sfragSet := {| ab := 33; bits := [34;60;62;96] |};
     c_fragSet := {| ab := 33; bits := [34;60;62;96] |};
     c_skipEq := false |}.

Definition opt_WithSkipTrailingSlashNormalization : cfg :=
  {| c_report := false; c_fail := false; c_lax := false; c_collapse := false; c_acceptInvalid := false;
     c_pre := HF_none; c_post := HF_none; c_singlePct := false; c_allowPathNonBase := false; c_skipDrive := false;
     c_special := [([102;105;108;101], []); ([102;116;112], [50;49]); ([104;116;116;112], [56;48]); ([104;116;116;112;115], [52;52;51]); ([119;115], [56;48]); ([119;115;115], [52;52;51])];
     c_skipTrailSlash := true; c_latin1 := false;
     c_pathSet := {| ab := 33; bits := [34;35;60;62;63;96;123;125] |};
     c_squerySet := {| ab := 33; bits := [34;35;39;60;62] |};
     c_querySet := {| ab := 33; bits := [34;35;60;62] |};
     c_sfragSet := {| ab := 33; bits := [34;60;62;96] |};
     c_fragSet := {| ab := 33; bits := [34;60;62;96] |};
     c_skipEq := false |}.

Definition opt_WithSkipEqualsForEmptySearchParamsValue : cfg :=
  {| c_report := false; c_fail := false; c_lax := false; c_collapse := false; c_acceptInvalid := false;
     c_pre := HF_none; c_post := HF_none; c_singlePct := false; c_allowPathNonBase := false; c_skipDrive := false;
     c_special := [([102;105;108;101], []); ([102;116;112], [50;49]); ([104;116;116;112], [56;48]); ([104;116;116;112;115], [52;52;51]); ([119;115], [56;48]); ([119;115;115], [52;52;51])];
     c_skipTrailSlash := false; c_latin1 := false;
     c_pathSet := {| ab := 33; bits := [34;35;60;62;63;96;123;125] |};
     c_squerySet := {| ab := 33; bits := [34;35;39;60;62] |};
     c_querySet := {| ab := 33; bits := [34;35;60;62] |};
     c_sfragSet := {| ab := 33; bits := [34;60;62;96] |};
     c_fragSet := {| ab := 33; bits := [34;60;62;96] |};
     c_skipEq := true |}.

Definition opt_WithEncodingOverride : cfg :=
  {| c_report := false; c_fail := false; c_lax := false; c_collapse := false; c_acceptInvalid := false;
     c_pre := HF_none; c_post := HF_none; c_singlePct := false; c_allowPathNonBase := false; c_skipDrive := false;
     c_special := [([102;105;108;101], []); ([102;116;112], [50;49]); ([104;116;116;112], [56;48]); ([104;116;116;112;115], [52;52;51]); ([119;115], [56;48]); ([119;115;115], [52;52;51])];
     c_skipTrailSlash := false; c_latin1 := true;
     c_pathSet := {| ab := 33; bits := [34;35;60;62;63;96;123;125] |};
     c_squerySet := {| ab := 33; bits := [34;35;39;60;62] |};
     c_querySet := {| ab := 33; bits := [34;35;60;62] |};
     c_sfragSet := {| ab := 33; bits := [34;60;62;96] |};
     c_fragSet := {| ab := 33; bits := [34;60;62;96] |};
     c_skipEq := false |}.

Definition opt_WithSpecialSchemes : cfg :=
  {| c_report := false; c_fail := false; c_lax := false; c_collapse := false; c_acceptInvalid := false;
     c_pre := HF_none; c_post := HF_none; c_singlePct := false; c_allowPathNonBase := false; c_skipDrive := false;
     c_special := [([120], [49])];
     c_skipTrailSlash := false; c_latin1 := false;
     c_pathSet := {| ab := 33; bits := [34;35;60;62;63;96;123;125] |};
     c_squerySet := {| ab := 33; bits := [34;35;39;60;62] |};
     c_querySet := {| ab := 33; bits := [34;35;60;62] |};
     c_sfragSet := {| ab := 33; bits := [34;60;62;96] |};
     c_fragSet := {| ab := 33; bits := [34;60;62;96] |};
     c_skipEq := false |}.

Definition opt_WithPathPercentEncodeSet : cfg :=
  {| c_report := false; c_fail := false; c_lax := false; c_collapse := false; c_acceptInvalid := false;
     c_pre := HF_none; c_post := HF_none; c_singlePct := false; c_allowPathNonBase := false; c_skipDrive := false;
     c_special := [([102;105;108;101], []); ([102;116;112], [50;49]); ([104;116;116;112], [56;48]); ([104;116;116;112;115], [52;52;51]); ([119;115], [56;48]); ([119;115;115], [52;52;51])];
     c_skipTrailSlash := false; c_latin1 := false;
     c_pathSet := {| ab := 7; bits := [65;122] |};
     c_squerySet := {| ab := 33; bits := [34;35;39;60;62] |};
     c_querySet := {| ab := 33; bits := [34;35;60;62] |};
     c_sfragSet := {| ab := 33; bits := [34;60;62;96] |};
     c_fragSet := {| ab := 33; bits := [34;60;62;96] |};
     c_skipEq := false |}.

Definition opt_WithQueryPercentEncodeSet : cfg :=
  {| c_report := false; c_fail := false; c_lax := false; c_collapse := false; c_acceptInvalid := false;
     c_pre := HF_none; c_post := HF_none; c_singlePct := false; c_allowPathNonBase := false; c_skipDrive := false;
     c_special := [([102;105;108;101], []); ([102;116;112], [50;49]); ([104;116;116;112], [56;48]); ([104;116;116;112;115], [52;52;51]); ([119;115], [56;48]); ([119;115;115], [52;52;51])];
     c_skipTrailSlash := false; c_latin1 := false;
     c_pathSet := {| ab := 33; bits := [34;35;60;62;63;96;123;125] |};
     c_squerySet := {| ab := 33; bits := [34;35;39;60;62] |};
     c_querySet := {| ab := 7; bits := [65;122] |};
     c_sfragSet := {| ab := 33; bits := [34;60;62;96] |};
     c_fragSet := {| ab := 33; bits := [34;60;62;96] |};
     c_skipEq := false |}.

Definition opt_WithSpecialQueryPercentEncodeSet : cfg :=
  {| c_report := false; c_fail := false; c_lax := false; c_collapse := false; c_acceptInvalid := false;
     c_pre := HF_none; c_post := HF_none; c_singlePct := false; c_allowPathNonBase := false; c_skipDrive := false;
     c_special := [([102;105;108;101], []); ([102;116;112], [50;49]); ([104;116;116;112], [56;48]); ([104;116;116;112;115], [52;52;51]); ([119;115], [56;48]); ([119;115;115], [52;52;51])];
     c_skipTrailSlash := false; c_latin1 := false;
     c_pathSet := {| ab := 33; bits := [34;35;60;62;63;96;123;125] |};
     c_squerySet := {| ab := 7; bits := [65;122] |};
     c_querySet := {| ab := 33; bits := [34;35;60;62] |};
     c_sfragSet := {| ab := 33; bits := [34;60;62;96] |};
     c_fragSet := {| ab := 33; bits := [34;60;62;96] |};
     c_skipEq := false |}.

Definition opt_WithFragmentPathPercentEncodeSet : cfg :=
  {| c_report := false; c_fail := false; c_lax := false; c_collapse := false; c_acceptInvalid := false;
     c_pre := HF_none; c_post := HF_none; c_singlePct := false; c_allowPathNonBase := false; c_skipDrive := false;
     c_special := [([102;105;108;101], []); ([102;116;112], [50;49]); ([104;116;116;112], [56;48]); ([104;116;116;112;115], [52;52;51]); ([119;115], [56;48]); ([119;115;115], [52;52;51])];
     c_skipTrailSlash := false; c_latin1 := false;
     c_pathSet := {| ab := 33; bits := [34;35;60;62;63;96;123;125] |};
     c_squerySet := {| ab := 33; bits := [34;35;39;60;62] |};
     c_querySet := {| ab := 33; bits := [34;35;60;62] |};
     c_sfragSet := {| ab := 33; bits := [34;60;62;96] |};
     c_fragSet := {| ab := 7; bits := [65;122] |};
     c_skipEq := false |}.

Definition opt_WithSpecialFragmentPathPercentEncodeSet : cfg :=
  {| c_report := false; c_fail := false; c_lax := false; c_collapse := false; c_acceptInvalid := false;
     c_pre := HF_none; c_post := HF_none; c_singlePct := false; c_allowPathNonBase := false; c_skipDrive := false;
     c_special := [([102;105;108;101], []); ([102;116;112], [50;49]); ([104;116;116;112], [56;48]); ([104;116;116;112;115], [52;52;51]); ([119;115], [56;48]); ([119;115;115], [52;52;51])];
     c_skipTrailSlash := false; c_latin1 := false;
     c_pathSet := {| ab := 33; bits := [34;35;60;62;63;96;123;125] |};
     c_squerySet := {| ab := 33; bits := [34;35;39;60;62] |};
     c_querySet := {| ab := 33; bits := [34;35;60;62] |};
     c_sfragSet := {| ab := 7; bits := [65;122] |};
     c_fragSet := {| ab := 33; bits := [34;60;62;96] |};
     c_skipEq := false |}.

Definition opt_WithPreParseHostFunc : cfg :=
  {| c_report := false; c_fail := false; c_lax := false; c_collapse := false; c_acceptInvalid := false;
     c_pre := HF_gsb; c_post := HF_none; c_singlePct := false; c_allowPathNonBase := false; c_skipDrive := false;
     c_special := [([102;105;108;101], []); ([102;116;112], [50;49]); ([104;116;116;112], [56;48]); ([104;116;116;112;115], [52;52;51]); ([119;115], [56;48]); ([119;115;115], [52;52;51])];
     c_skipTrailSlash := false; c_latin1 := false;
     c_pathSet := {| ab := 33; bits := [34;35;60;62;63;96;123;125] |};
     c_squerySet := {| ab := 33; bits := [34;35;39;60;62] |};
     c_querySet := {| ab := 33; bits := [34;35;60;62] |};
     c_sfragSet := {| ab := 33; bits := [34;60;62;96] |};
     c_fragSet := {| ab := 33; bits := [34;60;62;96] |};
     c_skipEq := false |}.

Definition opt_WithPostParseHostFunc : cfg :=
  {| c_report := false; c_fail := false; c_lax := false; c_collapse := false; c_acceptInvalid := false;
     c_pre := HF_none; c_post := HF_gsb; c_singlePct := false; c_allowPathNonBase := false; c_skipDrive := false;
     c_special := [([102;105;108;101], []); ([102;116;112], [50;49]); ([104;116;116;112], [56;48]); ([104;116;116;112;115], [52;52;51]); ([119;115], [56;48]); ([119;115;115], [52;52;51])];
     c_skipTrailSlash := false; c_latin1 := false;
     c_pathSet := {| ab := 33; bits := [34;35;60;62;63;96;123;125] |};
     c_squerySet := {| ab := 33; bits := [34;35;39;60;62] |};
     c_querySet := {| ab := 33; bits := [34;35;60;62] |};
     c_sfragSet := {| ab := 33; bits := [34;60;62;96] |};
     c_fragSet := {| ab := 33; bits := [34;60;62;96] |};
     c_skipEq := false |}.

Definition prof_none : profile :=
  {| p_cfg := {| c_report := false; c_fail := false; c_lax := false; c_collapse := false; c_acceptInvalid := false;
     c_pre := HF_none; c_post := HF_none; c_singlePct := false; c_allowPathNonBase := false; c_skipDrive := false;
     c_special := [([102;105;108;101], []); ([102;116;112], [50;49]); ([104;116;116;112], [56;48]); ([104;116;116;112;115], [52;52;51]); ([119;115], [56;48]); ([119;115;115], [52;52;51])];
     c_skipTrailSlash := false; c_latin1 := false;
     c_pathSet := {| ab := 33; bits := [34;35;60;62;63;96;123;125] |};
     c_squerySet := {| ab := 33; bits := [34;35;39;60;62] |};
     c_querySet := {| ab := 33; bits := [34;35;60;62] |};
     c_sfragSet := {| ab := 33; bits := [34;60;62;96] |};
     c_fragSet := {| ab := 33; bits := [34;60;62;96] |};
     c_skipEq := false |};
   p_removeUserInfo := false; p_removePort := false; p_removeFragment := false; p_sortQuery := NoSort; p_repeated := false; p_defaultScheme := [] |}.

Definition copt_WithRemoveUserInfo : profile :=
  {| p_cfg := {| c_report := false; c_fail := false; c_lax := false; c_collapse := false; c_acceptInvalid := false;
     c_pre := HF_none; c_post := HF_none; c_singlePct := false; c_allowPathNonBase := false; c_skipDrive := false;
     c_special := [([102;105;108;101], []); ([102;116;112], [50;49]); ([104;116;116;112], [56;48]); ([104;116;116;112;115], [52;52;51]); ([119;115], [56;48]); ([119;115;115], [52;52;51])];
     c_skipTrailSlash := false; c_latin1 := false;
     c_pathSet := {| ab := 33; bits := [34;35;60;62;63;96;123;125] |};
     c_squerySet := {| ab := 33; bits := [34;35;39;60;62] |};
     c_querySet := {| ab := 33; bits := [34;35;60;62] |};
     c_sfragSet := {| ab := 33; bits := [34;60;62;96] |};
     c_fragSet := {| ab := 33; bits := [34;60;62;96] |};
     c_skipEq := false |};
   p_removeUserInfo := true; p_removePort := false; p_removeFragment := false; p_sortQuery := NoSort; p_repeated := false; p_defaultScheme := [] |}.

Definition copt_WithRemovePort : profile :=
  {| p_cfg := {| c_report := false; c_fail := false; c_lax := false; c_collapse := false; c_acceptInvalid := false;
     c_pre := HF_none; c_post := HF_none; c_singlePct := false; c_allowPathNonBase := false; c_skipDrive := false;
     c_special := [([102;105;108;101], []); ([102;116;112], [50;49]); ([104;116;116;112], [56;48]); ([104;116;116;112;115], [52;52;51]); ([119;115], [56;48]); ([119;115;115], [52;52;51])];
     c_skipTrailSlash := false; c_latin1 := false;
     c_pathSet := {| ab := 33; bits := [34;35;60;62;63;96;123;125] |};
     c_squerySet := {| ab := 33; bits := [34;35;39;60;62] |};
     c_querySet := {| ab := 33; bits := [34;35;60;62] |};
     c_sfragSet := {| ab := 33; bits := [34;60;62;96] |};
     c_fragSet := {| ab := 33; bits := [34;60;62;96] |};
     c_skipEq := false |};
   p_removeUserInfo := false; p_removePort := true; p_removeFragment := false; p_sortQuery := NoSort; p_repeated := false; p_defaultScheme := [] |}.

Definition copt_WithRemoveFragment : profile :=
  {| p_cfg := {| c_report := false; c_fail := false; c_lax := false; c_collapse := false; c_acceptInvalid := false;
     c_pre := HF_none; c_post := HF_none; c_singlePct := false; c_allowPathNonBase := false; c_skipDrive := false;
     c_special := [([102;105;108;101], []); ([102;116;112], [50;49]); ([104;116;116;112], [56;48]); ([104;116;116;112;115], [52;52;51]); ([119;115], [56;48]); ([119;115;115], [52;52;51])];
     c_skipTrailSlash := false; c_latin1 := false;
     c_pathSet := {| ab := 33; bits := [34;35;60;62;63;96;123;125] |};
     c_squerySet := {| ab := 33; bits := [34;35;39;60;62] |};
     c_querySet := {| ab := 33; bits := [34;35;60;62] |};
     c_sfragSet := {| ab := 33; bits := [34;60;62;96] |};
     c_fragSet := {| ab := 33; bits := [34;60;62;96] |};
     c_skipEq := false |};
   p_removeUserInfo := false; p_removePort := false; p_removeFragment := true; p_sortQuery := NoSort; p_repeated := false; p_defaultScheme := [] |}.

Definition copt_WithRepeatedPercentDecoding : profile :=
  {| p_cfg := {| c_report := false; c_fail := false; c_lax := false; c_collapse := false; c_acceptInvalid := false;
     c_pre := HF_none; c_post := HF_none; c_singlePct := false; c_allowPathNonBase := false; c_skipDrive := false;
     c_special := [([102;105;108;101], []); ([102;116;112], [50;49]); ([104;116;116;112], [56;48]); ([104;116;116;112;115], [52;52;51]); ([119;115], [56;48]); ([119;115;115], [52;52;51])];
     c_skipTrailSlash := false; c_latin1 := false;
     c_pathSet := {| ab := 33; bits := [34;35;60;62;63;96;123;125] |};
     c_squerySet := {| ab := 33; bits := [34;35;39;60;62] |};
     c_querySet := {| ab := 33; bits := [34;35;60;62] |};
     c_sfragSet := {| ab := 33; bits := [34;60;62;96] |};
     c_fragSet := {| ab := 33; bits := [34;60;62;96] |};
     c_skipEq := false |};
   p_removeUserInfo := false; p_removePort := false; p_removeFragment := false; p_sortQuery := NoSort; p_repeated := true; p_defaultScheme := [] |}.

Definition copt_WithDefaultScheme : profile :=
  {| p_cfg := {| c_report := false; c_fail := false; c_lax := false; c_collapse := false; c_acceptInvalid := false;
     c_pre := HF_none; c_post := HF_none; c_singlePct := false; c_allowPathNonBase := false; c_skipDrive := false;
     c_special := [([102;105;108;101], []); ([102;116;112], [50;49]); ([104;116;116;112], [56;48]); ([104;116;116;112;115], [52;52;51]); ([119;115], [56;48]); ([119;115;115], [52;52;51])];
     c_skipTrailSlash := false; c_latin1 := false;
     c_pathSet := {| ab := 33; bits := [34;35;60;62;63;96;123;125] |};
     c_squerySet := {| ab := 33; bits := [34;35;39;60;62] |};
     c_querySet := {| ab := 33; bits := [34;35;60;62] |};
     c_sfragSet := {| ab := 33; bits := [34;60;62;96] |};
     c_fragSet := {| ab := 33; bits := [34;60;62;96] |};
     c_skipEq := false |};
   p_removeUserInfo := false; p_removePort := false; p_removeFragment := false; p_sortQuery := NoSort; p_repeated := false; p_defaultScheme := [120] |}.

Definition copt_WithSortQuery1 : profile :=
  {| p_cfg := {| c_report := false; c_fail := false; c_lax := false; c_collapse := false; c_acceptInvalid := false;
     c_pre := HF_none; c_post := HF_none; c_singlePct := false; c_allowPathNonBase := false; c_skipDrive := false;
     c_special := [([102;105;108;101], []); ([102;116;112], [50;49]); ([104;116;116;112], [56;48]); ([104;116;116;112;115], [52;52;51]); ([119;115], [56;48]); ([119;115;115], [52;52;51])];
     c_skipTrailSlash := false; c_latin1 := false;
     c_pathSet := {| ab := 33; bits := [34;35;60;62;63;96;123;125] |};
     c_squerySet := {| ab := 33; bits := [34;35;39;60;62] |};
     c_querySet := {| ab := 33; bits := [34;35;60;62] |};
     c_sfragSet := {| ab := 33; bits := [34;60;62;96] |};
     c_fragSet := {| ab := 33; bits := [34;60;62;96] |};
     c_skipEq := false |};
   p_removeUserInfo := false; p_removePort := false; p_removeFragment := false; p_sortQuery := SortKeys; p_repeated := false; p_defaultScheme := [] |}.

Definition copt_WithSortQuery2 : profile :=
  {| p_cfg := {| c_report := false; c_fail := false; c_lax := false; c_collapse := false; c_acceptInvalid := false;
     c_pre := HF_none; c_post := HF_none; c_singlePct := false; c_allowPathNonBase := false; c_skipDrive := false;
     c_special := [([102;105;108;101], []); ([102;116;112], [50;49]); ([104;116;116;112], [56;48]); ([104;116;116;112;115], [52;52;51]); ([119;115], [56;48]); ([119;115;115], [52;52;51])];
     c_skipTrailSlash := false; c_latin1 := false;
     c_pathSet := {| ab := 33; bits := [34;35;60;62;63;96;123;125] |};
     c_squerySet := {| ab := 33; bits := [34;35;39;60;62] |};
     c_querySet := {| ab := 33; bits := [34;35;60;62] |};
     c_sfragSet := {| ab := 33; bits := [34;60;62;96] |};
     c_fragSet := {| ab := 33; bits := [34;60;62;96] |};
     c_skipEq := false |};
   p_removeUserInfo := false; p_removePort := false; p_removeFragment := false; p_sortQuery := SortParameter; p_repeated := false; p_defaultScheme := [] |}.

Definition prof_WhatWg : profile :=
  {| p_cfg := {| c_report := false; c_fail := false; c_lax := false; c_collapse := false; c_acceptInvalid := false;
     c_pre := HF_none; c_post := HF_none; c_singlePct := false; c_allowPathNonBase := false; c_skipDrive := false;
     c_special := [([102;105;108;101], []); ([102;116;112], [50;49]); ([104;116;116;112], [56;48]); ([104;116;116;112;115], [52;52;51]); ([119;115], [56;48]); ([119;115;115], [52;52;51])];
     c_skipTrailSlash := false; c_latin1 := false;
     c_pathSet := {| ab := 33; bits := [34;35;60;62;63;96;123;125] |};
     c_squerySet := {| ab := 33; bits := [34;35;39;60;62] |};
     c_querySet := {| ab := 33; bits := [34;35;60;62] |};
     c_sfragSet := {| ab := 33; bits := [34;60;62;96] |};
     c_fragSet := {| ab := 33; bits := [34;60;62;96] |};
     c_skipEq := false |};
   p_removeUserInfo := false; p_removePort := false; p_removeFragment := false; p_sortQuery := NoSort; p_repeated := false; p_defaultScheme := [] |}.

Definition prof_WhatWgSortQuery : profile :=
  {| p_cfg := {| c_report := false; c_fail := false; c_lax := false; c_collapse := false; c_acceptInvalid := false;
     c_pre := HF_none; c_post := HF_none; c_singlePct := false; c_allowPathNonBase := false; c_skipDrive := false;
     c_special := [([102;105;108;101], []); ([102;116;112], [50;49]); ([104;116;116;112], [56;48]); ([104;116;116;112;115], [52;52;51]); ([119;115], [56;48]); ([119;115;115], [52;52;51])];
     c_skipTrailSlash := false; c_latin1 := false;
     c_pathSet := {| ab := 33; bits := [34;35;60;62;63;96;123;125] |};
     c_squerySet := {| ab := 33; bits := [34;35;39;60;62] |};
     c_querySet := {| ab := 33; bits := [34;35;60;62] |};
     c_sfragSet := {| ab := 33; bits := [34;60;62;96] |};
     c_fragSet := {| ab := 33; bits := [34;60;62;96] |};
     c_skipEq := false |};
   p_removeUserInfo := false; p_removePort := false; p_removeFragment := false; p_sortQuery := SortKeys; p_repeated := false; p_defaultScheme := [] |}.

Definition prof_GoogleSafeBrowsing : profile :=
  {| p_cfg := {| c_report := false; c_fail := false; c_lax := true; c_collapse := true; c_acceptInvalid := true;
     c_pre := HF_gsb; c_post := HF_none; c_singlePct := true; c_allowPathNonBase := false; c_skipDrive := false;
     c_special := [([102;105;108;101], []); ([102;116;112], [50;49]); ([104;116;116;112], [56;48]); ([104;116;116;112;115], [52;52;51]); ([119;115], [56;48]); ([119;115;115], [52;52;51])];
     c_skipTrailSlash := false; c_latin1 := false;
     c_pathSet := {| ab := 33; bits := [34;35;60;62;63;96;123;125] |};
     c_squerySet := {| ab := 33; bits := [34;35;39;60;62] |};
     c_querySet := {| ab := 33; bits := [35;60;62] |};
     c_sfragSet := {| ab := 33; bits := [34;60;62;96] |};
     c_fragSet := {| ab := 33; bits := [34;60;62;96] |};
     c_skipEq := true |};
   p_removeUserInfo := false; p_removePort := true; p_removeFragment := true; p_sortQuery := NoSort; p_repeated := true; p_defaultScheme := [104;116;116;112] |}.

Definition prof_Semantic : profile :=
  {| p_cfg := {| c_report := false; c_fail := false; c_lax := true; c_collapse := true; c_acceptInvalid := true;
     c_pre := HF_sem; c_post := HF_none; c_singlePct := true; c_allowPathNonBase := true; c_skipDrive := false;
     c_special := [([102;105;108;101], []); ([102;116;112], [50;49]); ([103;111;112;104;101;114], [55;48]); ([104;116;116;112], [56;48]); ([104;116;116;112;115], [52;52;51]); ([119;115], [56;48]); ([119;115;115], [52;52;51])];
     c_skipTrailSlash := false; c_latin1 := true;
     c_pathSet := {| ab := 33; bits := [34;35;63;96;123;125] |};
     c_squerySet := {| ab := 33; bits := [34;35;39;60;62] |};
     c_querySet := {| ab := 33; bits := [35;60;62] |};
     c_sfragSet := {| ab := 33; bits := [34;60;62;96] |};
     c_fragSet := {| ab := 33; bits := [34;60;62;96] |};
     c_skipEq := false |};
   p_removeUserInfo := true; p_removePort := false; p_removeFragment := true; p_sortQuery := SortKeys; p_repeated := true; p_defaultScheme := [104;116;116;112] |}.
