(* Extraction of the executable Spec (the independent transcription of the WHATWG URL Standard).
   ExtrOcamlBasic only: bool, option, unit, list, prod stay OCaml's own types; N, Z, positive, nat stay the
   extracted inductive types. Run coqc for this file from the directory where spec.ml is to land:
     cd /verif/build/spec && coqc -Q /verif/coq Verif /verif/coq/Extract/ExtractSpec.v *)
From Coq Require Import Extraction ExtrOcamlBasic.
From Verif Require Import Lib.Base Lib.Utf8 Spec.PercentSets Spec.IPv4 Spec.IPv6 Spec.Url Spec.PercentCodec
     Spec.Host Spec.BasicParser Spec.Setters Spec.UrlEncoded.

Extraction Language OCaml.
Extraction "spec.ml"
  runes encode_runes utf8_encode
  new_url url_serialize host_serialize path_serialize
  percent_decode string_percent_decode utf8_percent_encode utf8_percent_encode_cp percent_encode_after_utf8
  utf8_decode_without_bom utf8_decode_has_error in_component_set in_urlencoded_set
  in_c0_control_set in_fragment_set in_query_set in_special_query_set in_path_set in_userinfo_set
  forbidden_host_cp forbidden_domain_cp
  ipv4_number ends_in_a_number ipv4_parse ipv4_serialize ipv6_parse ipv6_serialize
  domain_to_ascii opaque_host_parse host_parse
  basic_url_parse parser_fuel strip_c0_space remove_tab_newline
  url_parse api_url_parse
  get_href get_protocol get_username get_password get_host get_hostname get_port get_pathname get_search get_hash
  observe
  set_protocol set_username set_password set_host set_hostname set_port set_pathname set_search set_hash apply_setter
  urlencoded_parse urlencoded_serialize.
