(* Extraction of the executable model. ExtrOcamlBasic only: bool, option, unit, list, prod,
   sumbool, sumor and the inlined andb/orb; N, Z, positive, nat stay the extracted inductives. *)
From Coq Require Import Extraction ExtrOcamlBasic.
From Verif Require Import Lib.Base Lib.Utf8 Lib.GoStr Model.Cfg Gen.Tables Gen.Options Model.Sets Model.Percent
     Spec.Entry Model.Url Model.Preds Model.Host Model.Machine Model.Api Model.Canon Model.DecodeOnePass Model.Obs Model.Direct.

Extraction Language OCaml.
Extraction "model.ml"
  default_cfg prof_none prof_WhatWg prof_WhatWgSortQuery prof_GoogleSafeBrowsing prof_Semantic
  pes_C0 pes_C0OrSpace pes_Fragment pes_Query pes_SpecialQuery pes_Path pes_UserInfo pes_Host
  pes_LaxPath pes_LaxQuery pes_RepeatedQuery pes_HostDecode
  RuneShouldBeEncoded RuneNotInSet isURLCodePoint pes_set pes_clear
  Parse ParseRef UrlParse history hrun obs_pres obs_cres ProfileParse ProfileParseRef direct
  parseHost parseIPv4 parseIPv6 ipv6_parse IPv6String IPv4String parseOpaqueHost endsInANumber parseIPv4Number_nonempty
  ToASCII PercentEncodeString DecodePercentEncoded percentEncodeBytes decodeEncode repeatedDecode repeatedDecode1
  sp_init sp_string trim_c0space remove_tabnl obs_url verr_obs empty_url
  utf8_enc runes decode valid_utf8 itoa fmt_hex inv_obs acc_obs
  spec_ipv4_number spec_ends_in_a_number spec_ipv4_parse spec_ipv4_serialize spec_ipv6_parse spec_ipv6_serialize spec_in_set.
