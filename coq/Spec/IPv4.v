(* WHATWG URL Standard 3.5: IPv4 number parser, IPv4 parser, ends-in-a-number checker, IPv4 serializer.
   Inputs are ASCII strings (lists of code points). Validation errors are not modelled here. *)
From Verif Require Import Lib.Base Spec.PercentSets.

(* strictly split on U+002E *)
Fixpoint s_split_aux (s : list N) (cur : list N) : list (list N) :=
  match s with
  | [] => [rev cur]
  | c :: s' => if c =? 46 then rev cur :: s_split_aux s' [] else s_split_aux s' (c :: cur)
  end.
Definition strictly_split_dot (s : list N) : list (list N) := s_split_aux s [].

Definition digit_value (c : N) : N :=
  if ascii_digit c then c - 48 else if (65 <=? c) && (c <=? 70) then c - 55 else c - 87.

Definition radix_digit (R : N) (c : N) : bool :=
  if R =? 10 then ascii_digit c
  else if R =? 16 then ascii_hex_digit c
  else (48 <=? c) && (c <=? 55).

Definition to_number (R : N) (s : list N) : N := fold_left (fun acc c => acc * R + digit_value c) s 0.

(* IPv4 number parser: None = failure *)
Definition ipv4_number (input : list N) : option N :=
  match input with
  | [] => None
  | _ =>
    let '(R, rest) :=
      match input with
      | 48 :: 120 :: r | 48 :: 88 :: r => (16, r)
      | 48 :: ((_ :: _) as r) => (8, r)
      | _ => (10, input)
      end in
    match rest with
    | [] => Some 0
    | _ => if forallb (radix_digit R) rest then Some (to_number R rest) else None
    end
  end.

Definition last_item {A} (l : list A) : option A := last_opt l.

Definition ends_in_a_number (input : list N) : bool :=
  let parts := strictly_split_dot input in
  let parts := match last_item parts with
               | Some [] => if (length parts =? 1)%nat then [] else removelast parts
               | _ => parts end in
  match last_item parts with
  | None => false
  | Some last =>
      if negb (is_nil last) && forallb ascii_digit last then true
      else match ipv4_number last with Some _ => true | None => false end
  end.

Fixpoint all_some {A} (l : list (option A)) : option (list A) :=
  match l with
  | [] => Some []
  | Some x :: l' => match all_some l' with Some r => Some (x :: r) | None => None end
  | None :: _ => None
  end.

Fixpoint sum_parts (ns : list N) (counter : N) : N :=
  match ns with
  | [] => 0
  | n :: rest => n * 256 ^ (3 - counter) + sum_parts rest (counter + 1)
  end.

(* IPv4 parser: None = failure, Some a = the 32-bit address *)
Definition ipv4_parse (input : list N) : option N :=
  let parts := strictly_split_dot input in
  let parts := match last_item parts with
               | Some [] => if (1 <? length parts)%nat then removelast parts else parts
               | _ => parts end in
  if (4 <? length parts)%nat then None
  else match all_some (map ipv4_number parts) with
       | None => None
       | Some numbers =>
           match last_item numbers with
           | None => None
           | Some lastn =>
               let init := removelast numbers in
               if existsb (fun n => 255 <? n) init then None
               else if 256 ^ (5 - N.of_nat (length numbers)) <=? lastn then None
               else Some (lastn + sum_parts init 0)
           end
       end.

(* decimal digits of n, shortest form *)
Fixpoint dec_fuel (fuel : nat) (n : N) : list N :=
  match fuel with
  | O => []
  | S f => if n <? 10 then [48 + n] else dec_fuel f (n / 10) ++ [48 + n mod 10]
  end.
Definition decimal (n : N) : list N := dec_fuel (S (N.size_nat n)) n.

(* IPv4 serializer: for i from 1 to 4, prepend n mod 256, n := floor(n / 256) *)
Fixpoint ipv4_ser_aux (i : nat) (n : N) (out : list N) : list N :=
  match i with
  | O => out
  | S i' => let out := decimal (n mod 256) ++ out in
            match i' with
            | O => out
            | _ => ipv4_ser_aux i' (n / 256) (46 :: out)
            end
  end.
Definition ipv4_serialize (a : N) : list N := ipv4_ser_aux 4 a [].
