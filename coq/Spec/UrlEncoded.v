(* WHATWG URL Standard (snapshot of 24 May 2023), section 5 "application/x-www-form-urlencoded":
   5.1 urlencoded parsing, 5.2 urlencoded serializing (encoding UTF-8 only). Not wired to the URL object.

   Part of the Spec (independent transcription). *)
From Verif Require Import Lib.Base Lib.Utf8 Spec.PercentSets Spec.PercentCodec.

(* "strictly split" a byte sequence on a delimiter byte *)
Fixpoint strictly_split_aux (delim : N) (s : list N) (cur : list N) : list (list N) :=
  match s with
  | [] => [rev cur]
  | b :: s' => if b =? delim then rev cur :: strictly_split_aux delim s' [] else strictly_split_aux delim s' (b :: cur)
  end.
Definition strictly_split (delim : N) (s : list N) : list (list N) := strictly_split_aux delim s [].

(* the bytes before the first 0x3D (=) and the bytes after it; None if there is no 0x3D *)
Fixpoint split_at_first_eq (s : list N) (before : list N) : option (list N * list N) :=
  match s with
  | [] => None
  | b :: s' => if b =? 61 then Some (rev before, s') else split_at_first_eq s' (b :: before)
  end.

Definition plus_to_space (s : list N) : list N := map (fun b => if b =? 43 then 32 else b) s.

(* "The application/x-www-form-urlencoded parser takes a byte sequence input, and then runs these steps:
    1. Let sequences be the result of splitting input on 0x26 (&).
    2. Let output be an initially empty list of name-value tuples where both name and value hold a string.
    3. For each byte sequence bytes in sequences:
       1. If bytes is the empty byte sequence, then continue.
       2. If bytes contains a 0x3D (=), then let name be the bytes from the start of bytes up to but excluding
          its first 0x3D (=), and let value be the bytes, if any, after the first 0x3D (=) up to the end of bytes.
          If 0x3D (=) is the first byte, then name will be the empty byte sequence. If it is the last, then value
          will be the empty byte sequence.
       3. Otherwise, let name have the value of bytes and let value be the empty byte sequence.
       4. Replace any 0x2B (+) in name and value with 0x20 (SP).
       5. Let nameString and valueString be the result of running UTF-8 decode without BOM on the
          percent-decoding of name and value, respectively.
       6. Append (nameString, valueString) to output.
    4. Return output."
   The results are strings (lists of code points). *)
Definition urlencoded_parse (input : list N) : list (list N * list N) :=
  let sequences := strictly_split 38 input in
  flat_map
    (fun bytes =>
       match bytes with
       | [] => []
       | _ =>
           let '(name, value) :=
             match split_at_first_eq bytes [] with
             | Some nv => nv
             | None => (bytes, [])
             end in
           let name := plus_to_space name in
           let value := plus_to_space value in
           [(utf8_decode_without_bom (percent_decode name), utf8_decode_without_bom (percent_decode value))]
       end)
    sequences.

(* "The application/x-www-form-urlencoded serializer takes a list of name-value tuples tuples, with an optional
    encoding encoding (default UTF-8), and then runs these steps:
    1. Set encoding to the result of getting an output encoding from encoding.
    2. Let output be the empty string.
    3. For each tuple of tuples:
       1. Assert: tuple's name and tuple's value are scalar value strings.
       2. Let name be the result of running percent-encode after encoding with encoding, tuple's name, the
          application/x-www-form-urlencoded percent-encode set, and true.
       3. Let value be the result of running percent-encode after encoding with encoding, tuple's value, the
          application/x-www-form-urlencoded percent-encode set, and true.
       4. If output is not the empty string, then append U+0026 (&) to output.
       5. Append name, followed by U+003D (=), followed by value, to output.
    4. Return output." *)
Definition urlencoded_serialize (tuples : list (list N * list N)) : list N :=
  fold_left
    (fun output tuple =>
       let name := percent_encode_after_utf8 in_urlencoded_set true (fst tuple) in
       let value := percent_encode_after_utf8 in_urlencoded_set true (snd tuple) in
       let output := if negb (is_nil output) then output ++ [38] else output in
       output ++ name ++ [61] ++ value)
    tuples [].
