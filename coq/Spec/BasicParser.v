(* WHATWG URL Standard (snapshot of 24 May 2023), section 4.4 "URL parsing": the basic URL parser.

   Part of the Spec: an independent transcription of the standard in its own style (a pointer into the
   input, a buffer, three flags, a state, an optional state override), NOT derived from the Go code nor
   from the Gallina model of it. Validation errors are not modelled: a step that only reports a
   validation error is a comment here. The encoding is always UTF-8.

   The numbers in the comments are the step numbers of the standard's text of each state. *)
From Verif Require Import Lib.Base Lib.Utf8 Spec.PercentSets Spec.IPv4 Spec.IPv6 Spec.Url Spec.PercentCodec Spec.Host.

(* ---------- 4.4: the 21 states ---------- *)
Inductive pstate :=
| SchemeStartState
| SchemeState
| NoSchemeState
| SpecialRelativeOrAuthorityState
| PathOrAuthorityState
| RelativeState
| RelativeSlashState
| SpecialAuthoritySlashesState
| SpecialAuthorityIgnoreSlashesState
| AuthorityState
| HostState
| HostnameState
| PortState
| FileState
| FileSlashState
| FileHostState
| PathStartState
| PathState
| OpaquePathState
| QueryState
| FragmentState.

Definition is_hostname_state (s : pstate) : bool := match s with HostnameState => true | _ => false end.

(* ---------- 4.2 URL miscellaneous ---------- *)
Definition ascii_lowercase (c : N) : N := if (65 <=? c) && (c <=? 90) then c + 32 else c.
Definition ascii_lowercase_str (s : list N) : list N := map ascii_lowercase s.

(* "A Windows drive letter is two code points, of which the first is an ASCII alpha and the second is either
   U+003A (:) or U+007C (|)." *)
Definition is_windows_drive_letter (s : list N) : bool :=
  match s with
  | [a; b] => ascii_alpha a && ((b =? 58) || (b =? 124))
  | _ => false
  end.

(* "A normalized Windows drive letter is a Windows drive letter of which the second code point is U+003A (:)." *)
Definition is_normalized_windows_drive_letter (s : list N) : bool :=
  match s with
  | [a; b] => ascii_alpha a && (b =? 58)
  | _ => false
  end.

(* "A string starts with a Windows drive letter if all of the following are true:
    its length is greater than or equal to 2; its first two code points are a Windows drive letter;
    its length is 2 or its third code point is U+002F (/), U+005C (\), U+003F (?), or U+0023 (#)." *)
Definition starts_with_windows_drive_letter (s : list N) : bool :=
  match s with
  | a :: b :: rest =>
      is_windows_drive_letter [a; b] &&
      match rest with
      | [] => true
      | c :: _ => (c =? 47) || (c =? 92) || (c =? 63) || (c =? 35)
      end
  | _ => false
  end.

(* "A single-dot path segment must be "." or an ASCII case-insensitive match for "%2e"." *)
Definition is_single_dot_segment (s : list N) : bool :=
  let l := ascii_lowercase_str s in
  cps_eqb l [46] || cps_eqb l [37; 50; 101].

(* "A double-dot path segment must be ".." or an ASCII case-insensitive match for ".%2e", "%2e.", or "%2e%2e"." *)
Definition is_double_dot_segment (s : list N) : bool :=
  let l := ascii_lowercase_str s in
  cps_eqb l [46; 46] || cps_eqb l [46; 37; 50; 101] || cps_eqb l [37; 50; 101; 46]
  || cps_eqb l [37; 50; 101; 37; 50; 101].

(* "To shorten a url's path:
    1. Assert: url does not have an opaque path.
    2. Let path be url's path.
    3. If url's scheme is "file", path's size is 1, and path[0] is a normalized Windows drive letter, then return.
    4. Remove path's last item, if any."
   None = the assertion of step 1 is violated. *)
Definition shorten_path (u : surl) : option surl :=
  match u_path u with
  | POpaque _ => None
  | PList segs =>
      if cps_eqb (u_scheme u) sc_file &&
         match segs with [seg] => is_normalized_windows_drive_letter seg | _ => false end
      then Some u
      else Some (with_path u (PList (removelast segs)))
  end.

(* append a segment to a (non-opaque) path; None = the path is opaque *)
Definition append_segment (u : surl) (seg : list N) : option surl :=
  match u_path u with
  | POpaque _ => None
  | PList segs => Some (with_path u (PList (segs ++ [seg])))
  end.

(* ---------- the machine ---------- *)
Record machine := mkM {
  m_url : surl;
  m_state : pstate;
  m_buffer : list N;
  m_atSignSeen : bool;
  m_insideBrackets : bool;
  m_passwordTokenSeen : bool;
  m_pointer : Z          (* -1 = "points nowhere"; >= length of input = points to the EOF code point *)
}.

Definition set_url (m : machine) (u : surl) : machine :=
  mkM u (m_state m) (m_buffer m) (m_atSignSeen m) (m_insideBrackets m) (m_passwordTokenSeen m) (m_pointer m).
Definition set_state (m : machine) (s : pstate) : machine :=
  mkM (m_url m) s (m_buffer m) (m_atSignSeen m) (m_insideBrackets m) (m_passwordTokenSeen m) (m_pointer m).
Definition set_buffer (m : machine) (b : list N) : machine :=
  mkM (m_url m) (m_state m) b (m_atSignSeen m) (m_insideBrackets m) (m_passwordTokenSeen m) (m_pointer m).
Definition set_atSignSeen (m : machine) (b : bool) : machine :=
  mkM (m_url m) (m_state m) (m_buffer m) b (m_insideBrackets m) (m_passwordTokenSeen m) (m_pointer m).
Definition set_insideBrackets (m : machine) (b : bool) : machine :=
  mkM (m_url m) (m_state m) (m_buffer m) (m_atSignSeen m) b (m_passwordTokenSeen m) (m_pointer m).
Definition set_passwordTokenSeen (m : machine) (b : bool) : machine :=
  mkM (m_url m) (m_state m) (m_buffer m) (m_atSignSeen m) (m_insideBrackets m) b (m_pointer m).
Definition set_pointer (m : machine) (p : Z) : machine :=
  mkM (m_url m) (m_state m) (m_buffer m) (m_atSignSeen m) (m_insideBrackets m) (m_passwordTokenSeen m) p.

Definition decrease_pointer (m : machine) (k : Z) : machine := set_pointer m (m_pointer m - k)%Z.
Definition increase_pointer (m : machine) : machine := set_pointer m (m_pointer m + 1)%Z.
Definition append_to_buffer (m : machine) (c : N) : machine := set_buffer m (m_buffer m ++ [c]).

(* the result of one run of the state machine *)
Inductive step_result :=
| SCont (m : machine)        (* go on with the loop of step 9 *)
| SRet (u : surl)            (* "return" (only with a state override): the parser terminates, url is the result *)
| SFail (u : surl)           (* "return failure"; u is the URL as modified so far (this matters for the API
                                setters, which run the parser on the URL object's own record and ignore failure) *)
| SBug.                      (* an "Assert:" of the standard would be violated; never expected *)

(* the result of the basic URL parser *)
Inductive outcome :=
| Done (u : surl)
| Failed (u : surl)
| OutOfFuel
| AssertViolated.

(* c: the code point the pointer points to; None is the EOF code point *)
Definition c_is (c : option N) (x : N) : bool := match c with Some y => y =? x | None => false end.
Definition c_is_eof (c : option N) : bool := match c with None => true | Some _ => false end.

Section Parser.

Variable dta : list N -> option (list N).     (* the domain to ASCII oracle, see Spec/Host.v *)
Variable input : list N.                       (* after the removals of steps 1-3 *)
Variable base : option surl.
Variable state_override : option pstate.

Definition override_given : bool := is_some state_override.

(* How the standard reads the input through the pointer:
     c          "references the code point the pointer points to" (None is the EOF code point),
     remaining  "references the code point substring from pointer + 1 to the end of the string",
     and "the code point substring from pointer to the end of input".
   All three are determined by the last one, [substring_from pointer], called [here] below: c is its first
   code point and remaining is its tail. The main loop [run] hands [here] to every run of the state machine;
   it recomputes it from the pointer whenever the pointer moved other than by +1 and otherwise takes the tail,
   which avoids walking the input from its start at every run (an optimisation of the access only: the
   pointer remains the state, [here] is always equal to [substring_from (m_pointer m)]). *)
Definition substring_from (p : Z) : list N := skipn (Z.to_nat p) input.
Definition c_of (here : list N) : option N := hd_error here.
Definition remaining (here : list N) : list N := tl here.

Definition starts_with (s : list N) (prefix : list N) : bool := has_prefix prefix s.

Definition special (m : machine) : bool := url_is_special (m_url m).

(* "c is the EOF code point, U+002F (/), U+003F (?), or U+0023 (#)" or "url is special and c is U+005C (\)" *)
Definition ends_authority (m : machine) (c : option N) : bool :=
  c_is_eof c || c_is c 47 || c_is c 63 || c_is c 35 || (special m && c_is c 92).

(* ---------- scheme start state ---------- *)
Definition scheme_start_state (m : machine) (c : option N) : step_result :=
  let otherwise :=
    (* 2. Otherwise, if state override is not given, set state to no scheme state and decrease pointer by 1. *)
    if negb override_given then SCont (decrease_pointer (set_state m NoSchemeState) 1)
    (* 3. Otherwise, return failure. *)
    else SFail (m_url m) in
  match c with
  | Some x =>
      (* 1. If c is an ASCII alpha, append c, lowercased, to buffer, and set state to scheme state. *)
      if ascii_alpha x then SCont (set_state (append_to_buffer m (ascii_lowercase x)) SchemeState)
      else otherwise
  | None => otherwise
  end.

(* ---------- scheme state ---------- *)
Definition scheme_state (m : machine) (c : option N) (here : list N) : step_result :=
  let u := m_url m in
  let buffer := m_buffer m in
  let is_scheme_char :=
    match c with
    | Some x => ascii_alphanumeric x || (x =? 43) || (x =? 45) || (x =? 46)
    | None => false
    end in
  let steps_3_4 :=
    (* 3. Otherwise, if state override is not given, set buffer to the empty string, state to no scheme state,
          and start over (from the first code point in input).
          [the pointer is set to "nowhere" (-1) so that the increment of the main loop makes it point to the
           first code point] *)
    if negb override_given
    then SCont (set_pointer (set_state (set_buffer m []) NoSchemeState) (-1))
    (* 4. Otherwise, return failure. *)
    else SFail u in
  match c with
  | Some x =>
      (* 1. If c is an ASCII alphanumeric, U+002B (+), U+002D (-), or U+002E (.), append c, lowercased, to buffer. *)
      if is_scheme_char then SCont (append_to_buffer m (ascii_lowercase x))
      (* 2. Otherwise, if c is U+003A (:), then: *)
      else if x =? 58 then
        (* 2.1 If state override is given, then:
             1. If url's scheme is a special scheme and buffer is not a special scheme, then return.
             2. If url's scheme is not a special scheme and buffer is a special scheme, then return.
             3. If url includes credentials or has a non-null port, and buffer is "file", then return.
             4. If url's scheme is "file" and its host is an empty host, then return. *)
        if override_given &&
           ((is_special_scheme (u_scheme u) && negb (is_special_scheme buffer))
            || (negb (is_special_scheme (u_scheme u)) && is_special_scheme buffer)
            || ((includes_credentials u || is_some (u_port u)) && cps_eqb buffer sc_file)
            || (cps_eqb (u_scheme u) sc_file &&
                match u_host u with Some h => host_is_empty h | None => false end))
        then SRet u
        else
          (* 2.2 Set url's scheme to buffer. *)
          let u := with_scheme u buffer in
          (* 2.3 If state override is given, then:
               1. If url's port is url's scheme's default port, then set url's port to null.
               2. Return. *)
          if override_given then
            SRet (if opt_eqb N.eqb (u_port u) (default_port (u_scheme u)) then with_port u None else u)
          else
            (* 2.4 Set buffer to the empty string. *)
            let m := set_buffer (set_url m u) [] in
            (* 2.5 If url's scheme is "file", then: 1. If remaining does not start with "//", validation error.
                   2. Set state to file state. *)
            if cps_eqb (u_scheme u) sc_file then SCont (set_state m FileState)
            (* 2.6 Otherwise, if url is special, base is non-null, and base's scheme is url's scheme:
                   1. Assert: base is special (and therefore does not have an opaque path).
                   2. Set state to special relative or authority state. *)
            else if url_is_special u &&
                    match base with Some b => cps_eqb (u_scheme b) (u_scheme u) | None => false end
            then SCont (set_state m SpecialRelativeOrAuthorityState)
            (* 2.7 Otherwise, if url is special, set state to special authority slashes state. *)
            else if url_is_special u then SCont (set_state m SpecialAuthoritySlashesState)
            (* 2.8 Otherwise, if remaining starts with an U+002F (/), set state to path or authority state
                   and increase pointer by 1. *)
            else if starts_with (remaining here) [47] then SCont (increase_pointer (set_state m PathOrAuthorityState))
            (* 2.9 Otherwise, set url's path to the empty string and set state to opaque path state. *)
            else SCont (set_state (set_url m (with_path u (POpaque []))) OpaquePathState)
      else steps_3_4
  | None => steps_3_4
  end.

(* ---------- no scheme state ---------- *)
Definition no_scheme_state (m : machine) (c : option N) : step_result :=
  let u := m_url m in
  match base with
  (* 1. If base is null, or base has an opaque path and c is not U+0023 (#),
        missing-scheme-non-relative-URL validation error, return failure. *)
  | None => SFail u
  | Some b =>
      if has_opaque_path b && negb (c_is c 35) then SFail u
      (* 2. Otherwise, if base has an opaque path and c is U+0023 (#), set url's scheme to base's scheme,
            url's path to base's path, url's query to base's query, url's fragment to the empty string,
            and set state to fragment state. *)
      else if has_opaque_path b && c_is c 35 then
        let u := with_scheme u (u_scheme b) in
        let u := with_path u (u_path b) in
        let u := with_query u (u_query b) in
        let u := with_fragment u (Some []) in
        SCont (set_state (set_url m u) FragmentState)
      (* 3. Otherwise, if base's scheme is not "file", set state to relative state and decrease pointer by 1. *)
      else if negb (cps_eqb (u_scheme b) sc_file) then SCont (decrease_pointer (set_state m RelativeState) 1)
      (* 4. Otherwise, set state to file state and decrease pointer by 1. *)
      else SCont (decrease_pointer (set_state m FileState) 1)
  end.

(* ---------- special relative or authority state ---------- *)
Definition special_relative_or_authority_state (m : machine) (c : option N) (here : list N) : step_result :=
  (* 1. If c is U+002F (/) and remaining starts with U+002F (/), then set state to special authority ignore
        slashes state and increase pointer by 1. *)
  if c_is c 47 && starts_with (remaining here) [47]
  then SCont (increase_pointer (set_state m SpecialAuthorityIgnoreSlashesState))
  (* 2. Otherwise, validation error, set state to relative state and decrease pointer by 1. *)
  else SCont (decrease_pointer (set_state m RelativeState) 1).

(* ---------- path or authority state ---------- *)
Definition path_or_authority_state (m : machine) (c : option N) : step_result :=
  (* 1. If c is U+002F (/), then set state to authority state. *)
  if c_is c 47 then SCont (set_state m AuthorityState)
  (* 2. Otherwise, set state to path state, and decrease pointer by 1. *)
  else SCont (decrease_pointer (set_state m PathState) 1).

(* ---------- relative state ---------- *)
Definition relative_state (m : machine) (c : option N) : step_result :=
  match base with
  | None => SBug       (* the state is only entered with a non-null base *)
  | Some b =>
      (* 1. Assert: base's scheme is not "file". *)
      if cps_eqb (u_scheme b) sc_file then SBug
      else
        (* 2. Set url's scheme to base's scheme. *)
        let u := with_scheme (m_url m) (u_scheme b) in
        let m := set_url m u in
        (* 3. If c is U+002F (/), then set state to relative slash state. *)
        if c_is c 47 then SCont (set_state m RelativeSlashState)
        (* 4. Otherwise, if url is special and c is U+005C (\), validation error, set state to relative slash state. *)
        else if url_is_special u && c_is c 92 then SCont (set_state m RelativeSlashState)
        (* 5. Otherwise: *)
        else
          (* 5.1 Set url's username to base's username, url's password to base's password, url's host to base's
                 host, url's port to base's port, url's path to a clone of base's path, and url's query to
                 base's query. *)
          let u := with_username u (u_username b) in
          let u := with_password u (u_password b) in
          let u := with_host u (u_host b) in
          let u := with_port u (u_port b) in
          let u := with_path u (u_path b) in
          let u := with_query u (u_query b) in
          (* 5.2 If c is U+003F (?), then set url's query to the empty string, and state to query state. *)
          if c_is c 63 then SCont (set_state (set_url m (with_query u (Some []))) QueryState)
          (* 5.3 Otherwise, if c is U+0023 (#), set url's fragment to the empty string and state to fragment state. *)
          else if c_is c 35 then SCont (set_state (set_url m (with_fragment u (Some []))) FragmentState)
          (* 5.4 Otherwise, if c is not the EOF code point:
                 1. Set url's query to null. 2. Shorten url's path.
                 3. Set state to path state and decrease pointer by 1. *)
          else if negb (c_is_eof c) then
            match shorten_path (with_query u None) with
            | None => SBug
            | Some u => SCont (decrease_pointer (set_state (set_url m u) PathState) 1)
            end
          else SCont (set_url m u)
  end.

(* ---------- relative slash state ---------- *)
Definition relative_slash_state (m : machine) (c : option N) : step_result :=
  (* 1. If url is special and c is U+002F (/) or U+005C (\), then:
        1. If c is U+005C (\), validation error.
        2. Set state to special authority ignore slashes state. *)
  if special m && (c_is c 47 || c_is c 92) then SCont (set_state m SpecialAuthorityIgnoreSlashesState)
  (* 2. Otherwise, if c is U+002F (/), then set state to authority state. *)
  else if c_is c 47 then SCont (set_state m AuthorityState)
  (* 3. Otherwise, set url's username to base's username, url's password to base's password, url's host to
        base's host, url's port to base's port, state to path state, and then, decrease pointer by 1. *)
  else
    match base with
    | None => SBug
    | Some b =>
        let u := m_url m in
        let u := with_username u (u_username b) in
        let u := with_password u (u_password b) in
        let u := with_host u (u_host b) in
        let u := with_port u (u_port b) in
        SCont (decrease_pointer (set_state (set_url m u) PathState) 1)
    end.

(* ---------- special authority slashes state ---------- *)
Definition special_authority_slashes_state (m : machine) (c : option N) (here : list N) : step_result :=
  (* 1. If c is U+002F (/) and remaining starts with U+002F (/), then set state to special authority ignore
        slashes state and increase pointer by 1. *)
  if c_is c 47 && starts_with (remaining here) [47]
  then SCont (increase_pointer (set_state m SpecialAuthorityIgnoreSlashesState))
  (* 2. Otherwise, validation error, set state to special authority ignore slashes state and decrease pointer by 1. *)
  else SCont (decrease_pointer (set_state m SpecialAuthorityIgnoreSlashesState) 1).

(* ---------- special authority ignore slashes state ---------- *)
Definition special_authority_ignore_slashes_state (m : machine) (c : option N) : step_result :=
  (* 1. If c is neither U+002F (/) nor U+005C (\), then set state to authority state and decrease pointer by 1. *)
  if negb (c_is c 47) && negb (c_is c 92) then SCont (decrease_pointer (set_state m AuthorityState) 1)
  (* 2. Otherwise, validation error. *)
  else SCont m.

(* ---------- authority state ---------- *)
(* step 1.4: "For each codePoint in buffer" *)
Definition authority_code_point (acc : surl * bool) (codePoint : N) : surl * bool :=
  let '(u, passwordTokenSeen) := acc in
  (* 1. If codePoint is U+003A (:) and passwordTokenSeen is false, then set passwordTokenSeen to true and continue. *)
  if (codePoint =? 58) && negb passwordTokenSeen then (u, true)
  else
    (* 2. Let encodedCodePoints be the result of running UTF-8 percent-encode codePoint using the userinfo
          percent-encode set. *)
    let encodedCodePoints := utf8_percent_encode_cp in_userinfo_set codePoint in
    (* 3. If passwordTokenSeen is true, then append encodedCodePoints to url's password. *)
    if passwordTokenSeen then (with_password u (u_password u ++ encodedCodePoints), passwordTokenSeen)
    (* 4. Otherwise, append encodedCodePoints to url's username. *)
    else (with_username u (u_username u ++ encodedCodePoints), passwordTokenSeen).

Definition authority_state (m : machine) (c : option N) : step_result :=
  (* 1. If c is U+0040 (@), then: *)
  if c_is c 64 then
    (* 1.1 Validation error.
       1.2 If atSignSeen is true, then prepend "%40" to buffer. *)
    let buffer := if m_atSignSeen m then [37; 52; 48] ++ m_buffer m else m_buffer m in
    (* 1.3 Set atSignSeen to true. *)
    let m := set_atSignSeen m true in
    (* 1.4 For each codePoint in buffer: ... *)
    let '(u, pts) := fold_left authority_code_point buffer (m_url m, m_passwordTokenSeen m) in
    let m := set_passwordTokenSeen (set_url m u) pts in
    (* 1.5 Set buffer to the empty string. *)
    SCont (set_buffer m [])
  (* 2. Otherwise, if one of the following is true: c is the EOF code point, U+002F (/), U+003F (?), or U+0023 (#);
        url is special and c is U+005C (\); then: *)
  else if ends_authority m c then
    (* 2.1 If atSignSeen is true and buffer is the empty string, validation error, return failure. *)
    if m_atSignSeen m && is_nil (m_buffer m) then SFail (m_url m)
    (* 2.2 Decrease pointer by buffer's code point length + 1, set buffer to the empty string, and set state
           to host state. *)
    else
      let k := (Z.of_nat (length (m_buffer m)) + 1)%Z in
      SCont (set_state (set_buffer (decrease_pointer m k) []) HostState)
  (* 3. Otherwise, append c to buffer. *)
  else
    match c with
    | Some x => SCont (append_to_buffer m x)
    | None => SBug    (* unreachable: the EOF code point is handled by step 2 *)
    end.

(* ---------- host state / hostname state ---------- *)
Definition host_state (m : machine) (c : option N) : step_result :=
  let u := m_url m in
  let buffer := m_buffer m in
  (* 1. If state override is given and url's scheme is "file", then decrease pointer by 1 and set state to
        file host state. *)
  if override_given && cps_eqb (u_scheme u) sc_file
  then SCont (set_state (decrease_pointer m 1) FileHostState)
  (* 2. Otherwise, if c is U+003A (:) and insideBrackets is false, then: *)
  else if c_is c 58 && negb (m_insideBrackets m) then
    (* 2.1 If buffer is the empty string, host-missing validation error, return failure. *)
    if is_nil buffer then SFail u
    (* 2.2 If state override is given and state override is hostname state, then return. *)
    else if match state_override with Some s => is_hostname_state s | None => false end then SRet u
    else
      (* 2.3 Let host be the result of host parsing buffer with url is not special.
         2.4 If host is failure, then return failure. *)
      match host_parse dta buffer (negb (url_is_special u)) with
      | None => SFail u
      | Some host =>
          (* 2.5 Set url's host to host, buffer to the empty string, and state to port state. *)
          SCont (set_state (set_buffer (set_url m (with_host u (Some host))) []) PortState)
      end
  (* 3. Otherwise, if one of the following is true: c is the EOF code point, U+002F (/), U+003F (?), or U+0023 (#);
        url is special and c is U+005C (\); then decrease pointer by 1, and then: *)
  else if ends_authority m c then
    let m := decrease_pointer m 1 in
    (* 3.1 If url is special and buffer is the empty string, host-missing validation error, return failure. *)
    if url_is_special u && is_nil buffer then SFail u
    (* 3.2 Otherwise, if state override is given, buffer is the empty string, and either url includes credentials
           or url's port is non-null, return. *)
    else if override_given && is_nil buffer && (includes_credentials u || is_some (u_port u)) then SRet u
    else
      (* 3.3 Let host be the result of host parsing buffer with url is not special.
         3.4 If host is failure, then return failure. *)
      match host_parse dta buffer (negb (url_is_special u)) with
      | None => SFail u
      | Some host =>
          (* 3.5 Set url's host to host, buffer to the empty string, and state to path start state. *)
          let m := set_state (set_buffer (set_url m (with_host u (Some host))) []) PathStartState in
          (* 3.6 If state override is given, then return. *)
          if override_given then SRet (m_url m) else SCont m
      end
  (* 4. Otherwise: 1. If c is U+005B ([), then set insideBrackets to true.
                   2. If c is U+005D (]), then set insideBrackets to false.
                   3. Append c to buffer. *)
  else
    match c with
    | Some x =>
        let m := if x =? 91 then set_insideBrackets m true else m in
        let m := if x =? 93 then set_insideBrackets m false else m in
        SCont (append_to_buffer m x)
    | None => SBug    (* unreachable: the EOF code point is handled by step 3 *)
    end.

(* ---------- port state ---------- *)
Definition port_state (m : machine) (c : option N) : step_result :=
  let u := m_url m in
  let is_digit := match c with Some x => ascii_digit x | None => false end in
  match c, is_digit with
  (* 1. If c is an ASCII digit, append c to buffer. *)
  | Some x, true => SCont (append_to_buffer m x)
  | _, _ =>
      (* 2. Otherwise, if one of the following is true: c is the EOF code point, U+002F (/), U+003F (?), or
            U+0023 (#); url is special and c is U+005C (\); state override is given; then: *)
      if ends_authority m c || override_given then
        (* 2.1 If buffer is not the empty string, then:
               1. Let port be the mathematical integer value that is represented by buffer in radix-10 using
                  ASCII digits for digits with values 0 through 9.
               2. If port is greater than 2^16 - 1, port-out-of-range validation error, return failure.
               3. Set url's port to null, if port is url's scheme's default port; otherwise to port.
               4. Set buffer to the empty string. *)
        let after_21 : option machine :=
          if negb (is_nil (m_buffer m)) then
            let port := to_number 10 (m_buffer m) in
            if 65535 <? port then None
            else
              let newport := if opt_eqb N.eqb (Some port) (default_port (u_scheme u)) then None else Some port in
              Some (set_buffer (set_url m (with_port u newport)) [])
          else Some m in
        match after_21 with
        | None => SFail u
        | Some m =>
            (* 2.2 If state override is given, then return. *)
            if override_given then SRet (m_url m)
            (* 2.3 Set state to path start state and decrease pointer by 1. *)
            else SCont (decrease_pointer (set_state m PathStartState) 1)
        end
      (* 3. Otherwise, port-invalid validation error, return failure. *)
      else SFail u
  end.

(* ---------- file state ---------- *)
Definition file_state (m : machine) (c : option N) (here : list N) : step_result :=
  (* 1. Set url's scheme to "file". 2. Set url's host to the empty string. *)
  let u := with_host (with_scheme (m_url m) sc_file) (Some HEmpty) in
  let m := set_url m u in
  (* 5. Otherwise, set state to path state, and decrease pointer by 1. *)
  let step5 := SCont (decrease_pointer (set_state m PathState) 1) in
  (* 3. If c is U+002F (/) or U+005C (\), then: 1. If c is U+005C (\), validation error.
        2. Set state to file slash state. *)
  if c_is c 47 || c_is c 92 then SCont (set_state m FileSlashState)
  else
    match base with
    | Some b =>
        (* 4. Otherwise, if base is non-null and base's scheme is "file": *)
        if cps_eqb (u_scheme b) sc_file then
          (* 4.1 Set url's host to base's host, url's path to a clone of base's path, and url's query to base's query. *)
          let u := with_query (with_path (with_host u (u_host b)) (u_path b)) (u_query b) in
          (* 4.2 If c is U+003F (?), then set url's query to the empty string and state to query state. *)
          if c_is c 63 then SCont (set_state (set_url m (with_query u (Some []))) QueryState)
          (* 4.3 Otherwise, if c is U+0023 (#), set url's fragment to the empty string and state to fragment state. *)
          else if c_is c 35 then SCont (set_state (set_url m (with_fragment u (Some []))) FragmentState)
          (* 4.4 Otherwise, if c is not the EOF code point: *)
          else if negb (c_is_eof c) then
            (* 4.4.1 Set url's query to null. *)
            let u := with_query u None in
            (* 4.4.2 If the code point substring from pointer to the end of input does not start with a Windows
                     drive letter, then shorten url's path.
               4.4.3 Otherwise: 1. Validation error. 2. Set url's path to the empty list. *)
            let ou := if negb (starts_with_windows_drive_letter here) then shorten_path u
                      else Some (with_path u (PList [])) in
            (* 4.4.4 Set state to path state and decrease pointer by 1. *)
            match ou with
            | None => SBug
            | Some u => SCont (decrease_pointer (set_state (set_url m u) PathState) 1)
            end
          else SCont (set_url m u)
        else step5
    | None => step5
    end.

(* ---------- file slash state ---------- *)
Definition file_slash_state (m : machine) (c : option N) (here : list N) : step_result :=
  (* 1. If c is U+002F (/) or U+005C (\), then: 1. If c is U+005C (\), validation error.
        2. Set state to file host state. *)
  if c_is c 47 || c_is c 92 then SCont (set_state m FileHostState)
  (* 2. Otherwise: *)
  else
    (* 2.1 If base is non-null and base's scheme is "file", then:
           1. Set url's host to base's host.
           2. If the code point substring from pointer to the end of input does not start with a Windows drive
              letter and base's path[0] is a normalized Windows drive letter, then append base's path[0] to
              url's path. *)
    let om : option machine :=
      match base with
      | Some b =>
          if cps_eqb (u_scheme b) sc_file then
            let u := with_host (m_url m) (u_host b) in
            let base_path0_is_drive :=
              match u_path b with
              | PList (p0 :: _) => if is_normalized_windows_drive_letter p0 then Some p0 else None
              | _ => None
              end in
            match base_path0_is_drive with
            | Some p0 =>
                if negb (starts_with_windows_drive_letter here) then
                  match append_segment u p0 with
                  | Some u => Some (set_url m u)
                  | None => None
                  end
                else Some (set_url m u)
            | None => Some (set_url m u)
            end
          else Some m
      | None => Some m
      end in
    (* 2.2 Set state to path state, and decrease pointer by 1. *)
    match om with
    | None => SBug
    | Some m => SCont (decrease_pointer (set_state m PathState) 1)
    end.

(* ---------- file host state ---------- *)
Definition s_localhost : list N := [108; 111; 99; 97; 108; 104; 111; 115; 116].   (* "localhost" *)

Definition host_is_localhost (h : shost) : bool :=
  match h with
  | HDomain d => cps_eqb d s_localhost
  | HOpaque o => cps_eqb o s_localhost
  | _ => false
  end.

Definition file_host_state (m : machine) (c : option N) : step_result :=
  let u := m_url m in
  (* 1. If c is the EOF code point, U+002F (/), U+005C (\), U+003F (?), or U+0023 (#), then decrease pointer by 1
        and then: *)
  if c_is_eof c || c_is c 47 || c_is c 92 || c_is c 63 || c_is c 35 then
    let m := decrease_pointer m 1 in
    (* 1.1 If state override is not given and buffer is a Windows drive letter,
           file-invalid-Windows-drive-letter-host validation error, set state to path state.
           [the buffer is deliberately not reset: it is reused in the path state] *)
    if negb override_given && is_windows_drive_letter (m_buffer m) then SCont (set_state m PathState)
    (* 1.2 Otherwise, if buffer is the empty string, then:
           1. Set url's host to the empty string. 2. If state override is given, then return.
           3. Set state to path start state. *)
    else if is_nil (m_buffer m) then
      let u := with_host u (Some HEmpty) in
      if override_given then SRet u else SCont (set_state (set_url m u) PathStartState)
    (* 1.3 Otherwise, run these steps:
           1. Let host be the result of host parsing buffer with url is not special.
           2. If host is failure, then return failure.
           3. If host is "localhost", then set host to the empty string.
           4. Set url's host to host.
           5. If state override is given, then return.
           6. Set buffer to the empty string and state to path start state. *)
    else
      match host_parse dta (m_buffer m) (negb (url_is_special u)) with
      | None => SFail u
      | Some host =>
          let host := if host_is_localhost host then HEmpty else host in
          let u := with_host u (Some host) in
          if override_given then SRet u
          else SCont (set_state (set_buffer (set_url m u) []) PathStartState)
      end
  (* 2. Otherwise, append c to buffer. *)
  else
    match c with
    | Some x => SCont (append_to_buffer m x)
    | None => SBug
    end.

(* ---------- path start state ---------- *)
Definition path_start_state (m : machine) (c : option N) : step_result :=
  let u := m_url m in
  (* 1. If url is special, then: 1. If c is U+005C (\), validation error. 2. Set state to path state.
        3. If c is neither U+002F (/) nor U+005C (\), then decrease pointer by 1. *)
  if url_is_special u then
    let m := set_state m PathState in
    if negb (c_is c 47) && negb (c_is c 92) then SCont (decrease_pointer m 1) else SCont m
  (* 2. Otherwise, if state override is not given and c is U+003F (?), set url's query to the empty string and
        state to query state. *)
  else if negb override_given && c_is c 63 then SCont (set_state (set_url m (with_query u (Some []))) QueryState)
  (* 3. Otherwise, if state override is not given and c is U+0023 (#), set url's fragment to the empty string
        and state to fragment state. *)
  else if negb override_given && c_is c 35 then SCont (set_state (set_url m (with_fragment u (Some []))) FragmentState)
  (* 4. Otherwise, if c is not the EOF code point: 1. Set state to path state.
        2. If c is not U+002F (/), then decrease pointer by 1. *)
  else if negb (c_is_eof c) then
    let m := set_state m PathState in
    if negb (c_is c 47) then SCont (decrease_pointer m 1) else SCont m
  (* 5. Otherwise, if state override is given and url's host is null, append the empty string to url's path. *)
  else if override_given && negb (is_some (u_host u)) then
    match append_segment u [] with
    | Some u => SCont (set_url m u)
    | None => SBug
    end
  else SCont m.

(* ---------- path state ---------- *)
Definition path_state (m : machine) (c : option N) : step_result :=
  let u := m_url m in
  let buffer := m_buffer m in
  let slash_like := c_is c 47 || (url_is_special u && c_is c 92) in
  (* 1. If one of the following is true: c is the EOF code point or U+002F (/); url is special and c is U+005C (\);
        state override is not given and c is U+003F (?) or U+0023 (#); then: *)
  if c_is_eof c || slash_like || (negb override_given && (c_is c 63 || c_is c 35)) then
    (* 1.1 If url is special and c is U+005C (\), validation error. *)
    let ou : option surl :=
      (* 1.2 If buffer is a double-dot path segment, then: 1. Shorten url's path.
             2. If neither c is U+002F (/), nor url is special and c is U+005C (\), append the empty string to
                url's path. *)
      if is_double_dot_segment buffer then
        match shorten_path u with
        | None => None
        | Some u => if negb slash_like then append_segment u [] else Some u
        end
      (* 1.3 Otherwise, if buffer is a single-dot path segment and if neither c is U+002F (/), nor url is special
             and c is U+005C (\), append the empty string to url's path. *)
      else if is_single_dot_segment buffer && negb slash_like then append_segment u []
      (* 1.4 Otherwise, if buffer is not a single-dot path segment, then:
             1. If url's scheme is "file", url's path is empty, and buffer is a Windows drive letter, then
                replace the second code point in buffer with U+003A (:).
             2. Append buffer to url's path. *)
      else if negb (is_single_dot_segment buffer) then
        let path_is_empty := match u_path u with PList [] => true | _ => false end in
        let buffer :=
          if cps_eqb (u_scheme u) sc_file && path_is_empty && is_windows_drive_letter buffer
          then match buffer with [a; _] => [a; 58] | _ => buffer end
          else buffer in
        append_segment u buffer
      else Some u in
    match ou with
    | None => SBug
    | Some u =>
        (* 1.5 Set buffer to the empty string. *)
        let m := set_buffer (set_url m u) [] in
        (* 1.6 If c is U+003F (?), then set url's query to the empty string and state to query state. *)
        if c_is c 63 then SCont (set_state (set_url m (with_query u (Some []))) QueryState)
        (* 1.7 If c is U+0023 (#), then set url's fragment to the empty string and state to fragment state. *)
        else if c_is c 35 then SCont (set_state (set_url m (with_fragment u (Some []))) FragmentState)
        else SCont m
    end
  (* 2. Otherwise, run these steps: 1., 2. validation errors.
        3. UTF-8 percent-encode c using the path percent-encode set and append the result to buffer. *)
  else
    match c with
    | Some x => SCont (set_buffer m (buffer ++ utf8_percent_encode_cp in_path_set x))
    | None => SBug
    end.

(* ---------- opaque path state ---------- *)
Definition opaque_path_state (m : machine) (c : option N) : step_result :=
  let u := m_url m in
  (* 1. If c is U+003F (?), then set url's query to the empty string and state to query state. *)
  if c_is c 63 then SCont (set_state (set_url m (with_query u (Some []))) QueryState)
  (* 2. Otherwise, if c is U+0023 (#), then set url's fragment to the empty string and state to fragment state. *)
  else if c_is c 35 then SCont (set_state (set_url m (with_fragment u (Some []))) FragmentState)
  (* 3. Otherwise: 1., 2. validation errors.
        3. If c is not the EOF code point, UTF-8 percent-encode c using the C0 control percent-encode set and
           append the result to url's path. *)
  else
    match c with
    | Some x =>
        match u_path u with
        | POpaque s => SCont (set_url m (with_path u (POpaque (s ++ utf8_percent_encode_cp in_c0_control_set x))))
        | PList _ => SBug
        end
    | None => SCont m
    end.

(* ---------- query state ---------- *)
Definition query_state (m : machine) (c : option N) : step_result :=
  let u := m_url m in
  (* 1. If encoding is not UTF-8 and ... : the encoding is always UTF-8 here. *)
  (* 2. If one of the following is true: state override is not given and c is U+0023 (#); c is the EOF code point;
        then: *)
  if (negb override_given && c_is c 35) || c_is_eof c then
    (* 2.1 Let queryPercentEncodeSet be the special-query percent-encode set if url is special; otherwise the
           query percent-encode set. *)
    let queryPercentEncodeSet := if url_is_special u then in_special_query_set else in_query_set in
    (* 2.2 Percent-encode after encoding, with encoding, buffer, and queryPercentEncodeSet, and append the result
           to url's query. *)
    match u_query u with
    | None => SBug    (* the query is always set to the empty string before this state is entered *)
    | Some q =>
        let u := with_query u (Some (q ++ percent_encode_after_utf8 queryPercentEncodeSet false (m_buffer m))) in
        (* 2.3 Set buffer to the empty string. *)
        let m := set_buffer (set_url m u) [] in
        (* 2.4 If c is U+0023 (#), then set url's fragment to the empty string and state to fragment state. *)
        if c_is c 35 then SCont (set_state (set_url m (with_fragment u (Some []))) FragmentState)
        else SCont m
    end
  (* 3. Otherwise, if c is not the EOF code point: 1., 2. validation errors. 3. Append c to buffer. *)
  else
    match c with
    | Some x => SCont (append_to_buffer m x)
    | None => SCont m
    end.

(* ---------- fragment state ---------- *)
Definition fragment_state (m : machine) (c : option N) : step_result :=
  let u := m_url m in
  (* 1. If c is not the EOF code point, then: 1., 2. validation errors.
        3. UTF-8 percent-encode c using the fragment percent-encode set and append the result to url's fragment. *)
  match c with
  | Some x =>
      match u_fragment u with
      | None => SBug  (* the fragment is always set to the empty string before this state is entered *)
      | Some f => SCont (set_url m (with_fragment u (Some (f ++ utf8_percent_encode_cp in_fragment_set x))))
      end
  | None => SCont m
  end.

(* one run of the state machine: "switching on state"; [here] is [substring_from (m_pointer m)] *)
Definition step (m : machine) (here : list N) : step_result :=
  let c := c_of here in
  match m_state m with
  | SchemeStartState => scheme_start_state m c
  | SchemeState => scheme_state m c here
  | NoSchemeState => no_scheme_state m c
  | SpecialRelativeOrAuthorityState => special_relative_or_authority_state m c here
  | PathOrAuthorityState => path_or_authority_state m c
  | RelativeState => relative_state m c
  | RelativeSlashState => relative_slash_state m c
  | SpecialAuthoritySlashesState => special_authority_slashes_state m c here
  | SpecialAuthorityIgnoreSlashesState => special_authority_ignore_slashes_state m c
  | AuthorityState => authority_state m c
  | HostState => host_state m c
  | HostnameState => host_state m c
  | PortState => port_state m c
  | FileState => file_state m c here
  | FileSlashState => file_slash_state m c here
  | FileHostState => file_host_state m c
  | PathStartState => path_start_state m c
  | PathState => path_state m c
  | OpaquePathState => opaque_path_state m c
  | QueryState => query_state m c
  | FragmentState => fragment_state m c
  end.

(* Step 9 of the basic URL parser: "Keep running the following state machine by switching on state. If after
   a run pointer points to the EOF code point, go to the next step. Otherwise, increase pointer by 1 and
   continue with the state machine."  Step 10: "Return url."

   After a run the pointer may be -1 ("points nowhere": after "decrease pointer by 1" at the first code
   point, or "start over"); that is not the EOF code point, and the increase makes it 0.

   [run_plain] is the literal reading: every run looks the input up through the pointer. *)
Definition input_length : Z := Z.of_nat (length input).

Definition points_to_eof (p : Z) : bool := (0 <=? p)%Z && (input_length <=? p)%Z.

Fixpoint run_plain (fuel : nat) (m : machine) : outcome :=
  match fuel with
  | O => OutOfFuel
  | S fuel' =>
      match step m (substring_from (m_pointer m)) with
      | SRet u => Done u
      | SFail u => Failed u
      | SBug => AssertViolated
      | SCont m' =>
          if points_to_eof (m_pointer m') then Done (m_url m')
          else run_plain fuel' (increase_pointer m')
      end
  end.

(* [run] computes the same (lemma [run_eq_run_plain] below) but carries [here] = substring_from (m_pointer m)
   along: it takes the tail when the pointer moved by +1, keeps it when the pointer did not move, and only
   otherwise walks the input again. This is the function that is extracted. *)
Fixpoint run (fuel : nat) (m : machine) (here : list N) : outcome :=
  match fuel with
  | O => OutOfFuel
  | S fuel' =>
      match step m here with
      | SRet u => Done u
      | SFail u => Failed u
      | SBug => AssertViolated
      | SCont m' =>
          let p := m_pointer m in
          let p' := m_pointer m' in
          if (p' <? 0)%Z then
            (* points nowhere; increase pointer by 1 *)
            let m'' := increase_pointer m' in
            run fuel' m'' (substring_from (m_pointer m''))
          else
            (* here' = substring_from p' *)
            let here' :=
              if (p' =? p)%Z then here
              else if (p' =? p + 1)%Z && (0 <=? p)%Z then tl here
              else substring_from p' in
            match here' with
            | [] => Done (m_url m')                            (* pointer points to the EOF code point *)
            | _ :: next => run fuel' (increase_pointer m') next
            end
      end
  end.

Lemma tl_skipn : forall (n : nat) (l : list N), tl (skipn n l) = skipn (S n) l.
Proof.
  induction n as [|n IH]; intros l.
  - destruct l; reflexivity.
  - destruct l as [|x l]; [reflexivity|]. exact (IH l).
Qed.

Lemma skipn_nil_iff : forall (n : nat) (l : list N), skipn n l = [] <-> (length l <= n)%nat.
Proof.
  intros n l. split; intro H.
  - pose proof (skipn_length n l) as L. rewrite H in L. cbn [length] in L. lia.
  - apply skipn_all2. exact H.
Qed.

Lemma run_eq_run_plain : forall (fuel : nat) (m : machine) (here : list N),
  here = substring_from (m_pointer m) -> run fuel m here = run_plain fuel m.
Proof.
  induction fuel as [|fuel IH]; intros m here Hhere; [reflexivity|].
  cbn [run run_plain]. rewrite <- Hhere.
  destruct (step m here) as [m'| | |]; try reflexivity.
  unfold points_to_eof.
  destruct (m_pointer m' <? 0)%Z eqn:Eneg.
  - (* points nowhere *)
    apply Z.ltb_lt in Eneg.
    replace (0 <=? m_pointer m')%Z with false by (symmetry; apply Z.leb_gt; exact Eneg).
    cbn [andb]. apply IH. reflexivity.
  - apply Z.ltb_ge in Eneg.
    replace (0 <=? m_pointer m')%Z with true by (symmetry; apply Z.leb_le; exact Eneg).
    cbn [andb].
    (* the carried suffix is the suffix at the new pointer *)
    assert (Hh' : (if (m_pointer m' =? m_pointer m)%Z then here
                   else if (m_pointer m' =? m_pointer m + 1)%Z && (0 <=? m_pointer m)%Z then tl here
                   else substring_from (m_pointer m')) = substring_from (m_pointer m')).
    { destruct (m_pointer m' =? m_pointer m)%Z eqn:E1.
      - apply Z.eqb_eq in E1. rewrite E1. exact Hhere.
      - destruct ((m_pointer m' =? m_pointer m + 1)%Z && (0 <=? m_pointer m)%Z) eqn:E2; [|reflexivity].
        apply andb_true_iff in E2. destruct E2 as [E2 E3].
        apply Z.eqb_eq in E2. apply Z.leb_le in E3.
        rewrite Hhere. unfold substring_from. rewrite tl_skipn. rewrite E2.
        rewrite Z2Nat.inj_add by lia. rewrite Nat.add_1_r. reflexivity. }
    rewrite Hh'. clear Hh'.
    destruct (substring_from (m_pointer m')) as [|x next] eqn:Esub.
    + (* EOF *)
      unfold substring_from in Esub. apply skipn_nil_iff in Esub.
      replace (input_length <=? m_pointer m')%Z with true; [reflexivity|].
      symmetry. apply Z.leb_le. unfold input_length. lia.
    + replace (input_length <=? m_pointer m')%Z with false.
      * apply IH. unfold increase_pointer, set_pointer. cbn [m_pointer].
        unfold substring_from in *.
        rewrite Z2Nat.inj_add by lia. rewrite Nat.add_1_r. rewrite <- tl_skipn. rewrite Esub. reflexivity.
      * symmetry. apply Z.leb_gt. unfold input_length.
        assert (Hn : ~ (length input <= Z.to_nat (m_pointer m'))%nat).
        { intro Hle. apply skipn_nil_iff in Hle. unfold substring_from in Esub. rewrite Hle in Esub. discriminate. }
        lia.
Qed.

End Parser.

(* Every run either moves the pointer forward, or changes the state; the pointer moves backwards only in
   the scheme state ("start over", once), in the authority state (back to the start of the host, once, since
   the state is left), and by one in the states that hand the same code point to another state; the graph of
   states has no cycle. So 3 * (length input + 1) + 21 runs are enough; the fuel is much larger: it is the bound
   for which Proofs/RefineMachine.v (R8_spec_terminates) proves that the run never ends for lack of fuel. *)
Definition parser_fuel (input : list N) : nat := 24 * (length input + 3).

(* steps 1.2-1.3: "Remove any leading and trailing C0 control or space from input." *)
Fixpoint strip_leading_c0_space (s : list N) : list N :=
  match s with
  | c :: s' => if c0_control_or_space c then strip_leading_c0_space s' else s
  | [] => []
  end.
Definition strip_c0_space (s : list N) : list N :=
  rev (strip_leading_c0_space (rev (strip_leading_c0_space s))).

(* step 3: "Remove all ASCII tab or newline from input." *)
Definition remove_tab_newline (s : list N) : list N := filter (fun c => negb (ascii_tab_or_newline c)) s.

(* The basic URL parser: input, optional base (default null), [optional encoding: always UTF-8],
   optional url, optional state override.
   1. If url is not given: 1. Set url to a new URL. 2. (validation error) 3. Remove any leading and trailing
      C0 control or space from input.
   2. (validation error) 3. Remove all ASCII tab or newline from input.
   4. Let state be state override if given, or scheme start state otherwise.
   5. (encoding) 6. Let buffer be the empty string.
   7. Let atSignSeen, insideBrackets, and passwordTokenSeen be false.
   8. Let pointer be a pointer for input.
   9. the state machine. 10. Return url. *)
Definition basic_url_parse (dta : list N -> option (list N))
           (input : list N) (base : option surl) (given : option surl) (state_override : option pstate) : outcome :=
  let '(url, input) :=
    match given with
    | None => (new_url, strip_c0_space input)
    | Some u => (u, input)
    end in
  let input := remove_tab_newline input in
  let state := match state_override with Some s => s | None => SchemeStartState end in
  run dta input base state_override (parser_fuel input) (mkM url state [] false false false 0) input.

(* The literal reading of step 9 (every run reads the input through the pointer), and the proof that the
   extracted function computes exactly that. *)
Definition basic_url_parse_plain (dta : list N -> option (list N))
           (input : list N) (base : option surl) (given : option surl) (state_override : option pstate) : outcome :=
  let '(url, input) :=
    match given with
    | None => (new_url, strip_c0_space input)
    | Some u => (u, input)
    end in
  let input := remove_tab_newline input in
  let state := match state_override with Some s => s | None => SchemeStartState end in
  run_plain dta input base state_override (parser_fuel input) (mkM url state [] false false false 0).

Theorem basic_url_parse_eq_plain : forall dta input base given state_override,
  basic_url_parse dta input base given state_override = basic_url_parse_plain dta input base given state_override.
Proof.
  intros. unfold basic_url_parse, basic_url_parse_plain.
  destruct given as [u|]; apply run_eq_run_plain; reflexivity.
Qed.
Print Assumptions basic_url_parse_eq_plain.
