(* WHATWG URL Standard, section 1.3 "Percent-encoded bytes": the percent-encode sets, defined
   incrementally as the standard does. Code points are N. *)
From Verif Require Import Lib.Base.

Definition in_c0_control_set (c : N) : bool := (c <=? 31) || (126 <? c).
Definition in_fragment_set (c : N) : bool :=
  in_c0_control_set c || (c =? 32) || (c =? 34) || (c =? 60) || (c =? 62) || (c =? 96).
Definition in_query_set (c : N) : bool :=
  in_c0_control_set c || (c =? 32) || (c =? 34) || (c =? 35) || (c =? 60) || (c =? 62).
Definition in_special_query_set (c : N) : bool := in_query_set c || (c =? 39).
Definition in_path_set (c : N) : bool :=
  in_query_set c || (c =? 63) || (c =? 96) || (c =? 123) || (c =? 125).
Definition in_userinfo_set (c : N) : bool :=
  in_path_set c || (c =? 47) || (c =? 58) || (c =? 59) || (c =? 61) || (c =? 64)
  || ((91 <=? c) && (c <=? 94)) || (c =? 124).

(* section 3.1: forbidden host / domain code points *)
Definition forbidden_host_cp (c : N) : bool :=
  (c =? 0) || (c =? 9) || (c =? 10) || (c =? 13) || (c =? 32) || (c =? 35) || (c =? 47) || (c =? 58)
  || (c =? 60) || (c =? 62) || (c =? 63) || (c =? 64) || (c =? 91) || (c =? 92) || (c =? 93) || (c =? 94) || (c =? 124).
Definition forbidden_domain_cp (c : N) : bool :=
  forbidden_host_cp c || (c <=? 31) || (c =? 37) || (c =? 127).

(* infra *)
Definition ascii_tab_or_newline (c : N) : bool := (c =? 9) || (c =? 10) || (c =? 13).
Definition c0_control_or_space (c : N) : bool := c <=? 32.
Definition ascii_digit (c : N) : bool := (48 <=? c) && (c <=? 57).
Definition ascii_upper_hex (c : N) : bool := ascii_digit c || ((65 <=? c) && (c <=? 70)).
Definition ascii_hex_digit (c : N) : bool := ascii_upper_hex c || ((97 <=? c) && (c <=? 102)).
Definition ascii_alpha (c : N) : bool := ((65 <=? c) && (c <=? 90)) || ((97 <=? c) && (c <=? 122)).
Definition ascii_alphanumeric (c : N) : bool := ascii_digit c || ascii_alpha c.
