(* entry points of the Spec for extraction, under names that cannot clash with the model's *)
From Verif Require Import Lib.Base Spec.PercentSets Spec.IPv4 Spec.IPv6.

Definition spec_ipv4_number := Spec.IPv4.ipv4_number.
Definition spec_ends_in_a_number := Spec.IPv4.ends_in_a_number.
Definition spec_ipv4_parse := Spec.IPv4.ipv4_parse.
Definition spec_ipv4_serialize := Spec.IPv4.ipv4_serialize.
Definition spec_ipv6_parse := Spec.IPv6.ipv6_parse.
Definition spec_ipv6_serialize := Spec.IPv6.ipv6_serialize.
Definition spec_in_set (k : N) (c : N) : bool :=
  match k with
  | 0 => in_c0_control_set c | 1 => in_fragment_set c | 2 => in_query_set c | 3 => in_special_query_set c
  | 4 => in_path_set c | 5 => in_userinfo_set c | 6 => forbidden_host_cp c | _ => forbidden_domain_cp c
  end.
