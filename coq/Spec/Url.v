(* WHATWG URL Standard (snapshot of 24 May 2023), section 4.1 "URL representation", section 4.5
   "URL serializing", section 3.1/3.7 "Host representation / Host serializing".

   This file is part of the Spec: an independent transcription of the standard, not derived from the
   Go code nor from the Gallina model of it. Strings are lists of code points (N). *)
From Verif Require Import Lib.Base Lib.Utf8 Spec.PercentSets Spec.IPv4 Spec.IPv6.

(* ---------- 3.1 Host representation ----------
   "A host is a domain, an IP address, an opaque host, or an empty host."
   A domain is a non-empty ASCII string, an IPv4 address is a 32-bit unsigned integer, an IPv6 address
   is a 128-bit unsigned integer (here: the list of its eight 16-bit pieces, as in Spec/IPv6.v),
   an opaque host is a non-empty ASCII string, an empty host is the empty string. *)
Inductive shost :=
| HDomain (d : list N)
| HIPv4 (a : N)
| HIPv6 (pieces : list N)
| HOpaque (o : list N)
| HEmpty.

(* ---------- 4.1 URL representation ----------
   "A URL's path is a URL path" ; "A URL path is either a URL path segment [an ASCII string: the opaque path]
   or a list of zero or more URL path segments". *)
Inductive spath :=
| POpaque (s : list N)
| PList (segs : list (list N)).

Record surl := mkSUrl {
  u_scheme : list N;              (* ASCII string, initially the empty string *)
  u_username : list N;            (* ASCII string, initially the empty string *)
  u_password : list N;            (* ASCII string, initially the empty string *)
  u_host : option shost;          (* null or a host, initially null *)
  u_port : option N;              (* null or a 16-bit unsigned integer, initially null *)
  u_path : spath;                 (* initially the empty list *)
  u_query : option (list N);      (* null or an ASCII string, initially null *)
  u_fragment : option (list N)    (* null or an ASCII string, initially null *)
}.

Definition new_url : surl := mkSUrl [] [] [] None None (PList []) None None.

(* functional record update *)
Definition with_scheme (u : surl) (v : list N) : surl :=
  mkSUrl v (u_username u) (u_password u) (u_host u) (u_port u) (u_path u) (u_query u) (u_fragment u).
Definition with_username (u : surl) (v : list N) : surl :=
  mkSUrl (u_scheme u) v (u_password u) (u_host u) (u_port u) (u_path u) (u_query u) (u_fragment u).
Definition with_password (u : surl) (v : list N) : surl :=
  mkSUrl (u_scheme u) (u_username u) v (u_host u) (u_port u) (u_path u) (u_query u) (u_fragment u).
Definition with_host (u : surl) (v : option shost) : surl :=
  mkSUrl (u_scheme u) (u_username u) (u_password u) v (u_port u) (u_path u) (u_query u) (u_fragment u).
Definition with_port (u : surl) (v : option N) : surl :=
  mkSUrl (u_scheme u) (u_username u) (u_password u) (u_host u) v (u_path u) (u_query u) (u_fragment u).
Definition with_path (u : surl) (v : spath) : surl :=
  mkSUrl (u_scheme u) (u_username u) (u_password u) (u_host u) (u_port u) v (u_query u) (u_fragment u).
Definition with_query (u : surl) (v : option (list N)) : surl :=
  mkSUrl (u_scheme u) (u_username u) (u_password u) (u_host u) (u_port u) (u_path u) v (u_fragment u).
Definition with_fragment (u : surl) (v : option (list N)) : surl :=
  mkSUrl (u_scheme u) (u_username u) (u_password u) (u_host u) (u_port u) (u_path u) (u_query u) v.

Definition cps_eqb (a b : list N) : bool := list_eqb N.eqb a b.

(* ---------- 4.2 URL miscellaneous: special schemes and their default ports ---------- *)
Definition sc_ftp : list N := [102;116;112]. (* "ftp" *)
Definition sc_file : list N := [102;105;108;101]. (* "file" *)
Definition sc_http : list N := [104;116;116;112]. (* "http" *)
Definition sc_https : list N := [104;116;116;112;115]. (* "https" *)
Definition sc_ws : list N := [119;115]. (* "ws" *)
Definition sc_wss : list N := [119;115;115]. (* "wss" *)

(* the table "special scheme / default port": ftp 21, file null, http 80, https 443, ws 80, wss 443 *)
Definition is_special_scheme (s : list N) : bool :=
  cps_eqb s sc_ftp || cps_eqb s sc_file || cps_eqb s sc_http || cps_eqb s sc_https
  || cps_eqb s sc_ws || cps_eqb s sc_wss.

(* "A scheme's default port": null for file and for every scheme that is not special *)
Definition default_port (s : list N) : option N :=
  if cps_eqb s sc_ftp then Some 21
  else if cps_eqb s sc_http then Some 80
  else if cps_eqb s sc_https then Some 443
  else if cps_eqb s sc_ws then Some 80
  else if cps_eqb s sc_wss then Some 443
  else None.

(* "A URL is special if its scheme is a special scheme." *)
Definition url_is_special (u : surl) : bool := is_special_scheme (u_scheme u).

(* "A URL includes credentials if its username or password is not the empty string." *)
Definition includes_credentials (u : surl) : bool :=
  negb (is_nil (u_username u)) || negb (is_nil (u_password u)).

(* "A URL has an opaque path if its path is a URL path segment [a string]." *)
Definition has_opaque_path (u : surl) : bool :=
  match u_path u with POpaque _ => true | PList _ => false end.

(* the host "is the empty string" / "is an empty host". The constructors HDomain/HOpaque are never built
   with an empty string by this Spec (see Spec/Host.v), the extra cases only make the predicate total. *)
Definition host_is_empty (h : shost) : bool :=
  match h with
  | HEmpty => true
  | HDomain d => is_nil d
  | HOpaque o => is_nil o
  | _ => false
  end.

(* "A URL cannot have a username/password/port if its host is null or the empty string, or its scheme is "file"." *)
Definition cannot_have_username_password_port (u : surl) : bool :=
  match u_host u with
  | None => true
  | Some h => host_is_empty h || cps_eqb (u_scheme u) sc_file
  end.

(* ---------- 3.7 Host serializing ----------
   1. If host is an IPv4 address, return the result of running the IPv4 serializer on host.
   2. Otherwise, if host is an IPv6 address, return U+005B ([), followed by the result of running the
      IPv6 serializer on host, followed by U+005D (]).
   3. Otherwise, host is a domain, opaque host, or empty host, return host. *)
Definition host_serialize (h : shost) : list N :=
  match h with
  | HIPv4 a => ipv4_serialize a
  | HIPv6 p => [91] ++ ipv6_serialize p ++ [93]
  | HDomain d => d
  | HOpaque o => o
  | HEmpty => []
  end.

(* "serialize an integer": shortest decimal representation *)
Definition serialize_integer (n : N) : list N := decimal n.

(* ---------- 4.5 URL path serializer ----------
   1. If url has an opaque path, then return url's path.
   2. Let output be the empty string.
   3. For each segment of url's path: append U+002F (/) followed by segment to output.
   4. Return output. *)
Definition path_serialize (u : surl) : list N :=
  match u_path u with
  | POpaque s => s
  | PList segs => flat_map (fun seg => 47 :: seg) segs
  end.

(* ---------- 4.5 URL serializer (url, exclude fragment flag) ---------- *)
Definition url_serialize (u : surl) (exclude_fragment : bool) : list N :=
  (* 1. Let output be url's scheme and U+003A (:) concatenated. *)
  let output := u_scheme u ++ [58] in
  (* 2. If url's host is non-null: *)
  let output :=
    match u_host u with
    | Some h =>
        (* 2.1 Append "//" to output. *)
        let output := output ++ [47; 47] in
        (* 2.2 If url includes credentials, then: append username; if password is not the empty string,
               append U+003A (:) followed by password; append U+0040 (@). *)
        let output :=
          if includes_credentials u then
            output ++ u_username u
                   ++ (if negb (is_nil (u_password u)) then 58 :: u_password u else [])
                   ++ [64]
          else output in
        (* 2.3 Append url's host, serialized, to output. *)
        let output := output ++ host_serialize h in
        (* 2.4 If url's port is non-null, append U+003A (:) followed by url's port, serialized. *)
        match u_port u with
        | Some p => output ++ [58] ++ serialize_integer p
        | None => output
        end
    | None =>
        (* 3. If url's host is null, url does not have an opaque path, url's path's size is greater than 1,
              and url's path[0] is the empty string, then append U+002F (/) followed by U+002E (.) to output. *)
        match u_path u with
        | PList (first :: _ :: _) => if is_nil first then output ++ [47; 46] else output
        | _ => output
        end
    end in
  (* 4. Append the result of URL path serializing url to output. *)
  let output := output ++ path_serialize u in
  (* 5. If url's query is non-null, append U+003F (?), followed by url's query, to output. *)
  let output := match u_query u with Some q => output ++ [63] ++ q | None => output end in
  (* 6. If exclude fragment is false and url's fragment is non-null, then append U+0023 (#), followed by
        url's fragment, to output. *)
  let output :=
    if exclude_fragment then output
    else match u_fragment u with Some f => output ++ [35] ++ f | None => output end in
  (* 7. Return output. *)
  output.
