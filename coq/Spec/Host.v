(* WHATWG URL Standard (24 May 2023), section 3.5 "Host parsing": host parser, opaque-host parser, and the
   wrapper "domain to ASCII" around the Unicode ToASCII oracle.

   Part of the Spec (independent transcription). The Unicode IDNA processing (UTS #46 ToASCII with
   UseSTD3ASCIIRules=false, CheckHyphens=false, CheckBidi=true, CheckJoiners=true,
   Transitional_Processing=false, VerifyDnsLength=false) is NOT transcribed: it is the section variable
   [dta], from the UTF-8 bytes of the domain to either failure (None) or the resulting ASCII string. *)
From Verif Require Import Lib.Base Lib.Utf8 Spec.PercentSets Spec.IPv4 Spec.IPv6 Spec.Url Spec.PercentCodec.

Section HostParser.

Variable dta : list N -> option (list N).

(* "domain to ASCII", given a string domain and a boolean beStrict (always false here):
   1. Let result be the result of running Unicode ToASCII with domain_name set to domain, ... [the oracle]
   2. If result is a failure value, domain-to-ASCII validation error, return failure.
   3. If result is the empty string, domain-to-ASCII validation error, return failure.
   4. Return result. *)
Definition domain_to_ascii (domain : list N) : option (list N) :=
  match dta (utf8_encode domain) with
  | None => None
  | Some [] => None
  | Some result => Some result
  end.

(* "opaque-host parser", given a scalar value string input:
   1. If input contains a forbidden host code point, host-invalid-code-point validation error, return failure.
   2. If input contains a code point that is not a URL code point and not U+0025 (%), validation error.
   3. If input contains a U+0025 (%) and the two code points following it are not ASCII hex digits, validation error.
   4. Return the result of running UTF-8 percent-encode on input using the C0 control percent-encode set.
   An empty result is the empty host ("an empty host is the empty string"). *)
Definition opaque_host_parse (input : list N) : option shost :=
  if existsb forbidden_host_cp input then None
  else match utf8_percent_encode in_c0_control_set input with
       | [] => Some HEmpty
       | o => Some (HOpaque o)
       end.

(* "host parser", given a scalar value string input with an optional boolean isNotSpecial (default false):
   1. If input starts with U+005B ([), then:
      1. If input does not end with U+005D (]), IPv6-unclosed validation error, return failure.
      2. Return the result of IPv6 parsing input with its leading U+005B ([) and trailing U+005D (]) removed.
   2. If isNotSpecial is true, then return the result of opaque-host parsing input.
   3. Assert: input is not the empty string.
   4. Let domain be the result of running UTF-8 decode without BOM on the percent-decoding of input.
   5. Let asciiDomain be the result of running domain to ASCII with domain and false.
   6. If asciiDomain is failure, then return failure.
   7. If asciiDomain contains a forbidden domain code point, domain-invalid-code-point validation error, return failure.
   8. If asciiDomain ends in a number, then return the result of IPv4 parsing asciiDomain.
   9. Return asciiDomain.

   Remark on step 4: when the percent-decoded bytes are not valid UTF-8 the decoder yields U+FFFD, and the
   string containing U+FFFD is handed to the oracle like any other (UTS #46 disallows U+FFFD, so the oracle
   is expected to fail; nothing here depends on that).
   Remark on step 3: the basic URL parser never calls the host parser with an empty input when the URL is
   special; should it happen, step 5 fails in the oracle wrapper or step 3 of domain to ASCII. *)
Definition host_parse (input : list N) (isNotSpecial : bool) : option shost :=
  match input with
  | 91 :: after_bracket =>                                                     (* step 1 *)
      match last_opt input with
      | Some 93 =>
          match ipv6_parse (removelast after_bracket) with                     (* step 1.2 *)
          | Some pieces => Some (HIPv6 pieces)
          | None => None
          end
      | _ => None                                                              (* step 1.1 *)
      end
  | _ =>
      if isNotSpecial then opaque_host_parse input                             (* step 2 *)
      else
        let domain := utf8_decode_without_bom (string_percent_decode input) in (* step 4 *)
        match domain_to_ascii domain with                                      (* step 5 *)
        | None => None                                                         (* step 6 *)
        | Some asciiDomain =>
            if existsb forbidden_domain_cp asciiDomain then None               (* step 7 *)
            else if ends_in_a_number asciiDomain then                          (* step 8 *)
              match ipv4_parse asciiDomain with
              | Some a => Some (HIPv4 a)
              | None => None
              end
            else Some (HDomain asciiDomain)                                    (* step 9 *)
        end
  end.

End HostParser.
