(* WHATWG URL Standard (24 May 2023), section 1.3 "Percent-encoded bytes": percent-encode a byte,
   percent-decode, percent-encode after encoding (for the UTF-8 encoding only), UTF-8 percent-encode;
   and WHATWG Encoding Standard: the UTF-8 decoder ("UTF-8 decode without BOM": errors become U+FFFD,
   a leading BOM is NOT removed).

   Part of the Spec (independent transcription). Byte sequences are lists of N in 0..255, strings are lists
   of code points. *)
From Verif Require Import Lib.Base Lib.Utf8 Spec.PercentSets.

(* one upper-case hexadecimal digit *)
Definition upper_hex_digit (n : N) : N := if n <? 10 then 48 + n else 55 + n.

(* "To percent-encode a byte byte, return a string consisting of U+0025 (%), followed by two ASCII upper hex
   digits representing byte." *)
Definition percent_encode_byte (b : N) : list N := [37; upper_hex_digit (b / 16); upper_hex_digit (b mod 16)].

(* value of an ASCII hex digit *)
Definition hex_digit_value (c : N) : N :=
  if ascii_digit c then c - 48
  else if (65 <=? c) && (c <=? 70) then c - 55
  else c - 87.

(* "To percent-decode a byte sequence input":
   1. Let output be an empty byte sequence.
   2. For each byte byte in input:
      1. If byte is not 0x25 (%), then append byte to output.
      2. Otherwise, if byte is 0x25 (%) and the next two bytes after byte in input are not in the ranges
         0x30 (0) to 0x39 (9), 0x41 (A) to 0x46 (F), and 0x61 (a) to 0x66 (f), all inclusive, append byte to output.
      3. Otherwise: let bytePoint be the two bytes after byte in input, decoded, and then interpreted as
         hexadecimal number; append a byte whose value is bytePoint to output; skip the next two bytes in input.
   3. Return output. *)
Fixpoint percent_decode (input : list N) : list N :=
  match input with
  | [] => []
  | b :: rest =>
      if negb (b =? 37) then b :: percent_decode rest
      else
        match rest with
        | h1 :: h2 :: rest2 =>
            if ascii_hex_digit h1 && ascii_hex_digit h2
            then (hex_digit_value h1 * 16 + hex_digit_value h2) :: percent_decode rest2
            else b :: percent_decode rest
        | _ => b :: percent_decode rest
        end
  end.

(* "To percent-decode a scalar value string input: let bytes be the UTF-8 encoding of input; return the
   percent-decoding of bytes."  (utf8_enc turns a surrogate, which is not a scalar value, into U+FFFD.) *)
Definition utf8_encode (s : list N) : list N := flat_map utf8_enc s.
Definition string_percent_decode (s : list N) : list N := percent_decode (utf8_encode s).

(* "percent-encode after encoding", specialised to encoding = UTF-8 (the UTF-8 encoder never fails, so the
   loop of step 5 runs once and the "%26%23...%3B" branch is dead):
   for each byte of the encoded input:
     1. If spaceAsPlus is true and byte is 0x20 (SP), then append U+002B (+) to output and continue.
     2. Let isomorph be a code point whose value is byte's value.
     3. Assert: percentEncodeSet includes all non-ASCII code points.
     4. If isomorph is not in percentEncodeSet, then append isomorph to output.
     5. Otherwise, percent-encode byte and append the result to output. *)
Definition encode_bytes (inset : N -> bool) (spaceAsPlus : bool) (bytes : list N) : list N :=
  flat_map (fun b =>
              if spaceAsPlus && (b =? 32) then [43]
              else if inset b then percent_encode_byte b
              else [b]) bytes.

Definition percent_encode_after_utf8 (inset : N -> bool) (spaceAsPlus : bool) (s : list N) : list N :=
  encode_bytes inset spaceAsPlus (utf8_encode s).

(* "To UTF-8 percent-encode a scalar value codePoint using a percentEncodeSet, return the result of running
   percent-encode after encoding with UTF-8, codePoint as a string, and percentEncodeSet." *)
Definition utf8_percent_encode_cp (inset : N -> bool) (c : N) : list N :=
  percent_encode_after_utf8 inset false [c].

(* "To UTF-8 percent-encode a scalar value string input using a percentEncodeSet" *)
Definition utf8_percent_encode (inset : N -> bool) (s : list N) : list N :=
  percent_encode_after_utf8 inset false s.

(* ---------- 1.3: the two remaining percent-encode sets (the others are in Spec/PercentSets.v) ----------
   "The component percent-encode set is the userinfo percent-encode set and U+0024 ($) to U+0026 (&),
    inclusive, U+002B (+), and U+002C (,)."
   "The application/x-www-form-urlencoded percent-encode set is the component percent-encode set and
    U+0021 (!), U+0027 (') to U+0029 RIGHT PARENTHESIS, inclusive, and U+007E (~)." *)
Definition in_component_set (c : N) : bool :=
  in_userinfo_set c || ((36 <=? c) && (c <=? 38)) || (c =? 43) || (c =? 44).
Definition in_urlencoded_set (c : N) : bool :=
  in_component_set c || (c =? 33) || ((39 <=? c) && (c <=? 41)) || (c =? 126).

(* ---------- Encoding Standard 8.1.1 "UTF-8 decoder" ----------
   State: UTF-8 code point, UTF-8 bytes seen, UTF-8 bytes needed (all 0), lower boundary 0x80, upper boundary 0xBF.
   handler, given byte:
   1. If byte is end-of-queue and UTF-8 bytes needed is not 0, set UTF-8 bytes needed to 0 and return error.
   2. If byte is end-of-queue, return finished.
   3. If UTF-8 bytes needed is 0, based on byte:
        0x00 to 0x7F: return a code point whose value is byte.
        0xC2 to 0xDF: set bytes needed to 1, code point to byte & 0x1F.
        0xE0 to 0xEF: if byte is 0xE0, set lower boundary to 0xA0; if byte is 0xED, set upper boundary to 0x9F;
                      set bytes needed to 2, code point to byte & 0xF.
        0xF0 to 0xF4: if byte is 0xF0, set lower boundary to 0x90; if byte is 0xF4, set upper boundary to 0x8F;
                      set bytes needed to 3, code point to byte & 0x7.
        Otherwise: return error.
      Return continue.
   4. If byte is not in the range lower boundary to upper boundary, inclusive: set code point, bytes needed and
      bytes seen to 0, lower boundary to 0x80, upper boundary to 0xBF; restore byte to ioQueue; return error.
   5. Set lower boundary to 0x80 and upper boundary to 0xBF.
   6. Set code point to (code point << 6) | (byte & 0x3F).
   7. Increase bytes seen by one.
   8. If bytes seen is not equal to bytes needed, return continue.
   9. Let code point be UTF-8 code point; reset the state; return a code point whose value is code point.
   With the error mode "replacement" every error emits U+FFFD. *)
Inductive dec_item := DCp (c : N) | DErr.

Inductive lead_class := LAscii | LLead (cp : N) (needed : nat) (lo hi : N) | LBad.

Definition classify_lead (b : N) : lead_class :=
  if b <=? 127 then LAscii
  else if (194 <=? b) && (b <=? 223) then LLead (b - 192) 1 128 191
  else if (224 <=? b) && (b <=? 239) then
    LLead (b - 224) 2 (if b =? 224 then 160 else 128) (if b =? 237 then 159 else 191)
  else if (240 <=? b) && (b <=? 244) then
    LLead (b - 240) 3 (if b =? 240 then 144 else 128) (if b =? 244 then 143 else 191)
  else LBad.

Fixpoint utf8_decode_items (s : list N) (cp : N) (seen needed : nat) (lo hi : N) : list dec_item :=
  match s with
  | [] => match needed with O => [] | _ => [DErr] end                                   (* steps 1, 2 *)
  | b :: rest =>
      (* a function of unit: evaluated only in the branches that use it (the extracted code is call-by-value; a plain
         let would be evaluated for every continuation byte as well, doubling the work each time) *)
      let fresh := fun _ : unit =>                                                      (* step 3 *)
        match classify_lead b with
        | LAscii => DCp b :: utf8_decode_items rest 0 0 0 128 191
        | LLead c n l h => utf8_decode_items rest c 0 n l h
        | LBad => DErr :: utf8_decode_items rest 0 0 0 128 191
        end in
      match needed with
      | O => fresh tt
      | _ =>
          if (lo <=? b) && (b <=? hi) then                                              (* steps 5-9 *)
            let cp' := cp * 64 + (b - 128) in       (* byte & 0x3F = byte - 0x80 for byte in 0x80..0xBF *)
            if Nat.eqb (S seen) needed then DCp cp' :: utf8_decode_items rest 0 0 0 128 191
            else utf8_decode_items rest cp' (S seen) needed 128 191
          else DErr :: fresh tt                                                         (* step 4: byte is restored *)
      end
  end.

Definition utf8_decode_strict_items (bytes : list N) : list dec_item := utf8_decode_items bytes 0 0 0 128 191.

(* "UTF-8 decode without BOM": run the decoder with error mode replacement; no BOM sniffing *)
Definition utf8_decode_without_bom (bytes : list N) : list N :=
  map (fun i => match i with DCp c => c | DErr => 65533 end) (utf8_decode_strict_items bytes).

(* did the decoder report an error? *)
Definition utf8_decode_has_error (bytes : list N) : bool :=
  existsb (fun i => match i with DErr => true | DCp _ => false end) (utf8_decode_strict_items bytes).
