(* WHATWG URL Standard (snapshot of 24 May 2023), section 6.1 "URL class": the API URL parser used by the
   constructor, the getters href, protocol, username, password, host, hostname, port, pathname, search, hash,
   and the setters protocol, username, password, host, hostname, port, pathname, search, hash
   (the href setter, origin, searchParams and toJSON are not transcribed; the "query object" updates of the
   search setter are omitted since the query object is not modelled).

   Part of the Spec (independent transcription). The URL object is represented by its URL record; a setter
   maps the record to the new record. The standard runs the basic URL parser on the object's own record,
   which is modified in place, and ignores a failure result: therefore the record left behind by a failed
   run (component [Failed u] of the parser's outcome) is the new state of the object. *)
From Verif Require Import Lib.Base Lib.Utf8 Spec.PercentSets Spec.IPv4 Spec.IPv6 Spec.Url Spec.PercentCodec
     Spec.Host Spec.BasicParser.

Section Api.

Variable dta : list N -> option (list N).     (* the domain to ASCII oracle, see Spec/Host.v *)

(* ---------- "API URL parser" / the constructor URL(url, base) ----------
   1. Let parsedBase be null.
   2. If base is non-null: set parsedBase to the result of running the basic URL parser on base;
      if parsedBase is failure, then return failure [TypeError].
   3. Return the result of running the basic URL parser on url with parsedBase. *)
Definition url_parse (input : list N) (base : option surl) : outcome :=
  basic_url_parse dta input base None None.

Inductive api_result :=
| ApiOk (u : surl)
| ApiFailure                 (* url does not parse *)
| ApiBaseFailure             (* base does not parse *)
| ApiOutOfFuel
| ApiAssertViolated.

Definition api_of_outcome (o : outcome) : api_result :=
  match o with
  | Done u => ApiOk u
  | Failed _ => ApiFailure
  | OutOfFuel => ApiOutOfFuel
  | AssertViolated => ApiAssertViolated
  end.

Definition api_url_parse (input : list N) (base : option (list N)) : api_result :=
  match base with
  | None => api_of_outcome (url_parse input None)
  | Some b =>
      match url_parse b None with
      | Done pb => api_of_outcome (url_parse input (Some pb))
      | Failed _ => ApiBaseFailure
      | OutOfFuel => ApiOutOfFuel
      | AssertViolated => ApiAssertViolated
      end
  end.

(* ---------- getters ---------- *)
(* href: "return the serialization of this's URL" *)
Definition get_href (u : surl) : list N := url_serialize u false.
(* protocol: "return this's URL's scheme, followed by U+003A (:)" *)
Definition get_protocol (u : surl) : list N := u_scheme u ++ [58].
(* username / password: "return this's URL's username / password" *)
Definition get_username (u : surl) : list N := u_username u.
Definition get_password (u : surl) : list N := u_password u.
(* host: 1. Let url be this's URL. 2. If url's host is null, then return the empty string.
         3. If url's port is null, return url's host, serialized.
         4. Return url's host, serialized, followed by U+003A (:) and url's port, serialized. *)
Definition get_host (u : surl) : list N :=
  match u_host u with
  | None => []
  | Some h =>
      match u_port u with
      | None => host_serialize h
      | Some p => host_serialize h ++ [58] ++ serialize_integer p
      end
  end.
(* hostname: 1. If this's URL's host is null, then return the empty string.
             2. Return this's URL's host, serialized. *)
Definition get_hostname (u : surl) : list N :=
  match u_host u with
  | None => []
  | Some h => host_serialize h
  end.
(* port: 1. If this's URL's port is null, then return the empty string. 2. Return this's URL's port, serialized. *)
Definition get_port (u : surl) : list N :=
  match u_port u with
  | None => []
  | Some p => serialize_integer p
  end.
(* pathname: "return the result of URL path serializing this's URL" *)
Definition get_pathname (u : surl) : list N := path_serialize u.
(* search: 1. If this's URL's query is either null or the empty string, then return the empty string.
           2. Return U+003F (?), followed by this's URL's query. *)
Definition get_search (u : surl) : list N :=
  match u_query u with
  | None => []
  | Some [] => []
  | Some q => 63 :: q
  end.
(* hash: 1. If this's URL's fragment is either null or the empty string, then return the empty string.
         2. Return U+0023 (#), followed by this's URL's fragment. *)
Definition get_hash (u : surl) : list N :=
  match u_fragment u with
  | None => []
  | Some [] => []
  | Some f => 35 :: f
  end.

(* ---------- running the parser on the object's record ---------- *)
Definition parse_with_override (u : surl) (input : list N) (s : pstate) : outcome :=
  match basic_url_parse dta input None (Some u) (Some s) with
  | Done u' => Done u'
  | Failed u' => Done u'       (* failure is ignored; the record keeps what the parser did before failing *)
  | OutOfFuel => OutOfFuel
  | AssertViolated => AssertViolated
  end.

(* "To potentially strip trailing spaces from an opaque path given a URL object url:
    1. If url's URL does not have an opaque path, then return.
    2. If url's URL's fragment is non-null, then return.
    3. If url's URL's query is non-null, then return.
    4. Remove all trailing U+0020 SPACE code points from url's URL's path." *)
Fixpoint strip_leading_spaces (s : list N) : list N :=
  match s with
  | 32 :: s' => strip_leading_spaces s'
  | _ => s
  end.
Definition strip_trailing_spaces (s : list N) : list N := rev (strip_leading_spaces (rev s)).

Definition potentially_strip_trailing_spaces (u : surl) : surl :=
  match u_path u with
  | PList _ => u
  | POpaque s =>
      if is_some (u_fragment u) then u
      else if is_some (u_query u) then u
      else with_path u (POpaque (strip_trailing_spaces s))
  end.

(* ---------- setters ---------- *)
(* protocol setter: "basic URL parse the given value, followed by U+003A (:), with this's URL as url and scheme
   start state as state override." *)
Definition set_protocol (u : surl) (value : list N) : outcome :=
  parse_with_override u (value ++ [58]) SchemeStartState.

(* username setter: 1. If this's URL cannot have a username/password/port, then return.
                    2. Set the username given this's URL and the given value.
   "To set the username given a url and username, set url's username to the result of running UTF-8
    percent-encode on username using the userinfo percent-encode set." *)
Definition set_username (u : surl) (value : list N) : outcome :=
  if cannot_have_username_password_port u then Done u
  else Done (with_username u (utf8_percent_encode in_userinfo_set value)).

(* password setter: likewise with "set the password". *)
Definition set_password (u : surl) (value : list N) : outcome :=
  if cannot_have_username_password_port u then Done u
  else Done (with_password u (utf8_percent_encode in_userinfo_set value)).

(* host setter: 1. If this's URL has an opaque path, then return.
                2. Basic URL parse the given value with this's URL as url and host state as state override. *)
Definition set_host (u : surl) (value : list N) : outcome :=
  if has_opaque_path u then Done u
  else parse_with_override u value HostState.

(* hostname setter: 1. If this's URL has an opaque path, then return.
                    2. Basic URL parse the given value with this's URL as url and hostname state as state override. *)
Definition set_hostname (u : surl) (value : list N) : outcome :=
  if has_opaque_path u then Done u
  else parse_with_override u value HostnameState.

(* port setter: 1. If this's URL cannot have a username/password/port, then return.
                2. If the given value is the empty string, then set this's URL's port to null.
                3. Otherwise, basic URL parse the given value with this's URL as url and port state as state override. *)
Definition set_port (u : surl) (value : list N) : outcome :=
  if cannot_have_username_password_port u then Done u
  else if is_nil value then Done (with_port u None)
  else parse_with_override u value PortState.

(* pathname setter: 1. If this's URL has an opaque path, then return.
                    2. Empty this's URL's path.
                    3. Basic URL parse the given value with this's URL as url and path start state as state override. *)
Definition set_pathname (u : surl) (value : list N) : outcome :=
  if has_opaque_path u then Done u
  else parse_with_override (with_path u (PList [])) value PathStartState.

(* search setter:
   1. Let url be this's URL.
   2. If the given value is the empty string: set url's query to null, [empty this's query object's list,]
      potentially strip trailing spaces from an opaque path with this, and return.
   3. Let input be the given value with a single leading U+003F (?) removed, if any.
   4. Set url's query to the empty string.
   5. Basic URL parse input with url as url and query state as state override.
   6. [Set this's query object's list to the result of parsing input.] *)
Definition set_search (u : surl) (value : list N) : outcome :=
  match value with
  | [] => Done (potentially_strip_trailing_spaces (with_query u None))
  | _ =>
      let input := match value with 63 :: rest => rest | _ => value end in
      parse_with_override (with_query u (Some [])) input QueryState
  end.

(* hash setter:
   1. If the given value is the empty string: set this's URL's fragment to null, potentially strip trailing
      spaces from an opaque path with this, and return.
   2. Let input be the given value with a single leading U+0023 (#) removed, if any.
   3. Set this's URL's fragment to the empty string.
   4. Basic URL parse input with this's URL as url and fragment state as state override. *)
Definition set_hash (u : surl) (value : list N) : outcome :=
  match value with
  | [] => Done (potentially_strip_trailing_spaces (with_fragment u None))
  | _ =>
      let input := match value with 35 :: rest => rest | _ => value end in
      parse_with_override (with_fragment u (Some [])) input FragmentState
  end.

(* the nine setters by number: 0 protocol, 1 username, 2 password, 3 host, 4 hostname, 5 port, 6 pathname,
   7 search, 8 hash (the numbering of the driver's line protocol) *)
Definition apply_setter (k : N) (u : surl) (value : list N) : outcome :=
  match k with
  | 0 => set_protocol u value
  | 1 => set_username u value
  | 2 => set_password u value
  | 3 => set_host u value
  | 4 => set_hostname u value
  | 5 => set_port u value
  | 6 => set_pathname u value
  | 7 => set_search u value
  | _ => set_hash u value
  end.

End Api.

(* the ten observable strings of a URL object: href protocol username password host hostname port pathname search hash *)
Definition observe (u : surl) : list (list N) :=
  [get_href u; get_protocol u; get_username u; get_password u; get_host u; get_hostname u; get_port u;
   get_pathname u; get_search u; get_hash u].
