(* WHATWG URL Standard 3.5: IPv6 parser and serializer, in the standard's own pointer style.
   An address is a list of eight 16-bit pieces. *)
From Verif Require Import Lib.Base Spec.PercentSets Spec.IPv4.

Definition cpt (input : list N) (p : nat) : option N := nth_error input p.   (* c; None = EOF code point *)
Definition is_cp (o : option N) (c : N) : bool := match o with Some x => x =? c | None => false end.
Definition is_hex (o : option N) : bool := match o with Some x => ascii_hex_digit x | None => false end.
Definition is_dig (o : option N) : bool := match o with Some x => ascii_digit x | None => false end.
Definition val (o : option N) : N := match o with Some x => digit_value x | None => 0 end.

Fixpoint upd (l : list N) (i : nat) (v : N) : list N :=
  match l, i with
  | [], _ => []
  | _ :: l', O => v :: l'
  | x :: l', S i' => x :: upd l' i' v
  end.
Definition piece (l : list N) (i : nat) : N := nth i l 0.

(* step 6.5.5: while c is an ASCII digit ... : reads a decimal number without leading zero, <= 255 *)
Fixpoint v4_number (fuel : nat) (input : list N) (p : nat) (ipv4Piece : option N) : option (nat * N) :=
  match fuel with
  | O => None
  | S f =>
      if is_dig (cpt input p) then
        let number := val (cpt input p) in
        match ipv4Piece with
        | None => v4_number f input (S p) (Some number)
        | Some 0 => None
        | Some v => let v' := v * 10 + number in
                    if 255 <? v' then None else v4_number f input (S p) (Some v')
        end
      else match ipv4Piece with Some v => Some (p, v) | None => None end
  end.

(* step 6.5: while c is not EOF: the four dotted parts *)
Fixpoint v4_parts (fuel : nat) (input : list N) (p : nat) (numbersSeen : nat) (pieceIndex : nat) (addr : list N)
  : option (nat * nat * nat * list N) :=
  match fuel with
  | O => None
  | S f =>
      match cpt input p with
      | None => Some (p, numbersSeen, pieceIndex, addr)
      | Some _ =>
          let after_dot :=
            if (0 <? numbersSeen)%nat then
              if is_cp (cpt input p) 46 && (numbersSeen <? 4)%nat then Some (S p) else None
            else Some p in
          match after_dot with
          | None => None
          | Some p =>
              if negb (is_dig (cpt input p)) then None
              else match v4_number (S (length input)) input p None with
                   | None => None
                   | Some (p', v) =>
                       let addr := upd addr pieceIndex (piece addr pieceIndex * 256 + v) in
                       let numbersSeen := S numbersSeen in
                       let pieceIndex := if (Nat.eqb numbersSeen 2 || Nat.eqb numbersSeen 4)%bool then S pieceIndex else pieceIndex in
                       v4_parts f input p' numbersSeen pieceIndex addr
                   end
          end
      end
  end.

(* step 6.4: read up to four hex digits *)
Fixpoint hex_piece (fuel : nat) (input : list N) (p : nat) (value : N) (len : nat) : nat * N * nat :=
  match fuel with
  | O => (p, value, len)
  | S f => if (len <? 4)%nat && is_hex (cpt input p)
           then hex_piece f input (S p) (value * 16 + val (cpt input p)) (S len)
           else (p, value, len)
  end.

(* step 6: the main loop *)
Fixpoint main_loop (fuel : nat) (input : list N) (p : nat) (pieceIndex : nat) (compress : option nat) (addr : list N)
  : option (nat * option nat * list N) :=
  match fuel with
  | O => None
  | S f =>
      match cpt input p with
      | None => Some (pieceIndex, compress, addr)
      | Some c =>
          if Nat.eqb pieceIndex 8 then None
          else if c =? 58 then
            match compress with
            | Some _ => None
            | None => main_loop f input (S p) (S pieceIndex) (Some (S pieceIndex)) addr
            end
          else
            let '(p', value, len) := hex_piece 4 input p 0 0 in
            if is_cp (cpt input p') 46 then
              if Nat.eqb len 0 then None
              else
                let p0 := (p' - len)%nat in
                if (6 <? pieceIndex)%nat then None
                else match v4_parts (S (length input)) input p0 0 pieceIndex addr with
                     | None => None
                     | Some (_, numbersSeen, pieceIndex', addr') =>
                         if Nat.eqb numbersSeen 4 then Some (pieceIndex', compress, addr') else None
                     end
            else if is_cp (cpt input p') 58 then
              match cpt input (S p') with
              | None => None
              | Some _ => main_loop f input (S p') (S pieceIndex) compress (upd addr pieceIndex value)
              end
            else match cpt input p' with
                 | Some _ => None
                 | None => main_loop f input p' (S pieceIndex) compress (upd addr pieceIndex value)
                 end
      end
  end.

(* step 7: swap the pieces after the compression to the end *)
Fixpoint swap_loop (addr : list N) (pieceIndex : nat) (compress : nat) (swaps : nat) : list N :=
  match swaps with
  | O => addr
  | S s' =>
      match pieceIndex with
      | O => addr
      | S pi' =>
          let j := (compress + swaps - 1)%nat in
          let a := piece addr pieceIndex in
          let b := piece addr j in
          swap_loop (upd (upd addr pieceIndex b) j a) pi' compress s'
      end
  end.

Definition zero8 : list N := [0;0;0;0;0;0;0;0].

Definition ipv6_parse (input : list N) : option (list N) :=
  let start :=
    match input with
    | 58 :: 58 :: _ => Some (2%nat, 1%nat, Some 1%nat)
    | 58 :: _ => None
    | _ => Some (0%nat, 0%nat, None)
    end in
  match start with
  | None => None
  | Some (p, pieceIndex, compress) =>
      match main_loop (S (length input)) input p pieceIndex compress zero8 with
      | None => None
      | Some (pieceIndex, Some comp, addr) => Some (swap_loop addr 7 comp (pieceIndex - comp))
      | Some (pieceIndex, None, addr) => if Nat.eqb pieceIndex 8 then Some addr else None
      end
  end.

(* ---------- serializer ---------- *)
Fixpoint hex_fuel (fuel : nat) (n : N) : list N :=
  match fuel with
  | O => []
  | S f => let d := n mod 16 in
           let ch := if d <? 10 then 48 + d else 87 + d in
           if n <? 16 then [ch] else hex_fuel f (n / 16) ++ [ch]
  end.
Definition lower_hex (n : N) : list N := hex_fuel (S (N.size_nat n)) n.

(* run of zero pieces starting at index i *)
Fixpoint zero_run (l : list N) : nat :=
  match l with 0 :: l' => S (zero_run l') | _ => O end.

(* index of the first longest run of >= 2 zero pieces *)
Fixpoint find_compress (l : list N) (idx : nat) (best : option nat) (bestLen : nat) : option nat :=
  match l with
  | [] => best
  | x :: l' =>
      let r := zero_run l in
      if (1 <? r)%nat && (bestLen <? r)%nat then find_compress l' (S idx) (Some idx) r
      else find_compress l' (S idx) best bestLen
  end.

Fixpoint ser_loop (l : list N) (idx : nat) (compress : option nat) (ignore0 : bool) : list N :=
  match l with
  | [] => []
  | x :: l' =>
      if ignore0 && (x =? 0) then ser_loop l' (S idx) compress true
      else if match compress with Some ci => Nat.eqb ci idx | None => false end
      then (if Nat.eqb idx 0 then [58; 58] else [58]) ++ ser_loop l' (S idx) compress true
      else lower_hex x ++ (if Nat.eqb idx 7 then [] else [58]) ++ ser_loop l' (S idx) compress false
  end.

Definition ipv6_serialize (addr : list N) : list N := ser_loop addr 0 (find_compress addr 0 None 0) false.
