(* Models of the Go library string functions the code calls. *)
From Verif Require Import Lib.Base Lib.Utf8.

(* strings.Split(s, sep) for a one-byte separator: never returns the empty list *)
Fixpoint split_aux (sep : N) (s : str) (cur : str) : list str :=
  match s with
  | [] => [rev cur]
  | c :: s' => if c =? sep then rev cur :: split_aux sep s' [] else split_aux sep s' (c :: cur)
  end.
Definition split (sep : N) (s : str) : list str := split_aux sep s [].

(* strings.SplitN(s, sep, 2): (before, Some after) at the first sep, else (s, None) *)
Fixpoint cut_aux (sep : N) (s : str) (cur : str) : str * option str :=
  match s with
  | [] => (rev cur, None)
  | c :: s' => if c =? sep then (rev cur, Some s') else cut_aux sep s' (c :: cur)
  end.
Definition cut (sep : N) (s : str) : str * option str := cut_aux sep s [].

Fixpoint join (sep : str) (l : list str) : str :=
  match l with
  | [] => []
  | [x] => x
  | x :: l' => x ++ sep ++ join sep l'
  end.

(* strings.TrimLeft / TrimRight / Trim with a cutset of ASCII bytes *)
Fixpoint trim_left (cut : list N) (s : str) : str :=
  match s with
  | c :: s' => if mem c cut then trim_left cut s' else s
  | [] => []
  end.
Definition trim_right (cut : list N) (s : str) : str := rev (trim_left cut (rev s)).
Definition trim_set (cut : list N) (s : str) : str := trim_right cut (trim_left cut s).

(* strings.TrimPrefix with a one-byte prefix *)
Definition trim_prefix1 (c : N) (s : str) : str :=
  match s with x :: s' => if x =? c then s' else s | [] => [] end.

(* strings.ReplaceAll(s, "+", " ") *)
Definition plus_to_space (s : str) : str := map (fun c => if c =? 43 then 32 else c) s.

(* strings.ToLower restricted to what the code observes: ASCII letters, and the two
   non-ASCII code points whose lower case is ASCII (U+0130 -> i, U+212A -> k). Other
   non-ASCII code points stay non-ASCII (their exact image is never inspected). *)
Definition rune_lower (c : N) : N :=
  if is_upper c then c + 32 else if c =? 304 then 105 else if c =? 8490 then 107 else c.

(* decimal value of a digit string (all characters assumed to be digits) *)
Definition digits_val (radix : N) (s : str) : N :=
  fold_left (fun acc c => acc * radix + hex_val c) s 0.

(* strconv.Itoa / FormatUint(...,10) and FormatUint(...,16) for non-negative values *)
Fixpoint fmt_fuel (radix : N) (dig : N -> N) (fuel : nat) (n : N) : str :=
  match fuel with
  | O => []
  | Datatypes.S f => if n <? radix then [dig n] else fmt_fuel radix dig f (n / radix) ++ [dig (n mod radix)]
  end.
Definition itoa (n : N) : str := fmt_fuel 10 hex_lower (Datatypes.S (N.size_nat n)) n.
Definition fmt_hex (n : N) : str := fmt_fuel 16 hex_lower (Datatypes.S (N.size_nat n)) n.

(* sort.SliceStable: any stable sort gives the same result; insertion sort *)
Section Sort.
  Context {A : Type} (lt : A -> A -> bool).
  Fixpoint insert_st (x : A) (l : list A) : list A :=
    match l with
    | [] => [x]
    | y :: l' => if lt y x then y :: insert_st x l' else x :: l
    end.
  (* stable: elements are inserted from the right end; an element goes before the
     first later element that is not strictly smaller, so equal elements keep their order *)
  Definition sort_stable (l : list A) : list A := fold_right insert_st [] l.
End Sort.

(* byte-wise lexicographic order (Go's string <) *)
Fixpoint str_ltb (a b : str) : bool :=
  match a, b with
  | [], [] => false
  | [], _ :: _ => true
  | _ :: _, [] => false
  | x :: a', y :: b' => if x <? y then true else if y <? x then false else str_ltb a' b'
  end.
