(* Base definitions: Go strings are byte lists, code points are N. *)
From Coq Require Export List NArith ZArith Bool Lia.
Export ListNotations.
Open Scope N_scope.
Open Scope bool_scope.

Definition str := list N.      (* a Go string: bytes 0..255 *)
Definition cp := N.            (* a code point (rune value) *)

(* ---------- generic list helpers ---------- *)
Fixpoint list_eqb {A} (e : A -> A -> bool) (a b : list A) : bool :=
  match a, b with
  | [], [] => true
  | x :: a', y :: b' => e x y && list_eqb e a' b'
  | _, _ => false
  end.

Definition str_eqb : str -> str -> bool := list_eqb N.eqb.
Definition strs_eqb : list str -> list str -> bool := list_eqb str_eqb.

Definition opt_eqb {A} (e : A -> A -> bool) (a b : option A) : bool :=
  match a, b with
  | None, None => true
  | Some x, Some y => e x y
  | _, _ => false
  end.

Definition is_nil {A} (l : list A) : bool := match l with [] => true | _ => false end.
Definition is_some {A} (o : option A) : bool := match o with Some _ => true | None => false end.

Definition mem (x : N) (l : list N) : bool := existsb (N.eqb x) l.

Fixpoint last_opt {A} (l : list A) : option A :=
  match l with
  | [] => None
  | [x] => Some x
  | _ :: l' => last_opt l'
  end.

(* remove the last element (Go: s[:len(s)-1]); [] stays [] *)
Definition drop_last {A} (l : list A) : list A := removelast l.

Fixpoint replace_last {A} (l : list A) (x : A) : list A :=
  match l with
  | [] => []
  | [_] => [x]
  | y :: l' => y :: replace_last l' x
  end.

Fixpoint nth_opt {A} (l : list A) (n : nat) : option A :=
  match l, n with
  | [], _ => None
  | x :: _, O => Some x
  | _ :: l', S n' => nth_opt l' n'
  end.

Definition len {A} (l : list A) : Z := Z.of_nat (length l).

Fixpoint has_prefix (p s : str) : bool :=
  match p, s with
  | [], _ => true
  | x :: p', y :: s' => N.eqb x y && has_prefix p' s'
  | _ :: _, [] => false
  end.

Definition has_suffix (p s : str) : bool := has_prefix (rev p) (rev s).

Fixpoint all_in (f : N -> bool) (s : str) : bool :=
  match s with [] => true | c :: s' => f c && all_in f s' end.

(* ---------- ASCII classes (used by Lib only; the model's classes come from the generated tables) ---------- *)
Definition is_digit (c : N) : bool := (48 <=? c) && (c <=? 57).
Definition is_upper (c : N) : bool := (65 <=? c) && (c <=? 90).
Definition is_lower (c : N) : bool := (97 <=? c) && (c <=? 122).
Definition is_alpha (c : N) : bool := is_upper c || is_lower c.
Definition is_hex (c : N) : bool := is_digit c || ((65 <=? c) && (c <=? 70)) || ((97 <=? c) && (c <=? 102)).
Definition ascii_lower (c : N) : N := if is_upper c then c + 32 else c.
Definition str_lower (s : str) : str := map ascii_lower s.

(* value of a hex digit (0 for non-hex) *)
Definition hex_val (c : N) : N :=
  if is_digit c then c - 48
  else if (65 <=? c) && (c <=? 70) then c - 55
  else if (97 <=? c) && (c <=? 102) then c - 87
  else 0.

(* "0123456789ABCDEF"[n] *)
Definition hex_upper (n : N) : N := if n <? 10 then 48 + n else 55 + n.
Definition hex_lower (n : N) : N := if n <? 10 then 48 + n else 87 + n.

(* '%' hi lo of a byte *)
Definition pct_byte (b : N) : str := [37; hex_upper (b / 16); hex_upper (b mod 16)].

(* string literals are written as byte lists; helper for ASCII text in the model *)
Definition s_file : str := [102;105;108;101].                   (* "file" *)
Definition s_localhost : str := [108;111;99;97;108;104;111;115;116].
