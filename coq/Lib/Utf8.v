(* UTF-8 as Go does it: utf8.EncodeRune / string(rune) and the decoding performed by
   []rune(s) and `for _, r := range s` (every byte that does not start a valid sequence
   decodes to U+FFFD with width 1). *)
From Verif Require Import Lib.Base.
From Coq Require Import String Ascii.

Definition bs (s : string) : str := List.map N_of_ascii (list_ascii_of_string s).

Definition rune_error : N := 65533. (* U+FFFD *)

Definition is_surrogate (c : N) : bool := (55296 <=? c) && (c <=? 57343).

(* utf8.EncodeRune: invalid runes (surrogates, > 0x10FFFF) are encoded as U+FFFD *)
Definition utf8_enc (c : N) : str :=
  if c <? 128 then [c]
  else if c <? 2048 then [192 + c / 64; 128 + c mod 64]
  else if is_surrogate c || (1114111 <? c) then [239; 191; 189]
  else if c <? 65536 then [224 + c / 4096; 128 + (c / 64) mod 64; 128 + c mod 64]
  else [240 + c / 262144; 128 + (c / 4096) mod 64; 128 + (c / 64) mod 64; 128 + c mod 64].

Definition utf8_len (c : N) : Z := len (utf8_enc c).

Definition is_cont (b : N) : bool := (128 <=? b) && (b <=? 191).
Definition in_rng (lo hi b : N) : bool := (lo <=? b) && (b <=? hi).

(* A decoded input element: a code point together with what it was decoded from.
   [Bad b] is a byte that is not part of a valid UTF-8 sequence; its rune value is U+FFFD. *)
Inductive rune := Good (c : N) | Bad (b : N).
Definition rv (r : rune) : N := match r with Good c => c | Bad _ => rune_error end.
Definition rune_bytes (r : rune) : str := match r with Good c => utf8_enc c | Bad b => [b] end.

(* decode the first rune of a non-empty byte list: (rune, rest) *)
Definition dec1 (b0 : N) (rest : str) : rune * str :=
  if b0 <? 128 then (Good b0, rest)
  else if in_rng 194 223 b0 then
    match rest with
    | b1 :: r1 => if is_cont b1 then (Good ((b0 - 192) * 64 + (b1 - 128)), r1) else (Bad b0, rest)
    | _ => (Bad b0, rest)
    end
  else if in_rng 224 239 b0 then
    match rest with
    | b1 :: b2 :: r2 =>
        let lo := if b0 =? 224 then 160 else 128 in
        let hi := if b0 =? 237 then 159 else 191 in
        if in_rng lo hi b1 && is_cont b2
        then (Good ((b0 - 224) * 4096 + (b1 - 128) * 64 + (b2 - 128)), r2)
        else (Bad b0, rest)
    | _ => (Bad b0, rest)
    end
  else if in_rng 240 244 b0 then
    match rest with
    | b1 :: b2 :: b3 :: r3 =>
        let lo := if b0 =? 240 then 144 else 128 in
        let hi := if b0 =? 244 then 143 else 191 in
        if in_rng lo hi b1 && is_cont b2 && is_cont b3
        then (Good ((b0 - 240) * 262144 + (b1 - 128) * 4096 + (b2 - 128) * 64 + (b3 - 128)), r3)
        else (Bad b0, rest)
    | _ => (Bad b0, rest)
    end
  else (Bad b0, rest).

(* []rune(s) with provenance; fuel = length s suffices since every step consumes >= 1 byte *)
Fixpoint decode_fuel (fuel : nat) (s : str) : list rune :=
  match fuel, s with
  | _, [] => []
  | O, _ => []
  | Datatypes.S f, b0 :: rest => let '(r, rest') := dec1 b0 rest in r :: decode_fuel f rest'
  end.
Definition decode (s : str) : list rune := decode_fuel (List.length s) s.

Definition runes (s : str) : list N := List.map rv (decode s).          (* []rune(s) *)
Definition encode_runes (l : list N) : str := flat_map utf8_enc l.      (* string([]rune) *)
Definition valid_utf8 (s : str) : bool :=                                (* utf8.ValidString *)
  forallb (fun r => match r with Good _ => true | Bad _ => false end) (decode s).
(* strings.ToValidUTF8-like reading of a byte string as a scalar value string *)
Definition to_valid (s : str) : str := encode_runes (runes s).
