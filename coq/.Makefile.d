Lib/Base.vo Lib/Base.glob Lib/Base.v.beautified Lib/Base.required_vo: Lib/Base.v 
Lib/Base.vio: Lib/Base.v 
Lib/Base.vos Lib/Base.vok Lib/Base.required_vos: Lib/Base.v 
Lib/Utf8.vo Lib/Utf8.glob Lib/Utf8.v.beautified Lib/Utf8.required_vo: Lib/Utf8.v Lib/Base.vo
Lib/Utf8.vio: Lib/Utf8.v Lib/Base.vio
Lib/Utf8.vos Lib/Utf8.vok Lib/Utf8.required_vos: Lib/Utf8.v Lib/Base.vos
Lib/GoStr.vo Lib/GoStr.glob Lib/GoStr.v.beautified Lib/GoStr.required_vo: Lib/GoStr.v Lib/Base.vo Lib/Utf8.vo
Lib/GoStr.vio: Lib/GoStr.v Lib/Base.vio Lib/Utf8.vio
Lib/GoStr.vos Lib/GoStr.vok Lib/GoStr.required_vos: Lib/GoStr.v Lib/Base.vos Lib/Utf8.vos
Model/Cfg.vo Model/Cfg.glob Model/Cfg.v.beautified Model/Cfg.required_vo: Model/Cfg.v Lib/Base.vo
Model/Cfg.vio: Model/Cfg.v Lib/Base.vio
Model/Cfg.vos Model/Cfg.vok Model/Cfg.required_vos: Model/Cfg.v Lib/Base.vos
Gen/Tables.vo Gen/Tables.glob Gen/Tables.v.beautified Gen/Tables.required_vo: Gen/Tables.v Lib/Base.vo Model/Cfg.vo
Gen/Tables.vio: Gen/Tables.v Lib/Base.vio Model/Cfg.vio
Gen/Tables.vos Gen/Tables.vok Gen/Tables.required_vos: Gen/Tables.v Lib/Base.vos Model/Cfg.vos
Gen/Options.vo Gen/Options.glob Gen/Options.v.beautified Gen/Options.required_vo: Gen/Options.v Lib/Base.vo Model/Cfg.vo
Gen/Options.vio: Gen/Options.v Lib/Base.vio Model/Cfg.vio
Gen/Options.vos Gen/Options.vok Gen/Options.required_vos: Gen/Options.v Lib/Base.vos Model/Cfg.vos
Gen/ErrTypes.vo Gen/ErrTypes.glob Gen/ErrTypes.v.beautified Gen/ErrTypes.required_vo: Gen/ErrTypes.v Lib/Base.vo
Gen/ErrTypes.vio: Gen/ErrTypes.v Lib/Base.vio
Gen/ErrTypes.vos Gen/ErrTypes.vok Gen/ErrTypes.required_vos: Gen/ErrTypes.v Lib/Base.vos
Model/Sets.vo Model/Sets.glob Model/Sets.v.beautified Model/Sets.required_vo: Model/Sets.v Lib/Base.vo Lib/Utf8.vo Model/Cfg.vo Gen/Tables.vo
Model/Sets.vio: Model/Sets.v Lib/Base.vio Lib/Utf8.vio Model/Cfg.vio Gen/Tables.vio
Model/Sets.vos Model/Sets.vok Model/Sets.required_vos: Model/Sets.v Lib/Base.vos Lib/Utf8.vos Model/Cfg.vos Gen/Tables.vos
Model/Percent.vo Model/Percent.glob Model/Percent.v.beautified Model/Percent.required_vo: Model/Percent.v Lib/Base.vo Lib/Utf8.vo Model/Cfg.vo Model/Sets.vo
Model/Percent.vio: Model/Percent.v Lib/Base.vio Lib/Utf8.vio Model/Cfg.vio Model/Sets.vio
Model/Percent.vos Model/Percent.vok Model/Percent.required_vos: Model/Percent.v Lib/Base.vos Lib/Utf8.vos Model/Cfg.vos Model/Sets.vos
Model/Url.vo Model/Url.glob Model/Url.v.beautified Model/Url.required_vo: Model/Url.v Lib/Base.vo Lib/Utf8.vo Lib/GoStr.vo Model/Cfg.vo Model/Sets.vo Model/Percent.vo
Model/Url.vio: Model/Url.v Lib/Base.vio Lib/Utf8.vio Lib/GoStr.vio Model/Cfg.vio Model/Sets.vio Model/Percent.vio
Model/Url.vos Model/Url.vok Model/Url.required_vos: Model/Url.v Lib/Base.vos Lib/Utf8.vos Lib/GoStr.vos Model/Cfg.vos Model/Sets.vos Model/Percent.vos
Model/Host.vo Model/Host.glob Model/Host.v.beautified Model/Host.required_vo: Model/Host.v Lib/Base.vo Lib/Utf8.vo Lib/GoStr.vo Model/Cfg.vo Gen/Tables.vo Model/Sets.vo Model/Percent.vo Model/Url.vo
Model/Host.vio: Model/Host.v Lib/Base.vio Lib/Utf8.vio Lib/GoStr.vio Model/Cfg.vio Gen/Tables.vio Model/Sets.vio Model/Percent.vio Model/Url.vio
Model/Host.vos Model/Host.vok Model/Host.required_vos: Model/Host.v Lib/Base.vos Lib/Utf8.vos Lib/GoStr.vos Model/Cfg.vos Gen/Tables.vos Model/Sets.vos Model/Percent.vos Model/Url.vos
Model/Machine.vo Model/Machine.glob Model/Machine.v.beautified Model/Machine.required_vo: Model/Machine.v Lib/Base.vo Lib/Utf8.vo Lib/GoStr.vo Model/Cfg.vo Gen/Tables.vo Model/Sets.vo Model/Percent.vo Model/Url.vo Model/Host.vo
Model/Machine.vio: Model/Machine.v Lib/Base.vio Lib/Utf8.vio Lib/GoStr.vio Model/Cfg.vio Gen/Tables.vio Model/Sets.vio Model/Percent.vio Model/Url.vio Model/Host.vio
Model/Machine.vos Model/Machine.vok Model/Machine.required_vos: Model/Machine.v Lib/Base.vos Lib/Utf8.vos Lib/GoStr.vos Model/Cfg.vos Gen/Tables.vos Model/Sets.vos Model/Percent.vos Model/Url.vos Model/Host.vos
Model/Api.vo Model/Api.glob Model/Api.v.beautified Model/Api.required_vo: Model/Api.v Lib/Base.vo Lib/Utf8.vo Lib/GoStr.vo Model/Cfg.vo Gen/Tables.vo Model/Sets.vo Model/Percent.vo Model/Url.vo Model/Host.vo Model/Machine.vo
Model/Api.vio: Model/Api.v Lib/Base.vio Lib/Utf8.vio Lib/GoStr.vio Model/Cfg.vio Gen/Tables.vio Model/Sets.vio Model/Percent.vio Model/Url.vio Model/Host.vio Model/Machine.vio
Model/Api.vos Model/Api.vok Model/Api.required_vos: Model/Api.v Lib/Base.vos Lib/Utf8.vos Lib/GoStr.vos Model/Cfg.vos Gen/Tables.vos Model/Sets.vos Model/Percent.vos Model/Url.vos Model/Host.vos Model/Machine.vos
Model/Canon.vo Model/Canon.glob Model/Canon.v.beautified Model/Canon.required_vo: Model/Canon.v Lib/Base.vo Lib/Utf8.vo Lib/GoStr.vo Model/Cfg.vo Gen/Tables.vo Model/Sets.vo Model/Percent.vo Model/Url.vo Model/Host.vo Model/Machine.vo Model/Api.vo
Model/Canon.vio: Model/Canon.v Lib/Base.vio Lib/Utf8.vio Lib/GoStr.vio Model/Cfg.vio Gen/Tables.vio Model/Sets.vio Model/Percent.vio Model/Url.vio Model/Host.vio Model/Machine.vio Model/Api.vio
Model/Canon.vos Model/Canon.vok Model/Canon.required_vos: Model/Canon.v Lib/Base.vos Lib/Utf8.vos Lib/GoStr.vos Model/Cfg.vos Gen/Tables.vos Model/Sets.vos Model/Percent.vos Model/Url.vos Model/Host.vos Model/Machine.vos Model/Api.vos
Model/Obs.vo Model/Obs.glob Model/Obs.v.beautified Model/Obs.required_vo: Model/Obs.v Lib/Base.vo Lib/Utf8.vo Lib/GoStr.vo Model/Cfg.vo Gen/Tables.vo Model/Sets.vo Model/Percent.vo Model/Url.vo Model/Host.vo Model/Machine.vo Model/Api.vo Model/Canon.vo
Model/Obs.vio: Model/Obs.v Lib/Base.vio Lib/Utf8.vio Lib/GoStr.vio Model/Cfg.vio Gen/Tables.vio Model/Sets.vio Model/Percent.vio Model/Url.vio Model/Host.vio Model/Machine.vio Model/Api.vio Model/Canon.vio
Model/Obs.vos Model/Obs.vok Model/Obs.required_vos: Model/Obs.v Lib/Base.vos Lib/Utf8.vos Lib/GoStr.vos Model/Cfg.vos Gen/Tables.vos Model/Sets.vos Model/Percent.vos Model/Url.vos Model/Host.vos Model/Machine.vos Model/Api.vos Model/Canon.vos
