(* C10 - Percent-encode sets match the standard; encode/decode obey their laws.
   This file holds statements only; proofs are in Proofs/. *)
From Verif Require Import Lib.Base Model.Cfg Gen.Tables Model.Sets Spec.PercentSets Proofs.SetsProofs.

(* Each named set regenerated from /repo contains exactly the code points the standard lists: for EVERY code point. *)
Theorem C10_sets_match_standard : forall cp : N,
  RuneShouldBeEncoded pes_C0 cp = in_c0_control_set cp /\
  RuneShouldBeEncoded pes_Fragment cp = in_fragment_set cp /\
  RuneShouldBeEncoded pes_Query cp = in_query_set cp /\
  RuneShouldBeEncoded pes_SpecialQuery cp = in_special_query_set cp /\
  RuneShouldBeEncoded pes_Path cp = in_path_set cp /\
  RuneShouldBeEncoded pes_UserInfo cp = in_userinfo_set cp.
Proof. intros cp. repeat split; [exact (sets_C0 cp)|exact (sets_fragment cp)|exact (sets_query cp)|exact (sets_special_query cp)|exact (sets_path cp)|exact (sets_userinfo cp)]. Qed.
Print Assumptions C10_sets_match_standard.

Theorem C10_forbidden_tables_match_standard : forall cp : N,
  isForbiddenHost cp = forbidden_host_cp cp /\ isForbiddenDomain cp = forbidden_domain_cp cp.
Proof. intros cp. split; [exact (forbidden_host_table cp)|exact (forbidden_domain_table cp)]. Qed.
Print Assumptions C10_forbidden_tables_match_standard.

Theorem C10_class_tables_match_standard : forall cp : N,
  isTabOrNewline cp = ascii_tab_or_newline cp /\ isDigit cp = ascii_digit cp /\ isHexDigit cp = ascii_hex_digit cp /\
  isAlpha cp = ascii_alpha cp /\ isAlnum cp = ascii_alphanumeric cp /\
  negb (RuneNotInSet pes_C0OrSpace cp) = c0_control_or_space cp.
Proof. intros cp. repeat split; [exact (tab_or_newline_table cp)|exact (digit_table cp)|exact (hex_table cp)|exact (alpha_table cp)|exact (alnum_table cp)|exact (c0_or_space_trim cp)]. Qed.
Print Assumptions C10_class_tables_match_standard.

(* Deriving: the derived set is a new value whose membership is the original's plus / minus the given bits *)
Theorem C10_derive_set : forall p bs cp, RuneShouldBeEncoded (pes_set p bs) cp = RuneShouldBeEncoded p cp || mem cp bs.
Proof. exact pes_set_spec. Qed.
Print Assumptions C10_derive_set.
Theorem C10_derive_clear : forall p bs cp,
  RuneShouldBeEncoded (pes_clear p bs) cp = (cp <? ab p) || (126 <? cp) || (bs_test (bits p) cp && negb (mem cp bs)).
Proof. exact pes_clear_spec. Qed.
Print Assumptions C10_derive_clear.

Example C10_nonvacuous : RuneShouldBeEncoded pes_Path 63 = true /\ RuneShouldBeEncoded pes_Query 63 = false /\ RuneShouldBeEncoded pes_UserInfo 8364 = true.
Proof. vm_compute. repeat split. Qed.

(* ---------- string-level laws (proofs in Proofs/Utf8Proofs.v, Proofs/CodecProofs.v) ---------- *)
From Verif Require Import Lib.Utf8 Model.Percent Gen.Options Proofs.Utf8Proofs Proofs.CodecProofs.

(* shape: upper-case-hex escapes of the UTF-8 bytes of exactly the members; every other code point untouched *)
Theorem C10_encode_shape : forall c, c_latin1 c = false -> forall tr s,
  c_singlePct c = false \/ RuneShouldBeEncoded tr 37 = true \/ pct_ok (runes s) = true ->
  PercentEncodeString c s tr =
  flat_map (fun r => if RuneShouldBeEncoded tr r then flat_map pct_byte (utf8_enc r) else utf8_enc r) (runes s).
Proof. exact encode_shape. Qed.
Print Assumptions C10_encode_shape.

Theorem C10_escape_is_upper_hex : forall b, b < 256 ->
  exists h l, pct_byte b = [37; h; l] /\ is_uhex h = true /\ is_uhex l = true /\ hex_val h * 16 + hex_val l = b.
Proof. exact pct_byte_shape. Qed.
Print Assumptions C10_escape_is_upper_hex.

(* no code point of the set is left unencoded *)
Theorem C10_no_member_left : forall c, c_latin1 c = false -> forall tr, RuneShouldBeEncoded tr 37 = false ->
  (forall h, is_uhex h = true -> RuneShouldBeEncoded tr h = false) ->
  forall s, Forall (fun r => RuneShouldBeEncoded tr r = false) (runes (PercentEncodeString c s tr)).
Proof. exact encode_no_member. Qed.
Print Assumptions C10_no_member_left.

Theorem C10_encode_idempotent : forall c, c_latin1 c = false -> forall tr, RuneShouldBeEncoded tr 37 = false ->
  (forall h, is_hex h = true -> RuneShouldBeEncoded tr h = false) ->
  forall s, PercentEncodeString c (PercentEncodeString c s tr) tr = PercentEncodeString c s tr.
Proof. exact encode_idempotent_any. Qed.
Print Assumptions C10_encode_idempotent.

(* decoding inverts encoding whenever '%' is in the set ... *)
Theorem C10_decode_inverts_encode : forall c, c_latin1 c = false -> forall tr s, RuneShouldBeEncoded tr 37 = true ->
  DecodePercentEncoded c (PercentEncodeString c s tr) = to_valid s.
Proof. exact decode_encode_inverse. Qed.
Print Assumptions C10_decode_inverts_encode.

(* ... and otherwise decoding the encoded string equals decoding the original *)
Theorem C10_decode_encoded_eq_decode : forall c, c_latin1 c = false -> forall tr, RuneShouldBeEncoded tr 37 = false ->
  (forall h, is_hex h = true -> RuneShouldBeEncoded tr h = false) ->
  forall s, DecodePercentEncoded c (PercentEncodeString c s tr) = DecodePercentEncoded c (to_valid s).
Proof. exact decode_encode_eq. Qed.
Print Assumptions C10_decode_encoded_eq_decode.

(* UTF-8: the encoder/decoder pair of the model round-trips on scalar values; invalid bytes read as U+FFFD *)
Theorem C10_utf8_roundtrip : forall l, Forall scalar l -> runes (encode_runes l) = l.
Proof. exact runes_encode_runes. Qed.
Print Assumptions C10_utf8_roundtrip.

(* the premises are met by the code's own sets and default options *)
Example C10_premises_met : c_latin1 default_cfg = false /\ RuneShouldBeEncoded pes_Path 37 = false /\
  RuneShouldBeEncoded pes_UserInfo 37 = false /\ RuneShouldBeEncoded (pes_set pes_Path [37]) 37 = true.
Proof. vm_compute. repeat split. Qed.
