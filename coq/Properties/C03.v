(* C03 - serialize-then-parse is the identity on every reachable URL.
   Proofs/RoundTrip*.v: a library of phase lemmas (scheme, credentials, host/port with the rewind, path, opaque path,
   file states) composed into: for every record u that satisfies the record invariant of C04 (Inv) and the stability
   conditions Stable, parsing the serialization of u succeeds and gives back every component of u. Every parse result
   satisfies stable_b (a new machine invariant, Proofs/RoundTripStable.v), hence the round trip for everything Parse
   returns. What remains a hypothesis is host_fixed: the host is a fixed point of the host parser - for a domain that is
   a property of the IDNA oracle, and it is exactly where the known finding D6 lives (http://a≠b/: the ASCII fall-back
   produces an ACE label that the strict profile rejects).
   The stability conditions are exactly the places where the standard's own algorithms do not round-trip: each is shown
   necessary by a witness record (Proofs/RoundTripNeeded.v: dot segments, backslash in a special path, file URL with a
   non-normalised drive letter, file URL with host localhost, opaque path with '?' / '#' / trailing space, cached port).
   cfg_rt: no reporting / fail-on-error / single-percent / collapse options, no pre-parse host function, 'file' special,
   encode sets containing C0, space and the delimiters they must contain; true of the generated default options. *)
From Verif Require Import Lib.Base Lib.Utf8 Lib.GoStr Model.Cfg Gen.Tables Gen.Options Model.Url Model.Host Model.Machine Model.Api Model.Preds.
From Verif Require Proofs.DiagBase.
From Verif Require Import Proofs.RecordInv Proofs.MachineInv Proofs.HostProofs Proofs.RoundTripBase Proofs.RoundTrip Proofs.RoundTripStable Proofs.RoundTripParse Proofs.RoundTripNeeded Proofs.RoundTripHosts Proofs.RoundTripSetters.
From Verif Require Model.Obs.

(* everything the parser returns *)
Theorem C03_parse_roundtrip : forall idna_raw, H3 idna_raw -> forall c, cfg_okm c = true -> cfg_rt c = true ->
  forall x u, Parse idna_raw c x = PUrl u -> host_fixed idna_raw c u ->
  exists s u', Href u false = Some s /\ Parse idna_raw c s = PUrl u' /\ same_components u' u.
Proof. exact parse_roundtrip. Qed.
Print Assumptions C03_parse_roundtrip.

(* ... and the serialization is reproduced: parse ; serialize ; parse ; serialize = parse ; serialize *)
Theorem C03_parse_serialize_idempotent : forall idna_raw, H3 idna_raw -> forall c, cfg_okm c = true -> cfg_rt c = true ->
  forall x u, Parse idna_raw c x = PUrl u -> host_fixed idna_raw c u ->
  exists s u', Href u false = Some s /\ Parse idna_raw c s = PUrl u' /\ Href u' false = Some s.
Proof. exact parse_serialize_idempotent. Qed.
Print Assumptions C03_parse_serialize_idempotent.

(* no hypothesis on the host for non-special schemes (opaque hosts), unless the host is an IPv6 literal *)
Theorem C03_parse_roundtrip_nonspecial : forall idna_raw, H3 idna_raw -> forall c, cfg_okm c = true -> cfg_rt c = true ->
  forall x u, Parse idna_raw c x = PUrl u -> IsSpecialScheme c u = false ->
  (forall h, u_host u = Some h -> is_bracketed h = false) ->
  exists s u', Href u false = Some s /\ Parse idna_raw c s = PUrl u' /\ same_components u' u.
Proof. exact parse_roundtrip_nonspecial. Qed.
Print Assumptions C03_parse_roundtrip_nonspecial.

(* every record with the invariant and the stability conditions, however it was reached (setters included) *)
Theorem C03_record_roundtrip : forall idna_raw c, cfg_rt c = true -> forall u s,
  Inv c u -> Stable idna_raw c u -> Href u false = Some s -> Parse idna_raw c s = PUrl (rt_url u s).
Proof. exact roundtrip_strong. Qed.
Print Assumptions C03_record_roundtrip.

(* every parse result is stable *)
Theorem C03_parse_results_stable : forall idna_raw c x u,
  cfg_rt c = true -> Parse idna_raw c x = PUrl u -> stable_b c u = true.
Proof. exact Parse_stable. Qed.
Print Assumptions C03_parse_results_stable.

(* with validation-error reporting on *)
Theorem C03_roundtrip_reporting : forall idna_raw c u s,
  cfg_rt (Verif.Proofs.DiagBase.with_report c false) = true ->
  Inv c u -> stable_b c u = true -> host_fixed idna_raw (Verif.Proofs.DiagBase.with_report c false) u -> Href u false = Some s ->
  exists u', Parse idna_raw c s = PUrl u' /\ same_components u' u.
Proof. exact roundtrip_reporting. Qed.
Print Assumptions C03_roundtrip_reporting.

(* host_fixed discharged wherever it does not depend on the IDNA oracle (Proofs/RoundTripHosts.v): IPv6 literals, IPv4
   addresses, opaque hosts, and pure-ASCII domains without an ACE label under H1 (ASCII transparency of the oracle, tested
   on every run). What is left is ace_residue: a special-scheme host with an xn-- label must be a fixed point of the
   host parser - a property of the IDNA library, and false for it: see C03_ace_residue_needed (known finding D6). *)
Theorem C03_parse_roundtrip_full : forall idna_raw, H3 idna_raw -> oracle_ascii_transparent idna_raw ->
  forall c, cfg_okm c = true -> cfg_rt c = true -> c_latin1 c = false ->
  forall x u, Parse idna_raw c x = PUrl u -> ace_residue idna_raw c u ->
  exists s u', Href u false = Some s /\ Parse idna_raw c s = PUrl u' /\ same_components u' u.
Proof. exact parse_roundtrip_full. Qed.
Print Assumptions C03_parse_roundtrip_full.

(* no hypothesis about the host at all when no label starts with xn-- *)
Theorem C03_parse_roundtrip_no_ace : forall idna_raw, H3 idna_raw -> oracle_ascii_transparent idna_raw ->
  forall c, cfg_okm c = true -> cfg_rt c = true -> c_latin1 c = false ->
  forall x u, Parse idna_raw c x = PUrl u -> (forall h, u_host u = Some h -> no_ace h = true) ->
  exists s u', Href u false = Some s /\ Parse idna_raw c s = PUrl u' /\ same_components u' u.
Proof. exact parse_roundtrip_no_ace. Qed.
Print Assumptions C03_parse_roundtrip_no_ace.

(* the second sentence of the property: every state reached through any sequence of setter calls round-trips, except
   after an exceptional step. setter_SO: every setter keeps the stability conditions and the provenance of the host, and
   the ONLY exceptions are the protocol setter (w = 0) switching a non-file URL to file while the first path segment is a
   drive letter written with '|' (the instance the property names) or while the host is localhost (a second instance of
   the same kind: the standard's scheme setter allows it, and file://localhost/x re-parses to the empty host). *)
Theorem C03_setters_keep_stability : forall idna_raw, H3 idna_raw -> forall c, cfg_okm c = true -> cfg_rt c = true ->
  forall w u v u', Inv c u -> stable_b c u = true -> HP idna_raw c u -> Verif.Model.Obs.setter idna_raw c w u v = Some u' ->
  HP idna_raw c u' /\ (stable_b c u' = true \/ (w = 0 /\ proto_exception c u u')).
Proof. exact setter_SO. Qed.
Print Assumptions C03_setters_keep_stability.

Theorem C03_history_roundtrip : forall idna_raw, H3 idna_raw -> forall c, cfg_okm c = true -> cfg_rt c = true ->
  oracle_ascii_transparent idna_raw -> c_latin1 c = false ->
  forall x u0 ops uf, Parse idna_raw c x = PUrl u0 -> run_setters idna_raw c u0 ops = Some uf ->
  ~ exc_in idna_raw c u0 ops -> ace_residue idna_raw c uf ->
  exists s u', Href uf false = Some s /\ Parse idna_raw c s = PUrl u' /\ same_components u' uf.
Proof. exact history_roundtrip. Qed.
Print Assumptions C03_history_roundtrip.

(* the residue is needed: an oracle that behaves like x/net/idna on "a≠b" (maps it to xn--ab-miv with an error, rejects
   xn--ab-miv) satisfies H3 and H1, Parse accepts http://a≠b/p, and the serialization does not parse *)
Theorem C03_ace_residue_needed :
  H3 idna_d6 /\ oracle_ascii_transparent idna_d6 /\ cfg_okm default_cfg = true /\ cfg_rt default_cfg = true /\
  exists x u s e,
    Parse idna_d6 default_cfg x = PUrl u /\ u_host u = Some s_ace_ab /\ no_ace s_ace_ab = false /\
    Href u false = Some s /\ Parse idna_d6 default_cfg s = PErr e /\ e_type e = DomainToASCII /\
    ~ ace_residue idna_d6 default_cfg u.
Proof. exact ace_residue_needed. Qed.
Print Assumptions C03_ace_residue_needed.

(* the premises are met by the generated default configuration; a concrete run is RoundTripParse.parse_roundtrip_ex *)
Example C03_premises_met : cfg_rt default_cfg = true /\ cfg_okm default_cfg = true.
Proof. split; [exact cfg_rt_default|vm_compute; reflexivity]. Qed.
