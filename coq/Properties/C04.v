(* C04 - Every reachable URL is a well-formed URL record with coherent getters.
   inv_obs (Model/Preds.v) is the 16-clause executable form of the property over the observable getter
   values; the same function is evaluated by the harness on the implementation's getters after every
   operation. Proofs in Proofs/RecordInv.v (record invariant => observable clauses) and
   Proofs/MachineInv.v (21 parser states, 10 override states, setters, histories).
   H3 is the oracle hypothesis (IDNA output used by the host parser is lower-case ASCII and non-empty);
   cfg_okm c is a decidable side condition that the default configuration satisfies. *)
From Verif Require Import Lib.Base Model.Cfg Model.Url Model.Machine Model.Api Model.Obs Model.Preds Gen.Options Proofs.RecordInv Proofs.MachineInv.

(* the record invariant implies all 16 observable clauses *)
Theorem C04_invariant_implies_clauses : forall c u, cfg_ok c = true -> Inv c u -> inv_obs c (obs_url c u) = [].
Proof. exact Inv_inv_obs. Qed.
Print Assumptions C04_invariant_implies_clauses.

(* every parse result, with or without base, satisfies it *)
Theorem C04_parse : forall idna_raw, H3 idna_raw -> forall c, cfg_okm c = true ->
  forall raw ref u, ParseRef idna_raw c raw ref = PUrl u -> Inv c u /\ inv_obs c (obs_url c u) = [].
Proof.
  intros idna_raw H c Hc raw ref u E. split; [exact (ParseRef_Inv idna_raw H c Hc raw ref u E)|].
  exact (proj1 (ParseRef_obs idna_raw H c Hc raw ref u E)).
Qed.
Print Assumptions C04_parse.

(* every setter preserves it (whatever the value: an invalid or inapplicable value leaves a well-formed record) *)
Theorem C04_setters : forall idna_raw, H3 idna_raw -> forall c, cfg_okm c = true -> c_fail c = false ->
  forall w u v u', Inv c u -> setter idna_raw c w u v = Some u' -> Inv c u' /\ inv_obs c (obs_url c u') = [].
Proof.
  intros idna_raw H c Hc Hf w u v u' I E. split; [exact (setter_Inv idna_raw H c Hc Hf w u v u' I E)|].
  exact (proj1 (setter_obs idna_raw H c Hc Hf w u v u' I E)).
Qed.
Print Assumptions C04_setters.

(* resolution of a further reference against the current URL preserves it *)
Theorem C04_resolve : forall idna_raw, H3 idna_raw -> forall c, cfg_okm c = true ->
  forall b ref u, Inv c b -> UrlParse idna_raw c b ref = PUrl u -> Inv c u.
Proof. exact UrlParse_Inv. Qed.
Print Assumptions C04_resolve.

(* every finite history of parses, setters, resolutions and clones: every observed slot satisfies both predicates *)
Theorem C04_histories : forall idna_raw, H3 idna_raw -> forall c, cfg_okm c = true -> c_fail c = false ->
  forall b input ops, forallb (fun o => negb (sp_mutation o)) ops = true ->
  match fst (history idna_raw c b input ops) with OUrl l => slot_ok c l | _ => True end /\
  Forall (fun x : list str * list str * list str => slot_ok c (snd (fst x)) /\ slot_ok c (snd x)) (snd (history idna_raw c b input ops)).
Proof. exact history_ok. Qed.
Print Assumptions C04_histories.

(* outside the property's quantifier, recorded because the proof exposed it: a SearchParams mutation on a special
   URL can leave an apostrophe in the query, which the special-query set would encode (the serializer uses the
   non-special query set) *)
Theorem C04_searchparams_mutation_refuted : exists c u l,
  sp_chars_ok (c_querySet c) = true /\ Inv c u /\ inv_obs c (obs_url c (sp_update c u l)) = [10] /\ ~ Inv c (sp_update c u l).
Proof. exact sp_update_Inv_refuted. Qed.
Print Assumptions C04_searchparams_mutation_refuted.

Example C04_default_cfg_qualifies : cfg_okm default_cfg = true /\ c_fail default_cfg = false.
Proof. split; [exact cfg_okm_default|reflexivity]. Qed.

(* ---------- beyond the property's quantifier: the routes that write the query back from the parameter list ----------
   (Proofs/WriteBackInv.v). SearchParams mutations and the canonicalization profiles serialize the list with the query
   set for every scheme, so clause 10 fails for an apostrophe in a special URL's query (the refuted statement above).
   Inv_wb is the record invariant with that one clause read with the set the write-back uses; it is what the harness
   evaluates on these routes, and it is kept by EVERY operation. *)
From Verif Require Import Model.Canon Proofs.CanonTotal Proofs.WriteBackInv.

Theorem C04_strong_implies_write_back_invariant : forall c u, q_sub c -> Inv c u -> Inv_wb c u.
Proof. exact Inv_Inv_wb. Qed.
Print Assumptions C04_strong_implies_write_back_invariant.

Theorem C04_write_back_keeps_invariant : forall c u l, sp_chars_ok (c_querySet c) = true -> Inv_wb c u -> Inv_wb c (sp_update c u l).
Proof. exact sp_update_Inv_wb. Qed.
Print Assumptions C04_write_back_keeps_invariant.

(* every step of a history - setters, resolutions, clones AND search-parameter mutations - keeps it in both slots *)
Theorem C04_history_step_with_mutations : forall idna_raw, H3 idna_raw -> forall c, cfg_okm c = true -> c_fail c = false -> q_sub c ->
  forall s o, hinv_wb c s -> (sp_mutation o = true -> sp_chars_ok (c_querySet c) = true) ->
  hinv_wb c (fst (hstep idna_raw c s o)).
Proof. exact hstep_Inv_wb. Qed.
Print Assumptions C04_history_step_with_mutations.

(* what a canonicalization profile returns *)
Theorem C04_profile_results : forall idna_raw p x u',
  H3 idna_raw -> cfg_okm (p_cfg p) = true -> c_fail (p_cfg p) = false -> q_sub (p_cfg p) ->
  sp_chars_ok (c_querySet (p_cfg p)) = true ->
  ProfileParse idna_raw p x = CUrl u' -> Inv_wb (p_cfg p) u'.
Proof. exact ProfileParse_Inv_wb. Qed.
Print Assumptions C04_profile_results.

(* on the observables: all clauses hold except possibly clause 10, and the query is printable ASCII outside the query set *)
Theorem C04_write_back_observables : forall c u, cfg_ok c = true -> Inv_wb c u ->
  (inv_obs c (obs_url c u) = [] \/ inv_obs c (obs_url c u) = [10]) /\
  none_in (c_querySet c) (Query u) = true /\ forallb printable (Query u) = true.
Proof. exact Inv_wb_inv_obs_strict. Qed.
Print Assumptions C04_write_back_observables.

Example C04_write_back_premises_met : q_sub default_cfg /\ sp_chars_ok (c_querySet default_cfg) = true.
Proof. exact (conj q_sub_default (proj1 (proj2 (proj2 (proj2 wb_premises_default))))). Qed.
