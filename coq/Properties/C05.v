(* C05 - the setters implement the standard's API setter algorithms.
   For each of the nine setters: applied to records related by R (hence, by C01_getters_agree, with the same
   serialization and the same ten getters), the model's setter and the Spec's setter steps (Spec/Setters.v, transcribed
   from the standard, validated on all WPT setter vectors on every run) both return, with related records again, for EVERY
   value string (setter_ok; the Spec's own fuel is shown sufficient). The setters that run the basic parser with a state
   override rest on the same 21 one-step simulations as C01. The lift to EVERY finite sequence of setter calls after any
   parse (with or without base) is C05_parse_then_setters / C05_parse_ref_then_setters: the records, hence the
   serialization and every getter, agree after every prefix of the sequence.
   m_hist / s_hist: the records after each call of the sequence, on the model and on the Spec (None if a call does not
   return a record; the theorems say both are Some). An operation is a pair (setter number 0..8 = protocol, username,
   password, host, hostname, port, pathname, search, hash; value). *)
From Verif Require Import Lib.Base Lib.Utf8 Lib.GoStr Model.Cfg Gen.Tables Gen.Options Model.Url Model.Host Model.Machine Model.Api.
From Verif Require Model.Obs.
From Verif Require Spec.Url Spec.Host Spec.BasicParser Spec.Setters.
From Verif Require Import Proofs.RefineCodec Proofs.RefineUrl Proofs.RefineHost Proofs.RefineMachineBase Proofs.RefineMachineHost Proofs.RefineMachine Proofs.RefineApi Proofs.RefineTotal.
From Verif Require Proofs.MachineInv Proofs.RecordInv.

(* every finite sequence of setter calls after any parse *)
Theorem C05_parse_then_setters : forall idna_raw c, std_cfg c -> oracle_ok idna_raw c -> Verif.Proofs.MachineInv.H3 idna_raw ->
  forall s ops,
  match Parse idna_raw c s, SS.url_parse (dta idna_raw c) (runes s) None with
  | PUrl u, SB.Done su =>
      same_observables u su /\
      exists lu ls, m_hist idna_raw c u ops = Some lu /\ s_hist idna_raw c su ops = Some ls /\ Forall2 same_observables lu ls
  | PErr _, SB.Failed _ => True
  | _, _ => False
  end.
Proof. exact Parse_then_setters_observables. Qed.
Print Assumptions C05_parse_then_setters.

Theorem C05_parse_ref_then_setters : forall idna_raw c, std_cfg c -> oracle_ok idna_raw c -> Verif.Proofs.MachineInv.H3 idna_raw ->
  forall rawUrl ref ops,
  match ParseRef idna_raw c rawUrl ref,
        SS.api_url_parse (dta idna_raw c) (runes ref) (match rawUrl with [] => None | _ => Some (runes rawUrl) end) with
  | PUrl u, SS.ApiOk su =>
      same_observables u su /\
      exists lu ls, m_hist idna_raw c u ops = Some lu /\ s_hist idna_raw c su ops = Some ls /\ Forall2 same_observables lu ls
  | PErr _, SS.ApiFailure | PErr _, SS.ApiBaseFailure => True
  | _, _ => False
  end.
Proof. exact ParseRef_then_setters_observables. Qed.
Print Assumptions C05_parse_ref_then_setters.

(* from any record satisfying the record invariant (every parse result does), related records stay related *)
Theorem C05_setters_conform : forall idna_raw c, std_cfg c -> oracle_ok idna_raw c -> Verif.Proofs.MachineInv.H3 idna_raw ->
  forall ops u su, Verif.Proofs.RecordInv.Inv c u -> R u su ->
  exists lu ls, m_hist idna_raw c u ops = Some lu /\ s_hist idna_raw c su ops = Some ls /\ Forall2 R lu ls /\
                Forall (Verif.Proofs.RecordInv.Inv c) lu.
Proof. exact setters_conform. Qed.
Print Assumptions C05_setters_conform.

(* one call, by setter number *)
Theorem C05_setter_conforms : forall idna_raw c, std_cfg c -> oracle_ok idna_raw c -> forall w u su v,
  R u su -> file_host_ok su ->
  setter_ok (Verif.Model.Obs.setter idna_raw c w u v) (SS.apply_setter (dta idna_raw c) w su (runes v)).
Proof. exact setter_conforms. Qed.
Print Assumptions C05_setter_conforms.

Theorem C05_protocol_setter : forall idna_raw c, std_cfg c -> oracle_ok idna_raw c -> forall u su s,
  R u su -> file_host_ok su -> setter_ok (SetProtocol idna_raw c u s) (SS.set_protocol (dta idna_raw c) su (runes s)).
Proof. exact SetProtocol_conforms. Qed.
Print Assumptions C05_protocol_setter.

Theorem C05_username_setter : forall c, std_cfg c -> forall u su s,
  R u su -> setter_ok (SetUsername c u s) (SS.set_username su (runes s)).
Proof. exact SetUsername_conforms. Qed.
Print Assumptions C05_username_setter.

Theorem C05_password_setter : forall c, std_cfg c -> forall u su s,
  R u su -> setter_ok (SetPassword c u s) (SS.set_password su (runes s)).
Proof. exact SetPassword_conforms. Qed.
Print Assumptions C05_password_setter.

Theorem C05_host_setter : forall idna_raw c, std_cfg c -> oracle_ok idna_raw c -> forall u su s,
  R u su -> setter_ok (SetHost idna_raw c u s) (SS.set_host (dta idna_raw c) su (runes s)).
Proof. exact SetHost_conforms. Qed.
Print Assumptions C05_host_setter.

Theorem C05_hostname_setter : forall idna_raw c, std_cfg c -> oracle_ok idna_raw c -> forall u su s,
  R u su -> setter_ok (SetHostname idna_raw c u s) (SS.set_hostname (dta idna_raw c) su (runes s)).
Proof. exact SetHostname_conforms. Qed.
Print Assumptions C05_hostname_setter.

Theorem C05_port_setter : forall idna_raw c, std_cfg c -> oracle_ok idna_raw c -> forall u su s,
  R u su -> setter_ok (SetPort idna_raw c u s) (SS.set_port (dta idna_raw c) su (runes s)).
Proof. exact SetPort_conforms. Qed.
Print Assumptions C05_port_setter.

Theorem C05_pathname_setter : forall idna_raw c, std_cfg c -> oracle_ok idna_raw c -> forall u su s,
  R u su -> setter_ok (SetPathname idna_raw c u s) (SS.set_pathname (dta idna_raw c) su (runes s)).
Proof. exact SetPathname_conforms. Qed.
Print Assumptions C05_pathname_setter.

Theorem C05_search_setter : forall idna_raw c, std_cfg c -> oracle_ok idna_raw c -> forall u su s,
  R u su -> setter_ok (SetSearch idna_raw c u s) (SS.set_search (dta idna_raw c) su (runes s)).
Proof. exact SetSearch_conforms. Qed.
Print Assumptions C05_search_setter.

Theorem C05_hash_setter : forall idna_raw c, std_cfg c -> oracle_ok idna_raw c -> forall u su s,
  R u su -> setter_ok (SetHash idna_raw c u s) (SS.set_hash (dta idna_raw c) su (runes s)).
Proof. exact SetHash_conforms. Qed.
Print Assumptions C05_hash_setter.

(* a run of the basic parser on an existing record with any state override never ends for lack of fuel on the Spec's side *)
Theorem C05_override_never_out_of_fuel : forall idna_raw c, std_cfg c -> oracle_ok idna_raw c -> forall x base sbase u su st,
  base_rel base sbase -> base_wf sbase ->
  st_rel true sbase st (-1) [] u (SB.mkM su (st_map st) [] false false false 0) ->
  SB.basic_url_parse (dta idna_raw c) (runes x) sbase (Some su) (Some (st_map st)) <> SB.OutOfFuel.
Proof. exact override_no_fuel. Qed.
Print Assumptions C05_override_never_out_of_fuel.

Example C05_premises_met : std_cfg default_cfg /\ oracle_ok ascii_idna default_cfg /\ Verif.Proofs.MachineInv.H3 ascii_idna.
Proof. exact total_premises. Qed.
