(* C11 - SearchParams is an ordered multimap with a faithful form-urlencoded codec.
   Statements only; proofs in Proofs/SearchParamsProofs.v. *)
From Coq Require Import Permutation Sorted.
From Verif Require Import Lib.Base Lib.Utf8 Lib.GoStr Model.Cfg Model.Url Model.Api Gen.Tables Gen.Options Proofs.SearchParamsProofs.

(* the list operations of the model are the standard's list operations (spec_* are defined in the proofs file in the standard's words) *)
Theorem C11_list_operations : forall (l : list pair) n v,
  sp_append l n v = spec_append l n v /\ sp_delete l n = spec_delete l n /\ sp_get l n = spec_get l n /\
  sp_getall l n = spec_getall l n /\ (sp_has l n = true <-> spec_has l n) /\ sp_set l n v = spec_set l n v.
Proof. intros. exact (conj (sp_append_spec l n v) (conj (sp_delete_spec l n) (conj (sp_get_spec l n) (conj (sp_getall_spec l n) (conj (sp_has_spec l n) (sp_set_spec l n v)))))). Qed.
Print Assumptions C11_list_operations.

(* set: first occurrence replaced in place, later ones removed, other names untouched and in order; absent => appended *)
Theorem C11_set_in_place : forall (l1 l2 : list pair) n w v, (forall p, In p l1 -> fst p <> n) ->
  sp_set (l1 ++ (n, w) :: l2) n v = l1 ++ (n, v) :: spec_delete l2 n.
Proof. exact sp_set_present. Qed.
Print Assumptions C11_set_in_place.
Theorem C11_set_absent : forall (l : list pair) n v, (forall p, In p l -> fst p <> n) -> sp_set l n v = l ++ [(n, v)].
Proof. exact sp_set_absent. Qed.
Print Assumptions C11_set_absent.

(* sort by name: a permutation, sorted by byte-wise name order, stable; and it is THE list with these three properties *)
Theorem C11_sort_is_the_stable_sort : forall l : list pair,
  Permutation l (sp_sort l) /\
  StronglySorted (fun a b : pair => str_ltb (fst b) (fst a) = false) (sp_sort l) /\
  (forall n, filter (fun p : pair => str_eqb (fst p) n) (sp_sort l) = filter (fun p => str_eqb (fst p) n) l) /\
  (forall l', Permutation l l' -> StronglySorted (fun a b : pair => str_ltb (fst b) (fst a) = false) l' ->
     (forall n, filter (fun p : pair => str_eqb (fst p) n) l' = filter (fun p => str_eqb (fst p) n) l) -> l' = sp_sort l).
Proof. intros l. exact (conj (sp_sort_perm l) (conj (sp_sort_sorted l) (conj (fun n => sp_sort_stable n l) (sp_sort_unique l)))). Qed.
Print Assumptions C11_sort_is_the_stable_sort.

Theorem C11_sort_by_name_and_value : forall l : list pair,
  Permutation l (sp_sort_abs l) /\ sp_sort_abs (sp_sort_abs l) = sp_sort_abs l.
Proof. intros l. split; [apply sp_sort_abs_perm|apply sp_sort_abs_idem]. Qed.
Print Assumptions C11_sort_by_name_and_value.

(* serializing a list of pairs and parsing the result returns the same list - for pairs of valid UTF-8 without a
   '%' followed by two hex digits (pair_ok); the unrestricted statement is false of the code: known finding D8b *)
Theorem C11_roundtrip : forall c l, c_latin1 c = false -> forallb (pair_ok c) l = true -> sp_init c (sp_string c l) = l.
Proof. exact sp_roundtrip. Qed.
Print Assumptions C11_roundtrip.

Theorem C11_roundtrip_refuted_D8b : exists l : list pair,
  forallb (fun nv : pair => valid_utf8 (fst nv) && valid_utf8 (snd nv)) l = true /\
  sp_init default_cfg (sp_string default_cfg l) <> l.
Proof. exact sp_roundtrip_refuted. Qed.
Print Assumptions C11_roundtrip_refuted_D8b.

Example C11_roundtrip_premises_met :
  forallb (pair_ok default_cfg) [([97;38;98], [99;61;100]); ([], [32;43]); ([195;169], [37])] = true.
Proof. vm_compute. reflexivity. Qed.

(* "Initialising it from a query follows application/x-www-form-urlencoded parsing": the model's initialisation against
   the independent transcription of the standard's section 5 (Spec/UrlEncoded.v; Proofs/UrlEncodedRefine.v, UrlEncodedRefine2.v).
   Splitting on '&', skipping empty sequences, cutting at the first '=', '+' to space and percent-decoding coincide for EVERY
   query (sp_init_bytes); names and values equal the standard's whenever the percent-decoded bytes are valid UTF-8, and in
   general exactly when Go's reading of invalid bytes (one U+FFFD per byte, which is what the property says) and the
   Encoding Standard's (one U+FFFD per maximal ill-formed subsequence) agree - they always agree up to runs of U+FFFD. *)
From Verif Require Import Spec.PercentCodec Spec.UrlEncoded Proofs.UrlEncodedRefine Proofs.UrlEncodedRefine2.

Theorem C11_init_structure_is_the_standards : forall c q, c_latin1 c = false ->
  sp_init c q = map (both (sp_scalar c)) (urlencoded_parse_bytes q).
Proof. exact sp_init_bytes. Qed.
Print Assumptions C11_init_structure_is_the_standards.

Theorem C11_init_is_urlencoded_parse : forall c q, c_latin1 c = false -> utf8_ok_query q = true ->
  sp_init c q = map (fun nv => (utf8_of_codepoints (fst nv), utf8_of_codepoints (snd nv))) (urlencoded_parse q).
Proof. exact sp_init_is_urlencoded_parse. Qed.
Print Assumptions C11_init_is_urlencoded_parse.

Theorem C11_init_is_urlencoded_parse_iff : forall c q, c_latin1 c = false -> c_acceptInvalid c = false ->
  (sp_init c q = map (both utf8_of_codepoints) (urlencoded_parse q) <-> decoders_agree_on q).
Proof. exact sp_init_is_urlencoded_parse_iff. Qed.
Print Assumptions C11_init_is_urlencoded_parse_iff.

Theorem C11_init_is_urlencoded_parse_up_to_replacement_runs : forall c q, c_latin1 c = false ->
  map (both (fun s => squash (runes s))) (sp_init c q) = map (both squash) (urlencoded_parse q).
Proof. exact sp_init_urlencoded_parse_squash. Qed.
Print Assumptions C11_init_is_urlencoded_parse_up_to_replacement_runs.

(* the unrestricted equation is false: "%E2%82A" gives U+FFFD U+FFFD A in Go's reading, U+FFFD A in the Encoding Standard's *)
Theorem C11_init_per_byte_replacement_refuted : ~ sp_init_is_urlencoded_parse_full.
Proof. exact sp_init_is_urlencoded_parse_refuted. Qed.
Print Assumptions C11_init_per_byte_replacement_refuted.

(* the standard's parser reads the model's serialization back as the list (same premises as C11_roundtrip) *)
Theorem C11_standard_parser_reads_model_serialization : forall c l, c_latin1 c = false -> forallb (pair_ok c) l = true ->
  urlencoded_parse (sp_string c l) = map (fun nv => (codepoints_of_utf8 (fst nv), codepoints_of_utf8 (snd nv))) l.
Proof. exact spec_parse_of_model_string. Qed.
Print Assumptions C11_standard_parser_reads_model_serialization.

(* the serializers differ (the code escapes with the query set plus & = +, the standard with the urlencoded set), on exactly
   21 code points, and never in what the standard's parser reads back *)
Theorem C11_serializers_differ_exactly : forall c r, c_latin1 c = false -> c_querySet c = pes_Query ->
  (qe_chunk c r = ue [r] <-> ~ In r differing_code_points).
Proof. exact serializers_differ_exactly. Qed.
Print Assumptions C11_serializers_differ_exactly.

Theorem C11_serializers_read_back_alike : forall c l, c_latin1 c = false -> forallb (pair_ok c) l = true ->
  urlencoded_parse (sp_string c l) = urlencoded_parse (urlencoded_serialize (map (both runes) l)).
Proof. exact serializers_same_parse. Qed.
Print Assumptions C11_serializers_read_back_alike.

Theorem C11_standard_roundtrip : forall t, Forall scalar_tuple t -> urlencoded_parse (urlencoded_serialize t) = t.
Proof. exact spec_roundtrip. Qed.
Print Assumptions C11_standard_roundtrip.

