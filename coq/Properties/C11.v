(* C11 - SearchParams is an ordered multimap with a faithful form-urlencoded codec.
   Statements only; proofs in Proofs/SearchParamsProofs.v. *)
From Coq Require Import Permutation Sorted.
From Verif Require Import Lib.Base Lib.Utf8 Lib.GoStr Model.Cfg Model.Url Model.Api Gen.Tables Gen.Options Proofs.SearchParamsProofs.

(* the list operations of the model are the standard's list operations (spec_* are defined in the proofs file in the standard's words) *)
Theorem C11_list_operations : forall (l : list pair) n v,
  sp_append l n v = spec_append l n v /\ sp_delete l n = spec_delete l n /\ sp_get l n = spec_get l n /\
  sp_getall l n = spec_getall l n /\ (sp_has l n = true <-> spec_has l n) /\ sp_set l n v = spec_set l n v.
Proof. intros. exact (conj (sp_append_spec l n v) (conj (sp_delete_spec l n) (conj (sp_get_spec l n) (conj (sp_getall_spec l n) (conj (sp_has_spec l n) (sp_set_spec l n v)))))). Qed.
Print Assumptions C11_list_operations.

(* set: first occurrence replaced in place, later ones removed, other names untouched and in order; absent => appended *)
Theorem C11_set_in_place : forall (l1 l2 : list pair) n w v, (forall p, In p l1 -> fst p <> n) ->
  sp_set (l1 ++ (n, w) :: l2) n v = l1 ++ (n, v) :: spec_delete l2 n.
Proof. exact sp_set_present. Qed.
Print Assumptions C11_set_in_place.
Theorem C11_set_absent : forall (l : list pair) n v, (forall p, In p l -> fst p <> n) -> sp_set l n v = l ++ [(n, v)].
Proof. exact sp_set_absent. Qed.
Print Assumptions C11_set_absent.

(* sort by name: a permutation, sorted by byte-wise name order, stable; and it is THE list with these three properties *)
Theorem C11_sort_is_the_stable_sort : forall l : list pair,
  Permutation l (sp_sort l) /\
  StronglySorted (fun a b : pair => str_ltb (fst b) (fst a) = false) (sp_sort l) /\
  (forall n, filter (fun p : pair => str_eqb (fst p) n) (sp_sort l) = filter (fun p => str_eqb (fst p) n) l) /\
  (forall l', Permutation l l' -> StronglySorted (fun a b : pair => str_ltb (fst b) (fst a) = false) l' ->
     (forall n, filter (fun p : pair => str_eqb (fst p) n) l' = filter (fun p => str_eqb (fst p) n) l) -> l' = sp_sort l).
Proof. intros l. exact (conj (sp_sort_perm l) (conj (sp_sort_sorted l) (conj (fun n => sp_sort_stable n l) (sp_sort_unique l)))). Qed.
Print Assumptions C11_sort_is_the_stable_sort.

Theorem C11_sort_by_name_and_value : forall l : list pair,
  Permutation l (sp_sort_abs l) /\ sp_sort_abs (sp_sort_abs l) = sp_sort_abs l.
Proof. intros l. split; [apply sp_sort_abs_perm|apply sp_sort_abs_idem]. Qed.
Print Assumptions C11_sort_by_name_and_value.

(* serializing a list of pairs and parsing the result returns the same list - for pairs of valid UTF-8 without a
   '%' followed by two hex digits (pair_ok); the unrestricted statement is false of the code: known finding D8b *)
Theorem C11_roundtrip : forall c l, c_latin1 c = false -> forallb (pair_ok c) l = true -> sp_init c (sp_string c l) = l.
Proof. exact sp_roundtrip. Qed.
Print Assumptions C11_roundtrip.

Theorem C11_roundtrip_refuted_D8b : exists l : list pair,
  forallb (fun nv : pair => valid_utf8 (fst nv) && valid_utf8 (snd nv)) l = true /\
  sp_init default_cfg (sp_string default_cfg l) <> l.
Proof. exact sp_roundtrip_refuted. Qed.
Print Assumptions C11_roundtrip_refuted_D8b.

Example C11_roundtrip_premises_met :
  forallb (pair_ok default_cfg) [([97;38;98], [99;61;100]); ([], [32;43]); ([195;169], [37])] = true.
Proof. vm_compute. reflexivity. Qed.
