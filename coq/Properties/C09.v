(* C09 - Domain hosts are normalised consistently (ASCII, case, escapes). The IDNA processing itself
   (golang.org/x/net/idna) is an arbitrary function idna_raw; the theorems carry named hypotheses about
   it (H1 ASCII transparency, H2 ASCII-case invariance, H3 lower-case ASCII output), each tested
   against the real library by the harness on every oracle answer. Proofs in Proofs/HostProofs.v. *)
From Verif Require Import Lib.Base Model.Cfg Model.Url Model.Percent Model.Host Model.Machine Gen.Options Proofs.HostProofs.

Definition default_like (c : cfg) : Prop :=
  c_lax c = false /\ c_latin1 c = false /\ c_pre c = HF_none /\ c_post c = HF_none.

(* a pure-ASCII host without ACE labels is exactly its ASCII-lowercased percent-decoded form *)
Theorem C09_ascii_host_exact : forall idna_raw c, default_like c -> oracle_ascii_transparent idna_raw ->
  forall u h, DecodePercentEncoded c h <> [] -> ascii (DecodePercentEncoded c h) -> no_ace (DecodePercentEncoded c h) = true ->
  existsb PS.forbidden_domain_cp (str_lower (DecodePercentEncoded c h)) = false ->
  S4.ends_in_a_number (str_lower (DecodePercentEncoded c h)) = false ->
  parseHost idna_raw c u h false = Ok u (str_lower (DecodePercentEncoded c h)).
Proof. intros idna_raw c (H1 & H2 & H3 & H4). exact (ascii_host_exact idna_raw c H1 H2 H3 H4). Qed.
Print Assumptions C09_ascii_host_exact.

(* the serialized domain host is ASCII-only, lower-case and free of forbidden domain code points *)
Theorem C09_output_clean : forall idna_raw c, default_like c -> oracle_lower_ascii_output idna_raw ->
  forall u h u' r, parseHost idna_raw c u h false = Ok u' r -> (forall t, r <> 91 :: t) -> clean r.
Proof. intros idna_raw c (H1 & H2 & H3 & H4). exact (domain_output_clean idna_raw c H1 H2 H3 H4). Qed.
Print Assumptions C09_output_clean.

(* the result depends only on the ASCII-lowercased percent-decoded host: letter case and escapes are irrelevant *)
Theorem C09_spelling_invariant : forall idna_raw c, default_like c -> oracle_case_invariant idna_raw ->
  forall u h1 h2, not_bracket h1 -> not_bracket h2 ->
  str_lower (DecodePercentEncoded c h1) = str_lower (DecodePercentEncoded c h2) ->
  parseHost idna_raw c u h1 false = parseHost idna_raw c u h2 false.
Proof. intros idna_raw c (H1 & H2 & H3 & H4). exact (host_spelling_invariant idna_raw c H1 H2 H3 H4). Qed.
Print Assumptions C09_spelling_invariant.

Theorem C09_case_invariant : forall idna_raw c, default_like c -> oracle_case_invariant idna_raw ->
  forall u h1 h2, not_bracket h1 -> str_lower h1 = str_lower h2 ->
  parseHost idna_raw c u h1 false = parseHost idna_raw c u h2 false.
Proof. intros idna_raw c (H1 & H2 & H3 & H4). exact (host_case_invariant idna_raw c H1 H2 H3 H4). Qed.
Print Assumptions C09_case_invariant.

(* any subset of the code points (bytes) of a '%'-free host may be written percent-encoded *)
Theorem C09_escape_invariant : forall idna_raw c, default_like c -> oracle_case_invariant idna_raw ->
  forall u mask h, Forall (fun b => b < 256) h -> ~ In 37 h -> not_bracket h ->
  parseHost idna_raw c u (esc mask h) false = parseHost idna_raw c u h false.
Proof. intros idna_raw c (H1 & H2 & H3 & H4). exact (host_escape_mask_invariant idna_raw c H1 H2 H3 H4). Qed.
Print Assumptions C09_escape_invariant.

(* a file URL's host 'localhost' in any such spelling parses to "localhost" (which the FileHost state replaces by the empty host) *)
Theorem C09_localhost : forall idna_raw c, default_like c -> oracle_ascii_transparent idna_raw ->
  forall u h, str_lower (DecodePercentEncoded c h) = s_localhost -> parseHost idna_raw c u h false = Ok u s_localhost.
Proof. intros idna_raw c (H1 & H2 & H3 & H4). exact (file_localhost_parse idna_raw c H1 H2 H3 H4). Qed.
Print Assumptions C09_localhost.

Example C09_default_cfg_qualifies : default_like default_cfg.
Proof. repeat split. Qed.
