(* C01 - parsing conforms to the WHATWG basic URL parser, with and without a base.
   The Spec (Spec/Url, Host, BasicParser, Setters: an independent transcription of the standard in its own pointer
   style, validated against all WPT vectors on every run) and the model of the Go code (Model/Machine, Api) are two
   different programs; the theorems below say that they compute the same thing for EVERY input string and every base:
   a one-step simulation for each of the 21 states (Proofs/RefineMachine*.v), composed over the run, lifted to the API
   (Proofs/RefineApi.v), with the Spec's own fuel shown sufficient (Proofs/RefineTotal.v).
   Premises: std_cfg c (the default parser's option record: holds of Gen/Options.default_cfg, regenerated from the code),
   oracle_ok and MachineInv.H3 (what is taken as given about the UTS #46 mapping; each tested on the real library on
   every run). The input is read as the property says: invalid UTF-8 bytes as U+FFFD (Go's reading, `runes`).
   parse_ok / api_ok: both succeed with related records (R: same scheme, credentials, host, port, path, query,
   fragment), or both fail. same_observables: the ten strings href, protocol, username, password, host, hostname,
   port, pathname, search, hash of the model are the UTF-8 bytes of the standard's. *)
From Verif Require Import Lib.Base Lib.Utf8 Lib.GoStr Model.Cfg Gen.Tables Gen.Options Model.Url Model.Host Model.Machine Model.Api.
From Verif Require Spec.Url Spec.Host Spec.BasicParser Spec.Setters.
From Verif Require Import Proofs.RefineCodec Proofs.RefineUrl Proofs.RefineHost Proofs.RefineMachineBase Proofs.RefineMachineHost Proofs.RefineMachine Proofs.RefineApi Proofs.RefineTotal.
From Verif Require Proofs.MachineInv.

(* parse without base: succeeds exactly when the standard's parser does, with the same record *)
Theorem C01_parse_conforms : forall idna_raw c, std_cfg c -> oracle_ok idna_raw c -> forall s,
  parse_ok (Parse idna_raw c s) (SS.url_parse (dta idna_raw c) (runes s) None).
Proof. exact Parse_conforms. Qed.
Print Assumptions C01_parse_conforms.

(* ... and with the same serialization and the same getters *)
Theorem C01_parse_observables : forall idna_raw c, std_cfg c -> oracle_ok idna_raw c -> forall s,
  match Parse idna_raw c s, SS.url_parse (dta idna_raw c) (runes s) None with
  | PUrl u, SB.Done su => same_observables u su
  | PErr _, SB.Failed _ => True
  | _, _ => False
  end.
Proof. exact Parse_observables. Qed.
Print Assumptions C01_parse_observables.

(* resolve a reference against a base URL value *)
Theorem C01_resolve_conforms : forall idna_raw c, std_cfg c -> oracle_ok idna_raw c -> forall b sb ref,
  R b sb -> base_wf (Some sb) ->
  parse_ok (UrlParse idna_raw c b ref) (SS.url_parse (dta idna_raw c) (runes ref) (Some sb)).
Proof. exact UrlParse_conforms. Qed.
Print Assumptions C01_resolve_conforms.

(* the API constructor URL(url, base) with the base given as a string: no premise about the base is left *)
Theorem C01_parse_ref_conforms : forall idna_raw c, std_cfg c -> oracle_ok idna_raw c -> Verif.Proofs.MachineInv.H3 idna_raw ->
  forall rawUrl ref,
  api_ok (ParseRef idna_raw c rawUrl ref)
         (SS.api_url_parse (dta idna_raw c) (runes ref) (match rawUrl with [] => None | _ => Some (runes rawUrl) end)).
Proof. exact ParseRef_conforms. Qed.
Print Assumptions C01_parse_ref_conforms.

(* the standard's parser never ends for lack of fuel *)
Theorem C01_spec_never_out_of_fuel : forall idna_raw c, std_cfg c -> oracle_ok idna_raw c -> forall x base sbase,
  base_rel base sbase -> base_wf sbase ->
  SB.basic_url_parse (dta idna_raw c) (runes x) sbase None None <> SB.OutOfFuel.
Proof. exact parse_no_fuel. Qed.
Print Assumptions C01_spec_never_out_of_fuel.

(* related records have the same serialization and the same ten API getters *)
Theorem C01_serialization_agrees : forall u su b, R u su -> Href u b = Some (encode_runes (SU.url_serialize su b)).
Proof. exact R_href. Qed.
Print Assumptions C01_serialization_agrees.

Theorem C01_getters_agree : forall u su, R u su -> model_observe u = map (fun s => Some (encode_runes s)) (SS.observe su).
Proof. exact R_observe. Qed.
Print Assumptions C01_getters_agree.

(* the host parser, everything around the IDNA mapping: bracketed hosts *)
Theorem C01_host_ipv6 : forall idna_raw c, std_cfg c -> forall u t isNotSpecial,
  val (parseHost idna_raw c u (91 :: t) isNotSpecial) =
  option_map host_bytes (SH.host_parse (dta idna_raw c) (runes (91 :: t)) isNotSpecial).
Proof. exact R6_ipv6. Qed.
Print Assumptions C01_host_ipv6.

(* the premises are met by the generated default configuration and by an ASCII oracle; a concrete run is RefineTotal.setters_ex *)
Example C01_premises_met : std_cfg default_cfg /\ oracle_ok ascii_idna default_cfg /\ Verif.Proofs.MachineInv.H3 ascii_idna.
Proof. exact total_premises. Qed.

(* The state machine of the model is the state switch of the Go source (Proofs/TransitionGraph.v, TransitionTie.v).
   Gen/Transitions.v is regenerated from /repo/url/parser.go on every run (harness/cmd/gentrans): the successor states
   assigned in each `case StateX:` clause and the clauses that mention the base. Every step of the model follows an edge
   of the Go switch, every edge of the Go switch is taken by some concrete step of the model, and the model reads the base
   exactly in the states whose Go clause mentions it. *)
From Verif Require Import Gen.Transitions Proofs.TransitionGraph Proofs.TransitionTie.

Theorem C01_step_follows_go_switch : forall idna_raw c inp base ov m m',
  step idna_raw c inp base ov m = Cont m' ->
  m_state m' = m_state m \/ In (m_state m, m_state m') go_edges.
Proof. exact step_follows_go_switch. Qed.
Print Assumptions C01_step_follows_go_switch.

Theorem C01_every_go_edge_is_taken : forall s s', In (s, s') go_edges -> realised s s'.
Proof. exact every_go_edge_is_taken. Qed.
Print Assumptions C01_every_go_edge_is_taken.

Theorem C01_base_read_only_where_go_reads_it : forall idna_raw c inp b1 b2 ov m,
  ~ In (m_state m) go_base_states -> step idna_raw c inp b1 ov m = step idna_raw c inp b2 ov m.
Proof. exact base_read_only_where_go_reads_it. Qed.
Print Assumptions C01_base_read_only_where_go_reads_it.

Theorem C01_base_states_all_read_the_base : forall s, In s go_base_states -> In s model_base_states.
Proof.
  intros s H. destruct go_base_states_are_model_base_states as [Hs _]. unfold subset_states in Hs.
  rewrite forallb_forall in Hs. specialize (Hs _ H). apply existsb_exists in Hs. destruct Hs as [t [Ht E]].
  apply state_eqb_eq in E. subst. exact Ht.
Qed.
Print Assumptions C01_base_states_all_read_the_base.

(* ... and the state override is read exactly in the nine states whose Go clause mentions it (Proofs/OverrideTie.v) *)
From Verif Require Import Proofs.OverrideTie.

Theorem C01_override_read_only_where_go_reads_it : forall idna_raw c inp base ov1 ov2 m,
  ~ In (m_state m) go_override_states -> step idna_raw c inp base ov1 m = step idna_raw c inp base ov2 m.
Proof. exact override_read_only_where_go_reads_it. Qed.
Print Assumptions C01_override_read_only_where_go_reads_it.

Theorem C01_every_go_override_state_reads_it : forall s, In s go_override_states ->
  exists idna_raw c inp base ov1 ov2 m, m_state m = s /\ step idna_raw c inp base ov1 m <> step idna_raw c inp base ov2 m.
Proof. exact every_go_override_state_reads_it. Qed.
Print Assumptions C01_every_go_override_state_reads_it.

