(* C16 - Every option has its documented effect and is otherwise neutral: the generated option table. *)
From Verif Require Import Lib.Base Model.Cfg Gen.Tables Gen.Options Proofs.OptionTable.
From Verif Require Model.Url Model.Canon Proofs.MachineInv Proofs.CanonTotal.

(* each public option constructor writes exactly the documented field of the default options (regenerated from /repo) *)
Theorem C16_option_fields : option_table_ok.
Proof. exact option_table. Qed.
Print Assumptions C16_option_fields.

Theorem C16_no_options_is_default : prof_none = {| p_cfg := default_cfg; p_removeUserInfo := false; p_removePort := false;
  p_removeFragment := false; p_sortQuery := NoSort; p_repeated := false; p_defaultScheme := [] |} /\ prof_WhatWg = prof_none.
Proof. split; [exact prof_none_is_default | exact prof_WhatWg_is_none]. Qed.
Print Assumptions C16_no_options_is_default.

(* ---------- canonicalizer steps (Proofs/CanonBasics.v) ---------- *)
From Verif Require Import Model.Url Model.Machine Model.Api Model.Canon Proofs.CanonBasics.

(* a profile built without options behaves exactly like the default parser: Parse ... *)
Theorem C16_no_options_parse : forall idna_raw x,
  ProfileParse idna_raw prof_none x =
  match Parse idna_raw default_cfg x with PUrl u => CUrl u | PErr e => CErr e | _ => CPanic end.
Proof.
  intros idna_raw x. destruct prof_none_plain as (Hp & Hd & Hc).
  rewrite (ProfileParse_plain idna_raw prof_none x Hp Hd). reflexivity.
Qed.
Print Assumptions C16_no_options_parse.

(* ... and ParseRef *)
Theorem C16_no_options_parseref : forall idna_raw b x,
  ProfileParseRef idna_raw prof_none b x =
  match Parse idna_raw default_cfg b with
  | PUrl bu => match UrlParse idna_raw default_cfg bu x with PUrl u => CUrl u | PErr e => CErr e | _ => CPanic end
  | PErr e => CErr e
  | _ => CPanic end.
Proof.
  intros idna_raw b x. destruct prof_none_plain as (Hp & Hd & Hc).
  rewrite (ProfileParseRef_plain idna_raw prof_none b x Hp Hd). reflexivity.
Qed.
Print Assumptions C16_no_options_parseref.

(* remove-port / remove-user-info / remove-fragment are the standard's setters with the empty string applied to the parser's result *)
Theorem C16_removals_are_setters : forall idna_raw p u, p_repeated p = false -> p_sortQuery p = NoSort ->
  Canonicalize idna_raw p u =
  bind (if p_removePort p then SetPort idna_raw (p_cfg p) u [] else Some u) (fun u =>
  bind (if p_removeUserInfo p then bind (SetUsername (p_cfg p) u []) (fun u => SetPassword (p_cfg p) u []) else Some u) (fun u =>
  if p_removeFragment p then SetHash idna_raw (p_cfg p) u [] else Some u)).
Proof. exact Canonicalize_removals. Qed.
Print Assumptions C16_removals_are_setters.

(* default-scheme: only an input that fails for lack of a scheme is retried as scheme://input *)
Theorem C16_default_scheme : forall idna_raw p x,
  parse_retry idna_raw p x =
  match Parse idna_raw (p_cfg p) x with
  | PErr e => match e_type e with
              | MissingSchemeNonRelativeURL =>
                  if is_nil (p_defaultScheme p) then PErr e else Parse idna_raw (p_cfg p) (p_defaultScheme p ++ [58;47;47] ++ x)
              | _ => PErr e end
  | other => other end.
Proof. exact parse_retry_spec. Qed.
Print Assumptions C16_default_scheme.

(* ---------- conservative extensions: lock-step simulations (Proofs/OptionNeutral*.v) ---------- *)
From Verif Require Import Lib.Utf8 Proofs.Cleaning Proofs.OptionNeutral Proofs.OptionNeutralDrive Proofs.OptionNeutralLax Proofs.OptionNeutralSpecial Proofs.OptionNeutralCollapse.

(* accept-invalid-code-points changes the result only for inputs that contain invalid UTF-8 *)
Theorem C16_accept_invalid_conservative : forall idna_raw c b1 b2 x, valid_utf8 (fst (trim_c0space x)) = true ->
  Parse idna_raw (with_acceptInvalid c b1) x = Parse idna_raw (with_acceptInvalid c b2) x.
Proof. exact acceptInvalid_Parse. Qed.
Print Assumptions C16_accept_invalid_conservative.

(* percent-encode-single-percent-sign: only for inputs with a '%' not followed by two hex digits *)
Theorem C16_single_percent_conservative : forall idna_raw c b1 b2, c_lax c = false -> forall x,
  pct_ok_runes (runes (clean_sv (c_acceptInvalid c) x)) = true ->
  Parse idna_raw (with_singlePct c b1) x = Parse idna_raw (with_singlePct c b2) x.
Proof. exact singlePct_Parse. Qed.
Print Assumptions C16_single_percent_conservative.

(* skip-drive-letter-normalization: only for inputs containing '|' *)
Theorem C16_skip_drive_conservative : forall idna_raw c b1 b2 x, ~ In 124 (clean_sv (c_acceptInvalid c) x) ->
  Parse idna_raw (with_skipDrive c b1) x = Parse idna_raw (with_skipDrive c b2) x.
Proof. exact skipDrive_Parse. Qed.
Print Assumptions C16_skip_drive_conservative.

(* collapse-consecutive-slashes: only for inputs with consecutive slashes; and its effect *)
Theorem C16_collapse_conservative : forall idna_raw c b1 b2, c_skipTrailSlash c = false -> forall x,
  no_adj_b (runes (clean_sv (c_acceptInvalid c) x)) = true ->
  Parse idna_raw (with_collapse c b1) x = Parse idna_raw (with_collapse c b2) x.
Proof. exact collapse_Parse. Qed.
Print Assumptions C16_collapse_conservative.

Theorem C16_collapse_effect : forall idna_raw c x u, Parse idna_raw (with_collapse c true) x = PUrl u ->
  IsSpecialScheme c u = true -> Q (u_path u).      (* Q: no empty segment except possibly the last *)
Proof. exact collapse_effect. Qed.
Print Assumptions C16_collapse_effect.

(* special-schemes: two tables that agree on the scheme of the input give the same result *)
Theorem C16_special_schemes_conservative : forall idna_raw c t1 t2 x,
  (forall pre, scheme_prefix (runes (clean_sv (c_acceptInvalid c) x)) = Some pre -> agree t1 t2 (lowerenc pre)) ->
  Parse idna_raw (with_special c t1) x = Parse idna_raw (with_special c t2) x.
Proof. exact special_Parse. Qed.
Print Assumptions C16_special_schemes_conservative.

(* lax-host-parsing: changes the result only for inputs the strict parser rejects *)
Theorem C16_lax_host_conservative : forall idna_raw c x u,
  Parse idna_raw (with_lax c false) x = PUrl u -> Parse idna_raw (with_lax c true) x = PUrl u.
Proof. exact lax_conservative. Qed.
Print Assumptions C16_lax_host_conservative.

(* skip-equals affects only the serialization of parameters: '=' omitted only for empty values; the parser ignores it *)
Theorem C16_skip_equals : forall c (l : list pair),
  sp_string (with_skipEq c true) l =
  Lib.GoStr.join [38] (map (fun nv => QueryEscape c (fst nv) ++ (if is_nil (snd nv) then [] else 61 :: QueryEscape c (snd nv))) l).
Proof. exact skipEq_effect. Qed.
Print Assumptions C16_skip_equals.
Theorem C16_skip_equals_parser_neutral : forall idna_raw c b x, Parse idna_raw (with_skipEq c b) x = Parse idna_raw c x.
Proof. exact skipEq_Parse. Qed.
Print Assumptions C16_skip_equals_parser_neutral.

(* the removal options on what a profile returns: no credentials, no port, no fragment (Proofs/CanonTotal.v). The
   premises are those of the record invariant (H3 on the oracle, cfg_okm: no lax host parsing / host functions,
   no fail-on-validation-error); without the invariant of parsed URLs the port and user-info claims are false
   (CanonTotal.removePort_wf_refuted, removeUserInfo_wf_refuted: a hostless record, never produced by a parse) *)
Theorem C16_removals : forall idna_raw p x u',
  Verif.Proofs.MachineInv.H3 idna_raw -> Verif.Proofs.MachineInv.cfg_okm (p_cfg p) = true -> c_fail (p_cfg p) = false ->
  Verif.Model.Canon.ProfileParse idna_raw p x = Verif.Model.Canon.CUrl u' ->
  (p_removeUserInfo p = true -> Verif.Model.Url.Username u' = [] /\ Verif.Model.Url.Password u' = []) /\
  (p_removePort p = true -> Verif.Model.Url.Port u' = []) /\
  (p_removeFragment p = true -> Verif.Model.Url.Hash u' = []).
Proof. exact Verif.Proofs.CanonTotal.ProfileParse_removals. Qed.
Print Assumptions C16_removals.

Theorem C16_remove_fragment_unconditional : forall idna_raw p u u',
  p_removeFragment p = true -> Verif.Model.Canon.Canonicalize idna_raw p u = Some u' ->
  Verif.Model.Url.u_fragment u' = None /\ Verif.Model.Url.Hash u' = [].
Proof. exact Verif.Proofs.CanonTotal.removeFragment_spec. Qed.
Print Assumptions C16_remove_fragment_unconditional.

(* no canonicalization step changes the scheme *)
Theorem C16_canonicalize_keeps_scheme : forall idna_raw p u u',
  Verif.Model.Canon.Canonicalize idna_raw p u = Some u' -> Verif.Model.Url.u_scheme u' = Verif.Model.Url.u_scheme u.
Proof. exact Verif.Proofs.CanonTotal.Canonicalize_scheme. Qed.
Print Assumptions C16_canonicalize_keeps_scheme.

(* ---------- sort-query (Proofs/OptionSort.v) ---------- *)
From Verif Require Import Proofs.OptionSort Proofs.SearchParamsProofs.
From Coq Require Import Permutation.

(* sort-query is the last step: every profile (any removal flags, repeated decoding or not) gives the result of the same
   profile without sort-query followed by the sort step; errors and panics are the same *)
Theorem C16_sort_query_is_last_step : forall idna_raw p x,
  ProfileParse idna_raw p x =
  match ProfileParse idna_raw (pwith_sortQuery p NoSort) x with
  | CUrl v => CUrl (sort_step (p_cfg p) (p_sortQuery p) v) | other => other end.
Proof. exact ProfileParse_sort_factor. Qed.
Print Assumptions C16_sort_query_is_last_step.

(* the sort step touches the query only *)
Theorem C16_sort_step_frame : forall c k u, same_but_query u (sort_step c k u).
Proof. exact sort_step_frame. Qed.
Print Assumptions C16_sort_step_frame.

(* sort-query only reorders: the parameter list of the result is THE stable sort of the parser's list - a permutation,
   sorted by name (by name then value), entries with equal keys in their original order - the query is its
   serialization, and (outside the known finding D8b: no %HH triple in a decoded name or value, no Latin-1 override)
   reading the query back gives that list, so the multiset of decoded pairs is kept *)
Theorem C16_sort_query_effect : forall idna_raw p x u',
  p_repeated p = false -> sorting (p_sortQuery p) ->
  ProfileParse idna_raw p x = CUrl u' ->
  exists v, let c := p_cfg p in let l := sp_init c (Query v) in let k := p_sortQuery p in
    ProfileParse idna_raw (pwith_sortQuery p NoSort) x = CUrl v /\
    same_but_query v u' /\ (forall e, Href u' e = Href (set_query v (u_query u')) e) /\
    u_sp u' = Some (sort_fun k l) /\ Permutation l (sort_fun k l) /\
    (k = SortKeys -> name_sorted (sort_fun k l) /\
       forall n, filter (fun p : pair => str_eqb (fst p) n) (sort_fun k l) = filter (fun p => str_eqb (fst p) n) l) /\
    (k = SortParameter -> abs_sorted (sort_fun k l) /\
       forall n, filter (fun p : pair => str_eqb (fst p ++ snd p) n) (sort_fun k l) =
                 filter (fun p => str_eqb (fst p ++ snd p) n) l) /\
    Query u' = sp_string c (sort_fun k l) /\
    (u_query v = None -> u_query u' = None) /\ (u_query v <> None -> u_query u' = Some (sp_string c (sort_fun k l))) /\
    (c_latin1 c = false -> forallb (pair_ok c) l = true ->
       sp_init c (Query u') = sort_fun k l /\ Permutation l (sp_init c (Query u'))).
Proof. exact sort_query_effect. Qed.
Print Assumptions C16_sort_query_effect.

(* known finding D8b as a theorem: http://h/?a=%2541 - the decoded pair (a, %41) is written a=%41 and reads back as (a, A) *)
Theorem C16_sort_query_multiset_refuted_D8b :
  exists x u0 u', ProfileParse idna_id0 (pwith_sortQuery prof_WhatWgSortQuery NoSort) x = CUrl u0 /\
    ProfileParse idna_id0 prof_WhatWgSortQuery x = CUrl u' /\
    sp_init default_cfg (Query u0) = [([97], [37;52;49])] /\
    sp_init default_cfg (Query u') = [([97], [65])] /\
    ~ Permutation (sp_init default_cfg (Query u0)) (sp_init default_cfg (Query u')).
Proof. exact sort_query_multiset_refuted. Qed.
Print Assumptions C16_sort_query_multiset_refuted_D8b.

(* ---------- replaced percent-encode sets (Proofs/OptionSets*.v) ---------- *)
From Verif Require Import Model.Sets Model.Percent Proofs.OptionSetsBase Proofs.OptionSets Proofs.OptionSetsDots Proofs.OptionSetsPath.

(* each set option governs exactly its component and scheme class, for every input, base, URL under a state override
   (the setters) and every other option - no side condition: same kind of result and same error, and
   - path set: the records agree on everything but the path component;
   - query set: EQUAL results when the result's scheme is special, else agreement on everything but the query;
   - special-query set: the mirror image; fragment sets: the same for the fragment *)
Theorem C16_path_set_governs_path : forall idna_raw c s x b u0 ov,
  res_rel agree_except_path (BasicParser idna_raw (with_pathSet c s) x b u0 ov) (BasicParser idna_raw c x b u0 ov).
Proof. exact pathSet_BasicParser. Qed.
Print Assumptions C16_path_set_governs_path.
Theorem C16_query_set_governs_nonspecial_query : forall idna_raw c s x b u0 ov,
  res_rel (query_class c false) (BasicParser idna_raw (with_querySet c s) x b u0 ov) (BasicParser idna_raw c x b u0 ov).
Proof. exact querySet_BasicParser. Qed.
Print Assumptions C16_query_set_governs_nonspecial_query.
Theorem C16_special_query_set_governs_special_query : forall idna_raw c s x b u0 ov,
  res_rel (query_class c true) (BasicParser idna_raw (with_squerySet c s) x b u0 ov) (BasicParser idna_raw c x b u0 ov).
Proof. exact squerySet_BasicParser. Qed.
Print Assumptions C16_special_query_set_governs_special_query.
Theorem C16_fragment_set_governs_nonspecial_fragment : forall idna_raw c s x b u0 ov,
  res_rel (fragment_class c false) (BasicParser idna_raw (with_fragSet c s) x b u0 ov) (BasicParser idna_raw c x b u0 ov).
Proof. exact fragSet_BasicParser. Qed.
Print Assumptions C16_fragment_set_governs_nonspecial_fragment.
Theorem C16_special_fragment_set_governs_special_fragment : forall idna_raw c s x b u0 ov,
  res_rel (fragment_class c true) (BasicParser idna_raw (with_sfragSet c s) x b u0 ov) (BasicParser idna_raw c x b u0 ov).
Proof. exact sfragSet_BasicParser. Qed.
Print Assumptions C16_special_fragment_set_governs_special_fragment.

(* what a replaced set does where it applies: an ASCII code point of the set is written %XX (upper-case hex), one outside
   it stays literal *)
Theorem C16_set_members_are_escaped : forall c r t, r < 128 ->
  percentEncodeRune c r (Some t) = if RuneShouldBeEncoded t r then [37; hex_upper (r / 16); hex_upper (r mod 16)] else [r].
Proof. exact per_ascii. Qed.
Print Assumptions C16_set_members_are_escaped.

(* the path keeps its structure (same segments, each the encoding of the same input code points) when both path sets
   leave '%', '2', 'e', 'E' alone and, for file URLs, the drive-letter bytes; each of these bytes is shown necessary
   (Proofs/OptionSetsPath.v dot_safe_needed, drive_safe_needed, safe_lists_needed: the path set is applied before
   dot-segment and drive-letter recognition) *)
Theorem C16_path_set_keeps_structure : forall idna_raw c s x u1 u2,
  Parse idna_raw (with_pathSet c s) x = PUrl u1 -> Parse idna_raw c x = PUrl u2 ->
  dot_safe s = true -> dot_safe (c_pathSet c) = true ->
  (str_eqb (u_scheme u1) s_file = true -> drive_safe s = true /\ drive_safe (c_pathSet c) = true) ->
  Forall2 (seg_rel (with_pathSet c s) c (run_input c x None)) (u_path u1) (u_path u2) /\ u_opaque u1 = u_opaque u2.
Proof. exact with_pathSet_structure. Qed.
Print Assumptions C16_path_set_keeps_structure.

(* ---------- an added special scheme (Proofs/OptionSpecialEffect.v) ---------- *)
From Verif Require Import Proofs.RecordInv Proofs.MachineInv Proofs.OptionSpecialEffect.

(* for every input: a URL whose scheme the configured table lists is special - host required, list path that is not
   empty - and its port is never the table's port for the scheme (default-port elision) *)
Theorem C16_added_special_scheme : forall idna_raw c t x u dp,
  H3 idna_raw -> cfg_okm (with_special c t) = true ->
  Parse idna_raw (with_special c t) x = PUrl u -> assoc (u_scheme u) t = Some dp ->
  IsSpecialScheme (with_special c t) u = true /\
  u_opaque u = false /\ u_path u <> [] /\
  (exists h, u_host u = Some h /\ (str_eqb (u_scheme u) s_file = true \/ h <> [])) /\
  u_port u <> Some dp /\ (dp <> [] -> Port u <> dp).
Proof. exact special_all_inputs. Qed.
Print Assumptions C16_added_special_scheme.

(* default-scheme through ParseRef (Proofs/DefaultSchemeRef.v): the default scheme is for the BASE text when it fails only for
   lack of a scheme; a base that parses is used as it is, and a failure of the resolution itself (a relative reference against a
   base with an opaque path is reported with the same error type) is returned, not repaired by re-reading the base *)
From Verif Require Import Proofs.DefaultSchemeRef.

Theorem C16_default_scheme_parseref : forall idna_raw p ds base ref, p_defaultScheme p = ds -> let c := p_cfg p in
  (forall b, Parse idna_raw c base = PUrl b ->
     ProfileParseRef idna_raw p base ref = canon_of idna_raw p (UrlParse idna_raw c b ref)) /\
  (forall e, Parse idna_raw c base = PErr e -> e_type e = MissingSchemeNonRelativeURL -> ds <> [] ->
     ProfileParseRef idna_raw p base ref =
     match Parse idna_raw c (ds ++ [58;47;47] ++ base) with
     | PUrl b => canon_of idna_raw p (UrlParse idna_raw c b ref) | PErr e' => CErr e' | _ => CPanic end) /\
  (forall e, Parse idna_raw c base = PErr e -> (e_type e <> MissingSchemeNonRelativeURL \/ ds = []) ->
     ProfileParseRef idna_raw p base ref = CErr e) /\
  (forall r, Parse idna_raw c base = r -> (forall b, r <> PUrl b) -> (forall e, r <> PErr e) ->
     ProfileParseRef idna_raw p base ref = CPanic).
Proof. exact default_scheme_parseref. Qed.
Print Assumptions C16_default_scheme_parseref.

Theorem C16_default_scheme_does_not_repair_resolution : forall idna_raw p base ref b e,
  Parse idna_raw (p_cfg p) base = PUrl b -> UrlParse idna_raw (p_cfg p) b ref = PErr e ->
  ProfileParseRef idna_raw p base ref = CErr e.
Proof. exact default_scheme_does_not_repair_resolution. Qed.
Print Assumptions C16_default_scheme_does_not_repair_resolution.

