(* C16 - Every option has its documented effect and is otherwise neutral: the generated option table. *)
From Verif Require Import Lib.Base Model.Cfg Gen.Tables Gen.Options Proofs.OptionTable.

(* each public option constructor writes exactly the documented field of the default options (regenerated from /repo) *)
Theorem C16_option_fields : option_table_ok.
Proof. exact option_table. Qed.
Print Assumptions C16_option_fields.

Theorem C16_no_options_is_default : prof_none = {| p_cfg := default_cfg; p_removeUserInfo := false; p_removePort := false;
  p_removeFragment := false; p_sortQuery := NoSort; p_repeated := false; p_defaultScheme := [] |} /\ prof_WhatWg = prof_none.
Proof. split; [exact prof_none_is_default | exact prof_WhatWg_is_none]. Qed.
Print Assumptions C16_no_options_is_default.
