(* C16 - Every option has its documented effect and is otherwise neutral: the generated option table. *)
From Verif Require Import Lib.Base Model.Cfg Gen.Tables Gen.Options Proofs.OptionTable.

(* each public option constructor writes exactly the documented field of the default options (regenerated from /repo) *)
Theorem C16_option_fields : option_table_ok.
Proof. exact option_table. Qed.
Print Assumptions C16_option_fields.

Theorem C16_no_options_is_default : prof_none = {| p_cfg := default_cfg; p_removeUserInfo := false; p_removePort := false;
  p_removeFragment := false; p_sortQuery := NoSort; p_repeated := false; p_defaultScheme := [] |} /\ prof_WhatWg = prof_none.
Proof. split; [exact prof_none_is_default | exact prof_WhatWg_is_none]. Qed.
Print Assumptions C16_no_options_is_default.

(* ---------- canonicalizer steps (Proofs/CanonBasics.v) ---------- *)
From Verif Require Import Model.Url Model.Machine Model.Api Model.Canon Proofs.CanonBasics.

(* a profile built without options behaves exactly like the default parser: Parse ... *)
Theorem C16_no_options_parse : forall idna_raw x,
  ProfileParse idna_raw prof_none x =
  match Parse idna_raw default_cfg x with PUrl u => CUrl u | PErr e => CErr e | _ => CPanic end.
Proof.
  intros idna_raw x. destruct prof_none_plain as (Hp & Hd & Hc).
  rewrite (ProfileParse_plain idna_raw prof_none x Hp Hd). reflexivity.
Qed.
Print Assumptions C16_no_options_parse.

(* ... and ParseRef *)
Theorem C16_no_options_parseref : forall idna_raw b x,
  ProfileParseRef idna_raw prof_none b x =
  match Parse idna_raw default_cfg b with
  | PUrl bu => match UrlParse idna_raw default_cfg bu x with PUrl u => CUrl u | PErr e => CErr e | _ => CPanic end
  | PErr e => CErr e
  | _ => CPanic end.
Proof.
  intros idna_raw b x. destruct prof_none_plain as (Hp & Hd & Hc).
  rewrite (ProfileParseRef_plain idna_raw prof_none b x Hp Hd). reflexivity.
Qed.
Print Assumptions C16_no_options_parseref.

(* remove-port / remove-user-info / remove-fragment are the standard's setters with the empty string applied to the parser's result *)
Theorem C16_removals_are_setters : forall idna_raw p u, p_repeated p = false -> p_sortQuery p = NoSort ->
  Canonicalize idna_raw p u =
  bind (if p_removePort p then SetPort idna_raw (p_cfg p) u [] else Some u) (fun u =>
  bind (if p_removeUserInfo p then bind (SetUsername (p_cfg p) u []) (fun u => SetPassword (p_cfg p) u []) else Some u) (fun u =>
  if p_removeFragment p then SetHash idna_raw (p_cfg p) u [] else Some u)).
Proof. exact Canonicalize_removals. Qed.
Print Assumptions C16_removals_are_setters.

(* default-scheme: only an input that fails for lack of a scheme is retried as scheme://input *)
Theorem C16_default_scheme : forall idna_raw p x,
  parse_retry idna_raw p x =
  match Parse idna_raw (p_cfg p) x with
  | PErr e => match e_type e with
              | MissingSchemeNonRelativeURL =>
                  if is_nil (p_defaultScheme p) then PErr e else Parse idna_raw (p_cfg p) (p_defaultScheme p ++ [58;47;47] ++ x)
              | _ => PErr e end
  | other => other end.
Proof. exact parse_retry_spec. Qed.
Print Assumptions C16_default_scheme.
