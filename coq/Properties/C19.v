(* C19 - Derived accessors always agree with the primary components. acc_obs (Model/Preds.v) is the
   8-clause executable form over the getter values. Proofs in Proofs/RecordInv.v, Proofs/MachineInv.v. *)
From Verif Require Import Lib.Base Model.Cfg Model.Url Model.Machine Model.Api Model.Obs Model.Preds Gen.Options Proofs.RecordInv Proofs.MachineInv.
From Verif Require Model.Canon Proofs.CanonTotal.

(* for ANY configuration: the record invariant implies all accessor clauses *)
Theorem C19_invariant_implies_accessors : forall c u, Inv c u -> acc_obs c (obs_url c u) = [].
Proof. exact Inv_acc_obs_any. Qed.
Print Assumptions C19_invariant_implies_accessors.

Theorem C19_parse : forall idna_raw, H3 idna_raw -> forall c, cfg_okm c = true ->
  forall raw ref u, ParseRef idna_raw c raw ref = PUrl u -> acc_obs c (obs_url c u) = [].
Proof. intros idna_raw H c Hc raw ref u E. exact (proj2 (ParseRef_obs idna_raw H c Hc raw ref u E)). Qed.
Print Assumptions C19_parse.

Theorem C19_setters : forall idna_raw, H3 idna_raw -> forall c, cfg_okm c = true -> c_fail c = false ->
  forall w u v u', Inv c u -> setter idna_raw c w u v = Some u' -> acc_obs c (obs_url c u') = [].
Proof. intros idna_raw H c Hc Hf w u v u' I E. exact (proj2 (setter_obs idna_raw H c Hc Hf w u v u' I E)). Qed.
Print Assumptions C19_setters.

(* resolving, cloning: in every state of every history both predicates hold for both slots *)
Theorem C19_histories : forall idna_raw, H3 idna_raw -> forall c, cfg_okm c = true -> c_fail c = false ->
  forall b input ops, forallb (fun o => negb (sp_mutation o)) ops = true ->
  match fst (history idna_raw c b input ops) with OUrl l => slot_ok c l | _ => True end /\
  Forall (fun x : list str * list str * list str => slot_ok c (snd (fst x)) /\ slot_ok c (snd x)) (snd (history idna_raw c b input ops)).
Proof. exact history_ok. Qed.
Print Assumptions C19_histories.

(* beyond the property's own scope: the accessor clauses also hold for every URL a canonicalization profile returns
   (Proofs/CanonTotal.v; InvW = every clause of the record invariant except that the query is only free of the ordinary
   query set: the parameter-list serializer does not use the special-query set, see CanonTotal.Canonicalize_Inv_refuted) *)
Theorem C19_accessors_after_canonicalization : forall idna_raw p x u',
  H3 idna_raw -> cfg_okm (p_cfg p) = true -> c_fail (p_cfg p) = false ->
  sp_chars_ok (c_querySet (p_cfg p)) = true ->
  Verif.Model.Canon.ProfileParse idna_raw p x = Verif.Model.Canon.CUrl u' ->
  acc_obs (p_cfg p) (obs_url (p_cfg p) u') = [].
Proof. intros idna_raw p x u' H1 H2 H3' H4 H5. exact (proj1 (Verif.Proofs.CanonTotal.ProfileParse_obs idna_raw p x u' H1 H2 H3' H4 H5)). Qed.
Print Assumptions C19_accessors_after_canonicalization.
