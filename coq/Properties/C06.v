(* C06 - Reference resolution obeys the laws users rely on. Proofs in Proofs/PhaseLemmas.v,
   SchemeKept.v, ResolveProofs.v (symbolic execution of the first machine steps + phase lemmas for the
   query and fragment states). "cleaned reference" = clean_sv: surrounding C0/space and tab/newline
   removed. wfb b holds of every parse result (Inv_wfb with C04). Diagnostics options are off. *)
From Verif Require Import Lib.Base Lib.Utf8 Model.Cfg Model.Url Model.Machine Model.Api Proofs.Cleaning Proofs.PhaseLemmas Proofs.SchemeKept Proofs.ResolveProofs Proofs.RecordInv.

(* the three ways to resolve a reference funnel into the same function *)
Theorem C06_entry_points_agree : forall idna_raw c rawUrl ref b, rawUrl <> [] ->
  Parse idna_raw c rawUrl = PUrl b -> ParseRef idna_raw c rawUrl ref = UrlParse idna_raw c b ref.
Proof. exact entry_points_agree. Qed.
Print Assumptions C06_entry_points_agree.

(* the empty reference yields the base without its fragment; a base with an opaque path rejects it *)
Theorem C06_empty_reference : forall idna_raw c, c_report c = false -> c_fail c = false ->
  forall b ref, wfb b -> clean_sv (c_acceptInvalid c) ref = [] ->
  (u_opaque b = false -> exists u', UrlParse idna_raw c b ref = PUrl u' /\ keeps_base u' b /\ u_query u' = u_query b /\ u_fragment u' = None) /\
  (u_opaque b = true -> UrlParse idna_raw c b ref = PErr (missing_scheme [])).
Proof. exact empty_ref. Qed.
Print Assumptions C06_empty_reference.

(* a '#f' reference changes only the fragment - for opaque and non-opaque bases *)
Theorem C06_fragment_reference : forall idna_raw c, c_report c = false -> c_fail c = false ->
  forall b ref f, wfb b -> clean_sv (c_acceptInvalid c) ref = 35 :: f ->
  exists u', UrlParse idna_raw c b ref = PUrl u' /\ keeps_base u' b /\ u_query u' = u_query b /\
             u_fragment u' = Some (enc_with c (fragset c b) (runes f)).
Proof. exact fragment_only_ref. Qed.
Print Assumptions C06_fragment_reference.

(* ... and is the only kind of relative reference a base with an opaque path accepts *)
Theorem C06_opaque_base_rejects_other_relative : forall idna_raw c, c_report c = false -> c_fail c = false ->
  forall b ref, u_opaque b = true ->
  has_scheme_prefix (runes (clean_sv (c_acceptInvalid c) ref)) = false ->
  starts_with_hash (runes (clean_sv (c_acceptInvalid c) ref)) = false ->
  UrlParse idna_raw c b ref = PErr (missing_scheme (clean_sv (c_acceptInvalid c) ref)).
Proof. exact opaque_base_rejects_relative. Qed.
Print Assumptions C06_opaque_base_rejects_other_relative.

(* a '?q' reference replaces the query, drops the fragment and keeps scheme, credentials, host, port and path *)
Theorem C06_query_reference : forall idna_raw c, c_report c = false -> c_fail c = false ->
  forall b ref q, wfb b -> clean_sv (c_acceptInvalid c) ref = 63 :: q -> ~ In 35 (runes q) -> u_opaque b = false ->
  exists u', UrlParse idna_raw c b ref = PUrl u' /\ keeps_base u' b /\
             u_query u' = Some (enc_with c (queryset c b) (runes q)) /\ u_fragment u' = None.
Proof. exact query_only_ref. Qed.
Print Assumptions C06_query_reference.

(* a relative reference without a scheme always yields the base's scheme *)
Theorem C06_relative_keeps_scheme : forall idna_raw c, c_report c = false -> c_fail c = false ->
  forall b ref u', has_scheme_prefix (runes (clean_sv (c_acceptInvalid c) ref)) = false ->
  UrlParse idna_raw c b ref = PUrl u' -> u_scheme u' = u_scheme b.
Proof. exact relative_keeps_scheme. Qed.
Print Assumptions C06_relative_keeps_scheme.

(* every parse result qualifies as a base for these laws *)
Theorem C06_parse_results_are_wfb : forall c b, Inv c b -> wfb b.
Proof. exact Inv_wfb. Qed.
Print Assumptions C06_parse_results_are_wfb.

(* "for every parsed URL u and every base: the serialization of u resolves to u itself against any base"
   (Proofs/TransitionGraph.v, SelfResolve.v). The run on a serialization differs with and without a base in at most one
   step (Scheme at the colon: SpecialRelativeOrAuthority instead of SpecialAuthoritySlashes when the base has the same
   special scheme; both continue alike on "//"); after that the run stays in states that never read the base
   (run_base_insensitive over the transition graph). No hypothesis on the base. *)
From Verif Require Import Model.Preds Proofs.MachineInv Proofs.RoundTripBase Proofs.RoundTrip Proofs.RoundTripParse Proofs.HostProofs Proofs.SelfResolve.

(* any record with the invariant of C04 (every reachable URL): its serialization parses alike against every base ... *)
Theorem C06_self_resolution_base_irrelevant : forall idna_raw c u s b,
  isSpecialScheme c s_file = true -> Inv c u -> Href u false = Some s ->
  UrlParse idna_raw c b s = Parse idna_raw c s.
Proof. exact self_resolution_inv. Qed.
Print Assumptions C06_self_resolution_base_irrelevant.

(* ... and, with the round trip of C03, resolves to the record itself *)
Theorem C06_self_resolution : forall idna_raw c, cfg_rt c = true -> forall u s b,
  Inv c u -> Stable idna_raw c u -> Href u false = Some s ->
  UrlParse idna_raw c b s = PUrl (rt_url u s).
Proof. exact self_resolution_strong. Qed.
Print Assumptions C06_self_resolution.

(* everything Parse returns, against every base value; host_fixed is the IDNA residue of C03 (known finding D6) *)
Theorem C06_parse_self_resolution : forall idna_raw, H3 idna_raw -> forall c, cfg_okm c = true -> cfg_rt c = true ->
  forall x u, Parse idna_raw c x = PUrl u -> host_fixed idna_raw c u ->
  forall b, exists s u', Href u false = Some s /\ UrlParse idna_raw c b s = PUrl u' /\ same_components u' u.
Proof. exact parse_self_resolution. Qed.
Print Assumptions C06_parse_self_resolution.

(* ... and through the entry point that takes the base as a string *)
Theorem C06_parse_self_resolution_ParseRef : forall idna_raw, H3 idna_raw -> forall c, cfg_okm c = true -> cfg_rt c = true ->
  forall x u rawBase b, Parse idna_raw c x = PUrl u -> host_fixed idna_raw c u -> Parse idna_raw c rawBase = PUrl b ->
  exists s u', Href u false = Some s /\ ParseRef idna_raw c rawBase s = PUrl u' /\ same_components u' u.
Proof. exact parse_self_resolution_ParseRef. Qed.
Print Assumptions C06_parse_self_resolution_ParseRef.

(* results of a resolution qualify as well (no round-trip hypothesis needed for base-irrelevance) *)
Theorem C06_resolved_self_resolution : forall idna_raw, H3 idna_raw -> forall c, cfg_okm c = true ->
  forall b0 ref u, isSpecialScheme c s_file = true -> Inv c b0 -> UrlParse idna_raw c b0 ref = PUrl u ->
  exists s, Href u false = Some s /\ forall b, UrlParse idna_raw c b s = Parse idna_raw c s.
Proof. exact resolved_self_resolution_eq. Qed.
Print Assumptions C06_resolved_self_resolution.

(* the one configuration premise is needed: when "file" is not a special scheme a hostless file record satisfies the
   invariant and its serialization "file:/p" takes the host of a file base *)
Theorem C06_self_resolution_file_special_needed :
  exists idna_raw c u s b, Inv c u /\ Inv c b /\ Href u false = Some s /\
    UrlParse idna_raw c b s <> Parse idna_raw c s.
Proof. exact file_special_needed. Qed.
Print Assumptions C06_self_resolution_file_special_needed.

