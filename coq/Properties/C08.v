(* C08 - IPv6 hosts: accepted exactly per the standard, serialized canonically.
   Statements only; proofs in Proofs/IPv6Ser.v, IPv6Parse.v, IPv6RoundTrip.v, IPv6Host.v. Spec = Spec/IPv6.v. *)
From Verif Require Import Lib.Base Model.Cfg Model.Url Model.Host Proofs.IPv6Proofs.
From Verif Require Spec.IPv6.

(* exactly one pair of brackets: '[' ... must end with ']' and what is between them goes to the IPv6 parser *)
Theorem C08_brackets : forall idna c u t isNotSpecial, apply_hostfun (c_pre c) (91 :: t) = 91 :: t ->
  parseHost idna c u (91 :: t) isNotSpecial =
    if has_suffix [93] (91 :: t) then parseIPv6 c u (drop_last t)
    else Er (if c_report c then set_verrs u (u_verrs u ++ [unclosed_err u]) else u) (unclosed_err u).
Proof. exact parseHost_brackets. Qed.
Print Assumptions C08_brackets.

(* the model's parser accepts exactly what the standard's parser accepts, with the same 128-bit value: all code-point lists *)
Theorem C08_parse : forall l,
  (match Verif.Model.Host.ipv6_parse l with inl a => Some a | inr _ => None end) = Verif.Spec.IPv6.ipv6_parse l.
Proof. exact ipv6_parse_agree. Qed.
Print Assumptions C08_parse.

(* the model's serializer is the standard's: all 2^128 values *)
Theorem C08_serialize : forall a, length a = 8%nat -> IPv6String a = Verif.Spec.IPv6.ipv6_serialize a.
Proof. exact IPv6String_agree. Qed.
Print Assumptions C08_serialize.

(* serializing then parsing any address is the identity *)
Theorem C08_roundtrip : forall a, length a = 8%nat -> Forall (fun p => p < 65536) a ->
  Verif.Spec.IPv6.ipv6_parse (Verif.Spec.IPv6.ipv6_serialize a) = Some a.
Proof. exact ipv6_roundtrip. Qed.
Print Assumptions C08_roundtrip.

(* hence a serialized host parses back to itself (idempotent, unique text per value) *)
Theorem C08_host_idempotent : forall idna c u a isNotSpecial, c_pre c = HF_none -> length a = 8%nat -> Forall (fun p => p < 65536) a ->
  parseHost idna c u ([91] ++ IPv6String a ++ [93]) isNotSpecial = Ok u ([91] ++ IPv6String a ++ [93]).
Proof. exact parseHost_ipv6_idempotent. Qed.
Print Assumptions C08_host_idempotent.

(* the compressed run is the FIRST of the LONGEST runs of two or more zero pieces *)
Theorem C08_first_longest_run : forall a i, Verif.Spec.IPv6.find_compress a 0 None 0 = Some i <-> first_longest a i.
Proof. exact find_compress_iff. Qed.
Print Assumptions C08_first_longest_run.

Example C08_nonvacuous :
  Verif.Spec.IPv6.ipv6_serialize [1;0;0;2;0;0;0;3] = [49;58;48;58;48;58;50;58;58;51] /\
  Verif.Spec.IPv6.ipv6_parse [49;58;58] = Some [1;0;0;0;0;0;0;0] /\
  Verif.Spec.IPv6.ipv6_parse [49;58;50;58;51;58;52;58;53;58;54;58;55;58;56;58;58] = None.
Proof. vm_compute. repeat split. Qed.
