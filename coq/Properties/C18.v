(* C18 - equivalent spellings: the standard-level variations handled by input cleaning. *)
From Verif Require Import Lib.Base Model.Cfg Model.Url Model.Machine Model.Api Proofs.Cleaning.

(* surrounding C0/space bytes and embedded tab/newline bytes never change the result (diagnostics off) *)
Theorem C18_cleaning_congruence : forall idna_raw c, c_report c = false -> c_fail c = false ->
  forall x y base, clean_sv (c_acceptInvalid c) x = clean_sv (c_acceptInvalid c) y ->
  BasicParser idna_raw c x base None None = BasicParser idna_raw c y base None None.
Proof. exact clean_congruence. Qed.
Print Assumptions C18_cleaning_congruence.

Theorem C18_tab_newline_irrelevant : forall x y t, Model.Sets.isTabOrNewline t = true ->
  fst (remove_tabnl (x ++ t :: y)) = fst (remove_tabnl (x ++ y)).
Proof. exact remove_tabnl_insert. Qed.
Print Assumptions C18_tab_newline_irrelevant.

(* on valid UTF-8 the removal is plain byte removal; on invalid UTF-8 a removed tab cannot join a broken sequence *)
Theorem C18_removal_on_valid_utf8 : forall a s, Lib.Utf8.valid_utf8 s = true -> remove_tabnl_sv a s = remove_tabnl s.
Proof. exact remove_tabnl_sv_valid. Qed.
Print Assumptions C18_removal_on_valid_utf8.

Example C18_nonvacuous : clean [32; 104; 9; 116; 10; 116; 112; 58; 32] = clean [104; 116; 116; 112; 58].
Proof. vm_compute. reflexivity. Qed.
