(* C18 - equivalent spellings canonicalize to the same string.
   First the variations handled by input cleaning (surrounding whitespace, tab/newline); then, in the second half of this
   file, the normal-form theorem for the ordinary web URL and its corollaries (scheme and host case, default / empty
   port, inserted dot segments in every spelling) for every profile, the path / query / fragment steps and the whole
   profile under repeated decoding (over parser options inside CfgRT, and for GoogleSafeBrowsing and Semantic themselves on
   the grammar web_ok), and the known finding D24 as a refuted statement. Outside the grammars (IDNA / numeric hosts under
   the two predefined profiles, reserved characters after decoding, non-special schemes) the statement is decided on the
   implementation over all spellings and tied to the model by correspondence. *)
From Verif Require Import Lib.Base Lib.Utf8 Lib.GoStr Model.Cfg Gen.Tables Gen.Options Model.Sets Model.Url Model.Host Model.Machine Model.Api Model.Canon Proofs.Cleaning.
From Verif Require Import Proofs.RecordInv Proofs.MachineInv Proofs.HostProofs Proofs.RoundTripBase Proofs.NormalFormPhases Proofs.NormalForm Proofs.SpellingProofs Proofs.SpellingDecode Proofs.RepeatedSteps Proofs.RepeatedIdem Proofs.RepeatedExamples Proofs.WebCfg Proofs.WebHost Proofs.RepeatedWeb Proofs.RepeatedWebFixed Proofs.ExperimentalProfiles.

(* surrounding C0/space bytes and embedded tab/newline bytes never change the result (diagnostics off) *)
Theorem C18_cleaning_congruence : forall idna_raw c, c_report c = false -> c_fail c = false ->
  forall x y base, clean_sv (c_acceptInvalid c) x = clean_sv (c_acceptInvalid c) y ->
  BasicParser idna_raw c x base None None = BasicParser idna_raw c y base None None.
Proof. exact clean_congruence. Qed.
Print Assumptions C18_cleaning_congruence.

Theorem C18_tab_newline_irrelevant : forall x y t, Model.Sets.isTabOrNewline t = true ->
  fst (remove_tabnl (x ++ t :: y)) = fst (remove_tabnl (x ++ y)).
Proof. exact remove_tabnl_insert. Qed.
Print Assumptions C18_tab_newline_irrelevant.

(* on valid UTF-8 the removal is plain byte removal; on invalid UTF-8 a removed tab cannot join a broken sequence *)
Theorem C18_removal_on_valid_utf8 : forall a s, Lib.Utf8.valid_utf8 s = true -> remove_tabnl_sv a s = remove_tabnl s.
Proof. exact remove_tabnl_sv_valid. Qed.
Print Assumptions C18_removal_on_valid_utf8.

Example C18_nonvacuous : Verif.Proofs.Cleaning.clean [32; 104; 9; 116; 10; 116; 112; 58; 32] = Verif.Proofs.Cleaning.clean [104; 116; 116; 112; 58].
Proof. vm_compute. reflexivity. Qed.

(* ================================================================================================================
   THE NORMAL FORM OF AN ORDINARY WEB URL, and what follows for its spellings (Proofs/NormalFormPhases.v, NormalForm.v,
   SpellingProofs.v, SpellingDecode.v).
   comps: scheme, user, password, host text, optional port text, list of path segments, optional query, optional
   fragment; text_of k is the URL text scheme://[user[:password]@]host[:port]/seg/seg...[?query][#fragment];
   comps_ok: the grammar (a special non-file scheme in ANY letter case, credentials free of the userinfo set, a
   non-empty visible-ASCII host without delimiters, a port of digits up to 65535 or none, segments of path characters -
   dot segments and escapes allowed -, query and fragment of visible ASCII).
   normal_form: Parse (text_of k) is an explicit record nf c k h (h the host parser's answer): lower-cased scheme,
   nf_port (no port for empty digits or the scheme's default), norm_segs (dot-segment normalisation, every spelling of
   "." and ".."), encoded query and fragment. Everything else is a corollary.
   ================================================================================================================ *)
Theorem C18_normal_form : forall idna_raw c, CfgRT c -> c_skipTrailSlash c = false -> forall k, comps_ok c k = true ->
  Parse idna_raw c (text_of k) =
  match parseHost idna_raw c (pre_host c k) (k_host k) false with
  | Ok _ h => PUrl (nf c k h)
  | Er _ e => PErr e
  end.
Proof. exact normal_form. Qed.
Print Assumptions C18_normal_form.

(* two texts of the grammar whose components agree up to scheme case, host parser result, denoted port, dot-segment
   normalisation (and encoded query / fragment) parse to the same components, or both fail *)
Theorem C18_spellings_parse_alike : forall idna_raw c, CfgRT c -> c_skipTrailSlash c = false -> forall k1 k2,
  comps_ok c k1 = true -> comps_ok c k2 = true -> equiv_comps idna_raw c k1 k2 ->
  same_result (Parse idna_raw c (text_of k1)) (Parse idna_raw c (text_of k2)).
Proof. exact spelling. Qed.
Print Assumptions C18_spellings_parse_alike.

(* ... and so does EVERY profile whose configuration meets the premises (WhatWg included; repeated decoding and
   sort-query included: the canonicalizer is a function of the record, it never reads the input text) *)
Theorem C18_spellings_canonicalize_alike : forall idna_raw p, CfgRT (p_cfg p) -> c_skipTrailSlash (p_cfg p) = false ->
  forall k1 k2 h, comps_ok (p_cfg p) k1 = true -> comps_ok (p_cfg p) k2 = true -> equiv_comps idna_raw (p_cfg p) k1 k2 ->
  host_val idna_raw (p_cfg p) (k_host k1) = Some h ->
  same_cres (ProfileParse idna_raw p (text_of k1)) (ProfileParse idna_raw p (text_of k2)).
Proof. exact spelling_profile. Qed.
Print Assumptions C18_spellings_canonicalize_alike.

(* the individual differences the standard normalises *)
Theorem C18_inserted_single_dot : forall A B dot, B <> [] ->
  isDoubleDotPathSegment dot = false -> isSingleDotPathSegment dot = true ->
  norm_segs (A ++ dot :: B) = norm_segs (A ++ B).
Proof. exact norm_insert_dot. Qed.
Print Assumptions C18_inserted_single_dot.

Theorem C18_inserted_segment_and_double_dot : forall A B x dd, B <> [] ->
  dotseg x = false -> isDoubleDotPathSegment dd = true ->
  norm_segs (A ++ x :: dd :: B) = norm_segs (A ++ B).
Proof. exact norm_insert_pop. Qed.
Print Assumptions C18_inserted_segment_and_double_dot.

Theorem C18_host_letter_case : forall idna_raw c h1 h2,
  c_lax c = false -> c_latin1 c = false -> c_pre c = HF_none -> c_post c = HF_none -> oracle_case_invariant idna_raw ->
  not_bracket h1 -> str_lower h1 = str_lower h2 -> host_val idna_raw c h1 = host_val idna_raw c h2.
Proof. exact host_val_case. Qed.
Print Assumptions C18_host_letter_case.

(* an empty port, the scheme's default port in any spelling (":80", ":080"), and two spellings of the same number *)
Theorem C18_port_spellings : forall c lsch,
  nf_port c lsch (Some []) = nf_port c lsch None /\
  (forall d dp, getSpecialScheme c lsch = Some dp -> d <> [] -> Lib.GoStr.itoa (digits_val 10 d) = dp ->
     nf_port c lsch (Some d) = nf_port c lsch None) /\
  (forall d1 d2, d1 <> [] -> d2 <> [] -> digits_val 10 d1 = digits_val 10 d2 -> nf_port c lsch (Some d1) = nf_port c lsch (Some d2)).
Proof. intros c lsch. split; [exact (nf_port_empty c lsch)|]. split; [exact (nf_port_default c lsch)|exact (nf_port_value c lsch)]. Qed.
Print Assumptions C18_port_spellings.

(* nested percent-encoding under repeated decoding, for the path: two non-opaque records that differ only in their
   paths, with the same fully decoded segments, get the same result from the canonicalizer's path step *)
Theorem C18_path_step_decoded_alike : forall idna_raw p u1 u2,
  u_opaque u1 = false -> u_opaque u2 = false -> u_path u1 <> [] -> u_path u2 <> [] ->
  eqi (set_path u1 [] false) (set_path u2 [] false) ->
  map rd (u_path u1) = map rd (u_path u2) ->
  orel (path_step idna_raw p u1) (path_step idna_raw p u2).
Proof. exact path_step_same. Qed.
Print Assumptions C18_path_step_decoded_alike.

(* known finding D24 as a theorem about the model: http://h/a/%252e%252e/.. and http://h/a/../.. have the same fully
   decoded segments and canonicalize to http://h/a/ and http://h/ under repeated decoding *)
Theorem C18_nested_dot_segment_refuted :
  exists segs1 segs2 t1 t2 u1 u2 s1 s2,
    map rd segs1 = map rd segs2 /\
    t1 = [104;116;116;112;58;47;47;104] ++ pathname_of segs1 /\ t2 = [104;116;116;112;58;47;47;104] ++ pathname_of segs2 /\
    ProfileParse idna_toy copt_WithRepeatedPercentDecoding t1 = CUrl u1 /\
    ProfileParse idna_toy copt_WithRepeatedPercentDecoding t2 = CUrl u2 /\
    Href u1 false = Some s1 /\ Href u2 false = Some s2 /\
    s1 = [104;116;116;112;58;47;47;104;47;97;47] /\ s2 = [104;116;116;112;58;47;47;104;47] /\ s1 <> s2 /\
    norm_segs segs1 <> norm_segs segs2.
Proof. exact decoded_segments_texts_refuted. Qed.
Print Assumptions C18_nested_dot_segment_refuted.

(* ================================================================================================================
   REPEATED PERCENT-DECODING: spellings that differ in (nested) escapes of path segments, query names / values and the
   fragment (Proofs/RepeatedSteps.v, RepeatedIdem.v). For every profile with repeated decoding whose parser configuration
   satisfies CfgRT (no Latin-1 override, no skip-equals): two texts of the web-URL grammar that agree as before, except
   that segments, query pairs and fragment need only have the same FULL DECODING (requiv), canonicalize alike.
   rep_ok collects what the decoded components must satisfy: literal bytes for the step's encode set (in particular the
   unreserved characters: RepeatedExamples.rcomps_ok_unres) and no segment that is a dot segment after decoding (exactly
   the exclusion of known finding D24). Not covered: the two predefined profiles GoogleSafeBrowsing and Semantic, whose
   parser options (collapse, single-percent-sign, lax host parsing, host functions, skip-equals / Latin-1) lie outside
   CfgRT: for them the statement is decided on the implementation.
   ================================================================================================================ *)
Theorem C18_repeated_spellings_canonicalize_alike : forall idna_raw p, CfgRT (p_cfg p) -> c_skipTrailSlash (p_cfg p) = false ->
  c_latin1 (p_cfg p) = false -> c_skipEq (p_cfg p) = false -> p_repeated p = true ->
  forall k1 k2 h, comps_ok (p_cfg p) k1 = true -> comps_ok (p_cfg p) k2 = true -> requiv idna_raw p k1 k2 ->
  host_val idna_raw (p_cfg p) (k_host k1) = Some h ->
  rep_ok idna_raw p (nf (p_cfg p) k1 h) -> rep_ok idna_raw p (nf (p_cfg p) k2 h) ->
  same_cres (ProfileParse idna_raw p (text_of k1)) (ProfileParse idna_raw p (text_of k2)).
Proof. exact repeated_spelling. Qed.
Print Assumptions C18_repeated_spellings_canonicalize_alike.

(* the fragment step and the query step by themselves, without any restriction on the alphabet *)
Theorem C18_fragment_step_decoded_alike : forall idna_raw p u1 u2,
  eqi (set_fragment u1 None) (set_fragment u2 None) -> rd (Fragment u1) = rd (Fragment u2) ->
  orel (frag_step idna_raw p u1) (frag_step idna_raw p u2).
Proof. exact frag_step_same. Qed.
Print Assumptions C18_fragment_step_decoded_alike.

Theorem C18_query_step_decoded_alike : forall idna_raw p u1 u2 q1 q2,
  u_sp u1 = None -> u_sp u2 = None -> u_query u1 = Some q1 -> u_query u2 = Some q2 -> is_nil q1 = is_nil q2 ->
  eqi (set_query u1 None) (set_query u2 None) ->
  map rd2 (Verif.Model.Api.sp_init (p_cfg p) q1) = map rd2 (Verif.Model.Api.sp_init (p_cfg p) q2) ->
  orel (query_step idna_raw p u1) (query_step idna_raw p u2).
Proof. exact query_step_same. Qed.
Print Assumptions C18_query_step_decoded_alike.

(* the premises are met: HTTP://U:p@H:81/%2561/./b%2Dc?%257a=%2562&c=%64#%2566 and http://U:p@h:81/a/b%252dc?z=b&c=d#f
   under a profile with repeated decoding alone and under one with removals and sort-query as well *)
Example C18_repeated_premises_met :
  same_cres (ProfileParse idna_toy prof_rep (text_of rk1)) (ProfileParse idna_toy prof_rep (text_of rk2)) /\
  same_cres (ProfileParse idna_toy prof_rep_all (text_of rk1)) (ProfileParse idna_toy prof_rep_all (text_of rk2)).
Proof. exact repeated_spelling_ex. Qed.

(* THE TWO PREDEFINED PROFILES WITH REPEATED DECODING (Proofs/ExperimentalProfiles.v): on the grammar web_ok of ordinary
   web URLs (see Properties/C17.v) two texts that are spellings of each other under repeated decoding (requiv: same scheme
   and host up to case, same credentials, same port value, paths equal after dot-segment removal and full decoding, queries
   with the same decoded pairs, fragments equal after full decoding) canonicalize to the same result under
   GoogleSafeBrowsing and under Semantic. Oracle hypothesis: H1 only. *)
Theorem C18_gsb_spellings : forall idna_raw k1 k2, oracle_ascii_transparent idna_raw ->
  web_ok prof_GoogleSafeBrowsing k1 = true -> web_ok prof_GoogleSafeBrowsing k2 = true ->
  requiv idna_raw prof_GoogleSafeBrowsing k1 k2 ->
  same_cres (ProfileParse idna_raw prof_GoogleSafeBrowsing (text_of k1)) (ProfileParse idna_raw prof_GoogleSafeBrowsing (text_of k2)).
Proof. exact gsb_spelling. Qed.
Print Assumptions C18_gsb_spellings.

Theorem C18_semantic_spellings : forall idna_raw k1 k2, oracle_ascii_transparent idna_raw ->
  web_ok prof_Semantic k1 = true -> web_ok prof_Semantic k2 = true ->
  requiv idna_raw prof_Semantic k1 k2 ->
  same_cres (ProfileParse idna_raw prof_Semantic (text_of k1)) (ProfileParse idna_raw prof_Semantic (text_of k2)).
Proof. exact semantic_spelling. Qed.
Print Assumptions C18_semantic_spellings.

Theorem C18_web_profile_spellings : forall idna_raw, oracle_ascii_transparent idna_raw -> forall p, prof_web p = true ->
  forall k1 k2 a b, web_ok p k1 = true -> web_ok p k2 = true -> requiv idna_raw p k1 k2 ->
  ProfileParse idna_raw p (text_of k1) = CUrl a -> ProfileParse idna_raw p (text_of k2) = CUrl b ->
  same_components a b /\ Href a false = Href b false.
Proof. exact experimental_spelling_href. Qed.
Print Assumptions C18_web_profile_spellings.

(* the parser's normal form under the weaker configuration record CfgWeb (quiet errors, trailing-slash normalisation,
   blanks in the path / special-query / special-fragment sets): lax parsing, host functions, invalid code points,
   Latin-1 and skip-equals stay inside the abstract host call or outside the parser *)
Theorem C18_normal_form_web : forall idna_raw c, CfgWeb c -> forall k,
  comps_ok c k = true -> pq c (text_of k) ->
  (c_collapse c = false \/ forallb nonempty (removelast (k_segs k)) = true) ->
  Parse idna_raw c (text_of k) =
    match parseHost idna_raw c (pre_host c k) (k_host k) false with Ok _ h => PUrl (nf c k h) | Er _ e => PErr e end.
Proof. exact normal_form_web. Qed.
Print Assumptions C18_normal_form_web.

Example C18_web_premises_met :
  requiv idna_toy prof_GoogleSafeBrowsing wk1 wk2 /\ requiv idna_toy prof_Semantic wk1 wk2 /\
  CfgWeb (p_cfg prof_GoogleSafeBrowsing) /\ CfgWeb (p_cfg prof_Semantic).
Proof. exact (conj (proj1 (proj2 experimental_premises)) (conj (proj2 (proj2 experimental_premises)) (conj CfgWeb_gsb CfgWeb_sem))). Qed.

(* the same with IPv4 and IPv6 literal hosts (web_ok', see Properties/C17.v): two spellings whose hosts have the same value -
   0x7F.1 and 127.0.0.1, [0:0::1] and [::1] - canonicalize alike *)
From Verif Require Import Proofs.WebHostNumeric Proofs.ExperimentalHosts.
Theorem C18_gsb_spellings_any_host : forall idna_raw k1 k2, oracle_ascii_transparent idna_raw ->
  web_ok' prof_GoogleSafeBrowsing k1 = true -> web_ok' prof_GoogleSafeBrowsing k2 = true ->
  requiv idna_raw prof_GoogleSafeBrowsing k1 k2 ->
  same_cres (ProfileParse idna_raw prof_GoogleSafeBrowsing (text_of k1)) (ProfileParse idna_raw prof_GoogleSafeBrowsing (text_of k2)).
Proof. exact gsb_spelling'. Qed.
Print Assumptions C18_gsb_spellings_any_host.
Theorem C18_semantic_spellings_any_host : forall idna_raw k1 k2, oracle_ascii_transparent idna_raw ->
  web_ok' prof_Semantic k1 = true -> web_ok' prof_Semantic k2 = true ->
  requiv idna_raw prof_Semantic k1 k2 ->
  same_cres (ProfileParse idna_raw prof_Semantic (text_of k1)) (ProfileParse idna_raw prof_Semantic (text_of k2)).
Proof. exact semantic_spelling'. Qed.
Print Assumptions C18_semantic_spellings_any_host.
Example C18_any_host_premises_met :
  forallb (fun p => web_ok' p hk4a && web_ok' p hk4b && web_ok' p hk6a && web_ok' p hk6b
                    && negb (web_ok p hk4a) && negb (web_ok p hk6a))
    [prof_GoogleSafeBrowsing; prof_Semantic] = true /\
  requiv idna_toy prof_GoogleSafeBrowsing hk4a hk4b /\ requiv idna_toy prof_Semantic hk4a hk4b /\
  requiv idna_toy prof_GoogleSafeBrowsing hk6a hk6b /\ requiv idna_toy prof_Semantic hk6a hk6b.
Proof. exact (conj (proj1 experimental_hosts_premises) (conj (proj1 (proj2 experimental_hosts_premises)) (conj (proj1 (proj2 (proj2 experimental_hosts_premises))) (conj (proj1 (proj2 (proj2 (proj2 experimental_hosts_premises)))) (proj1 (proj2 (proj2 (proj2 (proj2 experimental_hosts_premises))))))))). Qed.
