(* C17 - canonical output is a fixed point: the repeated-percent-decoding step of the canonicalizer.
   Proofs in Proofs/CodecProofs.v. The whole-profile fixed point is decided on the implementation
   (parse twice) and tied to the model by correspondence; what is proved here is the component. *)
From Verif Require Import Lib.Base Model.Cfg Model.Canon Proofs.CodecProofs.

(* repeated decoding always terminates within its fuel and ends in a string without decodable escapes *)
Theorem C17_repeated_decode_total : forall s, repeatedDecode s <> None.
Proof. exact repeatedDecode_total. Qed.
Print Assumptions C17_repeated_decode_total.

Theorem C17_repeated_decode_fixed : forall s d, repeatedDecode s = Some d -> c_decode d = d.
Proof. exact repeatedDecode_fixed. Qed.
Print Assumptions C17_repeated_decode_fixed.

(* the canonicalizer's encoder (which always escapes '%') is inverted by one decoding pass *)
Theorem C17_decode_of_encode : forall d tr, bytes d -> c_decode (c_percentEncode d tr) = d.
Proof. exact c_decode_encode. Qed.
Print Assumptions C17_decode_of_encode.

(* decode-repeatedly-then-encode is idempotent: its output is a fixed point *)
Theorem C17_decodeEncode_idempotent : forall s tr e, bytes s -> decodeEncode s tr = Some e -> decodeEncode e tr = Some e.
Proof. exact decodeEncode_idempotent. Qed.
Print Assumptions C17_decodeEncode_idempotent.

Example C17_nonvacuous : decodeEncode [37;50;53;50;53;52;49;32] Gen.Tables.pes_Host = Some [65;37;50;48].
Proof. vm_compute. reflexivity. Qed.
