(* C17 - canonical output is a fixed point of its own canonicalizer.
   First the repeated-percent-decoding component (Proofs/CodecProofs.v, DecodeOnePassProofs.v); then, at the end of
   this file, the whole-profile fixed point for every profile without repeated decoding (Proofs/CanonIdem.v).
   For profiles WITH repeated decoding the whole-profile fixed point is proved twice: for profiles over parser options
   inside cfg_rt (Proofs/RepeatedFixed.v) and, on the grammar web_ok of ordinary web URLs, for the two predefined profiles
   GoogleSafeBrowsing and Semantic themselves (Proofs/ExperimentalProfiles.v). Outside those grammars (non-LDH / IDNA /
   numeric hosts under the two predefined profiles, reserved characters after decoding) the statement is decided on the
   implementation (parse twice, all spellings) and tied to the model by correspondence. *)
From Verif Require Import Lib.Base Model.Cfg Model.Canon Proofs.CodecProofs.
From Verif Require Model.DecodeOnePass Proofs.DecodeOnePassProofs.
From Verif Require Import Lib.Utf8 Lib.GoStr Gen.Tables Gen.Options Model.Url Model.Host Model.Machine Model.Api.
From Verif Require Import Proofs.RecordInv Proofs.MachineInv Proofs.HostProofs Proofs.SearchParamsProofs Proofs.RoundTripBase Proofs.RoundTripHosts Proofs.CanonIdem Proofs.NormalFormPhases Proofs.NormalForm Proofs.SpellingProofs Proofs.RepeatedSteps Proofs.RepeatedIdem Proofs.RepeatedFixed Proofs.RepeatedExamples Proofs.WebCfg Proofs.WebHost Proofs.RepeatedWeb Proofs.RepeatedWebFixed Proofs.ExperimentalProfiles.

(* repeated decoding always terminates within its fuel and ends in a string without decodable escapes *)
Theorem C17_repeated_decode_total : forall s, repeatedDecode s <> None.
Proof. exact repeatedDecode_total. Qed.
Print Assumptions C17_repeated_decode_total.

Theorem C17_repeated_decode_fixed : forall s d, repeatedDecode s = Some d -> c_decode d = d.
Proof. exact repeatedDecode_fixed. Qed.
Print Assumptions C17_repeated_decode_fixed.

(* the canonicalizer's encoder (which always escapes '%') is inverted by one decoding pass *)
Theorem C17_decode_of_encode : forall d tr, bytes d -> c_decode (c_percentEncode d tr) = d.
Proof. exact c_decode_encode. Qed.
Print Assumptions C17_decode_of_encode.

(* decode-repeatedly-then-encode is idempotent: its output is a fixed point *)
Theorem C17_decodeEncode_idempotent : forall s tr e, bytes s -> decodeEncode s tr = Some e -> decodeEncode e tr = Some e.
Proof. exact decodeEncode_idempotent. Qed.
Print Assumptions C17_decodeEncode_idempotent.

Example C17_nonvacuous : decodeEncode [37;50;53;50;53;52;49;32] Gen.Tables.pes_Host = Some [65;37;50;48].
Proof. vm_compute. reflexivity. Qed.

(* the code's one-pass decoder (fix 8bd3574; Model/DecodeOnePass.v, compared with the Go function on every run) computes
   exactly the iterated specification: escapes never overlap, so the rewriting "replace one escape by its byte" has the
   diamond property and unique normal forms (Proofs/DecodeOnePassProofs.v) *)
Theorem C17_onepass_is_iterated : forall s, repeatedDecode s = Some (Verif.Model.DecodeOnePass.repeatedDecode1 s).
Proof. exact Verif.Proofs.DecodeOnePassProofs.onepass_eq_iterated. Qed.
Print Assumptions C17_onepass_is_iterated.

Theorem C17_onepass_fixed_and_idempotent : forall s,
  c_decode (Verif.Model.DecodeOnePass.repeatedDecode1 s) = Verif.Model.DecodeOnePass.repeatedDecode1 s /\
  Verif.Model.DecodeOnePass.repeatedDecode1 (Verif.Model.DecodeOnePass.repeatedDecode1 s) = Verif.Model.DecodeOnePass.repeatedDecode1 s /\
  (length (Verif.Model.DecodeOnePass.repeatedDecode1 s) <= length s)%nat.
Proof.
  intros s. split; [exact (Verif.Proofs.DecodeOnePassProofs.repeatedDecode1_fixed s)|].
  split; [exact (Verif.Proofs.DecodeOnePassProofs.repeatedDecode1_idempotent s)|exact (Verif.Proofs.DecodeOnePassProofs.repeatedDecode1_length s)].
Qed.
Print Assumptions C17_onepass_fixed_and_idempotent.

(* THE WHOLE-PROFILE FIXED POINT on the model (Proofs/CanonIdem.v, on top of the round trip of C03).
   For every profile without repeated percent-decoding and without sort-query - WhatWg, the empty profile, and every
   combination of remove-user-info, remove-port, remove-fragment and default-scheme - and EVERY input string:
   canonicalizing the canonical string again succeeds and returns the same string and the same components.
   ace_residue is the oracle residue of C03 (a special host with an xn-- label is a fixed point of the host parser:
   where the known finding D6 lives). *)
Theorem C17_canonical_fixed_point : forall idna_raw, H3 idna_raw -> forall p,
  cfg_okm (p_cfg p) = true -> cfg_rt (p_cfg p) = true -> p_repeated p = false ->
  oracle_ascii_transparent idna_raw -> c_latin1 (p_cfg p) = false ->
  forall x u s, p_sortQuery p = NoSort ->
  ProfileParse idna_raw p x = CUrl u -> ace_residue idna_raw (p_cfg p) u -> Href u false = Some s ->
  exists u', ProfileParse idna_raw p s = CUrl u' /\ same_components u' u /\ Href u' false = Some s.
Proof. exact canonical_fixed_point_full. Qed.
Print Assumptions C17_canonical_fixed_point.

(* with sort-query (WhatWgSortQuery, SortKeys / SortParameter compositions): the same, provided the parameter list
   survives the query codec (no %HH triple in a name or value - the known finding D8b otherwise, see below - and valid
   UTF-8) and the canonical record satisfies the record invariant (automatic for non-special schemes; for special ones
   the parameter serializer leaves "'" unescaped, CanonTotal.Canonicalize_Inv_refuted) *)
Theorem C17_canonical_fixed_point_sort : forall idna_raw, H3 idna_raw -> forall p,
  cfg_okm (p_cfg p) = true -> cfg_rt (p_cfg p) = true -> p_repeated p = false ->
  oracle_ascii_transparent idna_raw -> c_latin1 (p_cfg p) = false ->
  forall x u s, ProfileParse idna_raw p x = CUrl u -> Inv (p_cfg p) u ->
  (forall l, u_sp u = Some l -> forallb (pair_ok (p_cfg p)) l = true) ->
  ace_residue idna_raw (p_cfg p) u -> Href u false = Some s ->
  exists u', ProfileParse idna_raw p s = CUrl u' /\ same_components u' u /\ Href u' false = Some s.
Proof. exact canonical_fixed_point_sort. Qed.
Print Assumptions C17_canonical_fixed_point_sort.

(* known finding D8b as a theorem about the model: under WhatWgSortQuery http://h/?%2541=1 canonicalizes to
   http://h/?%41=1 and that to http://h/?A=1 *)
Theorem C17_sort_percent_triple_refuted :
  exists u s u' s',
    ProfileParse idna_toy prof_WhatWgSortQuery ex_d8b = CUrl u /\ Inv (p_cfg prof_WhatWgSortQuery) u /\
    u_sp u = Some [([37;52;49], [49])] /\ forallb (pair_ok (p_cfg prof_WhatWgSortQuery)) [([37;52;49], [49])] = false /\
    Href u false = Some s /\ s = [104;116;116;112;58;47;47;104;47;63;37;52;49;61;49] /\
    ProfileParse idna_toy prof_WhatWgSortQuery s = CUrl u' /\ Href u' false = Some s' /\
    s' = [104;116;116;112;58;47;47;104;47;63;65;61;49] /\ s' <> s.
Proof. exact canonical_fixed_point_pct_refuted. Qed.
Print Assumptions C17_sort_percent_triple_refuted.

(* the premises hold for the predefined WhatWg profile and for each removal / default-scheme option *)
Example C17_premises_met :
  forallb (fun p => cfg_okm (p_cfg p) && cfg_rt (p_cfg p) && negb (p_repeated p)
                    && match p_sortQuery p with NoSort => true | _ => false end)
    [prof_WhatWg; prof_none; copt_WithRemoveUserInfo; copt_WithRemovePort; copt_WithRemoveFragment; copt_WithDefaultScheme] = true.
Proof. exact canonical_fixed_point_profiles. Qed.

(* THE FIXED POINT UNDER REPEATED PERCENT-DECODING (Proofs/RepeatedFixed.v): for every profile with repeated decoding -
   alone or combined with any of the removals and either sort-query mode - whose parser configuration satisfies cfg_okm
   and cfg_rt (no Latin-1 override, no skip-equals), and every text of the web-URL grammar whose decoded components are
   literal for the steps' encode sets (rep_ok: in particular unreserved characters in any, also nested, escaping), the
   canonical string canonicalizes to itself. GoogleSafeBrowsing and Semantic themselves (their parser options lie outside
   cfg_rt) are covered further down, on the grammar web_ok. *)
Theorem C17_repeated_fixed_point : forall idna_raw, H3 idna_raw -> forall p,
  cfg_okm (p_cfg p) = true -> cfg_rt (p_cfg p) = true -> c_latin1 (p_cfg p) = false -> c_skipEq (p_cfg p) = false ->
  p_repeated p = true ->
  forall k h u s, comps_ok (p_cfg p) k = true -> host_val idna_raw (p_cfg p) (k_host k) = Some h ->
  rep_ok idna_raw p (nf (p_cfg p) k h) ->
  (forall u0, parseHost idna_raw (p_cfg p) u0 h false = Ok u0 h) ->
  ProfileParse idna_raw p (text_of k) = CUrl u -> Href u false = Some s ->
  exists u', ProfileParse idna_raw p s = CUrl u' /\ same_components u' u /\ Href u' false = Some s.
Proof. exact repeated_fixed_point. Qed.
Print Assumptions C17_repeated_fixed_point.

Example C17_repeated_premises_met : forall p, p = prof_rep \/ p = prof_rep_all ->
  exists u s u', ProfileParse idna_toy p (text_of rk1) = CUrl u /\ Href u false = Some s /\
                 ProfileParse idna_toy p s = CUrl u' /\ same_components u' u /\ Href u' false = Some s.
Proof. exact repeated_fixed_point_ex. Qed.

(* THE TWO PREDEFINED PROFILES WITH REPEATED DECODING (Proofs/ExperimentalProfiles.v). GoogleSafeBrowsing and Semantic
   switch on lax host parsing, slash collapsing, invalid code points, the single-percent option, a pre-parse host function
   and skip-equals (GSB) / the Latin-1 override (Semantic): outside cfg_rt. On the grammar web_ok of ordinary web URLs
   (special scheme, LDH domain host without ACE label or numeric last label, every '%' followed by two hex digits, no
   empty non-final segment, fully decoded components unreserved and free of dot segments (D24), and under skip-equals no
   pair ("","")) every one of these options is inert and the canonical string canonicalizes to itself. The only
   oracle hypothesis is H1 (ASCII transparency), tested on every run. *)
Theorem C17_gsb_fixed_point : forall idna_raw k u s, oracle_ascii_transparent idna_raw ->
  web_ok prof_GoogleSafeBrowsing k = true ->
  ProfileParse idna_raw prof_GoogleSafeBrowsing (text_of k) = CUrl u -> Href u false = Some s ->
  exists u', ProfileParse idna_raw prof_GoogleSafeBrowsing s = CUrl u' /\ same_components u' u /\ Href u' false = Some s.
Proof. exact gsb_fixed_point. Qed.
Print Assumptions C17_gsb_fixed_point.

Theorem C17_semantic_fixed_point : forall idna_raw k u s, oracle_ascii_transparent idna_raw ->
  web_ok prof_Semantic k = true ->
  ProfileParse idna_raw prof_Semantic (text_of k) = CUrl u -> Href u false = Some s ->
  exists u', ProfileParse idna_raw prof_Semantic s = CUrl u' /\ same_components u' u /\ Href u' false = Some s.
Proof. exact semantic_fixed_point. Qed.
Print Assumptions C17_semantic_fixed_point.

(* for any profile meeting the boolean prof_web (these two and WithRepeatedPercentDecoding among them) *)
Theorem C17_web_profile_fixed_point : forall idna_raw, oracle_ascii_transparent idna_raw -> forall p, prof_web p = true ->
  forall k u s, web_ok p k = true -> ProfileParse idna_raw p (text_of k) = CUrl u -> Href u false = Some s ->
  exists u', ProfileParse idna_raw p s = CUrl u' /\ same_components u' u /\ Href u' false = Some s.
Proof. exact experimental_fixed_point. Qed.
Print Assumptions C17_web_profile_fixed_point.

(* and the texts of the grammar are never rejected, so the statement is not vacuous on any of them *)
Theorem C17_web_profile_total : forall idna_raw, oracle_ascii_transparent idna_raw -> forall p, prof_web p = true ->
  forall k, web_ok p k = true -> exists u, ProfileParse idna_raw p (text_of k) = CUrl u.
Proof. exact experimental_total. Qed.
Print Assumptions C17_web_profile_total.

Example C17_web_premises_met :
  prof_web prof_GoogleSafeBrowsing = true /\ prof_web prof_Semantic = true /\ prof_web copt_WithRepeatedPercentDecoding = true /\
  forallb (fun p => web_ok p wk1 && web_ok p wk2) [prof_GoogleSafeBrowsing; prof_Semantic] = true /\
  oracle_ascii_transparent idna_toy.
Proof. exact (conj (proj1 prof_web_predefined) (conj (proj1 (proj2 prof_web_predefined)) (conj (proj2 (proj2 prof_web_predefined)) (conj (proj1 experimental_premises) idna_toy_H1)))). Qed.

(* the same with IPv4 and IPv6 literal hosts in any spelling (Proofs/WebHostNumeric.v, ExperimentalHosts.v): web_ok' is web_ok
   with the host clause widened to LDH domain || IPv4 text (decimal / octal / hex parts, one to four of them) || bracketed
   IPv6 text (any spelling parseIPv6 accepts); excluded are exactly leading, trailing and doubled dots, on which the
   profiles' own host clean-up is not inert (WebHostNumeric.hostfun_dots_needed) *)
From Verif Require Import Proofs.WebHostNumeric Proofs.ExperimentalHosts.
Theorem C17_gsb_fixed_point_any_host : forall idna_raw k u s, oracle_ascii_transparent idna_raw ->
  web_ok' prof_GoogleSafeBrowsing k = true ->
  ProfileParse idna_raw prof_GoogleSafeBrowsing (text_of k) = CUrl u -> Href u false = Some s ->
  exists u', ProfileParse idna_raw prof_GoogleSafeBrowsing s = CUrl u' /\ same_components u' u /\ Href u' false = Some s.
Proof. exact gsb_fixed_point'. Qed.
Print Assumptions C17_gsb_fixed_point_any_host.
Theorem C17_semantic_fixed_point_any_host : forall idna_raw k u s, oracle_ascii_transparent idna_raw ->
  web_ok' prof_Semantic k = true ->
  ProfileParse idna_raw prof_Semantic (text_of k) = CUrl u -> Href u false = Some s ->
  exists u', ProfileParse idna_raw prof_Semantic s = CUrl u' /\ same_components u' u /\ Href u' false = Some s.
Proof. exact semantic_fixed_point'. Qed.
Print Assumptions C17_semantic_fixed_point_any_host.
