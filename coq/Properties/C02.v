(* C02 - Total API: no panic, no hang, URL-or-error, under every configuration.
   The model makes every Go operation that can panic partial (outcome Panic) and runs the parser on
   explicit fuel (outcome OutOfFuel); totality is therefore a theorem, for EVERY configuration record
   c (a superset of what the public options can build), every oracle function, every byte string.
   Proofs in Proofs/Termination.v, Proofs/NoPanic.v, Proofs/Total.v. *)
From Verif Require Import Lib.Base Model.Cfg Model.Url Model.Machine Model.Api Model.Canon Model.Obs Proofs.Termination Proofs.NoPanic Proofs.Total Proofs.CanonTotal.

(* a parse call yields a URL or an error: never a panic, never out of fuel (no hang), never (nil, nil) *)
Theorem C02_parse_total : forall idna_raw c i,
  Parse idna_raw c i <> PPanic /\ Parse idna_raw c i <> PFuel /\ Parse idna_raw c i <> PNilNil.
Proof. exact Parse_total. Qed.
Print Assumptions C02_parse_total.

Theorem C02_resolve_total : forall idna_raw c (b : url) ref,
  UrlParse idna_raw c b ref <> PPanic /\ UrlParse idna_raw c b ref <> PFuel /\ UrlParse idna_raw c b ref <> PNilNil.
Proof. exact UrlParse_total. Qed.
Print Assumptions C02_resolve_total.

Theorem C02_parseref_total : forall idna_raw c rawUrl ref,
  ParseRef idna_raw c rawUrl ref <> PPanic /\ ParseRef idna_raw c rawUrl ref <> PFuel /\ ParseRef idna_raw c rawUrl ref <> PNilNil.
Proof. exact ParseRef_total. Qed.
Print Assumptions C02_parseref_total.

(* the main loop never exhausts its fuel, from any start state (state overrides of the setters included) *)
Theorem C02_no_hang : forall idna_raw c inp base override st0 u,
  run idna_raw c inp base override (fuel_of (length inp)) (mk st0 (-1) false [] false false false u) <> ROutOfFuel.
Proof. exact run_never_out_of_fuel. Qed.
Print Assumptions C02_no_hang.

(* a parsed URL is one on which every getter works, and every setter returns normally and keeps it so *)
Theorem C02_parsed_url_usable : forall idna_raw c i u, Parse idna_raw c i = PUrl u ->
  wf u /\ (forall b, Href u b <> None) /\ Pathname u <> None.
Proof.
  intros idna_raw c i u H. pose proof (Parse_wf idna_raw c i u H) as W.
  split; [exact W|]. split; [intros b; exact (proj1 (getters_total u b W))|exact (proj2 (getters_total u false W))].
Qed.
Print Assumptions C02_parsed_url_usable.

Theorem C02_setters_total : forall idna_raw c u s, wf u ->
  (exists u', SetProtocol idna_raw c u s = Some u' /\ wf u') /\ (exists u', SetUsername c u s = Some u' /\ wf u') /\
  (exists u', SetPassword c u s = Some u' /\ wf u') /\ (exists u', SetHost idna_raw c u s = Some u' /\ wf u') /\
  (exists u', SetHostname idna_raw c u s = Some u' /\ wf u') /\ (exists u', SetPort idna_raw c u s = Some u' /\ wf u') /\
  (exists u', SetPathname idna_raw c u s = Some u' /\ wf u') /\ (exists u', SetSearch idna_raw c u s = Some u' /\ wf u') /\
  (exists u', SetHash idna_raw c u s = Some u' /\ wf u').
Proof. exact setter_wf. Qed.
Print Assumptions C02_setters_total.

(* every finite sequence of setter / resolve / clone / SearchParams operations after any parse *)
Theorem C02_histories_total : forall idna_raw c base input ops u,
  (match base with Some b => ParseRef idna_raw c b input | None => Parse idna_raw c input end) = PUrl u ->
  slots_wf (Total.hfold idna_raw c (Some u, None) ops) /\
  Forall (fun r : list str * list str * list str => fst (fst r) <> panic_marker) (hrun idna_raw c (Some u, None) ops).
Proof. exact parse_then_history_total. Qed.
Print Assumptions C02_histories_total.

(* canonicalization: for EVERY profile record (every combination of canonicalizer and parser options, the predefined
   profiles included), every oracle and every input, Parse and ParseRef of a profile return a URL or an error - never
   a panic or an exhausted fuel in the parser, the setters, the repeated decoding or the parameter list - and on the
   URL every getter works (Proofs/CanonTotal.v) *)
Theorem C02_canonicalize_total : forall idna_raw p u, wf u -> exists u', Canonicalize idna_raw p u = Some u' /\ wf u'.
Proof. exact Canonicalize_total. Qed.
Print Assumptions C02_canonicalize_total.

Theorem C02_profile_parse_total : forall idna_raw p x, ProfileParse idna_raw p x <> CPanic.
Proof. exact ProfileParse_total. Qed.
Print Assumptions C02_profile_parse_total.

Theorem C02_profile_parse_ref_total : forall idna_raw p x ref, ProfileParseRef idna_raw p x ref <> CPanic.
Proof. exact ProfileParseRef_total. Qed.
Print Assumptions C02_profile_parse_ref_total.

Theorem C02_profile_result_usable : forall idna_raw p x u' b,
  ProfileParse idna_raw p x = CUrl u' -> Href u' b <> None /\ Pathname u' <> None.
Proof. exact ProfileParse_getters. Qed.
Print Assumptions C02_profile_result_usable.

Theorem C02_profile_ref_result_usable : forall idna_raw p x ref u' b,
  ProfileParseRef idna_raw p x ref = CUrl u' -> Href u' b <> None /\ Pathname u' <> None.
Proof. exact ProfileParseRef_getters. Qed.
Print Assumptions C02_profile_ref_result_usable.

(* The public method BasicParser called directly (Model/Direct.v; compared with the implementation on every run for all 22
   state overrides): it never runs out of fuel; it panics ONLY when called without a base with one of the three overrides
   that read the base first (observation O6: outside the property's quantifier, which is over argument strings; model and
   implementation agree on it); with the overrides the library's own setters use it never panics and leaves a well-formed
   record (for PathStart on an opaque path: unless the parser fails on validation errors - the setter never makes that
   call, and the witness is exhibited); with a base it never panics whatever the override. Proofs/DirectTotal.v. *)
From Verif Require Import Model.Direct Proofs.DirectTotal.

Theorem C02_direct_never_out_of_fuel : forall idna_raw c base start ov input l,
  direct idna_raw c base start ov input = Some l -> l <> [[70]].
Proof. exact direct_never_out_of_fuel. Qed.
Print Assumptions C02_direct_never_out_of_fuel.

Theorem C02_direct_panic_origin : forall idna_raw c base start ov input,
  direct idna_raw c base start ov input = Some [[33]] -> base = None /\ (ov = 5 \/ ov = 20 \/ ov = 21).
Proof. exact direct_panic_origin. Qed.
Print Assumptions C02_direct_panic_origin.

Theorem C02_direct_setter_states_total : forall idna_raw c input base u st,
  setter_state st -> wf u -> (forall b, base = Some b -> wf b) ->
  (st = PathStart -> u_opaque u = false \/ c_fail c = false) ->
  left_wf (BasicParser idna_raw c input base (Some u) (Some st)).
Proof. exact direct_setter_states_total. Qed.
Print Assumptions C02_direct_setter_states_total.

Theorem C02_direct_all_states_total_with_base : forall idna_raw c b start ov input l,
  direct idna_raw c (Some b) start ov input = Some l -> l <> [[33]].
Proof. exact direct_all_states_total_with_base. Qed.
Print Assumptions C02_direct_all_states_total_with_base.

(* histories rooted at Parser.NewUrl() (the empty record, not a parse result): every finite sequence of setter / resolve / clone /
   SearchParams / SetSearchParams / Iterate operations on it returns normally too, and every getter keeps working *)
Theorem C02_new_url_histories_total : forall idna_raw c i ops,
  slots_wf (Total.hfold idna_raw c (Some (empty_url i), None) ops) /\
  Forall (fun r : list str * list str * list str => fst (fst r) <> panic_marker) (hrun idna_raw c (Some (empty_url i), None) ops).
Proof.
  intros idna_raw c i ops. apply history_total. intros slot u H. destruct slot; cbn in H; [discriminate|].
  injection H as <-. unfold wf. cbn. discriminate.
Qed.
Print Assumptions C02_new_url_histories_total.

