(* C13 - Bases are never modified and results/clones share no state (value-semantics model). *)
From Verif Require Import Lib.Base Model.Cfg Model.Url Model.Api Model.Obs Proofs.Frame.

(* reads_other o: the one operation whose argument comes from the other URL, SetSearchParams(other.SearchParams()) *)
Theorem C13_step_frame : forall idna_raw c s o, reads_other o = false ->
  get (fst (hstep idna_raw c s o)) (negb (written o)) = get s (negb (written o)).
Proof. exact hstep_frame. Qed.
Print Assumptions C13_step_frame.

(* SetSearchParams leaves the URL whose list it was given as a call of its SearchParams() getter leaves it (the list is
   materialised, nothing else), and the adopting URL holds that list and the query it serializes to *)
Theorem C13_adopt_frame : forall idna_raw c s slot,
  get (fst (hstep idna_raw c s (OSpAdopt slot))) (negb slot) =
  match get s slot with
  | Some _ => option_map (fun v => fst (ensure_sp c v)) (get s (negb slot))
  | None => get s (negb slot)
  end.
Proof. exact adopt_frame. Qed.
Print Assumptions C13_adopt_frame.

Theorem C13_adopt_reflected : forall idna_raw c s slot u v, get s slot = Some u -> get s (negb slot) = Some v ->
  get (fst (hstep idna_raw c s (OSpAdopt slot))) slot = Some (sp_update c (fst (ensure_sp c u)) (snd (ensure_sp c v))).
Proof. exact adopt_reflected. Qed.
Print Assumptions C13_adopt_reflected.

Theorem C13_history_frame : forall idna_raw c sl ops s,
  Forall (fun o => written o = sl /\ reads_other o = false) ops -> get (hfold idna_raw c s ops) (negb sl) = get s (negb sl).
Proof. exact history_frame. Qed.
Print Assumptions C13_history_frame.

Theorem C13_resolve_leaves_base : forall idna_raw c s ref, fst (fst (hstep idna_raw c s (OResolveInto ref))) = fst s.
Proof. exact resolve_leaves_base. Qed.
Print Assumptions C13_resolve_leaves_base.

Theorem C13_clone_is_copy : forall idna_raw c s from u, get s from = Some u ->
  get (fst (hstep idna_raw c s (OCloneInto from))) (negb from) = Some (Clone u) /\
  get (fst (hstep idna_raw c s (OCloneInto from))) from = Some u.
Proof. exact clone_is_copy. Qed.
Print Assumptions C13_clone_is_copy.

Theorem C13_operated_value_reflects : forall idna_raw c s slot w v u u',
  get s slot = Some u -> setter idna_raw c w u v = Some u' -> get (fst (hstep idna_raw c s (OSet slot w v))) slot = Some u'.
Proof. exact setter_reflected. Qed.
Print Assumptions C13_operated_value_reflects.

(* ---------- object-graph model (Model/Heap.v, Proofs/HeapProofs.v): aliasing made explicit ---------- *)
From Verif Require Import Model.Heap Proofs.HeapProofs.

(* the separation invariant (distinct URLs own distinct Path / SearchParams objects, back-pointers consistent) is
   preserved by every operation, for any number of live handles *)
Theorem C13_separation_preserved : forall idna_raw c h op h', Sep h -> h_step idna_raw c h op = Some h' -> Sep h'.
Proof. exact Sep_preserved. Qed.
Print Assumptions C13_separation_preserved.

(* an operation changes nothing observable about any URL other than its target - and, for
   a.SetSearchParams(b.SearchParams()), the URL the argument is taken from (arg_of; None for every other operation):
   its SearchParams object comes into being, see C13_adopt_heap *)
Theorem C13_heap_frame : forall idna_raw c h op h' b, Sep h -> h_step idna_raw c h op = Some h' ->
  target h op <> Some b -> arg_of op <> Some b -> abs h' b = abs h b.
Proof. exact frame. Qed.
Print Assumptions C13_heap_frame.

(* Clone returns a fresh, fully independent copy and leaves the original as it was *)
Theorem C13_clone_fresh : forall h a u, Sep h -> abs h a = Some u ->
  exists h' cl, h_clone h a = Some (h', cl) /\ abs h cl = None /\ abs h' cl = Some (Clone u) /\ Sep h' /\
                abs h' a = Some u /\ (forall b, b <> cl -> abs h' b = abs h b).
Proof. exact clone_fresh. Qed.
Print Assumptions C13_clone_fresh.

(* whole histories: the object-graph model refines the value model, preserving the invariant *)
Theorem C13_heap_refines_values : forall idna_raw c ops h st, Sep h -> R h st ->
  match h_run idna_raw c h ops with
  | Some h' => exists st', l1_run idna_raw c h st ops = Some st' /\ R h' st' /\ Sep h'
  | None => l1_run idna_raw c h st ops = None end.
Proof. exact run_sim. Qed.
Print Assumptions C13_heap_refines_values.

(* what the invariant excludes: the defect the code once had (D9, clone's parameters owned by the original) and a
   clone sharing the path object - each with a concrete history in which an operation on the clone changes the original *)
Theorem C13_buggy_clone_D9_refuted : Sep h_a /\ h_clone_D9 h_a 0%nat = Some (h_d9, 1%nat) /\
  h_sp_via Gen.Options.default_cfg app_b2 h_d9 1%nat = Some h_d9' /\
  q_of h_d9 0%nat = Some (Some [97; 61; 49]) /\ q_of h_d9' 0%nat = Some (Some [97; 61; 49; 38; 98; 61; 50]) /\
  q_of h_d9' 1%nat = q_of h_d9 1%nat /\ ~ Sep h_d9.
Proof. exact mutant_D9. Qed.
Print Assumptions C13_buggy_clone_D9_refuted.

(* ---------- SetSearchParams on the object graph (the operation as repaired by 44c5d62, and as found: D26) ---------- *)

(* separation is preserved by a.SetSearchParams(b.SearchParams()): an instance of C13_separation_preserved, which
   quantifies over every operation including HAdopt *)
Theorem C13_adopt_separation : forall idna_raw c h a b h', Sep h -> h_step idna_raw c h (HAdopt a b) = Some h' -> Sep h'.
Proof. intros idna_raw c h a b h'. exact (Sep_preserved idna_raw c h (HAdopt a b) h'). Qed.
Print Assumptions C13_adopt_separation.

(* its whole effect: a holds b's list and the query it serializes to; b is as b.SearchParams() alone leaves it;
   no other URL changes (the object-graph counterpart of C13_adopt_frame / C13_adopt_reflected) *)
Theorem C13_adopt_heap : forall idna_raw c h a b h', Sep h -> h_step idna_raw c h (HAdopt a b) = Some h' ->
  exists u v, abs h a = Some u /\ abs h b = Some v /\
    abs h' a = Some (sp_update c (fst (ensure_sp c u)) (snd (ensure_sp c v))) /\
    (b <> a -> abs h' b = Some (fst (ensure_sp c v))) /\
    (forall x, x <> a -> x <> b -> abs h' x = abs h x) /\ Sep h'.
Proof. exact adopt_spec. Qed.
Print Assumptions C13_adopt_heap.

(* the step of the finite-map value model that HAdopt refines (C13_heap_refines_values) is the OSpAdopt step of the
   two-slot histories when the handles are the two slots *)
Theorem C13_adopt_is_OSpAdopt : forall idna_raw c m n slot st',
  l1_step idna_raw c (m, n) (L1Adopt (slot_loc slot) (slot_loc (negb slot))) = Some st' ->
  fst (hstep idna_raw c (m 0%nat, m 1%nat) (OSpAdopt slot)) = (fst st' 0%nat, fst st' 1%nat) /\ snd st' = n.
Proof. exact l1_adopt_is_OSpAdopt. Qed.
Print Assumptions C13_adopt_is_OSpAdopt.

(* D26, the code as found: url0.SetSearchParams(url1.SearchParams()) on the separated heap holding http://a/p?x=1 and
   http://b/q?y=2 leaves both URLs pointing to ONE SearchParams object, owned by URL 1 (not separated), and
   url0.SearchParams().Append("b","2") then rewrites URL 1's query and list while URL 0's query stays "x=1" *)
Theorem C13_buggy_set_search_params_D26_refuted :
  Sep h_ab /\ h_adopt_D26 Gen.Options.default_cfg h_ab 0%nat 1%nat = Some h_d26 /\ ~ Sep h_d26 /\
  sp_of h_d26 0%nat = Some 0%nat /\ sp_of h_d26 1%nat = Some 0%nat /\
  option_map s_owner (rd (hs h_d26) 0%nat) = Some (Some 1%nat) /\
  h_sp_via Gen.Options.default_cfg app_b2 h_d26 0%nat = Some h_d26' /\
  q_of h_d26 1%nat = Some (Some [121; 61; 50]) /\
  q_of h_d26' 1%nat = Some (Some [121; 61; 50; 38; 98; 61; 50]) /\
  sp_val h_d26' 1%nat = Some (Some [([121], [50]); ([98], [50])]) /\
  q_of h_d26' 0%nat = Some (Some [120; 61; 49]).
Proof.
  destruct mutant_D26 as (A1 & A2 & A3 & A4 & A5 & A6 & A7 & A8 & A9 & A10 & A11 & A12 & A13).
  repeat (match goal with |- _ /\ _ => split end); assumption.
Qed.
Print Assumptions C13_buggy_set_search_params_D26_refuted.

(* the repaired operation on the same heap: two objects, each owned by its URL; the append through URL 0 stays in URL 0 *)
Theorem C13_adopt_repaired_example :
  h_step idn Gen.Options.default_cfg h_ab (HAdopt 0%nat 1%nat) = Some h_fix /\ Sep h_fix /\
  sp_of h_fix 0%nat = Some 1%nat /\ sp_of h_fix 1%nat = Some 0%nat /\
  h_sp_via Gen.Options.default_cfg app_b2 h_fix 0%nat = Some h_fix' /\
  q_of h_fix' 0%nat = Some (Some [121; 61; 50; 38; 98; 61; 50]) /\
  q_of h_fix' 1%nat = Some (Some [121; 61; 50]) /\ sp_val h_fix' 1%nat = Some (Some [([121], [50])]).
Proof.
  destruct adopt_repaired_ex as (A1 & A2 & A3 & A4 & A5 & A6 & A7 & A8 & A9 & A10 & A11 & A12 & A13 & A14).
  repeat (match goal with |- _ /\ _ => split end); assumption.
Qed.
Print Assumptions C13_adopt_repaired_example.
