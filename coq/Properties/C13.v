(* C13 - Bases are never modified and results/clones share no state (value-semantics model). *)
From Verif Require Import Lib.Base Model.Cfg Model.Url Model.Api Model.Obs Proofs.Frame.

Theorem C13_step_frame : forall idna_raw c s o,
  get (fst (hstep idna_raw c s o)) (negb (written o)) = get s (negb (written o)).
Proof. exact hstep_frame. Qed.
Print Assumptions C13_step_frame.

Theorem C13_history_frame : forall idna_raw c sl ops s,
  Forall (fun o => written o = sl) ops -> get (hfold idna_raw c s ops) (negb sl) = get s (negb sl).
Proof. exact history_frame. Qed.
Print Assumptions C13_history_frame.

Theorem C13_resolve_leaves_base : forall idna_raw c s ref, fst (fst (hstep idna_raw c s (OResolveInto ref))) = fst s.
Proof. exact resolve_leaves_base. Qed.
Print Assumptions C13_resolve_leaves_base.

Theorem C13_clone_is_copy : forall idna_raw c s from u, get s from = Some u ->
  get (fst (hstep idna_raw c s (OCloneInto from))) (negb from) = Some (Clone u) /\
  get (fst (hstep idna_raw c s (OCloneInto from))) from = Some u.
Proof. exact clone_is_copy. Qed.
Print Assumptions C13_clone_is_copy.

Theorem C13_operated_value_reflects : forall idna_raw c s slot w v u u',
  get s slot = Some u -> setter idna_raw c w u v = Some u' -> get (fst (hstep idna_raw c s (OSet slot w v))) slot = Some u'.
Proof. exact setter_reflected. Qed.
Print Assumptions C13_operated_value_reflects.
