(* C12 - A URL and its SearchParams always describe the same query. Proofs in Proofs/SearchParamsProofs.v. *)
From Verif Require Import Lib.Base Model.Cfg Model.Url Model.Api Model.Obs Proofs.SearchParamsProofs.

(* every SearchParams mutation (append/delete/set/sort through Obs.with_sp): afterwards Query and Search equal the
   serialization of the new list, the handle holds the new list, nothing else of the URL changed *)
Theorem C12_after_mutation : forall c s slot f u, get s slot = Some u ->
  exists u', get (with_sp c s slot f) slot = Some u' /\
    u_sp u' = Some (f (snd (ensure_sp c u))) /\
    Query u' = sp_string c (f (snd (ensure_sp c u))) /\
    Search u' = (if is_nil (sp_string c (f (snd (ensure_sp c u)))) then [] else 63 :: sp_string c (f (snd (ensure_sp c u)))) /\
    same_but_query u u' /\ sp_synced c u'.
Proof. exact with_sp_slot. Qed.
Print Assumptions C12_after_mutation.

(* after the search setter the parameter list equals the form-urlencoded parse of the new query ... *)
Theorem C12_after_SetSearch : forall c idna_raw u s u', s <> [] -> SetSearch idna_raw c u s = Some u' ->
  exists q, u_query u' = Some q /\ u_sp u' = Some (sp_init c q).
Proof. exact SetSearch_nonempty. Qed.
Print Assumptions C12_after_SetSearch.

(* ... and is empty after the query is cleared *)
Theorem C12_after_clearing : forall c idna_raw u u', SetSearch idna_raw c u [] = Some u' ->
  u_query u' = None /\ u_sp u' = match u_sp u with Some _ => Some [] | None => None end /\ snd (ensure_sp c u') = [].
Proof. exact SetSearch_empty. Qed.
Print Assumptions C12_after_clearing.

(* the synchronisation invariant is preserved by every SearchParams operation and by SetSearch, in any interleaving *)
Theorem C12_sync_invariant : forall c idna_raw s o, is_sp_op o = true -> hstate_synced c s -> hstate_synced c (fst (hstep idna_raw c s o)).
Proof. exact hstep_synced. Qed.
Print Assumptions C12_sync_invariant.

(* ---------- object-graph model: a SearchParams handle obtained earlier stays the URL's handle ---------- *)
From Verif Require Import Model.Heap Proofs.HeapProofs.

Theorem C12_handle_stability : forall idna_raw c ops h h' a sl, Sep h -> h_run idna_raw c h ops = Some h' ->
  sp_of h a = Some sl -> sp_of h' a = Some sl /\ (exists s, rd (hs h') sl = Some s /\ s_owner s = Some a).
Proof. exact handle_stability. Qed.
Print Assumptions C12_handle_stability.
