(* C12 - A URL and its SearchParams always describe the same query. Proofs in Proofs/SearchParamsProofs.v. *)
From Verif Require Import Lib.Base Model.Cfg Model.Url Model.Api Model.Obs Proofs.SearchParamsProofs.

(* every SearchParams mutation (append/delete/set/sort through Obs.with_sp): afterwards Query and Search equal the
   serialization of the new list, the handle holds the new list, nothing else of the URL changed *)
Theorem C12_after_mutation : forall c s slot f u, get s slot = Some u ->
  exists u', get (with_sp c s slot f) slot = Some u' /\
    u_sp u' = Some (f (snd (ensure_sp c u))) /\
    Query u' = sp_string c (f (snd (ensure_sp c u))) /\
    Search u' = (if is_nil (sp_string c (f (snd (ensure_sp c u)))) then [] else 63 :: sp_string c (f (snd (ensure_sp c u)))) /\
    same_but_query u u' /\ sp_synced c u'.
Proof. exact with_sp_slot. Qed.
Print Assumptions C12_after_mutation.

(* after the search setter the parameter list equals the form-urlencoded parse of the new query ... *)
Theorem C12_after_SetSearch : forall c idna_raw u s u', s <> [] -> SetSearch idna_raw c u s = Some u' ->
  exists q, u_query u' = Some q /\ u_sp u' = Some (sp_init c q).
Proof. exact SetSearch_nonempty. Qed.
Print Assumptions C12_after_SetSearch.

(* ... and is empty after the query is cleared *)
Theorem C12_after_clearing : forall c idna_raw u u', SetSearch idna_raw c u [] = Some u' ->
  u_query u' = None /\ u_sp u' = match u_sp u with Some _ => Some [] | None => None end /\ snd (ensure_sp c u') = [].
Proof. exact SetSearch_empty. Qed.
Print Assumptions C12_after_clearing.

(* the synchronisation invariant is preserved by every SearchParams operation and by SetSearch, in any interleaving *)
Theorem C12_sync_invariant : forall c idna_raw s o, is_sp_op o = true -> hstate_synced c s -> hstate_synced c (fst (hstep idna_raw c s o)).
Proof. exact hstep_synced. Qed.
Print Assumptions C12_sync_invariant.

(* ---------- object-graph model: a SearchParams handle obtained earlier stays the URL's handle ---------- *)
From Verif Require Import Model.Heap Proofs.HeapProofs.

Theorem C12_handle_stability : forall idna_raw c ops h h' a sl, Sep h -> h_run idna_raw c h ops = Some h' ->
  sp_of h a = Some sl -> sp_of h' a = Some sl /\ (exists s, rd (hs h') sl = Some s /\ s_owner s = Some a).
Proof. exact handle_stability. Qed.
Print Assumptions C12_handle_stability.

(* ---------- SetSearchParams on the object graph (the operation as repaired by 44c5d62, and as found: D26) ---------- *)

(* C12_handle_stability quantifies over all operation lists, HAdopt included; the instance for one
   a.SetSearchParams(b.SearchParams()): every SearchParams handle handed out before - of a, of b, of any URL x -
   is still that URL's handle, and the object is still owned by it (the repaired code keeps a's own object) *)
Theorem C12_adopt_handle_stability : forall idna_raw c h a b h' x sl, Sep h ->
  h_step idna_raw c h (HAdopt a b) = Some h' -> sp_of h x = Some sl ->
  sp_of h' x = Some sl /\ (exists s, rd (hs h') sl = Some s /\ s_owner s = Some x).
Proof.
  intros idna_raw c h a b h' x sl S E P.
  apply (handle_stability idna_raw c [HAdopt a b] h h' x sl S); [|exact P].
  cbn [h_run]. rewrite E. reflexivity.
Qed.
Print Assumptions C12_adopt_handle_stability.

(* after a.SetSearchParams(b.SearchParams()) URL a and its SearchParams describe the same query: the list is b's,
   Query is its serialization *)
Theorem C12_adopt_query_follows : forall idna_raw c h a b h', Sep h -> h_step idna_raw c h (HAdopt a b) = Some h' ->
  exists v u', abs h b = Some v /\ abs h' a = Some u' /\
    u_sp u' = Some (snd (ensure_sp c v)) /\ Query u' = sp_string c (snd (ensure_sp c v)) /\ sp_synced c u'.
Proof.
  intros idna_raw c h a b h' S E.
  destruct (adopt_spec idna_raw c h a b h' S E) as (u & v & _ & Ab & Aa & _).
  exists v, (sp_update c (fst (ensure_sp c u)) (snd (ensure_sp c v))).
  split; [exact Ab|]. split; [exact Aa|]. split; [apply sp_update_sp|]. split; [apply sp_update_Query|apply sp_update_synced].
Qed.
Print Assumptions C12_adopt_query_follows.

(* D26, the code as found: after url0.SetSearchParams(url1.SearchParams()) the query of URL 0 is still "x=1" while
   its parameter list is [("y","2")] - neither the parse of the query nor serializing to it (the heap is not separated);
   the repaired operation on the same heap gives query "y=2" with that list *)
Theorem C12_set_search_params_D26_refuted :
  Sep h_ab /\ h_adopt_D26 Gen.Options.default_cfg h_ab 0%nat 1%nat = Some h_d26 /\ ~ Sep h_d26 /\
  q_of h_d26 0%nat = Some (Some [120; 61; 49]) /\ sp_val h_d26 0%nat = Some (Some [([121], [50])]) /\
  (exists u, abs h_d26 0%nat = Some u /\ ~ sp_synced Gen.Options.default_cfg u) /\
  h_step idn Gen.Options.default_cfg h_ab (HAdopt 0%nat 1%nat) = Some h_fix /\
  q_of h_fix 0%nat = Some (Some [121; 61; 50]) /\ sp_val h_fix 0%nat = Some (Some [([121], [50])]).
Proof.
  destruct mutant_D26 as (A1 & A2 & A3 & _ & _ & _ & A7 & A8 & _).
  destruct adopt_repaired_ex as (B1 & _ & _ & _ & _ & _ & B7 & B8 & _).
  split; [exact A1|]. split; [exact A2|]. split; [exact A3|]. split; [exact A7|]. split; [exact A8|].
  split; [|split; [exact B1|split; [exact B7|exact B8]]].
  (* every evaluation below is an equation proved by vm_compute, so that the kernel re-checks it with the VM *)
  assert (A : option_map (fun u => (u_query u, u_sp u)) (abs h_d26 0%nat) =
              Some (Some [120; 61; 49], Some [([121], [50])])) by (vm_compute; reflexivity).
  assert (I : sp_init Gen.Options.default_cfg [120; 61; 49] = [([120], [49])]) by (vm_compute; reflexivity).
  assert (J : sp_string Gen.Options.default_cfg [([121], [50])] = [121; 61; 50]) by (vm_compute; reflexivity).
  destruct (abs h_d26 0%nat) as [u|]; [|discriminate A].
  cbn [option_map] in A. injection A as Eq Eu.
  exists u. split; [reflexivity|].
  assert (Q : Query u = [120; 61; 49]) by (unfold Query; rewrite Eq; reflexivity).
  unfold sp_synced. rewrite Eu, Q, I, J.
  intros [H|H]; discriminate H.
Qed.
Print Assumptions C12_set_search_params_D26_refuted.
