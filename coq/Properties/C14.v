(* C14 - safe for concurrent use: the schedule-quantified half. Threads whose write footprints are
   disjoint from every other thread's accesses return, under EVERY interleaving, what they return
   alone, and shared (never written) locations keep their values. Proofs in Proofs/EffectSem.v.
   That the real code's footprints are disjoint is checked dynamically (Go race detector). *)
From Coq Require Import List.
From Verif Require Import Proofs.EffectSem.

Theorem C14_drf_deterministic : forall ts h, drf ts -> forall sigma, complete ts h sigma ->
  let c := run_schedule sigma (init ts h) in
  (forall i t, nth_error ts i = Some t -> nth_error (cthreads c) i = Some (fst (solo t h), nil)) /\
  (forall l i t, nth_error ts i = Some t -> In l (writes t) -> cheap c l = snd (solo t h) l) /\
  (forall l, (forall i t, nth_error ts i = Some t -> ~ In l (writes t)) -> cheap c l = h l).
Proof. exact drf_deterministic. Qed.
Print Assumptions C14_drf_deterministic.

Theorem C14_readonly_sharing : forall (shared : loc -> Prop) ts h,
  (forall i t, nth_error ts i = Some t -> forall l, In l (writes t) -> ~ shared l) ->
  (forall i j ti tj, i <> j -> nth_error ts i = Some ti -> nth_error ts j = Some tj ->
     forall l, In l (accesses ti) -> In l (accesses tj) -> shared l) ->
  forall sigma, complete ts h sigma ->
    (forall i t, nth_error ts i = Some t -> result (run_schedule sigma (init ts h)) i = Some (fst (solo t h))) /\
    (forall l, shared l -> cheap (run_schedule sigma (init ts h)) l = h l).
Proof. exact readonly_threads_deterministic. Qed.
Print Assumptions C14_readonly_sharing.

(* the same with data-dependent control flow (footprints = locations touched by the solo run) *)
Theorem C14_dynamic_footprints : forall ps h, ddrf ps h -> forall sigma, dcomplete ps h sigma ->
  let c := drun_schedule sigma (dinit ps h) in
  (forall i t, nth_error ps i = Some t -> nth_error (dthreads c) i = Some (fst (dsolo t h), Done)) /\
  (forall l i t, nth_error ps i = Some t -> In l (dwrites t h) -> dheap c l = snd (dsolo t h) l) /\
  (forall l, (forall i t, nth_error ps i = Some t -> ~ In l (dwrites t h)) -> dheap c l = h l).
Proof. exact dyn_drf_deterministic. Qed.
Print Assumptions C14_dynamic_footprints.

(* the disjointness premise cannot be dropped: a lazily written shared field changes results (the shape of defect D10) *)
Theorem C14_race_changes_results : ~ (forall ts h s1 s2, complete ts h s1 -> complete ts h s2 ->
  forall i, result (run_schedule s1 (init ts h)) i = result (run_schedule s2 (init ts h)) i).
Proof. exact drf_premise_needed. Qed.
Print Assumptions C14_race_changes_results.

(* ---------- the footprints of the CURRENT source (Gen/Effects.v, regenerated every run) ---------- *)
From Verif Require Import Gen.Effects Proofs.EffectsProofs.

(* the read-only accessors of a URL value, Clone, and resolution against it never write through the receiver *)
Theorem C14_url_readers_write_nothing_shared : missing_readers = nil /\ readers_writing_receiver = nil.
Proof. exact (conj (proj1 effects_entry_points_present) effects_readers_pure). Qed.
Print Assumptions C14_url_readers_write_nothing_shared.

(* no method of a parser or of a profile writes the parser / profile; BasicParser never writes through its base argument *)
Theorem C14_parsers_immutable : parser_methods_writing_receiver = nil /\ basic_parser_writes_base = false.
Proof. exact (conj effects_parsers_immutable effects_base_not_written). Qed.
Print Assumptions C14_parsers_immutable.

(* package-level tables are written by the package initialisers only *)
Theorem C14_globals_frozen : functions_writing_globals = nil /\ functions_writing_unknown = nil /\ is_fixpoint = true.
Proof. exact (conj effects_globals_frozen (conj effects_no_unknown effects_fixpoint)). Qed.
Print Assumptions C14_globals_frozen.
