(* C15 - Diagnostics options never change results; errors are classified.
   Lock-step simulations between runs that differ only in the two diagnostics options, for every input,
   base, configuration and oracle. Proofs in Proofs/DiagBase.v, DiagStep.v (21 states), DiagRun.v,
   Diagnostics.v. eqv = equality of URL records up to the recorded validation errors. *)
From Verif Require Import Lib.Base Model.Cfg Model.Url Model.Machine Model.Api Gen.ErrTypes Proofs.DiagBase Proofs.Diagnostics Proofs.ErrTypesProofs.

(* turning on validation-error reporting never changes whether parsing succeeds, nor any component, nor the error *)
Theorem C15_reporting_neutral_parse : forall idna c b1 b2 i,
  pres_eqv (Parse idna (with_report c b1) i) (Parse idna (with_report c b2) i).
Proof. exact Parse_report_neutral. Qed.
Print Assumptions C15_reporting_neutral_parse.

Theorem C15_reporting_neutral_parseref : forall idna c b1 b2 raw ref,
  pres_eqv (ParseRef idna (with_report c b1) raw ref) (ParseRef idna (with_report c b2) raw ref).
Proof. exact ParseRef_report_neutral. Qed.
Print Assumptions C15_reporting_neutral_parseref.

Theorem C15_reporting_neutral_resolve : forall idna c b1 b2 bs1 bs2 ref, eqv bs1 bs2 ->
  pres_eqv (UrlParse idna (with_report c b1) bs1 ref) (UrlParse idna (with_report c b2) bs2 ref).
Proof. exact UrlParse_report_neutral. Qed.
Print Assumptions C15_reporting_neutral_resolve.

(* fail-on-validation-error never accepts what the parser without it rejects, and returns the same URL whenever it accepts *)
Theorem C15_fail_mode_sound : forall idna c raw ref u, ParseRef idna (with_fail c true) raw ref = PUrl u ->
  exists u', ParseRef idna (with_fail c false) raw ref = PUrl u' /\ eqv u u'.
Proof. exact fail_sound_ParseRef. Qed.
Print Assumptions C15_fail_mode_sound.

(* without a base, it accepts exactly those inputs for which reporting mode records nothing *)
Theorem C15_fail_mode_exact : forall idna c i,
  (exists u, Parse idna (with_fail (with_report c false) true) i = PUrl u) <->
  (exists u, Parse idna (with_fail (with_report c true) false) i = PUrl u /\ u_verrs u = []).
Proof. exact fail_exact. Qed.
Print Assumptions C15_fail_mode_exact.

(* (with a base the equivalence is false: the clone of the base drops the base's recorded entries - why the property says "without a base") *)
Theorem C15_fail_mode_exact_with_base_refuted : exists idna c raw ref,
  (exists u, ParseRef idna (with_fail (with_report c true) false) raw ref = PUrl u /\ u_verrs u = []) /\
  ~ (exists u, ParseRef idna (with_fail (with_report c false) true) raw ref = PUrl u).
Proof. exact fail_exact_ParseRef_refuted. Qed.
Print Assumptions C15_fail_mode_exact_with_base_refuted.

(* every error returned by a parse is marked as a failure (unless fail-on-validation-error is on, which returns the first non-fatal entry) *)
Theorem C15_returned_errors_are_failures : forall idna c, c_fail c = false ->
  forall raw ref e, ParseRef idna c raw ref = PErr e -> e_failure e = true.
Proof. exact returned_error_is_failure_ParseRef. Qed.
Print Assumptions C15_returned_errors_are_failures.

(* every entry recorded on a successfully parsed URL is non-fatal *)
Theorem C15_recorded_entries_nonfatal : forall idna c raw ref u,
  ParseRef idna c raw ref = PUrl u -> Forall nonfatal (u_verrs u).
Proof. exact recorded_entries_nonfatal_ParseRef. Qed.
Print Assumptions C15_recorded_entries_nonfatal.

(* every error carries a type from the documented set: the model's error type is an inductive whose values are
   exactly the constants of errors/codes.go (regenerated), and every handleError* call site names one of them *)
Theorem C15_error_types_documented :
  (List.map etype_name all_etypes = documented_error_types) /\
  (forall e, List.nth_error all_etypes (N.to_nat (etype_index e)) = Some e) /\
  (List.forallb call_site_ok call_sites = true).
Proof. exact (conj etypes_are_documented (conj all_etypes_complete call_sites_documented)). Qed.
Print Assumptions C15_error_types_documented.

(* The error kinds a state of the machine raises are those of the Go source's clause for that state (Proofs/StateErrors.v over
   the table go_state_errors REGENERATED from /repo/url/parser.go on every run: the kinds passed to handle*Error* calls inside
   each `case StateX:`): every error a step returns or records is one the clause raises directly or one the host parser
   raises (host states only), and conversely every listed kind is raised by some concrete step - so a handleError call added
   to, dropped from or changed in a clause of the Go switch breaks an obligation even if no generated input meets it. *)
From Verif Require Import Gen.Transitions Proofs.StateErrors.

Theorem C15_step_errors_are_the_go_clause_kinds : forall idna_raw c inp base ov m,
  incl (errors_of (step idna_raw c inp base ov m) (m_url m)) (direct_errors (m_state m) ++ called_errors (m_state m)).
Proof. exact step_errors_allowed. Qed.
Print Assumptions C15_step_errors_are_the_go_clause_kinds.

Theorem C15_go_clause_kinds_are_all_raised : forall s t, In t (direct_errors s ++ called_errors s) <-> raises s t.
Proof. exact allowed_exact. Qed.
Print Assumptions C15_go_clause_kinds_are_all_raised.

Theorem C15_recorded_errors_only_grow : forall idna_raw c inp base ov m u',
  outcome_url (step idna_raw c inp base ov m) = Some u' -> u_verrs u' = u_verrs (m_url m) ++ new_verrs (m_url m) u'.
Proof. exact step_verrs_extend. Qed.
Print Assumptions C15_recorded_errors_only_grow.

