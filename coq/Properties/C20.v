(* C20 - cost grows at most linearly with input length: the part a model can carry.
   (1) the number of iterations of the parser's main loop is at most 14*(n+3)-2 for an input of n code points, for every
       configuration, base and start state (Proofs/Termination.v);
   (2) the size of everything the parser builds - every component of the resulting URL, the buffer at every reachable
       state, the serialization - is bounded by a linear function of the input length (and of the base's size), under the
       explicit premise that the IDNA oracle's output is linear in its input and that user-supplied host functions add at
       most 7 bytes (Proofs/SizeBound.v); the sum of the buffer lengths over the iterations that look at the buffer as a
       whole is linear as well.
   Allocation itself (Go runtime, GC, size classes, strings.Builder growth) is measured, not modelled: partial. *)
From Verif Require Import Lib.Base Lib.Utf8 Model.Cfg Gen.Options Model.Url Model.Machine Model.Api Proofs.Termination Proofs.SizeBound.
Local Open Scope Z_scope.

Theorem C20_linear_iterations : forall idna_raw c inp base override fuel st0 u,
  (Z.of_nat (steps idna_raw c inp base override fuel st0 u) <= 14 * (len inp + 3) - 2)%Z.
Proof. exact run_steps_bound_sharp. Qed.
Print Assumptions C20_linear_iterations.

Theorem C20_steps_agree_with_run : forall idna_raw c inp base override fuel m,
  fst (run_count idna_raw c inp base override fuel m) = run idna_raw c inp base override fuel m.
Proof. exact steps_agrees_with_run. Qed.
Print Assumptions C20_steps_agree_with_run.

(* sizes: usize u = bytes of all components plus one per path segment *)
Theorem C20_parse_size : forall idna_raw A B,
  (forall d, len (fst (idna_raw d)) <= A * len d + B) -> forall c, hostfun_ok (c_pre c) -> hostfun_ok (c_post c) ->
  forall s u, Parse idna_raw c s = PUrl u -> usize u <= 144 * (A + 1) * len s + (276 * (A + 1) + 12 * B + 46).
Proof. exact Parse_size. Qed.
Print Assumptions C20_parse_size.

Theorem C20_resolve_size : forall idna_raw A B,
  (forall d, len (fst (idna_raw d)) <= A * len d + B) -> forall c, hostfun_ok (c_pre c) -> hostfun_ok (c_post c) ->
  forall b ref u, UrlParse idna_raw c b ref = PUrl u ->
  usize u <= 144 * (A + 1) * len ref + usize b + (276 * (A + 1) + 12 * B + 46).
Proof. exact UrlParse_size. Qed.
Print Assumptions C20_resolve_size.

Theorem C20_parse_ref_size : forall idna_raw A B,
  (forall d, len (fst (idna_raw d)) <= A * len d + B) -> forall c, hostfun_ok (c_pre c) -> hostfun_ok (c_post c) ->
  forall raw ref u, ParseRef idna_raw c raw ref = PUrl u ->
  usize u <= 144 * (A + 1) * (len raw + len ref) + 2 * (276 * (A + 1) + 12 * B + 46).
Proof. exact ParseRef_size. Qed.
Print Assumptions C20_parse_ref_size.

(* every run of the basic parser, also with a state override on an existing URL (the setters), however it ends *)
Theorem C20_basic_parser_size : forall idna_raw A B,
  (forall d, len (fst (idna_raw d)) <= A * len d + B) -> forall c, hostfun_ok (c_pre c) -> hostfun_ok (c_post c) ->
  forall s b u0 ov u', left_url (BasicParser idna_raw c s b u0 ov) = Some u' ->
  usize u' <= obsz u0 + 144 * (A + 1) * len s + (276 * (A + 1) + 12 * B + 46) + obsz b.
Proof. exact BasicParser_size. Qed.
Print Assumptions C20_basic_parser_size.

Theorem C20_href_size : forall u ex h, Href u ex = Some h -> len h <= usize u + 8.
Proof. exact Href_size. Qed.
Print Assumptions C20_href_size.

Theorem C20_parse_then_serialize_size : forall idna_raw A B c,
  (forall d, len (fst (idna_raw d)) <= A * len d + B) -> hostfun_ok (c_pre c) -> hostfun_ok (c_post c) ->
  forall s u h, Parse idna_raw c s = PUrl u -> Href u false = Some h ->
  len h <= 144 * (A + 1) * len s + (276 * (A + 1) + 12 * B + 54).
Proof. exact Parse_Href_size. Qed.
Print Assumptions C20_parse_then_serialize_size.

(* the buffer at every reachable state, and the total of the buffer lengths over the iterations that end the run or empty it *)
Theorem C20_buffer_bound : forall idna_raw A B, (forall d, len (fst (idna_raw d)) <= A * len d + B) ->
  forall c, hostfun_ok (c_pre c) -> hostfun_ok (c_post c) -> forall inp base override m,
  reach idna_raw c inp base override m -> len (m_buf m) <= 12 * (m_ptr m + 1) /\ m_ptr m + 1 <= len inp.
Proof. exact buf_bound. Qed.
Print Assumptions C20_buffer_bound.

Theorem C20_scanned_total : forall idna_raw A B, (forall d, len (fst (idna_raw d)) <= A * len d + B) ->
  forall c, hostfun_ok (c_pre c) -> hostfun_ok (c_post c) -> forall inp base override fuel st0 u,
  run_scan idna_raw c inp base override fuel (m_init st0 u) <= 12 * (14 * (len inp + 3) - 2).
Proof. exact scanned_total. Qed.
Print Assumptions C20_scanned_total.

(* the premises are met: the identity oracle is linear with A = 1, B = 0, and the default configuration's host functions are fine *)
Example C20_premises_met : (forall d, len (fst (sz_idna d)) <= 1 * len d + 0) /\ hostfun_ok (c_pre default_cfg) /\ hostfun_ok (c_post default_cfg).
Proof. split; [exact sz_idna_lin|exact default_cfg_hostfuns]. Qed.
Theorem C20_parse_size_default : forall s u, Parse sz_idna default_cfg s = PUrl u -> usize u <= 288 * len s + 598.
Proof. exact Parse_size_default. Qed.
Print Assumptions C20_parse_size_default.
