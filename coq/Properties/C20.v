(* C20 - cost grows at most linearly with input length: the part a model can carry.
   The number of iterations of the parser's main loop is bounded by 14*(n+3) for an input of n code
   points, for every configuration, base and start state (Proofs/Termination.v). Allocation itself
   (Go runtime, GC, size classes) is measured, not modelled: partial. *)
From Verif Require Import Lib.Base Model.Cfg Model.Url Model.Machine Proofs.Termination.

Theorem C20_linear_iterations : forall idna_raw c inp base override fuel st0 u,
  (Z.of_nat (steps idna_raw c inp base override fuel st0 u) <= 14 * (len inp + 3) - 2)%Z.
Proof. exact run_steps_bound_sharp. Qed.
Print Assumptions C20_linear_iterations.

Theorem C20_steps_agree_with_run : forall idna_raw c inp base override fuel m,
  fst (run_count idna_raw c inp base override fuel m) = run idna_raw c inp base override fuel m.
Proof. exact steps_agrees_with_run. Qed.
Print Assumptions C20_steps_agree_with_run.
