(* C07 - IPv4 hosts: recognised exactly per the standard and canonicalised by value.
   Statements only; proofs in Proofs/IPv4Proofs.v. Spec = Spec/IPv4.v (transcription of the standard). *)
From Verif Require Import Lib.Base Model.Cfg Model.Url Model.Host Proofs.IPv4Proofs.
Module S := Verif.Spec.IPv4.

(* the ends-in-a-number check of the model is the standard's, for every string and configuration *)
Theorem C07_ends_in_a_number : forall c u input, snd (endsInANumber c u input) = S.ends_in_a_number input.
Proof. exact endsInANumber_agree. Qed.
Print Assumptions C07_ends_in_a_number.

(* what "ends in a number" means: last label (after one optional trailing dot) non-empty and all digits, or 0x/0X + hex digits *)
Theorem C07_number_shape : forall s, S.ends_in_a_number s = true <->
  exists pre l suf, s = pre ++ l ++ suf /\ (pre = [] \/ exists p, pre = p ++ [46]) /\ (suf = [] \/ suf = [46]) /\ number_label l.
Proof. exact ends_in_a_number_shape. Qed.
Print Assumptions C07_number_shape.

(* the IPv4 parser of the model accepts exactly what the standard's accepts and serializes the standard's value *)
Theorem C07_parse : forall c u input, c_fail c = false ->
  (match parseIPv4 c u input with Ok _ s => Some s | Er _ _ => None end)
  = option_map S.ipv4_serialize (S.ipv4_parse input).
Proof. exact parseIPv4_agree. Qed.
Print Assumptions C07_parse.

Theorem C07_value_is_32_bit : forall s a, S.ipv4_parse s = Some a -> a < 2^32.
Proof. exact ipv4_parse_bound. Qed.
Print Assumptions C07_value_is_32_bit.

Theorem C07_serializer : forall a, a < 2^32 -> IPv4String a = S.ipv4_serialize a.
Proof. exact IPv4String_agree. Qed.
Print Assumptions C07_serializer.

(* canonical by value: serializing then parsing any address is the identity *)
Theorem C07_roundtrip : forall a, a < 2^32 -> S.ipv4_parse (S.ipv4_serialize a) = Some a.
Proof. exact ipv4_roundtrip. Qed.
Print Assumptions C07_roundtrip.

Example C07_nonvacuous :
  S.ipv4_parse [48;120;55;102;46;49] = Some 2130706433 /\ S.ends_in_a_number [97;46;45;49] = false.
Proof. vm_compute. split; reflexivity. Qed.
