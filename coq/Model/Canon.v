(* canonicalizer/canonicalizer.go *)
From Verif Require Import Lib.Base Lib.Utf8 Lib.GoStr Model.Cfg Gen.Tables Model.Sets Model.Percent Model.Url Model.Host Model.Machine Model.Api.

(* canonicalizer.decodePercentEncoded: byte-wise, no charmap *)
Fixpoint c_decode (s : str) : str :=
  match s with
  | [] => []
  | b :: s' =>
      if b =? 37 then
        match s' with
        | h :: l :: s'' =>
            if isHexDigit h && isHexDigit l then (hex_val h * 16 + hex_val l) :: c_decode s''
            else b :: c_decode s'
        | _ => b :: c_decode s'
        end
      else b :: c_decode s'
  end.

(* repeatedDecode: decode until nothing changes. Each changing pass shortens the string, so
   length s + 1 passes always suffice; running out of fuel is reported as None. *)
Fixpoint repeatedDecode_fuel (fuel : nat) (s : str) : option str :=
  match fuel with
  | O => None
  | S f => let r := c_decode s in if str_eqb s r then Some s else repeatedDecode_fuel f r
  end.
Definition repeatedDecode (s : str) : option str := repeatedDecode_fuel (S (length s)) s.

Definition c_percentEncode (s : str) (tr : peset) : str :=
  flat_map (fun b => percentEncodeByte b (pes_set tr [37])) s.

Definition decodeEncode (s : str) (tr : peset) : option str :=
  match repeatedDecode s with Some d => Some (c_percentEncode d tr) | None => None end.

Section Canon.
  Variable idna_raw : str -> str * bool.
  Variable p : profile.
  Let c := p_cfg p.

  Definition bind {A B} (o : option A) (f : A -> option B) : option B :=
    match o with Some a => f a | None => None end.

  (* u.SearchParams().Iterate(decodeEncode name / value), which ends with update() *)
  Definition reencode_params (u : url) : option url :=
    let '(u, l) := ensure_sp c u in
    let l' := map (fun nv : str * str =>
                    (decodeEncode (fst nv) pes_RepeatedQuery, decodeEncode (snd nv) pes_RepeatedQuery)) l in
    if forallb (fun nv => is_some (fst nv) && is_some (snd nv)) l'
    then Some (sp_update c u (map (fun nv => (match fst nv with Some x => x | None => [] end,
                                              match snd nv with Some x => x | None => [] end)) l'))
    else None.

  (* None = panic / out of fuel somewhere below *)
  Definition Canonicalize (u : url) : option url :=
    bind (if p_repeated p then
      bind (if negb (is_nil (Hostname u)) && negb (IsIPv6 u)
            then bind (decodeEncode (Hostname u) pes_HostDecode) (SetHostname idna_raw c u) else Some u) (fun u =>
      bind (Pathname u) (fun pn =>
      bind (if negb (is_nil pn)
            then bind (decodeEncode pn pes_LaxPath) (SetPathname idna_raw c u) else Some u) (fun u =>
      bind (if negb (is_nil (Search u)) then
              (* decode-and-encode every name and value; then, if a query is left, read it back the way the next
                 parse will (SetSearch re-initialises the list) and encode once more *)
              bind (reencode_params u) (fun u =>
                if negb (is_nil (Search u))
                then bind (SetSearch idna_raw c u (Search u)) reencode_params
                else Some u)
            else Some u) (fun u =>
      if negb (is_nil (Hash u))
      then bind (decodeEncode (trim_prefix1 35 (Hash u)) pes_Host) (SetHash idna_raw c u)
      else SetHash idna_raw c u [] (* an empty fragment is dropped (fix for D16) *)))))
    else Some u) (fun u =>
    bind (if p_removePort p then SetPort idna_raw c u [] else Some u) (fun u =>
    bind (if p_removeUserInfo p then bind (SetUsername c u []) (fun u => SetPassword c u []) else Some u) (fun u =>
    bind (if p_removeFragment p then SetHash idna_raw c u [] else Some u) (fun u =>
    match p_sortQuery p with
    | NoSort => Some u
    | SortKeys => let '(u, l) := ensure_sp c u in Some (sp_update c u (sp_sort l))
    | SortParameter => let '(u, l) := ensure_sp c u in Some (sp_update c u (sp_sort_abs l))
    end)))).

  Inductive cres := CUrl (u : url) | CErr (e : verr) | CPanic.

  Definition canon_of (r : pres) : cres :=
    match r with
    | PUrl u => match Canonicalize u with Some u' => CUrl u' | None => CPanic end
    | PErr e => CErr e
    | _ => CPanic
    end.

  Definition s_colon_slash_slash : str := [58;47;47].

  (* parse with the default-scheme retry *)
  Definition parse_retry (rawUrl : str) : pres :=
    match Parse idna_raw c rawUrl with
    | PErr e =>
        match e_type e with
        | MissingSchemeNonRelativeURL =>
            if negb (is_nil (p_defaultScheme p))
            then Parse idna_raw c (p_defaultScheme p ++ s_colon_slash_slash ++ rawUrl)
            else PErr e
        | _ => PErr e
        end
    | other => other
    end.

  Definition ProfileParse (rawUrl : str) : cres := canon_of (parse_retry rawUrl).

  Definition ProfileParseRef (rawUrl ref : str) : cres :=
    match parse_retry rawUrl with
    | PUrl b => canon_of (UrlParse idna_raw c b ref)
    | PErr e => CErr e
    | _ => CPanic
    end.
End Canon.
