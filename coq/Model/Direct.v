(* Direct calls of the public method Parser.BasicParser(urlOrRef, base, url, stateOverride) with ANY state override, an
   optional base URL value and an optional URL value to fill (nil, the value of NewUrl(), or a parsed URL) - the function
   the whole model is built around, run here exactly as a user of the library can run it. Only used by the correspondence
   check (family "direct"); the setters are the instances the properties quantify over. *)
From Verif Require Import Lib.Base Lib.Utf8 Lib.GoStr Model.Cfg Gen.Tables Model.Sets Model.Percent Model.Url Model.Host Model.Machine Model.Api Model.Obs.

(* Go's State constants: NoState = 0, then in source order *)
Definition state_of_N (n : N) : option state :=
  match n with
  | 1 => Some SchemeStart | 2 => Some Scheme | 3 => Some NoScheme | 4 => Some OpaquePath
  | 5 => Some SpecialRelativeOrAuthority | 6 => Some SpecialAuthoritySlashes | 7 => Some SpecialAuthorityIgnoreSlashes
  | 8 => Some PathOrAuthority | 9 => Some Authority | 10 => Some HostSt | 11 => Some HostnameSt | 12 => Some File
  | 13 => Some FileHost | 14 => Some FileSlash | 15 => Some PortSt | 16 => Some PathSt | 17 => Some PathStart
  | 18 => Some QuerySt | 19 => Some FragmentSt | 20 => Some Relative | 21 => Some RelativeSlash
  | _ => None
  end.

(* how the URL argument is obtained *)
Inductive dstart := DNil | DNew | DParsed (s : str).

Section Direct.
  Variable idna_raw : str -> str * bool.
  Variable c : cfg.

  (* the record as the getters show it; "G" when a getter would panic on it (Pathname of an opaque path without segment) *)
  Definition obs_left (u : url) : list str :=
    match Pathname u with
    | Some _ => obs_url c u
    | None => [[71]]
    end.

  (* None: the base or the start text does not parse - the case is skipped by both sides *)
  Definition direct (base : option str) (start : dstart) (ov : N) (input : str) : option (list str) :=
    let ob := match base with
              | None => Some None
              | Some b => match Parse idna_raw c b with PUrl u => Some (Some u) | _ => None end
              end in
    let os := match start with
              | DNil => Some None
              | DNew => Some (Some (empty_url []))
              | DParsed s => match Parse idna_raw c s with PUrl u => Some (Some u) | _ => None end
              end in
    match ob, os with
    | Some b, Some u0 =>
        let given := is_some u0 in
        Some (match BasicParser idna_raw c input b u0 (state_of_N ov) with
              | RUrl u => [85] :: obs_left u
              | RErr u e => [69] :: verr_obs e :: (if given then obs_left u else [])
              | RNilNil u => [78] :: (if given then obs_left u else [])
              | RPanic => [[33]]
              | ROutOfFuel => [[70]]
              end)
    | _, _ => None
    end.
End Direct.
