(* url/parser.go:714-790 and url/hostparser.go percentEncodeString/Byte *)
From Verif Require Import Lib.Base Lib.Utf8 Model.Cfg Model.Sets.

(* charmap.ISO8859_1.EncodeRune: identity below 256, (0x1A, false) otherwise *)
Definition latin1_enc (r : N) : N * bool := if r <? 256 then (r, true) else (26, false).

(* percentEncodeRune(r, tr): tr = None models a nil set (always encode) *)
Definition percentEncodeRune (c : cfg) (r : N) (tr : option peset) : str :=
  let enc :=
    if c_latin1 c then pct_byte (fst (latin1_enc r))
    else flat_map pct_byte (utf8_enc r) in
  match tr with
  | Some t => if RuneShouldBeEncoded t r then enc else utf8_enc r
  | None => enc
  end.

Definition percentEncodeInvalidRune (c : cfg) (r : N) (tr : peset) : str :=
  if c_singlePct c then percentEncodeRune c r (Some (pes_set tr [37]))
  else percentEncodeRune c r (Some tr).

(* PercentEncodeString: over the code points of s, with the single-percent option *)
Fixpoint pes_loop (c : cfg) (tr : peset) (l : list N) : str :=
  match l with
  | [] => []
  | r :: l' =>
      let bad_pct :=
        (r =? 37) &&
        match l' with
        | a :: b :: _ => negb (isHexDigit a && isHexDigit b)
        | _ => true
        end in
      (if bad_pct && c_singlePct c
       then percentEncodeRune c r (Some (pes_set tr [37]))
       else percentEncodeRune c r (Some tr)) ++ pes_loop c tr l'
  end.
Definition PercentEncodeString (c : cfg) (s : str) (tr : peset) : str := pes_loop c tr (runes s).

(* DecodePercentEncoded: byte-wise; with the Latin-1 override a decoded byte b becomes the
   UTF-8 of code point b *)
Fixpoint DecodePercentEncoded (c : cfg) (s : str) : str :=
  match s with
  | [] => []
  | b :: s' =>
      if b =? 37 then
        match s' with
        | h :: l :: s'' =>
            if isHexDigit h && isHexDigit l then
              let v := hex_val h * 16 + hex_val l in
              (if c_latin1 c then utf8_enc v else [v]) ++ DecodePercentEncoded c s''
            else b :: DecodePercentEncoded c s'
        | _ => b :: DecodePercentEncoded c s'
        end
      else b :: DecodePercentEncoded c s'
  end.

(* hostparser.go percentEncodeString: byte-wise *)
Definition percentEncodeByte (b : N) (tr : peset) : str :=
  if ByteShouldBeEncoded tr b then pct_byte b else [b].
Definition percentEncodeBytes (s : str) (tr : peset) : str := flat_map (fun b => percentEncodeByte b tr) s.
