(* url/codesets.go: bitset tests and PercentEncodeSet membership. The tables themselves
   are the generated Gen/Tables.v, i.e. what the code's initialisers produce now. *)
From Verif Require Import Lib.Base Lib.Utf8 Model.Cfg Gen.Tables.

(* bitset.Test: false beyond the stored bits *)
Definition bs_test (b : list N) (i : N) : bool := mem i b.

Definition isTabOrNewline := bs_test bs_ASCIITabOrNewline.
Definition isAlpha := bs_test bs_ASCIIAlpha.
Definition isDigit := bs_test bs_ASCIIDigit.
Definition isHexDigit := bs_test bs_ASCIIHexDigit.
Definition isAlnum := bs_test bs_ASCIIAlphanumeric.
Definition isForbiddenHost := bs_test bs_ForbiddenHostCodePoint.
Definition isForbiddenDomain := bs_test bs_ForbiddenDomainCodePoint.

(* PercentEncodeSet.Set / Clear: a new set, the receiver is not modified *)
Definition pes_set (p : peset) (bs : list N) : peset := {| ab := ab p; bits := bs ++ bits p |}.
Definition pes_clear (p : peset) (bs : list N) : peset :=
  {| ab := ab p; bits := filter (fun b => negb (mem b bs)) (bits p) |}.

Definition RuneShouldBeEncoded (p : peset) (r : N) : bool :=
  (r <? ab p) || (126 <? r) || bs_test (bits p) r.
Definition ByteShouldBeEncoded := RuneShouldBeEncoded.
Definition RuneNotInSet (p : peset) (r : N) : bool :=
  negb ((r <? ab p) || bs_test (bits p) r).

(* unicode.Is(Noncharacter_Code_Point, r): U+FDD0..U+FDEF and the last two code points of every plane *)
Definition is_nonchar (r : N) : bool :=
  ((64976 <=? r) && (r <=? 65007)) || ((65534 <=? r mod 65536) && (r <=? 1114111)).

Definition isURLCodePoint (r : N) : bool :=
  if isAlnum r then true
  else if bs_test bs_someURLCodePoints r then true
  else if (160 <=? r) && (r <=? 1114109) then
    if is_nonchar r then false else if is_surrogate r then false else true
  else false.
