(* url/parser.go BasicParser: the state machine, one `step` per loop iteration. *)
From Verif Require Import Lib.Base Lib.Utf8 Lib.GoStr Model.Cfg Gen.Tables Model.Sets Model.Percent Model.Url Model.Host.

Inductive state :=
| SchemeStart | Scheme | NoScheme | OpaquePath | SpecialRelativeOrAuthority | SpecialAuthoritySlashes
| SpecialAuthorityIgnoreSlashes | PathOrAuthority | Authority | HostSt | HostnameSt | File | FileHost | FileSlash
| PortSt | PathSt | PathStart | QuerySt | FragmentSt | Relative | RelativeSlash.

Definition state_eqb (a b : state) : bool :=
  match a, b with
  | SchemeStart, SchemeStart | Scheme, Scheme | NoScheme, NoScheme | OpaquePath, OpaquePath
  | SpecialRelativeOrAuthority, SpecialRelativeOrAuthority | SpecialAuthoritySlashes, SpecialAuthoritySlashes
  | SpecialAuthorityIgnoreSlashes, SpecialAuthorityIgnoreSlashes | PathOrAuthority, PathOrAuthority
  | Authority, Authority | HostSt, HostSt | HostnameSt, HostnameSt | File, File | FileHost, FileHost
  | FileSlash, FileSlash | PortSt, PortSt | PathSt, PathSt | PathStart, PathStart | QuerySt, QuerySt
  | FragmentSt, FragmentSt | Relative, Relative | RelativeSlash, RelativeSlash => true
  | _, _ => false
  end.

Record mstate := {
  m_state : state;
  m_ptr : Z;          (* inputString.pointer *)
  m_eof : bool;       (* inputString.eof *)
  m_buf : str;        (* buffer *)
  m_at : bool;        (* atFlag *)
  m_br : bool;        (* bracketFlag *)
  m_pw : bool;        (* passwordTokenSeenFlag *)
  m_url : url
}.

(* how BasicParser returns *)
Inductive outcome :=
| Cont (m : mstate)
| RetUrl (u : url)                    (* return url, nil *)
| RetErr (u : url) (e : verr)         (* return nil, err  or  return url, err; u is the record as left behind *)
| RetNilNil (u : url)                 (* return nil, nil (parser.go FileHost state under a state override) *)
| Panic.                              (* a Go run-time panic (nil dereference, index out of range) *)

Definition mk st p e b a br pw u :=
  {| m_state := st; m_ptr := p; m_eof := e; m_buf := b; m_at := a; m_br := br; m_pw := pw; m_url := u |}.

(* `if err := p.handleError(...); err != nil { return nil, err }` *)
Definition mherr (c : cfg) (u : url) (t : etype) (failure : bool) (k : url -> outcome) : outcome :=
  let '(u', oe) := handleError c u t failure in
  match oe with Some e => RetErr u' e | None => k u' end.

Definition isSingleDotPathSegment (s : str) : bool :=
  str_eqb s [46] || str_eqb (str_lower s) [37;50;101].
Definition isDoubleDotPathSegment (s : str) : bool :=
  str_eqb s [46;46] ||
  let l := str_lower s in
  str_eqb l [46;37;50;101] || str_eqb l [37;50;101;46] || str_eqb l [37;50;101;37;50;101].

Section Machine.
  Variable idna_raw : str -> str * bool.
  Variable c : cfg.
  Variable inp : list rune.             (* newInputString(url.inputUrl) *)
  Variable base : option url.           (* the clone of baseUrl *)
  Variable override : option state.     (* stateOverride; None = NoState *)

  Definition overridden : bool := is_some override.
  Definition n_inp : Z := len inp.

  (* rune value at position p (U+FFFD outside) *)
  Definition cp_at (p : Z) : N :=
    if (p <? 0)%Z then rune_error else match nth_opt inp (Z.to_nat p) with Some r => rv r | None => rune_error end.
  Definition rune_at (p : Z) : option rune :=
    if (p <? 0)%Z then None else nth_opt inp (Z.to_nat p).

  (* code points from position p on (runes[p:]); p is never negative where this is used *)
  Definition rest_from (p : Z) : list N := map rv (skipn (Z.to_nat p) inp).

  (* input.remainingStartsWith(s) evaluated after the pointer is at p with flag eof *)
  Definition remainingStartsWith (p : Z) (eof : bool) (s : list N) : bool :=
    if eof then false else list_eqb N.eqb (firstn (length s) (rest_from (p + 1))) s.
  Definition remainingFromPointer (p : Z) (eof : bool) : str :=
    if eof then [] else encode_runes (rest_from p).

  Definition addSegment (u : url) (s : str) : url := set_path u (u_path u ++ [s]) false.

  Definition copy_base_auth (u b : url) : url :=
    set_port (set_host (set_password (set_username u (u_username b)) (u_password b)) (u_host b)) (u_port b) (u_decodedPort b).

  (* the credentials loop of the authority state over the code points of the buffer *)
  Fixpoint cred_loop (l : list N) (pw : bool) (user pass : str) : bool * str * str :=
    match l with
    | [] => (pw, user, pass)
    | ch :: l' =>
        if (ch =? 58) && negb pw then cred_loop l' true user pass
        else let enc := percentEncodeRune c ch (Some pes_UserInfo) in
             if pw then cred_loop l' pw user (pass ++ enc) else cred_loop l' pw (user ++ enc) pass
    end.

  Definition step (m : mstate) : outcome :=
    let st := m_state m in
    let buf := m_buf m in
    let atF := m_at m in
    let brF := m_br m in
    let pwF := m_pw m in
    let u := m_url m in
    (* r := input.nextCodePoint() *)
    let p := (m_ptr m + 1)%Z in
    let eof := if (n_inp <=? p)%Z then true else m_eof m in
    let r := if (n_inp <=? p)%Z then rune_error else cp_at p in
    let special (u : url) := IsSpecialScheme c u in
    let sab (u : url) := isSpecialSchemeAndBackslash c u r in
    (* input.rewindLast() *)
    let go st' (u' : url) := Cont (mk st' p eof buf atF brF pwF u') in
    let go_rw st' (u' : url) := Cont (mk st' (p - 1)%Z false buf atF brF pwF u') in
    let url_unit_checks (u : url) (k : bool -> url -> outcome) : outcome :=
      (* `if !isURLCodePoint(r) && r != '%'` then `remainingIsInvalidPercentEncoded` *)
      (if negb (isURLCodePoint r) && negb (r =? 37)
       then (fun k' => mherr c u InvalidURLUnit false k') else (fun k' => k' u))
      (fun u =>
         let inv := invalid_pct (rest_from p) in
         if inv then mherr c u InvalidURLUnit false (k true) else k false u) in
    match st with
    | SchemeStart =>
        if isAlpha r then Cont (mk Scheme p eof (buf ++ utf8_enc (ascii_lower r)) atF brF pwF u)
        else if negb overridden then go_rw NoScheme u
        else mherr c u InvalidURLUnit true (go st)
    | Scheme =>
        if isAlnum r || (r =? 43) || (r =? 45) || (r =? 46)
        then Cont (mk Scheme p eof (buf ++ utf8_enc (ascii_lower r)) atF brF pwF u)
        else if r =? 58 then
          let early :=
            overridden &&
            ((isSpecialScheme c (u_scheme u) && negb (isSpecialScheme c buf))
             || (negb (isSpecialScheme c (u_scheme u)) && isSpecialScheme c buf)
             || ((negb (is_nil (u_username u)) || negb (is_nil (u_password u)) || is_some (u_port u)) && str_eqb buf s_file)
             || (str_eqb (u_scheme u) s_file && match u_host u with None => true | Some h => is_nil h end)) in
          if early then RetUrl u
          else
            let u := set_scheme u buf in
            if overridden then RetUrl (cleanDefaultPort c u)
            else if str_eqb (u_scheme u) s_file then
              (if negb (remainingStartsWith p eof [47;47])
               then (fun k => mherr c u SpecialSchemeMissingFollowingSolidus false k) else (fun k => k u))
              (fun u => Cont (mk File p eof [] atF brF pwF u))
            else if special u && match base with Some b => str_eqb (u_scheme b) (u_scheme u) | None => false end
            then Cont (mk SpecialRelativeOrAuthority p eof [] atF brF pwF u)
            else if special u then Cont (mk SpecialAuthoritySlashes p eof [] atF brF pwF u)
            else if remainingStartsWith p eof [47]
            then (* input.nextCodePoint() *)
              let p2 := (p + 1)%Z in
              Cont (mk PathOrAuthority p2 (if (n_inp <=? p2)%Z then true else eof) [] atF brF pwF u)
            else Cont (mk OpaquePath p eof [] atF brF pwF (set_path u [[]] true))
        else if negb overridden then Cont (mk NoScheme (-1)%Z false [] atF brF pwF u)   (* input.reset() *)
        else mherr c u InvalidURLUnit true (go st)
    | NoScheme =>
        match base with
        | None => mherr c u MissingSchemeNonRelativeURL true (go st)
        | Some b =>
            if u_opaque b && negb (r =? 35) then mherr c u MissingSchemeNonRelativeURL true (go st)
            else if u_opaque b && (r =? 35) then
              go FragmentSt (set_fragment (set_query (set_path (set_scheme u (u_scheme b)) (u_path b) (u_opaque b)) (u_query b)) (Some []))
            else if negb (str_eqb (u_scheme b) s_file) then go_rw Relative u
            else go_rw File u
        end
    | SpecialRelativeOrAuthority =>
        if (r =? 47) && remainingStartsWith p eof [47]
        then let p2 := (p + 1)%Z in
             Cont (mk SpecialAuthorityIgnoreSlashes p2 (if (n_inp <=? p2)%Z then true else eof) buf atF brF pwF u)
        else mherr c u SpecialSchemeMissingFollowingSolidus false (go_rw Relative)
    | PathOrAuthority =>
        if r =? 47 then go Authority u else go_rw PathSt u
    | Relative =>
        match base with
        | None => Panic      (* base.scheme with a nil base *)
        | Some b =>
            let u := set_scheme u (u_scheme b) in
            if r =? 47 then go RelativeSlash u
            else if sab u then mherr c u InvalidReverseSolidus false (go RelativeSlash)
            else
              let u := set_query (set_path (copy_base_auth u b) (u_path b) (u_opaque b)) (u_query b) in
              if r =? 63 then go QuerySt (set_query u (Some []))
              else if r =? 35 then go FragmentSt (set_fragment u (Some []))
              else if negb eof then
                let u := set_query u None in
                go_rw PathSt (set_path u (shortenPath (u_scheme u) (u_path u)) (u_opaque u))
              else go st u
        end
    | RelativeSlash =>
        if special u && ((r =? 47) || (r =? 92)) then
          (if r =? 92 then (fun k => mherr c u InvalidReverseSolidus false k) else (fun k => k u))
          (go SpecialAuthorityIgnoreSlashes)
        else if r =? 47 then go Authority u
        else match base with
             | None => Panic
             | Some b => go_rw PathSt (copy_base_auth u b)
             end
    | SpecialAuthoritySlashes =>
        if (r =? 47) && remainingStartsWith p eof [47]
        then let p2 := (p + 1)%Z in
             Cont (mk SpecialAuthorityIgnoreSlashes p2 (if (n_inp <=? p2)%Z then true else eof) buf atF brF pwF u)
        else mherr c u SpecialSchemeMissingFollowingSolidus false (go_rw SpecialAuthorityIgnoreSlashes)
    | SpecialAuthorityIgnoreSlashes =>
        if negb (r =? 47) && negb (r =? 92) then go_rw Authority u
        else mherr c u SpecialSchemeMissingFollowingSolidus false (go st)
    | Authority =>
        if r =? 64 then
          mherr c u InvalidCredentials false (fun u =>
            let buf' := if atF then [37;52;48] ++ buf else buf in
            let '(pw', user', pass') := cred_loop (runes buf') pwF (u_username u) (u_password u) in
            Cont (mk st p eof [] true brF pw' (set_password (set_username u user') pass')))
        else if (eof || (r =? 47) || (r =? 63) || (r =? 35)) || sab u then
          (if atF && is_nil buf then (fun k => mherr c u InvalidCredentials true k) else (fun k => k u))
          (fun u => Cont (mk HostSt (p - (len (runes buf) + 1))%Z false [] atF brF pwF u))
        else Cont (mk st p eof (buf ++ utf8_enc r) atF brF pwF u)
    | HostSt | HostnameSt =>
        if overridden && str_eqb (u_scheme u) s_file then go_rw FileHost u
        else if (r =? 58) && negb brF then
          (if is_nil buf then (fun k => mherr c u HostMissing true k) else (fun k => k u))
          (fun u =>
             if match override with Some HostnameSt => true | _ => false end then RetUrl u
             else match parseHost idna_raw c u buf (negb (special u)) with
                  | Er u e => RetErr u e
                  | Ok u host => Cont (mk PortSt p eof [] atF brF pwF (set_host u (Some host)))
                  end)
        else if eof || ((r =? 47) || (r =? 63) || (r =? 35) || sab u) then
          (* input.rewindLast() *)
          if special u && is_nil buf then mherr c u HostMissing true (go_rw st)
          else if overridden && is_nil buf && (negb (is_nil (u_username u)) || negb (is_nil (u_password u)) || is_some (u_port u))
          then RetUrl u
          else match parseHost idna_raw c u buf (negb (special u)) with
               | Er u e => RetErr u e
               | Ok u host =>
                   let u := set_host u (Some host) in
                   if overridden then RetUrl u
                   else Cont (mk PathStart (p - 1)%Z false [] atF brF pwF u)
               end
        else
          let brF' := if r =? 91 then true else if r =? 93 then false else brF in
          let bytes :=
            match rune_at p with
            | Some (Bad b) => if c_acceptInvalid c then [b] else utf8_enc r
            | _ => utf8_enc r
            end in
          Cont (mk st p eof (buf ++ bytes) atF brF' pwF u)
    | PortSt =>
        if isDigit r then Cont (mk st p eof (buf ++ utf8_enc r) atF brF pwF u)
        else if (eof || (r =? 47) || (r =? 63) || (r =? 35)) || sab u || overridden then
          let k_after (u : url) (buf : str) : outcome :=
            if overridden then RetUrl u
            else Cont (mk PathStart (p - 1)%Z false buf atF brF pwF u) in
          if negb (is_nil buf) then
            let port := digits_val 10 buf in
            (if 65535 <? port then (fun k => mherr c u PortOutOfRange true k) else (fun k => k u))
            (fun u => k_after (cleanDefaultPort c (set_port u (Some (itoa port)) port)) [])
          else if overridden then mherr c u PortMissing true (fun u => k_after u buf)
          else k_after u buf
        else mherr c u PortInvalid true (go st)
    | File =>
        let u := set_host (set_scheme u s_file) (Some []) in
        if (r =? 47) || (r =? 92) then
          (if r =? 92 then (fun k => mherr c u InvalidReverseSolidus false k) else (fun k => k u))
          (go FileSlash)
        else
          match base with
          | Some b =>
              if str_eqb (u_scheme b) s_file then
                let u := set_query (set_path (set_host u (u_host b)) (u_path b) (u_opaque b)) (u_query b) in
                if r =? 63 then go QuerySt (set_query u (Some []))
                else if r =? 35 then go FragmentSt (set_fragment u (Some []))
                else if negb eof then
                  let u := set_query u None in
                  if negb (startsWithAWindowsDriveLetter (remainingFromPointer p eof))
                  then go_rw PathSt (set_path u (shortenPath (u_scheme u) (u_path u)) (u_opaque u))
                  else mherr c u FileInvalidWindowsDriveLetter false (fun u => go_rw PathSt (set_path u [] false))
                else go st u
              else go_rw PathSt u
          | None => go_rw PathSt u
          end
    | FileSlash =>
        if (r =? 47) || (r =? 92) then
          (if r =? 92 then (fun k => mherr c u InvalidReverseSolidus false k) else (fun k => k u))
          (go FileHost)
        else
          let u :=
            match base with
            | Some b =>
                if str_eqb (u_scheme b) s_file then
                  let u := set_host u (u_host b) in
                  match u_path b with
                  | seg0 :: _ =>
                      if negb (startsWithAWindowsDriveLetter (remainingFromPointer p eof)) && isNormalizedWindowsDriveLetter seg0
                      then addSegment u seg0 else u
                  | [] => u
                  end
                else u
            | None => u
            end in
          go_rw PathSt u
    | FileHost =>
        if eof || (r =? 47) || (r =? 92) || (r =? 63) || (r =? 35) then
          (* input.rewindLast() *)
          if negb overridden && isWindowsDriveLetter buf
          then mherr c u FileInvalidWindowsDriveLetterHost false (go_rw PathSt)
          else if is_nil buf then
            let u := set_host u (Some []) in
            if overridden then RetNilNil u else go_rw PathStart u
          else match parseHost idna_raw c u buf (negb (special u)) with
               | Er u e => RetErr u e
               | Ok u host =>
                   let host := if str_eqb host s_localhost then [] else host in
                   let u := set_host u (Some host) in
                   if overridden then RetUrl u
                   else Cont (mk PathStart (p - 1)%Z false [] atF brF pwF u)
               end
        else Cont (mk st p eof (buf ++ utf8_enc r) atF brF pwF u)
    | PathStart =>
        if special u && negb (c_skipTrailSlash c) then
          (if r =? 92 then (fun k => mherr c u InvalidReverseSolidus false k) else (fun k => k u))
          (fun u => if negb (r =? 47) && negb (r =? 92) then go_rw PathSt u else go PathSt u)
        else if negb overridden && (r =? 63) then go QuerySt (set_query u (Some []))
        else if negb overridden && (r =? 35) then go FragmentSt (set_fragment u (Some []))
        else if negb eof then (if negb (r =? 47) then go_rw PathSt u else go PathSt u)
        else if overridden && negb (is_some (u_host u)) then go st (addSegment u [])
        else go st u
    | PathSt =>
        if (eof || (r =? 47)) || sab u || (negb overridden && ((r =? 63) || (r =? 35))) then
          (if sab u then (fun k => mherr c u InvalidReverseSolidus false k) else (fun k => k u))
          (fun u =>
             let slashlike := (r =? 47) || sab u in
             let path := u_path u in
             let replaceLast := c_collapse c && special u && negb (is_nil path)
                                && match last_opt path with Some s => is_nil s | None => false end in
             let u :=
               if isDoubleDotPathSegment buf then
                 let u := set_path u (shortenPath (u_scheme u) path) (u_opaque u) in
                 if negb slashlike then addSegment u [] else u
               else if isSingleDotPathSegment buf && negb slashlike then
                 if negb replaceLast then addSegment u [] else u
               else if negb (isSingleDotPathSegment buf) then
                 let buf' :=
                   if str_eqb (u_scheme u) s_file && (is_nil path || (replaceLast && (len path =? 1)%Z))
                      && isWindowsDriveLetter buf && negb (c_skipDrive c)
                   then match buf with b0 :: _ => [b0; 58] | [] => buf end
                   else buf in
                 if negb replaceLast then addSegment u buf' else set_path u (replace_last path buf') (u_opaque u)
               else u in
             if r =? 63 then Cont (mk QuerySt p eof [] atF brF pwF (set_query u (Some [])))
             else if r =? 35 then Cont (mk FragmentSt p eof [] atF brF pwF (set_fragment u (Some [])))
             else Cont (mk st p eof [] atF brF pwF u))
        else
          url_unit_checks u (fun inv u =>
            let enc := if inv then percentEncodeInvalidRune c r (c_pathSet c) else percentEncodeRune c r (Some (c_pathSet c)) in
            Cont (mk st p eof (buf ++ enc) atF brF pwF u))
    | OpaquePath =>
        if r =? 63 then Cont (mk QuerySt p eof [] atF brF pwF (set_query u (Some [])))
        else if r =? 35 then Cont (mk FragmentSt p eof [] atF brF pwF (set_fragment u (Some [])))
        else if negb eof then
          url_unit_checks u (fun inv u =>
            let enc := if inv then percentEncodeInvalidRune c r pes_C0 else percentEncodeRune c r (Some pes_C0) in
            let buf' := buf ++ enc in
            Cont (mk st p eof buf' atF brF pwF (set_path u [buf'] true)))
        else go st u
    | QuerySt =>
        if negb overridden && (r =? 35) then
          match u_query u with
          | None => Panic                      (* *url.query with a nil pointer *)
          | Some _ => Cont (mk FragmentSt p eof [] atF brF pwF (set_fragment (set_query u (Some buf)) (Some [])))
          end
        else if negb eof then
          url_unit_checks u (fun _ u =>
            let set := if isSpecialScheme c (u_scheme u) then c_squerySet c else c_querySet c in
            Cont (mk st p eof (buf ++ percentEncodeRune c r (Some set)) atF brF pwF u))
        else go st (set_query u (Some buf))
    | FragmentSt =>
        if negb eof then
          url_unit_checks u (fun _ u =>
            let set := if isSpecialScheme c (u_scheme u) then c_sfragSet c else c_fragSet c in
            Cont (mk st p eof (buf ++ percentEncodeRune c r (Some set)) atF brF pwF u))
        else go st (set_fragment u (Some buf))
    end.

  (* the `for` loop: iterate step until it returns or the iteration ends with eof set *)
  Inductive result := RUrl (u : url) | RErr (u : url) (e : verr) | RNilNil (u : url) | RPanic | ROutOfFuel.

  Fixpoint run (fuel : nat) (m : mstate) : result :=
    match fuel with
    | O => ROutOfFuel
    | Datatypes.S f =>
        match step m with
        | Cont m' => if m_eof m' then RUrl (m_url m') else run f m'
        | RetUrl u => RUrl u
        | RetErr u e => RErr u e
        | RetNilNil u => RNilNil u
        | Panic => RPanic
        end
    end.
End Machine.

(* trim / remove (parser.go:846-892), byte-wise with the generated sets *)
Definition in_c0_or_space (b : N) : bool := negb (RuneNotInSet pes_C0OrSpace b).
Fixpoint trim_left_set (s : str) : str :=
  match s with b :: s' => if in_c0_or_space b then trim_left_set s' else s | [] => [] end.
Definition trim_c0space (s : str) : str * bool :=
  let t := rev (trim_left_set (rev (trim_left_set s))) in
  (t, negb (len t =? len s)%Z).
Definition remove_tabnl (s : str) : str * bool :=
  let t := filter (fun b => negb (isTabOrNewline b)) s in
  (t, negb (len t =? len s)%Z).

(* the scalar-value reading of the input that the removal works on when it removes something *)
Definition remove_tabnl_sv (acceptInvalid : bool) (s : str) : str * bool :=
  let '(i, changed) := remove_tabnl s in
  if changed && negb acceptInvalid && negb (valid_utf8 s) then (fst (remove_tabnl (to_valid s)), true)
  else (i, changed).

Definition fuel_of (n : nat) : nat := 24 * (n + 3).

Section Basic.
  Variable idna_raw : str -> str * bool.
  Variable c : cfg.

  (* Url.Clone as used for the base: validation errors are not copied *)
  Definition clone (u : url) : url := set_verrs u [].

  (* BasicParser(urlOrRef, baseUrl, url, stateOverride) *)
  Definition BasicParser (urlOrRef : str) (baseUrl : option url) (u0 : option url) (override : option state) : result :=
    let start (u : url) : result :=
      (* tab/newline removal; when something is removed, invalid UTF-8 is first read as U+FFFD (unless the
         parser accepts invalid code points), so that a removal cannot join the halves of a broken sequence *)
      let '(i, changed) := remove_tabnl_sv (c_acceptInvalid c) (u_input u) in
      let k (u : url) : result :=
        let inp := decode (u_input u) in
        let st := match override with Some s => s | None => SchemeStart end in
        run idna_raw c inp (option_map clone baseUrl) override (fuel_of (length inp))
            (mk st (-1)%Z false [] false false false u) in
      if changed then
        match handleError c u InvalidURLUnit false with
        | (u', Some e) => RErr u' e
        | (u', None) => k (set_input u' i)
        end
      else k u in
    match u0 with
    | Some u => start (set_input u urlOrRef)
    | None =>
        let u := empty_url urlOrRef in
        let '(i, changed) := trim_c0space urlOrRef in
        if changed then
          match handleError c u InvalidURLUnit false with
          | (u', Some e) => RErr u' e
          | (u', None) => start (set_input u' i)
          end
        else start u
    end.
End Basic.
