(* Observables and operation histories: what the correspondence check compares. *)
From Verif Require Import Lib.Base Lib.Utf8 Lib.GoStr Model.Cfg Gen.Tables Model.Sets Model.Percent Model.Url Model.Host Model.Machine Model.Api Model.Canon.

Definition b2s (b : bool) : str := if b then [49] else [48].
Definition opt2s (o : option str) : str := match o with Some s => s | None => [33] (* "!" = panic *) end.

Definition verr_obs (e : verr) : str := itoa (etype_index (e_type e)) ++ [58] ++ b2s (e_failure e).

(* the search parameter list of a URL if it has been created ("-" otherwise), length-prefixed so that
   arbitrary bytes in names and values cannot be confused with separators *)
Definition sp_obs (o : option (list (str * str))) : str :=
  match o with
  | None => [45]
  | Some l => flat_map (fun nv => itoa (N.of_nat (length (fst nv))) ++ [58] ++ fst nv ++ itoa (N.of_nat (length (snd nv))) ++ [58] ++ snd nv) l
  end.

(* every public getter of a URL, in a fixed order *)
Definition obs_url (c : cfg) (u : url) : list str :=
  [ opt2s (Href u false); opt2s (Href u true); Protocol u; Username u; Password u; Host u; Hostname u; Port u;
    opt2s (Pathname u); Search u; Hash u; u_scheme u; Query u; Fragment u; itoa (DecodedPort c u);
    b2s (IsIPv4 c u); b2s (IsIPv6 u); b2s (u_opaque u); b2s (IsSpecialScheme c u);
    join [44] (map verr_obs (u_verrs u));
    sp_obs (u_sp u) ].

Definition obs_pairs (l : list (str * str)) : list str := flat_map (fun nv => [fst nv; snd nv]) l.

Inductive obs :=
| OUrl (fields : list str)
| OErr (e : str) (eurl : str)
| ONilNil | OPanic | OFuel.

Definition obs_pres (c : cfg) (r : pres) : obs :=
  match r with
  | PUrl u => OUrl (obs_url c u)
  | PErr e => OErr (verr_obs e) (e_url e)
  | PNilNil => ONilNil
  | PPanic => OPanic
  | PFuel => OFuel
  end.

Definition obs_cres (c : cfg) (r : cres) : obs :=
  match r with
  | CUrl u => OUrl (obs_url c u)
  | CErr e => OErr (verr_obs e) (e_url e)
  | CPanic => OPanic
  end.

(* ---------- histories over two URL slots ---------- *)
Inductive op :=
| OSet (slot : bool) (which : N) (v : str)      (* the nine setters, 0 = protocol ... 8 = hash *)
| OResolve (slot : bool) (ref : str)            (* slot := slot.Parse(ref) when that succeeds *)
| OResolveInto (ref : str)                      (* B := A.Parse(ref) when that succeeds *)
| OCloneInto (from : bool)                      (* the other slot := from.Clone() *)
| OSpAppend (slot : bool) (n v : str)
| OSpDelete (slot : bool) (n : str)
| OSpSet (slot : bool) (n v : str)
| OSpSort (slot : bool)
| OSpSortAbs (slot : bool)
| OSpQuery (slot : bool) (n : str)              (* Get, GetAll, Has, String, and the whole list *)
| OSpTouch (slot : bool)                        (* u.SearchParams() *)
| OSpAdopt (slot : bool)                       (* slot.SetSearchParams(other.SearchParams()): the URL's own list
                                                   becomes a copy of the other URL's list, its query follows *)
| OSpIterate (slot : bool) (mode : N).          (* u.SearchParams().Iterate(callback): the callback may edit the pairs it is
                                                   handed, the list is written back afterwards. mode 0: a callback that
                                                   changes nothing (the query is still re-serialized); other modes: on every
                                                   call the callback appends "!" to the value of the FIRST pair of the list *)

(* what the callback of OSpIterate does to the list *)
Definition iterate_edit (mode : N) (l : list (str * str)) : list (str * str) :=
  match mode, l with
  | 0, _ => l
  | _, [] => []
  | _, (n, v) :: t => (n, v ++ repeat 33 (length l)) :: t
  end.

Section Hist.
  Variable idna_raw : str -> str * bool.
  Variable c : cfg.

  Definition setter (which : N) (u : url) (v : str) : option url :=
    match which with
    | 0 => SetProtocol idna_raw c u v
    | 1 => SetUsername c u v
    | 2 => SetPassword c u v
    | 3 => SetHost idna_raw c u v
    | 4 => SetHostname idna_raw c u v
    | 5 => SetPort idna_raw c u v
    | 6 => SetPathname idna_raw c u v
    | 7 => SetSearch idna_raw c u v
    | _ => SetHash idna_raw c u v
    end.

  (* state: slot A, slot B (None = empty / dead after a panic) *)
  Definition hstate := (option url * option url)%type.
  Definition get (s : hstate) (slot : bool) : option url := if slot then snd s else fst s.
  Definition put (s : hstate) (slot : bool) (u : option url) : hstate := if slot then (fst s, u) else (u, snd s).

  Definition with_sp (s : hstate) (slot : bool) (f : list (str * str) -> list (str * str)) : hstate :=
    match get s slot with
    | None => s
    | Some u => let '(u, l) := ensure_sp c u in put s slot (Some (sp_update c u (f l)))
    end.

  (* one step: new state and an extra observation (result of a query / resolve outcome) *)
  Definition hstep (s : hstate) (o : op) : hstate * list str :=
    match o with
    | OSet slot w v =>
        match get s slot with
        | None => (s, [])
        | Some u => match setter w u v with
                    | Some u' => (put s slot (Some u'), [])
                    | None => (put s slot None, [[33]])
                    end
        end
    | OResolve slot ref =>
        match get s slot with
        | None => (s, [])
        | Some u => match UrlParse idna_raw c u ref with
                    | PUrl u' => (put s slot (Some u'), [[117]])
                    | PErr e => (s, [verr_obs e])
                    | _ => (put s slot None, [[33]])
                    end
        end
    | OResolveInto ref =>
        match fst s with
        | None => (s, [])
        | Some u => match UrlParse idna_raw c u ref with
                    | PUrl u' => (put s true (Some u'), [[117]])
                    | PErr e => (s, [verr_obs e])
                    | _ => (put s true None, [[33]])
                    end
        end
    | OCloneInto from =>
        match get s from with
        | None => (s, [])
        | Some u => (put s (negb from) (Some (Clone u)), [])
        end
    | OSpAppend slot n v => (with_sp s slot (fun l => sp_append l n v), [])
    | OSpDelete slot n => (with_sp s slot (fun l => sp_delete l n), [])
    | OSpSet slot n v => (with_sp s slot (fun l => sp_set l n v), [])
    | OSpSort slot => (with_sp s slot sp_sort, [])
    | OSpSortAbs slot => (with_sp s slot sp_sort_abs, [])
    | OSpQuery slot n =>
        match get s slot with
        | None => (s, [])
        | Some u => let '(u, l) := ensure_sp c u in
                    (put s slot (Some u),
                     [sp_get l n; b2s (sp_has l n); sp_string c l; itoa (N.of_nat (length (sp_getall l n)))]
                     ++ sp_getall l n ++ obs_pairs l)
        end
    | OSpTouch slot =>
        match get s slot with
        | None => (s, [])
        | Some u => (put s slot (Some (fst (ensure_sp c u))), [])
        end
    | OSpIterate slot mode => (with_sp s slot (iterate_edit mode), [])
    | OSpAdopt slot =>
        match get s slot, get s (negb slot) with
        | Some u, Some v =>
            let '(v', l) := ensure_sp c v in            (* the argument: other.SearchParams() *)
            let s1 := put s (negb slot) (Some v') in
            (put s1 slot (Some (sp_update c (fst (ensure_sp c u)) l)), [])
        | _, _ => (s, [])
        end
    end.

  Definition obs_slot (o : option url) : list str := match o with Some u => obs_url c u | None => [[45]] end.

  (* observations after every step: (extra, slot A, slot B) *)
  Fixpoint hrun (s : hstate) (ops : list op) : list (list str * list str * list str) :=
    match ops with
    | [] => []
    | o :: rest =>
        let '(s', extra) := hstep s o in
        (extra, obs_slot (fst s'), obs_slot (snd s')) :: hrun s' rest
    end.

  (* start: parse input (against base if given); then run the history *)
  Definition history (base : option str) (input : str) (ops : list op) : obs * list (list str * list str * list str) :=
    let r := match base with Some b => ParseRef idna_raw c b input | None => Parse idna_raw c input end in
    (obs_pres c r, match r with PUrl u => hrun (Some u, None) ops | _ => [] end).
End Hist.
